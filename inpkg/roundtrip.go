package tls

import (
	"fmt"
	"reflect"
	"time"
	"unsafe"
)

// Reflection-driven round-trip cases for the public views in u_public.go (used by check C31).
// The field enumeration is by reflection, so a field added later is covered automatically.

// VerifRTCase is one (type, field-pattern) case.
type VerifRTCase struct {
	Type    string
	Pattern string // "one-hot:<Field>", "all-set", "pair:<A>+<B>", "zero"
	Fails   []string
}

type rtType struct {
	name string
	mk   func() reflect.Value                // pointer to a zero public value
	rt   func(v reflect.Value) reflect.Value // public -> private -> public (pointer or value)
	// fields of the public struct that have no private counterpart by design
	noCounterpart map[string]bool
}

func settable(f reflect.Value) reflect.Value {
	if f.CanSet() {
		return f
	}
	return reflect.NewAt(f.Type(), unsafe.Pointer(f.UnsafeAddr())).Elem()
}

var rtSalt = 0

// fillSentinel sets v (addressable) to a recognisable non-zero value of its type.
func fillSentinel(v reflect.Value, depth int) {
	v = settable(v)
	rtSalt++
	switch v.Kind() {
	case reflect.Bool:
		v.SetBool(true)
	case reflect.Int, reflect.Int8, reflect.Int16, reflect.Int32, reflect.Int64:
		v.SetInt(int64(0x21 + rtSalt%50))
	case reflect.Uint, reflect.Uint8, reflect.Uint16, reflect.Uint32, reflect.Uint64:
		v.SetUint(uint64(0x31 + rtSalt%50))
	case reflect.String:
		v.SetString(fmt.Sprintf("s%d", rtSalt))
	case reflect.Slice:
		if depth > 3 {
			return
		}
		n := 2
		s := reflect.MakeSlice(v.Type(), n, n)
		for i := 0; i < n; i++ {
			fillSentinel(s.Index(i), depth+1)
		}
		v.Set(s)
	case reflect.Array:
		for i := 0; i < v.Len(); i++ {
			fillSentinel(v.Index(i), depth+1)
		}
	case reflect.Struct:
		if v.Type() == reflect.TypeOf(time.Time{}) {
			v.Set(reflect.ValueOf(time.Unix(1700000000+int64(rtSalt), 0)))
			return
		}
		if depth > 3 {
			return
		}
		for i := 0; i < v.NumField(); i++ {
			fillSentinel(v.Field(i), depth+1)
		}
	case reflect.Ptr:
		if depth > 2 {
			return
		}
		// only pointers to plain data structs of this package are filled
		et := v.Type().Elem()
		if et.Kind() == reflect.Struct && et.PkgPath() == reflect.TypeOf(Conn{}).PkgPath() && plainData(et, 0) {
			p := reflect.New(et)
			fillSentinel(p.Elem(), depth+1)
			v.Set(p)
		} else if et.Kind() == reflect.Struct && foreignOpaque(et) {
			// a key or certificate object of another package: a fresh object, recognised by identity
			v.Set(reflect.New(et))
		}
	case reflect.Func:
		if fn, ok := rtFuncs[v.Type()]; ok {
			v.Set(fn)
		}
	}
}

// foreignOpaque: struct types of other packages that the views carry by pointer (ecdh / mlkem keys).
func foreignOpaque(t reflect.Type) bool {
	return t.PkgPath() != "" && t.PkgPath() != reflect.TypeOf(Conn{}).PkgPath() && t != reflect.TypeOf(time.Time{})
}

// plainData reports whether t contains only data kinds (no interfaces, maps, chans, funcs, mutexes).
func plainData(t reflect.Type, depth int) bool {
	if depth > 4 {
		return false
	}
	switch t.Kind() {
	case reflect.Interface, reflect.Map, reflect.Chan, reflect.Func, reflect.UnsafePointer:
		return false
	case reflect.Ptr, reflect.Slice, reflect.Array:
		return plainData(t.Elem(), depth+1)
	case reflect.Struct:
		if t.PkgPath() != "" && t.PkgPath() != reflect.TypeOf(Conn{}).PkgPath() && t != reflect.TypeOf(time.Time{}) {
			return false
		}
		for i := 0; i < t.NumField(); i++ {
			if !plainData(t.Field(i).Type, depth+1) {
				return false
			}
		}
	}
	return true
}

// sentinel functions for function-typed fields (compared by pointer)
var rtFuncs = map[reflect.Type]reflect.Value{}

func init() {
	cs := cipherSuiteByID(TLS_ECDHE_RSA_WITH_AES_128_CBC_SHA)
	cg := cipherSuiteByID(TLS_ECDHE_RSA_WITH_AES_128_GCM_SHA256)
	for _, f := range []any{cs.ka, cs.cipher, cs.mac, cg.aead} {
		rtFuncs[reflect.TypeOf(f)] = reflect.ValueOf(f)
	}
	c13 := cipherSuiteTLS13ByID(TLS_AES_128_GCM_SHA256)
	rtFuncs[reflect.TypeOf(c13.aead)] = reflect.ValueOf(c13.aead)
}

func eqValue(a, b reflect.Value) bool {
	if a.Kind() != b.Kind() {
		return false
	}
	switch a.Kind() {
	case reflect.Func:
		if a.IsNil() || b.IsNil() {
			return a.IsNil() == b.IsNil()
		}
		return a.Pointer() == b.Pointer()
	case reflect.Ptr:
		if a.IsNil() || b.IsNil() {
			return a.IsNil() == b.IsNil()
		}
		if a.Type().Elem().Kind() == reflect.Struct && foreignOpaque(a.Type().Elem()) {
			return a.Pointer() == b.Pointer()
		}
		return eqValue(a.Elem(), b.Elem())
	case reflect.Struct:
		for i := 0; i < a.NumField(); i++ {
			if !eqValue(a.Field(i), b.Field(i)) {
				return false
			}
		}
		return true
	case reflect.Slice:
		// present-but-empty and absent are different values of a field
		if a.IsNil() != b.IsNil() || a.Len() != b.Len() {
			return false
		}
		for i := 0; i < a.Len(); i++ {
			if !eqValue(a.Index(i), b.Index(i)) {
				return false
			}
		}
		return true
	case reflect.Array:
		for i := 0; i < a.Len(); i++ {
			if !eqValue(a.Index(i), b.Index(i)) {
				return false
			}
		}
		return true
	case reflect.Interface:
		if a.IsNil() || b.IsNil() {
			return a.IsNil() == b.IsNil()
		}
		return eqValue(a.Elem(), b.Elem())
	}
	return reflect.DeepEqual(settable(a).Interface(), settable(b).Interface())
}

func rtTypes() []rtType {
	ptr := func(v any) func() reflect.Value {
		t := reflect.TypeOf(v)
		return func() reflect.Value { return reflect.New(t) }
	}
	return []rtType{
		{"PubClientHelloMsg", ptr(PubClientHelloMsg{}), func(v reflect.Value) reflect.Value {
			return reflect.ValueOf(v.Interface().(*PubClientHelloMsg).getPrivatePtr().getPublicPtr())
		}, map[string]bool{"cachedPrivateHello": true}},
		{"PubServerHelloMsg", ptr(PubServerHelloMsg{}), func(v reflect.Value) reflect.Value {
			return reflect.ValueOf(v.Interface().(*PubServerHelloMsg).getPrivatePtr().getPublicPtr())
		}, nil},
		{"CertificateRequestMsgTLS13", ptr(CertificateRequestMsgTLS13{}), func(v reflect.Value) reflect.Value {
			return reflect.ValueOf(v.Interface().(*CertificateRequestMsgTLS13).toPrivate().toPublic())
		}, map[string]bool{"Raw": true}}, // documented: deprecated, re-populated from marshal(), never read
		{"PubCipherSuiteTLS13", ptr(PubCipherSuiteTLS13{}), func(v reflect.Value) reflect.Value {
			return reflect.ValueOf(v.Interface().(*PubCipherSuiteTLS13).toPrivate().toPublic())
		}, nil},
		{"PubCipherSuite", ptr(PubCipherSuite{}), func(v reflect.Value) reflect.Value {
			o := v.Interface().(*PubCipherSuite).getPrivatePtr().getPublicObj()
			return reflect.ValueOf(&o)
		}, nil},
		{"KeyShare", ptr(KeyShare{}), func(v reflect.Value) reflect.Value {
			o := keyShares(KeyShares{*v.Interface().(*KeyShare)}.ToPrivate()).ToPublic()[0]
			return reflect.ValueOf(&o)
		}, nil},
		{"PskIdentity", ptr(PskIdentity{}), func(v reflect.Value) reflect.Value {
			o := pskIdentities(PskIdentities{*v.Interface().(*PskIdentity)}.ToPrivate()).ToPublic()[0]
			return reflect.ValueOf(&o)
		}, nil},
		{"TicketKey", ptr(TicketKey{}), func(v reflect.Value) reflect.Value {
			o := ticketKeys(TicketKeys{*v.Interface().(*TicketKey)}.ToPrivate()).ToPublic()[0]
			return reflect.ValueOf(&o)
		}, nil},
		{"KeySharePrivateKeys", ptr(KeySharePrivateKeys{}), func(v reflect.Value) reflect.Value {
			return reflect.ValueOf(v.Interface().(*KeySharePrivateKeys).ToPrivate().ToPublic())
		}, nil},
		{"FinishedHash", ptr(FinishedHash{}), func(v reflect.Value) reflect.Value {
			p := v.Interface().(*FinishedHash).getPrivateObj()
			o := p.getPublicObj()
			return reflect.ValueOf(&o)
		}, map[string]bool{"Prf": true, "Prfv2": true}}, // adapted through wrapper closures: identity cannot be preserved
	}
}

// VerifRTCases enumerates and evaluates all round-trip cases; pairs selects the pair patterns too.
func VerifRTCases(pairs bool) []VerifRTCase {
	var out []VerifRTCase
	for _, t := range rtTypes() {
		st := t.mk().Elem().Type()
		var names []string
		for i := 0; i < st.NumField(); i++ {
			if !t.noCounterpart[st.Field(i).Name] {
				names = append(names, st.Field(i).Name)
			}
		}
		run := func(pattern string, set []string) {
			c := VerifRTCase{Type: t.name, Pattern: pattern}
			in := t.mk()
			for _, f := range set {
				fillSentinel(in.Elem().FieldByName(f), 0)
			}
			func() {
				defer func() {
					if e := recover(); e != nil {
						c.Fails = append(c.Fails, fmt.Sprintf("panic: %v", e))
					}
				}()
				o := t.rt(in)
				if o.Kind() == reflect.Ptr && o.IsNil() {
					c.Fails = append(c.Fails, "round trip returned nil")
					return
				}
				for _, f := range names {
					a, b := in.Elem().FieldByName(f), o.Elem().FieldByName(f)
					if !eqValue(a, b) {
						c.Fails = append(c.Fails, fmt.Sprintf("field %s: %v became %v", f, fmtVal(a), fmtVal(b)))
					}
				}
			}()
			out = append(out, c)
		}
		run("zero", nil)
		for _, f := range names {
			run("one-hot:"+f, []string{f})
		}
		run("all-set", names)
		// a code point the library has a table entry for, with every other field still the caller's:
		// the view is the caller's value, not a reference to the table
		if f, ok := st.FieldByName("Id"); ok && f.Type.Kind() == reflect.Uint16 {
			for _, id := range []uint16{TLS_AES_128_GCM_SHA256, TLS_AES_256_GCM_SHA384, TLS_CHACHA20_POLY1305_SHA256, TLS_ECDHE_RSA_WITH_AES_128_GCM_SHA256, TLS_RSA_WITH_AES_128_CBC_SHA} {
				c := VerifRTCase{Type: t.name, Pattern: fmt.Sprintf("all-set+registered-id:%04x", id)}
				in := t.mk()
				for _, g := range names {
					fillSentinel(in.Elem().FieldByName(g), 0)
				}
				settable(in.Elem().FieldByName("Id")).SetUint(uint64(id))
				func() {
					defer func() {
						if e := recover(); e != nil {
							c.Fails = append(c.Fails, fmt.Sprintf("panic: %v", e))
						}
					}()
					o := t.rt(in)
					if o.Kind() == reflect.Ptr && o.IsNil() {
						c.Fails = append(c.Fails, "round trip returned nil")
						return
					}
					for _, g := range names {
						a, b := in.Elem().FieldByName(g), o.Elem().FieldByName(g)
						if !eqValue(a, b) {
							c.Fails = append(c.Fails, fmt.Sprintf("field %s: %v became %v", g, fmtVal(a), fmtVal(b)))
						}
					}
				}()
				out = append(out, c)
			}
		}
		if pairs || len(names) <= 6 { // small views (e.g. the four key fields of KeySharePrivateKeys): all pairs always
			for i := range names {
				for j := i + 1; j < len(names); j++ {
					run("pair:"+names[i]+"+"+names[j], []string{names[i], names[j]})
				}
			}
		}
		// a value that has been through a conversion once is still only a value: a field edited
		// afterwards must arrive on the other side (nothing may answer from a copy kept from before)
		for _, f := range names {
			c := VerifRTCase{Type: t.name, Pattern: "edit-after-conversion:" + f}
			in := t.mk()
			for _, g := range names {
				fillSentinel(in.Elem().FieldByName(g), 0)
			}
			func() {
				defer func() {
					if e := recover(); e != nil {
						c.Fails = append(c.Fails, fmt.Sprintf("panic: %v", e))
					}
				}()
				o := t.rt(in)
				if o.Kind() == reflect.Ptr && o.IsNil() {
					return // reported by all-set
				}
				fillSentinel(o.Elem().FieldByName(f), 0)
				o2 := t.rt(o)
				if o2.Kind() == reflect.Ptr && o2.IsNil() {
					c.Fails = append(c.Fails, "second round trip returned nil")
					return
				}
				for _, g := range names {
					a, b := o.Elem().FieldByName(g), o2.Elem().FieldByName(g)
					if !eqValue(a, b) {
						c.Fails = append(c.Fails, fmt.Sprintf("after editing %s on an already converted value, field %s: %v became %v", f, g, fmtVal(a), fmtVal(b)))
					}
				}
			}()
			out = append(out, c)
		}
		// present-but-empty slices are values too
		for _, f := range names {
			fv := t.mk().Elem().FieldByName(f)
			// nil-ness carries meaning for opaque byte strings (e.g. "extension present with an
			// empty body"); typed lists are rebuilt element-wise and empty == absent for them
			if fv.Kind() == reflect.Slice && fv.Type().Elem().Kind() == reflect.Uint8 {
				c := VerifRTCase{Type: t.name, Pattern: "empty-slice:" + f}
				in := t.mk()
				settable(in.Elem().FieldByName(f)).Set(reflect.MakeSlice(fv.Type(), 0, 0))
				func() {
					defer func() {
						if e := recover(); e != nil {
							c.Fails = append(c.Fails, fmt.Sprintf("panic: %v", e))
						}
					}()
					o := t.rt(in)
					if !eqValue(in.Elem().FieldByName(f), o.Elem().FieldByName(f)) {
						c.Fails = append(c.Fails, fmt.Sprintf("field %s: present-but-empty became %v", f, fmtVal(o.Elem().FieldByName(f))))
					}
				}()
				out = append(out, c)
			}
		}
	}
	return out
}

func fmtVal(v reflect.Value) string {
	if v.Kind() == reflect.Func {
		if v.IsNil() {
			return "nil-func"
		}
		return fmt.Sprintf("func@%x", v.Pointer())
	}
	if v.Kind() == reflect.Slice && v.IsNil() {
		return "nil-slice"
	}
	s := fmt.Sprintf("%v", settable(v).Interface())
	if len(s) > 60 {
		s = s[:60] + "…"
	}
	return s
}
