package tls

import (
	"crypto/x509"
	"errors"
)

// This file is ADDED to package tls by the -overlay that /verif/bin/check builds with
// (it is not part of /repo). It exposes private state that oracles need, read-only.

// VerifLRUOrder returns the keys of an LRU client session cache from most to least recently used,
// or nil if c is not the built-in LRU cache.
func VerifLRUOrder(c ClientSessionCache) []string {
	l, ok := c.(*lruSessionCache)
	if !ok {
		return nil
	}
	l.Lock()
	defer l.Unlock()
	var keys []string
	for e := l.q.Front(); e != nil; e = e.Next() {
		keys = append(keys, e.Value.(*lruSessionCacheEntry).sessionKey)
	}
	return keys
}

// VerifLRUMapLen returns the size of the LRU cache's index map.
func VerifLRUMapLen(c ClientSessionCache) int {
	l, ok := c.(*lruSessionCache)
	if !ok {
		return -1
	}
	l.Lock()
	defer l.Unlock()
	return len(l.m)
}

// VerifBoringGREASE evaluates GetBoringGREASEValue with the seed word at index set to word.
func VerifBoringGREASE(word uint16, index int) uint16 {
	var seed [ssl_grease_last_index]uint16
	seed[index] = word
	return GetBoringGREASEValue(seed, index)
}

// VerifGreaseIndexes returns the number of GREASE seed words.
func VerifGreaseIndexes() int { return ssl_grease_last_index }

// VerifCurveID returns the negotiated key-exchange group of a connection.
func VerifCurveID(u *UConn) CurveID { return u.Conn.curveID }

// VerifConnCurveID returns the negotiated key-exchange group of a (server) connection.
func VerifConnCurveID(c *Conn) CurveID { return c.curveID }

// VerifSessionTicketKeys returns the explicitly configured ticket keys in public form.
func VerifSessionTicketKeys(c *Config) TicketKeys {
	c.mutex.RLock()
	defer c.mutex.RUnlock()
	var out TicketKeys
	for _, k := range c.sessionTicketKeys {
		out = append(out, k.ToPublic())
	}
	return out
}

// VerifSendKeyUpdate makes c send a TLS 1.3 KeyUpdate (optionally requesting one back) and
// switches its outgoing traffic secret, exactly like the reply path of handleKeyUpdate.
func VerifSendKeyUpdate(c *Conn, requestUpdate bool) error {
	cipherSuite := cipherSuiteTLS13ByID(c.cipherSuite)
	if cipherSuite == nil {
		return errors.New("verif: not a TLS 1.3 connection")
	}
	c.out.Lock()
	defer c.out.Unlock()
	msg := &keyUpdateMsg{updateRequested: requestUpdate}
	msgBytes, err := msg.marshal()
	if err != nil {
		return err
	}
	if _, err = c.writeRecordLocked(recordTypeHandshake, msgBytes); err != nil {
		return err
	}
	newSecret := cipherSuite.nextTrafficSecret(c.out.trafficSecret)
	c.out.setTrafficSecret(cipherSuite, QUICEncryptionLevelInitial, newSecret)
	return nil
}

// VerifRollerSeed replaces the Roller's private prng by one with the given seed (the shuffle
// decisions of the next Dial are then a function of seed).
func VerifRollerSeed(r *Roller, seed PRNGSeed) error {
	p, err := newPRNGWithSeed(&seed)
	if err != nil {
		return err
	}
	r.r = p
	return nil
}

// VerifWriteRecord writes one record of the given content type under c's current write keys
// (the bytes do not enter any transcript): lets a harness server speak out of turn after the
// handshake, e.g. send a HelloRequest.
func VerifWriteRecord(c *Conn, typ uint8, data []byte) error {
	c.out.Lock()
	defer c.out.Unlock()
	_, err := c.writeRecordLocked(recordType(typ), data)
	return err
}

// VerifWriteTLS13TagOnlyRecord writes one TLS 1.3 record that authenticates under c's current
// write keys but whose inner plaintext is EMPTY (not even the content-type byte): ciphertext =
// the AEAD tag alone. No honest sender produces it; a peer holding the keys can.
func VerifWriteTLS13TagOnlyRecord(c *Conn) error {
	c.out.Lock()
	defer c.out.Unlock()
	a, ok := c.out.cipher.(aead)
	if !ok || c.vers != VersionTLS13 {
		return errors.New("verif: not a TLS 1.3 AEAD connection")
	}
	hdr := []byte{byte(recordTypeApplicationData), 3, 3, 0, byte(a.Overhead())}
	rec := a.Seal(hdr[:5:5], c.out.seq[:], nil, hdr[:5])
	c.out.incSeq()
	_, err := c.write(rec)
	return err
}

// VerifSendKeyUpdatesCoalesced makes c send n TLS 1.3 KeyUpdate messages in ONE record (legal:
// handshake messages may be coalesced) and switches its outgoing traffic secret n times.
func VerifSendKeyUpdatesCoalesced(c *Conn, n int) error {
	cipherSuite := cipherSuiteTLS13ByID(c.cipherSuite)
	if cipherSuite == nil {
		return errors.New("verif: not a TLS 1.3 connection")
	}
	c.out.Lock()
	defer c.out.Unlock()
	var rec []byte
	for i := 0; i < n; i++ {
		msgBytes, err := (&keyUpdateMsg{updateRequested: false}).marshal()
		if err != nil {
			return err
		}
		rec = append(rec, msgBytes...)
	}
	if _, err := c.writeRecordLocked(recordTypeHandshake, rec); err != nil {
		return err
	}
	secret := c.out.trafficSecret
	for i := 0; i < n; i++ {
		secret = cipherSuite.nextTrafficSecret(secret)
	}
	c.out.setTrafficSecret(cipherSuite, QUICEncryptionLevelInitial, secret)
	return nil
}

// VerifSessionStateWithCerts parses an encoded SessionState, replaces its peer certificates and verified
// chains (DER) and returns the new encoding: shapes a handshake against the harness fixtures cannot
// produce (cross-signed intermediates, several chains).
func VerifSessionStateWithCerts(base []byte, peer [][]byte, chains [][][]byte) ([]byte, error) {
	ss, err := ParseSessionState(base)
	if err != nil {
		return nil, err
	}
	parse := func(der []byte) (*x509.Certificate, error) { return x509.ParseCertificate(der) }
	ss.peerCertificates = nil
	for _, d := range peer {
		c, err := parse(d)
		if err != nil {
			return nil, err
		}
		ss.peerCertificates = append(ss.peerCertificates, c)
	}
	ss.verifiedChains = nil
	for _, ch := range chains {
		var l []*x509.Certificate
		for _, d := range ch {
			c, err := parse(d)
			if err != nil {
				return nil, err
			}
			l = append(l, c)
		}
		ss.verifiedChains = append(ss.verifiedChains, l)
	}
	return ss.Bytes()
}

// VerifSessionStateCerts returns the peer certificates and verified chains of a state in DER.
func VerifSessionStateCerts(ss *SessionState) (peer [][]byte, chains [][][]byte) {
	for _, c := range ss.peerCertificates {
		peer = append(peer, c.Raw)
	}
	for _, ch := range ss.verifiedChains {
		var l [][]byte
		for _, c := range ch {
			l = append(l, c.Raw)
		}
		chains = append(chains, l)
	}
	return
}

// VerifFinishedVerifyData returns the verify_data of the two Finished messages of the last
// TLS <= 1.2 handshake on c (what a renegotiating peer has to put into renegotiation_info).
func VerifFinishedVerifyData(c *Conn) (client, server []byte) {
	return append([]byte(nil), c.clientFinished[:]...), append([]byte(nil), c.serverFinished[:]...)
}

// VerifWriteTLS13PaddedRecord makes c send one TLS 1.3 application-data record whose inner plaintext is
// data, the content type and pad zero bytes (RFC 8446 5.4 record padding, as OpenSSL's -record_padding
// produces), protected with the connection's real key.
func VerifWriteTLS13PaddedRecord(c *Conn, data []byte, pad int) error {
	c.out.Lock()
	defer c.out.Unlock()
	a, ok := c.out.cipher.(aead)
	if !ok || c.vers != VersionTLS13 {
		return errors.New("verif: not a TLS 1.3 AEAD connection")
	}
	inner := append(append(append([]byte(nil), data...), byte(recordTypeApplicationData)), make([]byte, pad)...)
	n := len(inner) + a.Overhead()
	hdr := []byte{byte(recordTypeApplicationData), 3, 3, byte(n >> 8), byte(n)}
	rec := a.Seal(hdr[:5:5], c.out.seq[:], inner, hdr[:5])
	c.out.incSeq()
	_, err := c.write(rec)
	return err
}

// VerifSetSessionSuite changes the cipher suite recorded in a SessionState (a server that resumes a
// session under another suite than the one it was established with).
func VerifSetSessionSuite(ss *SessionState, suite uint16) { ss.cipherSuite = suite }

// VerifDefaultCipherSuites returns the TLS <= 1.2 suites a Config with CipherSuites == nil enables.
func VerifDefaultCipherSuites() []uint16 { return (&Config{}).cipherSuites() }
