package tls

import (
	"bytes"

	"github.com/refraction-networking/utls/internal/quicvarint"
	"github.com/refraction-networking/utls/internal/quicvarint/protocol"
)

// VerifPRNG exposes the private seeded PRNG to the harness.
type VerifPRNG struct{ p *prng }

func VerifNewPRNG(seed *PRNGSeed, salt *string) (*VerifPRNG, error) {
	var p *prng
	var err error
	if salt != nil {
		p, err = newPRNGWithSaltedSeed(seed, *salt)
	} else {
		p, err = newPRNGWithSeed(seed)
	}
	if err != nil {
		return nil, err
	}
	return &VerifPRNG{p}, nil
}
func (v *VerifPRNG) Read(b []byte) (int, error)       { return v.p.Read(b) }
func (v *VerifPRNG) Uint64() uint64                   { return v.p.Uint64() }
func (v *VerifPRNG) Int63() int64                     { return v.p.Int63() }
func (v *VerifPRNG) Intn(n int) int                   { return v.p.Intn(n) }
func (v *VerifPRNG) Int63n(n int64) int64             { return v.p.Int63n(n) }
func (v *VerifPRNG) Range(min, max int) int           { return v.p.Range(min, max) }
func (v *VerifPRNG) FlipWeightedCoin(w float64) bool  { return v.p.FlipWeightedCoin(w) }
func (v *VerifPRNG) Perm(n int) []int                 { return v.p.Perm(n) }

// VerifSaltedSeed exposes newSaltedPRNGSeed.
func VerifSaltedSeed(seed *PRNGSeed, salt string) (*PRNGSeed, error) {
	return newSaltedPRNGSeed(seed, salt)
}

// quicvarint wrappers (the package is internal to the module).
func VerifVarintAppend(b []byte, x uint64) []byte { return quicvarint.Append(b, x) }
func VerifVarintAppendWithLen(b []byte, x uint64, l int) []byte {
	return quicvarint.AppendWithLen(b, x, protocol.ByteCount(l))
}
func VerifVarintLen(x uint64) int { return int(quicvarint.Len(x)) }
func VerifVarintRead(b []byte) (uint64, int, error) {
	r := bytes.NewReader(b)
	v, err := quicvarint.Read(r)
	return v, len(b) - r.Len(), err
}
