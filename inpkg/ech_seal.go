package tls

import (
	"errors"

	"github.com/refraction-networking/utls/internal/hpke"
)

// VerifECHSealer is an HPKE sender context for the configuration a client would pick from an
// ECH config list; the harness uses it to seal inner ClientHellos it assembled itself.
type VerifECHSealer struct {
	ctx      *hpke.Sender
	Enc      []byte
	ConfigID uint8
	KDF      uint16
	AEAD     uint16
}

func VerifNewECHSealer(configList []byte) (*VerifECHSealer, error) {
	list, err := parseECHConfigList(configList)
	if err != nil {
		return nil, err
	}
	cfg := pickECHConfig(list)
	if cfg == nil {
		return nil, errors.New("verif: no usable ECH config")
	}
	pk, err := hpke.ParseHPKEPublicKey(cfg.KemID, cfg.PublicKey)
	if err != nil {
		return nil, err
	}
	suite, err := pickECHCipherSuite(cfg.SymmetricCipherSuite)
	if err != nil {
		return nil, err
	}
	info := append([]byte("tls ech\x00"), cfg.raw...)
	enc, ctx, err := hpke.SetupSender(cfg.KemID, suite.KDFID, suite.AEADID, pk, info)
	if err != nil {
		return nil, err
	}
	return &VerifECHSealer{ctx: ctx, Enc: enc, ConfigID: cfg.ConfigID, KDF: suite.KDFID, AEAD: suite.AEADID}, nil
}

// Seal encrypts one payload (each call advances the HPKE sequence number).
func (s *VerifECHSealer) Seal(aad, plaintext []byte) ([]byte, error) {
	return s.ctx.Seal(aad, plaintext)
}
