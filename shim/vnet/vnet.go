// Package vnet stands in for package net in u_roller.go (variant B builds): the harness decides
// what a dial returns. With no hook installed it is the real net.DialTimeout.
package vnet

import (
	"net"
	"sync"
	"time"
)

type Conn = net.Conn

var (
	mu   sync.RWMutex
	hook func(network, addr string, timeout time.Duration) (net.Conn, error)
)

// SetDial installs (or with nil removes) the dial hook.
func SetDial(f func(network, addr string, timeout time.Duration) (net.Conn, error)) {
	mu.Lock()
	hook = f
	mu.Unlock()
}

func DialTimeout(network, addr string, timeout time.Duration) (net.Conn, error) {
	mu.RLock()
	f := hook
	mu.RUnlock()
	if f != nil {
		return f(network, addr, timeout)
	}
	return net.DialTimeout(network, addr, timeout)
}
