package vsync

import (
	"fmt"
	"reflect"

	"github.com/refraction-networking/utls/verifshim/sched"
)

// Channel operations of package tls are rewritten (by tools/vrewrite) into calls of the
// functions below. Channel types and make() are left alone: for a managed thread the state of a
// channel lives in a per-execution shadow (keyed by the channel's pointer) and the real channel
// is never touched, except for a non-consuming poll that detects channels closed by code that is
// not instrumented (context.Context.Done()). Unmanaged goroutines use the real channel.

type chanState struct {
	obj    sched.Obj
	cap    int
	buf    []any
	closed bool
	real   reflect.Value
	// parked partners (unbuffered / full / empty rendezvous)
	sendq []*waiter
	recvq []*waiter
}

type waiter struct {
	t   *sched.Thread
	alt int
	val any  // for senders
	got any  // for receivers
	ok  bool // for receivers
	cs  *chanState
}

func stateOf(t *sched.Thread, ch any) *chanState {
	v := reflect.ValueOf(ch)
	key := v.Pointer()
	return t.Ext(key, func() any { return &chanState{cap: v.Cap(), real: v} }).(*chanState)
}

// externallyClosed polls the real channel without blocking. Only a close by uninstrumented code
// can be observed here, because managed threads never touch the real channel.
func (cs *chanState) externallyClosed() bool {
	if cs.closed {
		return true
	}
	if cs.real.Type().ChanDir()&reflect.RecvDir == 0 {
		return false
	}
	_, ok, sel := tryRecv(cs.real)
	if sel && !ok {
		cs.closed = true
		return true
	}
	if sel && ok {
		panic("vsync: value received from a channel written by uninstrumented code")
	}
	return false
}

func tryRecv(v reflect.Value) (val reflect.Value, ok bool, selected bool) {
	chosen, rv, rok := reflect.Select([]reflect.SelectCase{{Dir: reflect.SelectRecv, Chan: v}, {Dir: reflect.SelectDefault}})
	if chosen == 1 {
		return reflect.Value{}, false, false
	}
	return rv, rok, true
}

func (cs *chanState) canRecv() bool {
	return len(cs.buf) > 0 || len(cs.sendq) > 0 || cs.externallyClosed()
}
// A thread registers its pending operation in sendq/recvq before it parks at the scheduling
// point, whether or not Go would block it. A registered receiver is a *waiting* receiver in Go's
// sense only while the buffer is empty, and a registered sender a *blocked* sender only while
// the buffer is full: hand-offs and wake-ups below are restricted to those cases, everything
// else is left to the partner's own scheduling step.
func (cs *chanState) canSend() bool {
	return cs.closed || len(cs.buf) < cs.cap || (len(cs.buf) == 0 && len(cs.recvq) > 0)
}

func removeWaiter(q []*waiter, w *waiter) []*waiter {
	for i, x := range q {
		if x == w {
			return append(q[:i:i], q[i+1:]...)
		}
	}
	return q
}

// doRecv applies a receive in scheduler context for waiter w.
func (cs *chanState) doRecv(w *waiter) string {
	switch {
	case len(cs.buf) > 0:
		wasFull := len(cs.buf) == cs.cap
		w.got, w.ok = cs.buf[0], true
		cs.buf = cs.buf[1:]
		// a sender blocked on the full buffer now moves its value into the buffer
		if wasFull && len(cs.sendq) > 0 {
			s := cs.sendq[0]
			cs.sendq = cs.sendq[1:]
			cs.buf = append(cs.buf, s.val)
			s.ok = true
			s.release()
		}
		return "buf"
	case len(cs.sendq) > 0:
		s := cs.sendq[0]
		cs.sendq = cs.sendq[1:]
		w.got, w.ok = s.val, true
		s.ok = true
		s.release()
		return "rendezvous"
	default:
		w.got, w.ok = nil, false
		return "closed"
	}
}

func (cs *chanState) doSend(w *waiter) string {
	switch {
	case cs.closed:
		w.ok = false
		return "closed"
	case len(cs.buf) == 0 && len(cs.recvq) > 0:
		r := cs.recvq[0]
		cs.recvq = cs.recvq[1:]
		r.got, r.ok = w.val, true
		r.release()
		w.ok = true
		return "rendezvous"
	default:
		cs.buf = append(cs.buf, w.val)
		w.ok = true
		return "buf"
	}
}

// release completes a parked partner's operation on its behalf.
func (w *waiter) release() {
	// remove the partner from every queue it is registered in (select registers in several)
	for _, o := range w.others() {
		o.cs.sendq = removeWaiter(o.cs.sendq, o)
		o.cs.recvq = removeWaiter(o.cs.recvq, o)
	}
	w.t.S.CompleteFor(w.t, w.alt)
	w.t.S.Touch(w.t, &w.cs.obj, "partner", fmt.Sprint(w.alt))
	if p, ok := w.t.Ext(pendKey{w.t}, func() any { return &pend{} }).(*pend); ok {
		p.fired = w
	}
}

type pendKey struct{ t *sched.Thread }
type pend struct {
	ws    []*waiter
	fired *waiter
}

func (w *waiter) others() []*waiter {
	p := w.t.Ext(pendKey{w.t}, func() any { return &pend{} }).(*pend)
	return p.ws
}

// A parked thread registers its alternatives in the queues of the channels so that a partner
// can complete the rendezvous. Registration happens in the running thread before it parks,
// which is safe because only one managed thread runs at a time.
func register(t *sched.Thread, ws []*waiter, dirs []reflect.SelectDir) {
	p := t.Ext(pendKey{t}, func() any { return &pend{} }).(*pend)
	p.ws, p.fired = ws, nil
	for i, w := range ws {
		if w == nil {
			continue
		}
		if dirs[i] == reflect.SelectSend {
			w.cs.sendq = append(w.cs.sendq, w)
		} else {
			w.cs.recvq = append(w.cs.recvq, w)
		}
	}
}

func unregister(t *sched.Thread, ws []*waiter) {
	for _, w := range ws {
		if w == nil {
			continue
		}
		w.cs.sendq = removeWaiter(w.cs.sendq, w)
		w.cs.recvq = removeWaiter(w.cs.recvq, w)
	}
}

// Case is one case of a rewritten select statement.
type Case struct {
	Dir reflect.SelectDir // reflect.SelectRecv or reflect.SelectSend
	Ch  any
	Val any
}

// Select is the rewritten form of a select statement; returns the index of the chosen case, or
// -1 for default.
func Select(cases []Case, hasDefault bool) (idx int, recv any, recvOK bool) {
	t := sched.Current()
	if t == nil {
		rc := make([]reflect.SelectCase, 0, len(cases)+1)
		for _, c := range cases {
			sc := reflect.SelectCase{Dir: c.Dir, Chan: reflect.ValueOf(c.Ch)}
			if c.Dir == reflect.SelectSend {
				sc.Send = reflect.ValueOf(c.Val)
				if !sc.Send.IsValid() {
					sc.Send = reflect.Zero(sc.Chan.Type().Elem())
				}
			}
			rc = append(rc, sc)
		}
		if hasDefault {
			rc = append(rc, reflect.SelectCase{Dir: reflect.SelectDefault})
		}
		chosen, v, ok := reflect.Select(rc)
		if hasDefault && chosen == len(cases) {
			return -1, nil, false
		}
		if cases[chosen].Dir == reflect.SelectRecv && ok {
			return chosen, v.Interface(), true
		}
		return chosen, nil, ok
	}
	ws := make([]*waiter, len(cases))
	dirs := make([]reflect.SelectDir, len(cases))
	alts := make([]sched.Alt, 0, len(cases)+1)
	for i, c := range cases {
		i, c := i, c
		dirs[i] = c.Dir
		if c.Ch == nil || reflect.ValueOf(c.Ch).IsNil() {
			// nil channel: never ready
			alts = append(alts, sched.Alt{Kind: "nil", Enabled: func() bool { return false }})
			continue
		}
		cs := stateOf(t, c.Ch)
		w := &waiter{t: t, alt: i, val: c.Val, cs: cs}
		ws[i] = w
		if c.Dir == reflect.SelectSend {
			alts = append(alts, sched.Alt{Obj: &cs.obj, Kind: "send", Enabled: cs.canSend, Effect: func() string { unregister(t, ws); return cs.doSend(w) }})
		} else {
			alts = append(alts, sched.Alt{Obj: &cs.obj, Kind: "recv", Enabled: cs.canRecv, Effect: func() string { unregister(t, ws); return cs.doRecv(w) }})
		}
	}
	if hasDefault {
		// default is taken only when no other case is ready (Go semantics)
		alts = append(alts, sched.Alt{Kind: "default", Enabled: func() bool {
			for i, a := range alts[:len(cases)] {
				_ = i
				if a.Enabled() {
					return false
				}
			}
			return true
		}, Effect: func() string { unregister(t, ws); return "" }})
	}
	register(t, ws, dirs)
	k := t.Select(alts)
	p := t.Ext(pendKey{t}, func() any { return &pend{} }).(*pend)
	if p.fired != nil {
		k = p.fired.alt
	}
	p.ws, p.fired = nil, nil
	if hasDefault && k == len(cases) {
		return -1, nil, false
	}
	w := ws[k]
	if cases[k].Dir == reflect.SelectSend {
		if !w.ok {
			panic("send on closed channel")
		}
		return k, nil, true
	}
	return k, w.got, w.ok
}

// Recv is the rewritten form of `<-ch`.
func Recv[T any](ch <-chan T) T {
	if sched.Current() == nil {
		return <-ch
	}
	_, v, _ := Select([]Case{{Dir: reflect.SelectRecv, Ch: ch}}, false)
	if v == nil {
		var z T
		return z
	}
	return v.(boxed[T]).v
}

// Recv2 is the rewritten form of `v, ok := <-ch`.
func Recv2[T any](ch <-chan T) (T, bool) {
	if sched.Current() == nil {
		v, ok := <-ch
		return v, ok
	}
	_, v, ok := Select([]Case{{Dir: reflect.SelectRecv, Ch: ch}}, false)
	if v == nil {
		var z T
		return z, ok
	}
	return v.(boxed[T]).v, ok
}

// boxed keeps the static element type of a value travelling through the shadow (a nil error
// must come out as a nil error).
type boxed[T any] struct{ v T }

// Send is the rewritten form of `ch <- v`.
func Send[T any](ch chan<- T, v T) {
	if sched.Current() == nil {
		ch <- v
		return
	}
	Select([]Case{{Dir: reflect.SelectSend, Ch: ch, Val: boxed[T]{v}}}, false)
}

// SendCase builds a send case with a correctly boxed value (used by rewritten selects).
func SendCase[T any](ch chan<- T, v T) Case {
	if sched.Current() == nil {
		return Case{Dir: reflect.SelectSend, Ch: ch, Val: v}
	}
	return Case{Dir: reflect.SelectSend, Ch: ch, Val: boxed[T]{v}}
}

// RecvCase builds a receive case.
func RecvCase[T any](ch <-chan T) Case { return Case{Dir: reflect.SelectRecv, Ch: ch} }

// Close is the rewritten form of close(ch).
func Close[T any](ch chan<- T) {
	t := sched.Current()
	if t == nil {
		close(ch)
		return
	}
	cs := stateOf(t, ch)
	t.Do(&cs.obj, "close", nil, func() string {
		if cs.closed {
			return "double"
		}
		cs.closed = true
		// every waiting receiver gets the zero value (receivers registered while the buffer still
		// holds values drain it first, in their own steps); parked senders panic when resumed
		for len(cs.buf) == 0 && len(cs.recvq) > 0 {
			r := cs.recvq[0]
			cs.recvq = cs.recvq[1:]
			r.got, r.ok = nil, false
			r.release()
		}
		for len(cs.sendq) > 0 {
			s := cs.sendq[0]
			cs.sendq = cs.sendq[1:]
			s.ok = false
			s.release()
		}
		return ""
	})
}
