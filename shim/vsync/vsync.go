// Package vsync replaces "sync" in package tls under the shim overlay (variant B).
// Outside a controlled run (or for unmanaged goroutines) every type delegates to the real primitive.
package vsync

import (
	"sync"

	"github.com/refraction-networking/utls/verifshim/sched"
)

type Locker = sync.Locker

// Mutex mirrors sync.Mutex. The real mutex is kept in step with the shadow owner.
type Mutex struct {
	obj  sched.Obj
	real sync.Mutex
}

type mstate struct {
	owner   *sched.Thread
	readers int
}

func mst(t *sched.Thread, o *sched.Obj) *mstate {
	return t.Slot(o, func() any { return &mstate{} }).(*mstate)
}

func (m *Mutex) Lock() {
	if t := sched.Current(); t != nil {
		st := mst(t, &m.obj)
		t.Do(&m.obj, "lock", func() bool { return st.owner == nil }, func() string { st.owner = t; return "" })
		m.real.Lock()
		return
	}
	m.real.Lock()
}

func (m *Mutex) TryLock() bool {
	if t := sched.Current(); t != nil {
		st := mst(t, &m.obj)
		ok := false
		t.Do(&m.obj, "trylock", nil, func() string {
			if st.owner == nil {
				st.owner = t
				ok = true
				return "ok"
			}
			return "busy"
		})
		if ok {
			m.real.Lock()
		}
		return ok
	}
	return m.real.TryLock()
}

func (m *Mutex) Unlock() {
	if t := sched.Current(); t != nil {
		st := mst(t, &m.obj)
		m.real.Unlock()
		t.Do(&m.obj, "unlock", nil, func() string { st.owner = nil; return "" })
		return
	}
	m.real.Unlock()
}

// RWMutex mirrors sync.RWMutex.
type RWMutex struct {
	obj  sched.Obj
	real sync.RWMutex
}

func (m *RWMutex) Lock() {
	if t := sched.Current(); t != nil {
		st := mst(t, &m.obj)
		t.Do(&m.obj, "wlock", func() bool { return st.owner == nil && st.readers == 0 }, func() string { st.owner = t; return "" })
		m.real.Lock()
		return
	}
	m.real.Lock()
}
func (m *RWMutex) Unlock() {
	if t := sched.Current(); t != nil {
		st := mst(t, &m.obj)
		m.real.Unlock()
		t.Do(&m.obj, "wunlock", nil, func() string { st.owner = nil; return "" })
		return
	}
	m.real.Unlock()
}
func (m *RWMutex) RLock() {
	if t := sched.Current(); t != nil {
		st := mst(t, &m.obj)
		t.Do(&m.obj, "rlock", func() bool { return st.owner == nil }, func() string { st.readers++; return "" })
		m.real.RLock()
		return
	}
	m.real.RLock()
}
func (m *RWMutex) RUnlock() {
	if t := sched.Current(); t != nil {
		st := mst(t, &m.obj)
		m.real.RUnlock()
		t.Do(&m.obj, "runlock", nil, func() string { st.readers--; return "" })
		return
	}
	m.real.RUnlock()
}
func (m *RWMutex) RLocker() Locker { return (*rlocker)(m) }

type rlocker RWMutex

func (r *rlocker) Lock()   { (*RWMutex)(r).RLock() }
func (r *rlocker) Unlock() { (*RWMutex)(r).RUnlock() }

// Once mirrors sync.Once (modelled as mutex + done flag: later callers block until f returned).
type Once struct {
	obj  sched.Obj
	real sync.Once
}

type ostate struct {
	running bool
	done    bool
}

func (o *Once) Do(f func()) {
	if t := sched.Current(); t != nil {
		st := t.Slot(&o.obj, func() any { return &ostate{} }).(*ostate)
		run := false
		t.Do(&o.obj, "once", func() bool { return !st.running }, func() string {
			if st.done {
				return "done"
			}
			st.running = true
			run = true
			return "run"
		})
		if run {
			defer func() {
				if c := sched.Current(); c != nil {
					c.Do(&o.obj, "once-exit", nil, func() string { st.running = false; st.done = true; return "" })
				}
			}()
			o.real.Do(f)
		}
		return
	}
	o.real.Do(f)
}

// Pool mirrors sync.Pool. Under a controlled run it never recycles (Get returns New()), which
// removes the pool as a source of schedule-dependent buffer identity.
type Pool struct {
	New  func() any
	real sync.Pool
}

func (p *Pool) Get() any {
	if sched.Current() != nil {
		if p.New != nil {
			return p.New()
		}
		return nil
	}
	if v := p.real.Get(); v != nil {
		return v
	}
	if p.New != nil {
		return p.New()
	}
	return nil
}

func (p *Pool) Put(x any) {
	if sched.Current() != nil {
		return
	}
	p.real.Put(x)
}

// Map mirrors the subset of sync.Map that package tls uses; every call is one scheduling point.
type Map struct {
	obj  sched.Obj
	real sync.Map
}

func (m *Map) point(kind string) {
	if t := sched.Current(); t != nil {
		t.Do(&m.obj, kind, nil, nil)
	}
}
func (m *Map) Load(k any) (any, bool)             { m.point("map.load"); return m.real.Load(k) }
func (m *Map) Store(k, v any)                     { m.point("map.store"); m.real.Store(k, v) }
func (m *Map) LoadOrStore(k, v any) (any, bool)   { m.point("map.loadorstore"); return m.real.LoadOrStore(k, v) }
func (m *Map) LoadAndDelete(k any) (any, bool)    { m.point("map.loadanddelete"); return m.real.LoadAndDelete(k) }
func (m *Map) Delete(k any)                       { m.point("map.delete"); m.real.Delete(k) }
func (m *Map) Range(f func(k, v any) bool)        { m.point("map.range"); m.real.Range(f) }
func (m *Map) CompareAndSwap(k, o, n any) bool    { m.point("map.cas"); return m.real.CompareAndSwap(k, o, n) }
func (m *Map) CompareAndDelete(k, o any) bool     { m.point("map.cad"); return m.real.CompareAndDelete(k, o) }
func (m *Map) Swap(k, v any) (any, bool)          { m.point("map.swap"); return m.real.Swap(k, v) }

// WaitGroup mirrors sync.WaitGroup.
type WaitGroup struct {
	obj  sched.Obj
	real sync.WaitGroup
}

type wstate struct{ n int }

func (w *WaitGroup) Add(d int) {
	if t := sched.Current(); t != nil {
		st := t.Slot(&w.obj, func() any { return &wstate{} }).(*wstate)
		t.Do(&w.obj, "wg.add", nil, func() string { st.n += d; return "" })
		return
	}
	w.real.Add(d)
}
func (w *WaitGroup) Done() { w.Add(-1) }
func (w *WaitGroup) Wait() {
	if t := sched.Current(); t != nil {
		st := t.Slot(&w.obj, func() any { return &wstate{} }).(*wstate)
		t.Do(&w.obj, "wg.wait", func() bool { return st.n <= 0 }, nil)
		return
	}
	w.real.Wait()
}

// Go is the rewritten form of a `go` statement.
func Go(fn func()) { sched.Go(fn) }
