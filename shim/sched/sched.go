// Package sched is the controlled scheduler injected (by -overlay) as the virtual package
// github.com/refraction-networking/utls/verifshim/sched.
//
// Real goroutines, token passing: exactly one managed thread runs at a time; before every hooked
// synchronisation operation a thread publishes the operation and parks; the scheduler (running in
// the goroutine that called Run) computes the enabled set from shadow state, asks the Chooser
// which thread goes next, applies the operation's effect atomically and wakes that thread.
//
// Goroutines that are not managed (no Run active, GC finalizers, the harness peer) always take
// the pass-through path of the shim types.
package sched

import (
	"fmt"
	"hash/fnv"
	"os"
	"runtime"
	"strconv"
	"time"
	"sort"
	"strings"
	"sync"
	"sync/atomic"
)

// Chooser is the explorer handle (explore.X satisfies it).
type Chooser interface {
	Choose(label string, n int) int
}

// StateCoster is optionally implemented by the Chooser for state-key pruning.
type StateCoster interface {
	StateCost(key string, cost int)
}

// Options configure one controlled execution.
type Options struct {
	MaxSteps int  // horizon (default 20000)
	Trace    bool // record a textual trace
	// NoPrune disables reporting state keys to the chooser.
	NoPrune bool
	// Context is folded into every state key: everything the scenario chose before Run that
	// influences behaviour (configuration, programs) must be named here.
	Context string
}

// Outcome describes one controlled execution.
type Outcome struct {
	Steps       int
	Preemptions int
	Deadlock    bool
	Blocked     []string // thread: pending op, for deadlocks
	Horizon     bool     // step horizon hit (livelock suspicion)
	Panics      []string // panics that escaped managed threads
	Trace       []string
	ForeignOps  int64
	Threads     int
	InfraErrors []string
}

// Obj is the identity of a shared object (embedded in every shim type).
type Obj struct{ _ byte }

type objState struct {
	name  string
	chain uint64
	// mutex / rwmutex shadow
	owner   *Thread
	readers int
	// generic shadow slot for other shims (channels, once, conn)
	Slot any
}

type op struct {
	obj     *Obj
	kind    string
	enabled func() bool
	effect  func() string // runs in scheduler context; returns a result summary for the state key
	// select support: alternatives; when non-nil, enabled/effect are ignored
	alts []Alt
	// set by the scheduler when the op has been completed on the thread's behalf (rendezvous)
	done    bool
	doneAlt int
}

// Alt is one alternative of a select-like operation.
type Alt struct {
	Obj     *Obj
	Kind    string
	Enabled func() bool
	Effect  func() string
}

// Thread is a managed goroutine.
type Thread struct {
	S       *Sched
	ID      int
	Name    string
	Daemon  bool
	wake    chan struct{}
	pending *op
	done    bool
	nOps    int
	nKids   int
	chain   uint64
	picked  int // which alt fired
	goid    uint64
}

// Sched is one controlled execution.
type Sched struct {
	ch        Chooser
	opt       Options
	mu        sync.Mutex // protects threads slice during spawn
	threads   []*Thread
	parked    chan *Thread
	running   *Thread
	objs      map[*Obj]*objState
	ext       map[any]any
	out       *Outcome
	aborted   atomic.Bool
	branching bool
	preempts  int
	foreign   atomic.Int64
}

var (
	active  atomic.Int32
	byGoid  sync.Map // uint64 -> *Thread
	abortMu sync.Mutex
)

func goid() uint64 {
	var buf [64]byte
	n := runtime.Stack(buf[:], false)
	// "goroutine 123 ["
	var id uint64
	for _, c := range buf[10:n] {
		if c < '0' || c > '9' {
			break
		}
		id = id*10 + uint64(c-'0')
	}
	return id
}

// FreeRun (env VERIF_FREERUN) turns the scheduler off: Run/Go use plain goroutines, shim
// operations pass through to the real primitives with seeded yield injection. Used for the
// separate free-running -race pass of the same scenario bodies.
var FreeRun = os.Getenv("VERIF_FREERUN") != ""

var (
	freeWG    sync.WaitGroup
	jitterSt  atomic.Uint64
	FreeOps   atomic.Int64
	freeInit  sync.Once
)

func jitter() {
	freeInit.Do(func() {
		seed, _ := strconv.ParseUint(os.Getenv("VERIF_SEED"), 10, 64)
		jitterSt.Store(seed*2654435761 + 88172645463325252)
	})
	FreeOps.Add(1)
	x := jitterSt.Load()
	x ^= x << 13
	x ^= x >> 7
	x ^= x << 17
	jitterSt.Store(x)
	switch {
	case x%97 == 0:
		time.Sleep(time.Duration(x%50) * time.Microsecond)
	case x%3 == 0:
		runtime.Gosched()
	}
}

// Current returns the managed thread of the calling goroutine, or nil.
func Current() *Thread {
	if FreeRun {
		jitter()
		return nil
	}
	if active.Load() == 0 {
		return nil
	}
	if v, ok := byGoid.Load(goid()); ok {
		t := v.(*Thread)
		if t.S.aborted.Load() {
			return nil
		}
		return t
	}
	return nil
}

// CountForeign lets shims count pass-through operations made while a controlled run is active.
func CountForeign() {
	// informational only
}

func hash64(parts ...any) uint64 {
	h := fnv.New64a()
	for _, p := range parts {
		fmt.Fprintf(h, "%v|", p)
	}
	return h.Sum64()
}

func (s *Sched) state(o *Obj, t *Thread) *objState {
	st, ok := s.objs[o]
	if !ok {
		st = &objState{name: fmt.Sprintf("%s#%d", t.Name, t.nOps)}
		s.objs[o] = st
	}
	return st
}

// State returns the per-execution shadow state of o (scheduler context or running thread only).
func (t *Thread) State(o *Obj) *objState { return t.S.state(o, t) }

// Slot returns the generic shadow slot of o, initialising it with mk on first use.
func (t *Thread) Slot(o *Obj, mk func() any) any {
	st := t.S.state(o, t)
	if st.Slot == nil {
		st.Slot = mk()
	}
	return st.Slot
}

// Ext returns per-execution storage keyed by an arbitrary comparable key (running thread or
// scheduler context only).
func (t *Thread) Ext(key any, mk func() any) any {
	v, ok := t.S.ext[key]
	if !ok {
		v = mk()
		t.S.ext[key] = v
	}
	return v
}

// park publishes the pending operation and waits to be scheduled.
func (t *Thread) park(o *op) {
	t.pending = o
	t.S.parked <- t
	<-t.wake
	if t.S.aborted.Load() {
		runtime.Goexit()
	}
}

// Do performs one guarded operation on obj as a scheduling point.
func (t *Thread) Do(obj *Obj, kind string, enabled func() bool, effect func() string) {
	t.park(&op{obj: obj, kind: kind, enabled: enabled, effect: effect})
}

// Select performs a multi-alternative operation; returns the index of the alternative that fired.
func (t *Thread) Select(alts []Alt) int {
	t.park(&op{alts: alts, kind: "select"})
	return t.picked
}

// Yield is a plain scheduling point on a private pseudo-object (used in spin loops).
func (t *Thread) Yield(obj *Obj, kind string) {
	t.Do(obj, kind, nil, nil)
}

// Go spawns fn as a managed thread when the caller is managed, else as a plain goroutine.
func Go(fn func()) { GoNamed("", false, fn) }

// GoNamed is Go with an explicit name suffix and daemon flag.
func GoNamed(name string, daemon bool, fn func()) {
	if FreeRun {
		if !daemon {
			freeWG.Add(1)
		}
		go func() {
			if !daemon {
				defer freeWG.Done()
			}
			fn()
		}()
		return
	}
	t := Current()
	if t == nil {
		go fn()
		return
	}
	t.S.spawn(t, name, daemon, fn)
}

func (s *Sched) spawn(parent *Thread, name string, daemon bool, fn func()) *Thread {
	s.mu.Lock()
	c := &Thread{S: s, ID: len(s.threads), wake: make(chan struct{}, 1), Daemon: daemon}
	if parent != nil {
		parent.nKids++
		if name == "" {
			name = fmt.Sprintf("g%d", parent.nKids)
		}
		c.Name = parent.Name + "/" + name
		c.chain = hash64(parent.chain, "spawn", parent.nKids)
	} else {
		c.Name = name
	}
	s.threads = append(s.threads, c)
	s.mu.Unlock()
	started := make(chan struct{})
	go func() {
		c.goid = goid()
		byGoid.Store(c.goid, c)
		defer func() {
			byGoid.Delete(c.goid)
			if e := recover(); e != nil {
				buf := make([]byte, 4096)
				buf = buf[:runtime.Stack(buf, false)]
				s.mu.Lock()
				s.out.Panics = append(s.out.Panics, fmt.Sprintf("%s: %v\n%s", c.Name, e, buf))
				s.mu.Unlock()
			}
			c.done = true
			c.pending = nil
			if !s.aborted.Load() {
				s.parked <- c
			}
		}()
		// first scheduling point: thread start (published directly, not through s.parked,
		// because the scheduler is concurrently waiting for the parent to park)
		c.pending = &op{kind: "start"}
		close(started)
		<-c.wake
		if s.aborted.Load() {
			runtime.Goexit()
		}
		fn()
	}()
	<-started
	return c
}

// Run executes main as thread "main" under the controlled scheduler.
func Run(ch Chooser, opt Options, main func()) *Outcome {
	if FreeRun {
		out := &Outcome{}
		func() {
			defer func() {
				if e := recover(); e != nil {
					out.Panics = append(out.Panics, fmt.Sprint(e))
				}
			}()
			main()
		}()
		done := make(chan struct{})
		go func() { freeWG.Wait(); close(done) }()
		select {
		case <-done:
		case <-time.After(60 * time.Second):
			out.InfraErrors = append(out.InfraErrors, "free-running pass: threads did not finish within 60s")
		}
		out.Threads = 2
		return out
	}
	if opt.MaxSteps == 0 {
		opt.MaxSteps = 20000
	}
	if os.Getenv("VERIF_SCHED_TRACE") != "" {
		opt.Trace = true
	}
	s := &Sched{ch: ch, opt: opt, parked: make(chan *Thread, 64), objs: map[*Obj]*objState{}, ext: map[any]any{}, out: &Outcome{}, branching: true}
	active.Add(1)
	defer active.Add(-1)
	s.spawn(nil, "main", false, main)
	s.loop()
	if os.Getenv("VERIF_SCHED_TRACE") != "" {
		for _, l := range s.out.Trace {
			fmt.Println("TRACE", l)
		}
	}
	s.out.ForeignOps = s.foreign.Load()
	s.out.Threads = len(s.threads)
	s.out.Preemptions = s.preempts
	return s.out
}

// SetBranching turns exploration of alternatives on/off (off = deterministic default schedule,
// used for un-branched prologues/epilogues). Must be called by a managed thread.
func SetBranching(on bool) {
	if t := Current(); t != nil {
		t.S.branching = on
	}
}

func (o *op) isEnabled() (bool, []int) {
	if o.done {
		return true, nil
	}
	if o.alts != nil {
		var ready []int
		for i, a := range o.alts {
			if a.Enabled == nil || a.Enabled() {
				ready = append(ready, i)
			}
		}
		return len(ready) > 0, ready
	}
	return o.enabled == nil || o.enabled(), nil
}

func (s *Sched) loop() {
	for {
		// all threads are parked or done here
		var enabled []*Thread
		live := 0
		for _, t := range s.threads {
			if t.done {
				continue
			}
			if !t.Daemon {
				live++
			}
			if ok, _ := t.pending.isEnabled(); ok {
				enabled = append(enabled, t)
			}
		}
		if live == 0 {
			s.abort()
			return
		}
		if len(enabled) == 0 || onlyDaemons(enabled) && !s.daemonCanUnblock(enabled) {
			s.out.Deadlock = true
			for _, t := range s.threads {
				if !t.done {
					s.out.Blocked = append(s.out.Blocked, t.Name+": "+t.pending.describe(s, t))
				}
			}
			s.abort()
			return
		}
		if s.out.Steps >= s.opt.MaxSteps {
			s.out.Horizon = true
			s.abort()
			return
		}
		// canonical order: running thread first if enabled, then ascending id
		sort.SliceStable(enabled, func(i, j int) bool {
			if enabled[i] == s.running {
				return true
			}
			if enabled[j] == s.running {
				return false
			}
			return enabled[i].ID < enabled[j].ID
		})
		pick := 0
		if s.branching && len(enabled) > 1 {
			if !s.opt.NoPrune {
				if sc, ok := s.ch.(StateCoster); ok {
					sc.StateCost(s.key(), s.preempts)
				}
			}
			if enabled[0] == s.running {
				pick = s.ch.Choose("preempt."+s.running.Name, len(enabled))
				if pick != 0 {
					s.preempts++
				}
			} else {
				pick = s.ch.Choose("switch.next", len(enabled))
			}
		}
		t := enabled[pick]
		o := t.pending
		res := ""
		if !o.done {
			if o.alts != nil {
				_, ready := o.isEnabled()
				k := 0
				if len(ready) > 1 && s.branching {
					k = s.ch.Choose("select."+t.Name, len(ready))
				}
				a := o.alts[ready[k]]
				t.picked = ready[k]
				s.running = t // effects may consult the acting thread
				if a.Effect != nil {
					res = a.Effect()
				}
				s.touch(t, a.Obj, fmt.Sprintf("%s[%d]", a.Kind, ready[k]), res)
			} else {
				s.running = t
				if o.effect != nil {
					res = o.effect()
				}
				s.touch(t, o.obj, o.kind, res)
			}
		} else {
			t.picked = o.doneAlt
		}
		if s.opt.Trace {
			s.out.Trace = append(s.out.Trace, fmt.Sprintf("%s %s %s", t.Name, o.describe(s, t), res))
		}
		s.out.Steps++
		t.nOps++
		t.pending = nil
		s.running = t
		t.wake <- struct{}{}
		// wait for it to park again or finish
		p := <-s.parked
		if p != t {
			s.out.InfraErrors = append(s.out.InfraErrors, fmt.Sprintf("thread %s parked while %s was running", p.Name, t.Name))
		}
	}
}

func onlyDaemons(ts []*Thread) bool {
	for _, t := range ts {
		if !t.Daemon {
			return false
		}
	}
	return true
}

// daemonCanUnblock: enabled daemons may still make progress for blocked live threads
// (e.g. the network delivering bytes), so an execution with only daemons enabled is not a
// deadlock as long as a daemon is enabled; daemons must therefore block when they have nothing to do.
func (s *Sched) daemonCanUnblock(enabled []*Thread) bool { return len(enabled) > 0 }

// Acting returns the thread whose operation effect is being applied (scheduler context).
func (s *Sched) Acting() *Thread { return s.running }

func (s *Sched) touch(t *Thread, o *Obj, kind, res string) {
	if o == nil {
		t.chain = hash64(t.chain, kind, res)
		return
	}
	st := s.state(o, t)
	st.chain = hash64(st.chain, t.Name, kind, res)
	t.chain = hash64(t.chain, st.name, st.chain)
}

// Touch lets an effect that completes another thread's operation (rendezvous) fold the object
// history into that thread's chain as well.
func (s *Sched) Touch(t *Thread, o *Obj, kind, res string) { s.touch(t, o, kind, res) }

func (s *Sched) key() string {
	var b strings.Builder
	b.WriteString(s.opt.Context)
	b.WriteByte('|')
	for _, t := range s.threads {
		fmt.Fprintf(&b, "%s:%x:%v;", t.Name, t.chain, t.done)
	}
	names := make([]string, 0, len(s.objs))
	for _, st := range s.objs {
		names = append(names, fmt.Sprintf("%s=%x", st.name, st.chain))
	}
	sort.Strings(names)
	b.WriteString(strings.Join(names, ","))
	if s.running != nil {
		b.WriteString("|r=" + s.running.Name)
	}
	return fmt.Sprintf("%x", hash64(b.String())) + fmt.Sprintf("%x", hash64("2", b.String()))
}

func (o *op) describe(s *Sched, t *Thread) string {
	if o == nil {
		return "<none>"
	}
	name := func(ob *Obj) string {
		if ob == nil {
			return "-"
		}
		if st, ok := s.objs[ob]; ok {
			return st.name
		}
		return "?"
	}
	if o.alts != nil {
		var p []string
		for _, a := range o.alts {
			p = append(p, a.Kind+"("+name(a.Obj)+")")
		}
		return "select{" + strings.Join(p, ",") + "}"
	}
	return o.kind + "(" + name(o.obj) + ")"
}

func (s *Sched) abort() {
	s.aborted.Store(true)
	for _, t := range s.threads {
		if !t.done {
			select {
			case t.wake <- struct{}{}:
			default:
			}
		}
	}
}

// CompleteFor marks t's pending operation as completed by a rendezvous partner
// (scheduler context only). alt is the select alternative that fired (or 0).
func (s *Sched) CompleteFor(t *Thread, alt int) {
	if t.pending != nil {
		t.pending.done = true
		t.pending.doneAlt = alt
	}
}

// Threads returns the managed threads (scheduler context only).
func (s *Sched) Threads() []*Thread { return s.threads }

// Pending returns the kind and object of the thread's pending op alternatives (scheduler context).
func (t *Thread) PendingAlts() (objs []*Obj, kinds []string, done bool) {
	o := t.pending
	if o == nil {
		return nil, nil, false
	}
	if o.done {
		return nil, nil, true
	}
	if o.alts != nil {
		for _, a := range o.alts {
			objs = append(objs, a.Obj)
			kinds = append(kinds, a.Kind)
		}
		return
	}
	return []*Obj{o.obj}, []string{o.kind}, false
}

// Foreign notes a shim operation performed by an unmanaged goroutine while a run is active.
func Foreign() {}
