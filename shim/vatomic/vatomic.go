// Package vatomic replaces "sync/atomic" in package tls under the shim overlay (variant B).
// Every operation of a managed thread is one scheduling point whose effect is the real atomic op.
package vatomic

import (
	"fmt"
	"sync/atomic"

	"github.com/refraction-networking/utls/verifshim/sched"
)

type Bool struct {
	obj  sched.Obj
	real atomic.Bool
}

func (b *Bool) Load() (v bool) {
	if t := sched.Current(); t != nil {
		t.Do(&b.obj, "load", nil, func() string { v = b.real.Load(); return fmt.Sprint(v) })
		return
	}
	return b.real.Load()
}
func (b *Bool) Store(x bool) {
	if t := sched.Current(); t != nil {
		t.Do(&b.obj, "store", nil, func() string { b.real.Store(x); return fmt.Sprint(x) })
		return
	}
	b.real.Store(x)
}
func (b *Bool) Swap(x bool) (old bool) {
	if t := sched.Current(); t != nil {
		t.Do(&b.obj, "swap", nil, func() string { old = b.real.Swap(x); return fmt.Sprint(old, x) })
		return
	}
	return b.real.Swap(x)
}
func (b *Bool) CompareAndSwap(o, n bool) (ok bool) {
	if t := sched.Current(); t != nil {
		t.Do(&b.obj, "cas", nil, func() string { ok = b.real.CompareAndSwap(o, n); return fmt.Sprint(o, n, ok) })
		return
	}
	return b.real.CompareAndSwap(o, n)
}

type Int32 struct {
	obj  sched.Obj
	real atomic.Int32
}

func (b *Int32) Load() (v int32) {
	if t := sched.Current(); t != nil {
		t.Do(&b.obj, "load", nil, func() string { v = b.real.Load(); return fmt.Sprint(v) })
		return
	}
	return b.real.Load()
}
func (b *Int32) Store(x int32) {
	if t := sched.Current(); t != nil {
		t.Do(&b.obj, "store", nil, func() string { b.real.Store(x); return fmt.Sprint(x) })
		return
	}
	b.real.Store(x)
}
func (b *Int32) Add(d int32) (v int32) {
	if t := sched.Current(); t != nil {
		t.Do(&b.obj, "add", nil, func() string { v = b.real.Add(d); return fmt.Sprint(v) })
		return
	}
	return b.real.Add(d)
}
func (b *Int32) Swap(x int32) (old int32) {
	if t := sched.Current(); t != nil {
		t.Do(&b.obj, "swap", nil, func() string { old = b.real.Swap(x); return fmt.Sprint(old, x) })
		return
	}
	return b.real.Swap(x)
}
func (b *Int32) CompareAndSwap(o, n int32) (ok bool) {
	if t := sched.Current(); t != nil {
		t.Do(&b.obj, "cas", nil, func() string { ok = b.real.CompareAndSwap(o, n); return fmt.Sprint(o, n, ok) })
		return
	}
	return b.real.CompareAndSwap(o, n)
}

type Int64 struct {
	obj  sched.Obj
	real atomic.Int64
}

func (b *Int64) Load() (v int64) {
	if t := sched.Current(); t != nil {
		t.Do(&b.obj, "load", nil, func() string { v = b.real.Load(); return fmt.Sprint(v) })
		return
	}
	return b.real.Load()
}
func (b *Int64) Store(x int64) {
	if t := sched.Current(); t != nil {
		t.Do(&b.obj, "store", nil, func() string { b.real.Store(x); return fmt.Sprint(x) })
		return
	}
	b.real.Store(x)
}
func (b *Int64) Add(d int64) (v int64) {
	if t := sched.Current(); t != nil {
		t.Do(&b.obj, "add", nil, func() string { v = b.real.Add(d); return fmt.Sprint(v) })
		return
	}
	return b.real.Add(d)
}
func (b *Int64) CompareAndSwap(o, n int64) (ok bool) {
	if t := sched.Current(); t != nil {
		t.Do(&b.obj, "cas", nil, func() string { ok = b.real.CompareAndSwap(o, n); return fmt.Sprint(o, n, ok) })
		return
	}
	return b.real.CompareAndSwap(o, n)
}

type Uint32 struct {
	obj  sched.Obj
	real atomic.Uint32
}

func (b *Uint32) Load() (v uint32) {
	if t := sched.Current(); t != nil {
		t.Do(&b.obj, "load", nil, func() string { v = b.real.Load(); return fmt.Sprint(v) })
		return
	}
	return b.real.Load()
}
func (b *Uint32) Store(x uint32) {
	if t := sched.Current(); t != nil {
		t.Do(&b.obj, "store", nil, func() string { b.real.Store(x); return fmt.Sprint(x) })
		return
	}
	b.real.Store(x)
}
func (b *Uint32) Add(d uint32) (v uint32) {
	if t := sched.Current(); t != nil {
		t.Do(&b.obj, "add", nil, func() string { v = b.real.Add(d); return fmt.Sprint(v) })
		return
	}
	return b.real.Add(d)
}
func (b *Uint32) CompareAndSwap(o, n uint32) (ok bool) {
	if t := sched.Current(); t != nil {
		t.Do(&b.obj, "cas", nil, func() string { ok = b.real.CompareAndSwap(o, n); return fmt.Sprint(o, n, ok) })
		return
	}
	return b.real.CompareAndSwap(o, n)
}
