module vrewrite

go 1.24
