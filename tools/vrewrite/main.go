// vrewrite generates the -overlay files used to build /repo for the checks.
//
//	vrewrite -repo /repo -verif /verif -out /verif/build/ov
//
// writes A.json (in-package helper files + generated corpus file + shim packages as virtual
// packages) and B.json (A + every non-test file of package tls with "sync", "sync/atomic",
// "math/rand", x/crypto "sha3" and (u_roller.go) "net" redirected to the shim packages and all
// channel / go / select statements rewritten into shim calls).
// An unsupported construct is an error (exit 2): the checks then report an infrastructure error,
// never a verdict.
package main

import (
	"encoding/json"
	"flag"
	"fmt"
	"go/ast"
	"go/parser"
	"go/token"
	"os"
	"path/filepath"
	"sort"
	"strings"
)

const shimBase = "github.com/refraction-networking/utls/verifshim/"

type edit struct {
	start, end int
	text       string
}

func die(f string, a ...any) {
	fmt.Fprintf(os.Stderr, "vrewrite: "+f+"\n", a...)
	os.Exit(2)
}

func main() {
	repo := flag.String("repo", "/repo", "")
	verif := flag.String("verif", "/verif", "")
	out := flag.String("out", "/verif/build/ov", "")
	flag.Parse()
	os.MkdirAll(*out, 0o755)
	verifDirForShim = *verif

	replace := map[string]string{}

	// shim virtual packages
	shimDirs, _ := os.ReadDir(filepath.Join(*verif, "shim"))
	for _, d := range shimDirs {
		if !d.IsDir() {
			continue
		}
		files, _ := os.ReadDir(filepath.Join(*verif, "shim", d.Name()))
		for _, f := range files {
			if strings.HasSuffix(f.Name(), ".go") {
				replace[filepath.Join(*repo, "verifshim", d.Name(), f.Name())] = filepath.Join(*verif, "shim", d.Name(), f.Name())
			}
		}
	}
	// in-package helper files
	inpkg, _ := os.ReadDir(filepath.Join(*verif, "inpkg"))
	for _, f := range inpkg {
		if strings.HasSuffix(f.Name(), ".go") {
			replace[filepath.Join(*repo, "zz_verif_"+f.Name())] = filepath.Join(*verif, "inpkg", f.Name())
		}
	}
	// generated corpus (ClientHelloIDs discovered from the current tree)
	gen := genCorpus(*repo)
	genPath := filepath.Join(*out, "zz_verif_corpus_gen.go")
	writeIfChanged(genPath, gen)
	replace[filepath.Join(*repo, "zz_verif_corpus_gen.go")] = genPath

	// dicttls table pairs discovered from the current tree
	dgen := genDictPairs(*repo)
	dgenPath := filepath.Join(*out, "zz_verif_dictpairs_gen.go")
	writeIfChanged(dgenPath, dgen)
	replace[filepath.Join(*repo, "dicttls", "zz_verif_dictpairs_gen.go")] = dgenPath

	writeOverlay(filepath.Join(*out, "A.json"), replace)

	// variant B
	entries, err := os.ReadDir(*repo)
	if err != nil {
		die("%v", err)
	}
	sites := 0
	for _, e := range entries {
		n := e.Name()
		if e.IsDir() || !strings.HasSuffix(n, ".go") || strings.HasSuffix(n, "_test.go") {
			continue
		}
		src, err := os.ReadFile(filepath.Join(*repo, n))
		if err != nil {
			die("%v", err)
		}
		res, k, changed := rewriteFile(n, src)
		sites += k
		if changed {
			p := filepath.Join(*out, "B_"+n)
			writeIfChanged(p, res)
			replace[filepath.Join(*repo, n)] = p
		}
	}
	writeOverlay(filepath.Join(*out, "B.json"), replace)
	fmt.Printf("vrewrite: ok, %d channel/go/select sites rewritten\n", sites)
}

func writeIfChanged(p string, b []byte) {
	if old, err := os.ReadFile(p); err == nil && string(old) == string(b) {
		return
	}
	if err := os.WriteFile(p, b, 0o644); err != nil {
		die("%v", err)
	}
}

func writeOverlay(p string, m map[string]string) {
	b, _ := json.MarshalIndent(map[string]any{"Replace": m}, "", " ")
	writeIfChanged(p, b)
}

// importRedirects: file-independent import path replacements (alias keeps the original name).
var importRedirects = map[string][2]string{
	`"sync"`:                       {"sync", shimBase + "vsync"},
	`"sync/atomic"`:                {"atomic", shimBase + "vatomic"},
	`"math/rand"`:                  {"rand", shimBase + "vrand"},
	`"golang.org/x/crypto/sha3"`:   {"sha3", shimBase + "vsha3"},
}

// files whose sync primitives stay real (inherited certificate cache, touched by GC finalizers)
var noSyncRedirect = map[string]bool{"cache.go": true}

func rewriteFile(name string, src []byte) ([]byte, int, bool) {
	fset := token.NewFileSet()
	f, err := parser.ParseFile(fset, name, src, parser.ParseComments)
	if err != nil {
		die("parse %s: %v", name, err)
	}
	if f.Name.Name != "tls" {
		return nil, 0, false
	}
	if f.Doc != nil || true {
		// skip files excluded by build constraints we cannot satisfy (e.g. !verif variants are fine)
	}
	var edits []edit
	off := func(p token.Pos) int { return fset.Position(p).Offset }

	hasVsyncImport := false
	for _, im := range f.Imports {
		if r, ok := importRedirects[im.Path.Value]; ok {
			if noSyncRedirect[name] && (im.Path.Value == `"sync"` || im.Path.Value == `"sync/atomic"`) {
				continue
			}
			if (im.Path.Value == `"math/rand"` || im.Path.Value == `"golang.org/x/crypto/sha3"`) && !shimExists(r[1]) {
				continue
			}
			alias := r[0]
			if im.Name != nil {
				alias = im.Name.Name
			}
			start := off(im.Pos())
			edits = append(edits, edit{start, off(im.End()), alias + ` "` + r[1] + `"`})
			if im.Path.Value == `"sync"` {
				hasVsyncImport = true
			}
		}
		if name == "u_roller.go" && im.Path.Value == `"net"` && shimExists(shimBase+"vnet") {
			edits = append(edits, edit{off(im.Pos()), off(im.End()), `net "` + shimBase + `vnet"`})
		}
	}

	// channel-typed names (heuristic for `for range ch`)
	chanNames := map[string]bool{}
	ast.Inspect(f, func(n ast.Node) bool {
		switch x := n.(type) {
		case *ast.Field:
			if _, ok := x.Type.(*ast.ChanType); ok {
				for _, id := range x.Names {
					chanNames[id.Name] = true
				}
			}
		case *ast.AssignStmt:
			for i, r := range x.Rhs {
				if c, ok := r.(*ast.CallExpr); ok {
					if id, ok := c.Fun.(*ast.Ident); ok && id.Name == "make" && len(c.Args) > 0 {
						if _, ok := c.Args[0].(*ast.ChanType); ok && i < len(x.Lhs) {
							if l, ok := x.Lhs[i].(*ast.Ident); ok {
								chanNames[l.Name] = true
							}
						}
					}
				}
			}
		}
		return true
	})
	// names known package-wide (struct fields declared in other files)
	for _, n := range []string{"signalc", "blockedc", "cancelc"} {
		chanNames[n] = true
	}

	text := func(n ast.Node) string { return string(src[off(n.Pos()):off(n.End())]) }
	containsChanOp := func(n ast.Node) bool {
		found := false
		ast.Inspect(n, func(m ast.Node) bool {
			switch y := m.(type) {
			case *ast.UnaryExpr:
				if y.Op == token.ARROW {
					found = true
				}
			case *ast.SendStmt:
				found = true
			}
			return true
		})
		return found
	}

	sites := 0
	handledRecv := map[*ast.UnaryExpr]bool{}
	var walk func(n ast.Node) bool
	walk = func(n ast.Node) bool {
		switch x := n.(type) {
		case *ast.SelectStmt:
			sites++
			var cases []string
			hasDefault := false
			for i, cl := range x.Body.List {
				cc := cl.(*ast.CommClause)
				hdrEnd := off(cc.Colon) + 1
				if cc.Comm == nil {
					hasDefault = true
					edits = append(edits, edit{off(cc.Pos()), hdrEnd, "case -1:"})
					continue
				}
				idx := len(cases)
				_ = i
				switch c := cc.Comm.(type) {
				case *ast.ExprStmt:
					u, ok := c.X.(*ast.UnaryExpr)
					if !ok || u.Op != token.ARROW {
						die("%s: unsupported select case %q", fset.Position(cc.Pos()), text(cc.Comm))
					}
					if containsChanOp(u.X) {
						die("%s: nested channel op in select case", fset.Position(cc.Pos()))
					}
					handledRecv[u] = true
					cases = append(cases, "vsync.RecvCase("+text(u.X)+")")
				case *ast.SendStmt:
					if containsChanOp(c.Chan) || containsChanOp(c.Value) {
						die("%s: nested channel op in select case", fset.Position(cc.Pos()))
					}
					cases = append(cases, "vsync.SendCase("+text(c.Chan)+", "+text(c.Value)+")")
				default:
					die("%s: unsupported select case with assignment %q (extend tools/vrewrite)", fset.Position(cc.Pos()), text(cc.Comm))
				}
				edits = append(edits, edit{off(cc.Pos()), hdrEnd, fmt.Sprintf("case %d:", idx)})
				for _, s := range cc.Body {
					ast.Inspect(s, walk)
				}
			}
			for _, cl := range x.Body.List {
				cc := cl.(*ast.CommClause)
				if cc.Comm == nil {
					for _, s := range cc.Body {
						ast.Inspect(s, walk)
					}
				}
			}
			hdr := fmt.Sprintf("switch _vi, _, _ := vsync.Select([]vsync.Case{%s}, %v); _vi {", strings.Join(cases, ", "), hasDefault)
			edits = append(edits, edit{off(x.Pos()), off(x.Body.Lbrace) + 1, hdr})
			return false
		case *ast.AssignStmt:
			if len(x.Lhs) == 2 && len(x.Rhs) == 1 {
				if u, ok := x.Rhs[0].(*ast.UnaryExpr); ok && u.Op == token.ARROW {
					sites++
					handledRecv[u] = true
					edits = append(edits, edit{off(u.Pos()), off(u.Pos()) + 2, "vsync.Recv2("})
					edits = append(edits, edit{off(u.End()), off(u.End()), ")"})
				}
			}
		case *ast.ValueSpec:
			if len(x.Names) == 2 && len(x.Values) == 1 {
				if u, ok := x.Values[0].(*ast.UnaryExpr); ok && u.Op == token.ARROW {
					sites++
					handledRecv[u] = true
					edits = append(edits, edit{off(u.Pos()), off(u.Pos()) + 2, "vsync.Recv2("})
					edits = append(edits, edit{off(u.End()), off(u.End()), ")"})
				}
			}
		case *ast.UnaryExpr:
			if x.Op == token.ARROW && !handledRecv[x] {
				sites++
				handledRecv[x] = true
				edits = append(edits, edit{off(x.Pos()), off(x.Pos()) + 2, "vsync.Recv("})
				edits = append(edits, edit{off(x.End()), off(x.End()), ")"})
			}
		case *ast.SendStmt:
			sites++
			edits = append(edits, edit{off(x.Pos()), off(x.Pos()), "vsync.Send("})
			edits = append(edits, edit{off(x.Arrow), off(x.Arrow) + 2, ","})
			edits = append(edits, edit{off(x.End()), off(x.End()), ")"})
		case *ast.CallExpr:
			if id, ok := x.Fun.(*ast.Ident); ok && id.Name == "close" && len(x.Args) == 1 {
				sites++
				edits = append(edits, edit{off(id.Pos()), off(id.End()), "vsync.Close"})
			}
		case *ast.GoStmt:
			sites++
			edits = append(edits, edit{off(x.Pos()), off(x.Pos()) + 2, "vsync.Go(func() {"})
			edits = append(edits, edit{off(x.End()), off(x.End()), " })"})
		case *ast.RangeStmt:
			if isChanExpr(x.X, chanNames) {
				if x.Key != nil || x.Value != nil {
					die("%s: range over channel with a loop variable is unsupported (extend tools/vrewrite)", fset.Position(x.Pos()))
				}
				sites++
				// for range ch {  =>  for { if _, _ok := vsync.Recv2(ch); !_ok { break };
				edits = append(edits, edit{off(x.Pos()), off(x.Body.Lbrace) + 1,
					"for { if _, _vok := vsync.Recv2(" + text(x.X) + "); !_vok { break }\n"})
			}
		}
		return true
	}
	ast.Inspect(f, walk)

	if sites > 0 && !hasVsyncImport {
		// add an import of vsync right after the package clause's import block start
		if len(f.Imports) == 0 {
			die("%s: no import block to extend", name)
		}
		first := f.Imports[0]
		edits = append(edits, edit{off(first.Pos()), off(first.Pos()), `vsync "` + shimBase + `vsync"` + "\n\t"})
	} else if sites > 0 && hasVsyncImport {
		// the file's own "sync" import was redirected under the alias sync; add a second alias
		first := f.Imports[0]
		edits = append(edits, edit{off(first.Pos()), off(first.Pos()), `vsync "` + shimBase + `vsync"` + "\n\t"})
	}
	if len(edits) == 0 {
		return nil, 0, false
	}
	sort.SliceStable(edits, func(i, j int) bool {
		if edits[i].start != edits[j].start {
			return edits[i].start < edits[j].start
		}
		return edits[i].end < edits[j].end
	})
	var b strings.Builder
	pos := 0
	for _, e := range edits {
		if e.start < pos {
			die("%s: overlapping edits at offset %d (%q)", name, e.start, e.text)
		}
		b.Write(src[pos:e.start])
		b.WriteString(e.text)
		pos = e.end
	}
	b.Write(src[pos:])
	res := []byte(b.String())
	// the result must parse
	if _, err := parser.ParseFile(token.NewFileSet(), name, res, 0); err != nil {
		die("rewritten %s does not parse: %v", name, err)
	}
	return res, sites, true
}

func isChanExpr(e ast.Expr, names map[string]bool) bool {
	switch x := e.(type) {
	case *ast.Ident:
		return names[x.Name]
	case *ast.SelectorExpr:
		return names[x.Sel.Name]
	case *ast.ParenExpr:
		return isChanExpr(x.X, names)
	}
	return false
}

var verifDirForShim = "/verif"

func shimExists(importPath string) bool {
	d := filepath.Join(verifDirForShim, "shim", strings.TrimPrefix(importPath, shimBase))
	st, err := os.Stat(d)
	return err == nil && st.IsDir()
}

// genCorpus discovers every exported package-level `Hello*` ClientHelloID variable of u_common.go.
func genCorpus(repo string) []byte {
	fset := token.NewFileSet()
	f, err := parser.ParseFile(fset, filepath.Join(repo, "u_common.go"), nil, 0)
	if err != nil {
		die("parse u_common.go: %v", err)
	}
	var names []string
	for _, d := range f.Decls {
		gd, ok := d.(*ast.GenDecl)
		if !ok || gd.Tok != token.VAR {
			continue
		}
		for _, s := range gd.Specs {
			vs := s.(*ast.ValueSpec)
			for i, id := range vs.Names {
				if !strings.HasPrefix(id.Name, "Hello") || !id.IsExported() {
					continue
				}
				isID := false
				if i < len(vs.Values) {
					switch v := vs.Values[i].(type) {
					case *ast.CompositeLit:
						if t, ok := v.Type.(*ast.Ident); ok && t.Name == "ClientHelloID" {
							isID = true
						}
					case *ast.Ident:
						if strings.HasPrefix(v.Name, "Hello") {
							isID = true
						}
					}
				}
				if t, ok := vs.Type.(*ast.Ident); ok && t.Name == "ClientHelloID" {
					isID = true
				}
				if isID {
					names = append(names, id.Name)
				}
			}
		}
	}
	if len(names) == 0 {
		die("no Hello* ClientHelloID variables discovered in u_common.go")
	}
	var b strings.Builder
	b.WriteString("// Code generated by /verif/tools/vrewrite from u_common.go. DO NOT EDIT.\n\npackage tls\n\n")
	b.WriteString("// VerifNamedID is a discovered ClientHelloID variable.\ntype VerifNamedID struct {\n\tName string\n\tID   *ClientHelloID\n}\n\n")
	b.WriteString("// VerifHelloIDs lists every Hello* ClientHelloID variable of this tree.\nvar VerifHelloIDs = []VerifNamedID{\n")
	for _, n := range names {
		fmt.Fprintf(&b, "\t{%q, &%s},\n", n, n)
	}
	b.WriteString("}\n")
	return []byte(b.String())
}

// genDictPairs lists every Dict<X>ValueIndexed table of package dicttls with its
// Dict<X>NameIndexed sibling (nil if there is none).
func genDictPairs(repo string) []byte {
	dir := filepath.Join(repo, "dicttls")
	ents, err := os.ReadDir(dir)
	if err != nil {
		die("read dicttls: %v", err)
	}
	vars := map[string]bool{}
	for _, e := range ents {
		if !strings.HasSuffix(e.Name(), ".go") || strings.HasSuffix(e.Name(), "_test.go") {
			continue
		}
		f, err := parser.ParseFile(token.NewFileSet(), filepath.Join(dir, e.Name()), nil, 0)
		if err != nil {
			die("parse %s: %v", e.Name(), err)
		}
		for _, d := range f.Decls {
			if gd, ok := d.(*ast.GenDecl); ok && gd.Tok == token.VAR {
				for _, sp := range gd.Specs {
					for _, id := range sp.(*ast.ValueSpec).Names {
						vars[id.Name] = true
					}
				}
			}
		}
	}
	var names []string
	for v := range vars {
		if strings.HasPrefix(v, "Dict") && strings.HasSuffix(v, "ValueIndexed") {
			names = append(names, v)
		}
	}
	sort.Strings(names)
	if len(names) == 0 {
		die("no Dict*ValueIndexed tables found")
	}
	var b strings.Builder
	b.WriteString("// Code generated by /verif/tools/vrewrite. DO NOT EDIT.\n\npackage dicttls\n\n")
	b.WriteString("// VerifDictPair is a value-indexed table with its name-indexed sibling (nil if none).\ntype VerifDictPair struct {\n\tName string\n\tValueIndexed any\n\tNameIndexed any\n}\n\n")
	b.WriteString("var VerifDictPairs = []VerifDictPair{\n")
	for _, v := range names {
		base := strings.TrimSuffix(v, "ValueIndexed")
		sib := "nil"
		if vars[base+"NameIndexed"] {
			sib = base + "NameIndexed"
		}
		fmt.Fprintf(&b, "\t{%q, %s, %s},\n", strings.TrimPrefix(base, "Dict"), v, sib)
	}
	b.WriteString("}\n")
	return []byte(b.String())
}
