#!/bin/bash
# usage: bin/confirm_seed.sh <seed-dir containing patch.diff demo_test.go meta.json> <name>
# Confirms in a fresh scratch worktree: demo passes on the original tree, suite passes with the
# patch, demo fails with the patch. On success copies the seed to /verif/seeded/<name>/.
SD="$1"; NAME="$2"
WT=/tmp/confirm_$NAME
git -C /repo worktree remove --force $WT 2>/dev/null
git -C /repo worktree add -q --detach $WT HEAD || exit 2
cd $WT
cp "$SD/demo_test.go" zz_seeded_demo_test.go
TAGS=""; grep -q "^//go:build verif" zz_seeded_demo_test.go && TAGS="-tags verif"   # a demonstration may drive the package's own server through the verif hooks
RUN=$(grep -o 'func Test[A-Za-z0-9_]*' zz_seeded_demo_test.go | sed 's/func //' | paste -sd'|')
echo "== demo tests: $RUN"
echo "== demo on original tree"
GOFLAGS=-mod=mod GOPROXY=off go test $TAGS -vet=off -count=1 -run "^($RUN)\$" . > /tmp/confirm_$NAME.orig.log 2>&1; ORIG=$?
tail -3 /tmp/confirm_$NAME.orig.log
git apply "$SD/patch.diff" || { echo "PATCH DOES NOT APPLY"; cd /; git -C /repo worktree remove --force $WT; exit 2; }
echo "== demo with patch"
GOFLAGS=-mod=mod GOPROXY=off go test $TAGS -vet=off -count=1 -run "^($RUN)\$" . > /tmp/confirm_$NAME.mut.log 2>&1; MUT=$?
tail -5 /tmp/confirm_$NAME.mut.log
rm zz_seeded_demo_test.go
echo "== suite with patch"
/verif/bin/baseline.sh $WT; SUITE=$?
cd /; git -C /repo worktree remove --force $WT
echo "RESULT orig_demo_exit=$ORIG mutated_demo_exit=$MUT suite_exit=$SUITE"
if [ $ORIG = 0 ] && [ $MUT != 0 ] && [ $SUITE = 0 ]; then
  mkdir -p /verif/seeded/$NAME && cp "$SD/patch.diff" "$SD/demo_test.go" "$SD/meta.json" /verif/seeded/$NAME/ && echo "CONFIRMED -> /verif/seeded/$NAME"
else
  echo "NOT CONFIRMED"; exit 1
fi
