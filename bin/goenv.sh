# sourced by bin/check and bin/setup.sh: resolves the go1.24 toolchain that /repo needs, offline.
export GOPROXY=off GOFLAGS=-mod=mod
if [ -z "${VERIF_GOROOT:-}" ]; then
  for d in /root/go/pkg/mod/golang.org/toolchain@v0.0.1-go1.24.0.linux-amd64; do
    [ -x "$d/bin/go" ] && VERIF_GOROOT="$d"
  done
  if [ -z "${VERIF_GOROOT:-}" ]; then VERIF_GOROOT=$(cd /repo && go env GOROOT); fi
fi
export VERIF_GOROOT
export GOTOOLCHAIN=local GOSUMDB=off
GO="$VERIF_GOROOT/bin/go"
export GO
