#!/bin/bash
# dev helper: rebuild overlays + worker for a variant (no race pass, no run)
VERIF="$(cd "$(dirname "$0")/.." && pwd)"; . "$VERIF/bin/goenv.sh"; V="${1:-B}"
( cd "$VERIF/tools/vrewrite" && "$GO" build -o "$VERIF/build/vrewrite" . ) && "$VERIF/build/vrewrite" -repo /repo -verif "$VERIF" -out "$VERIF/build/ov" > "$VERIF/build/vrewrite.log" 2>&1 || { cat "$VERIF/build/vrewrite.log"; exit 2; }
cp /repo/go.sum "$VERIF/mc/go.sum"; cd "$VERIF/mc" && "$GO" build -tags verif -overlay "$VERIF/build/ov/$V.json" -o "$VERIF/build/vcheck$V" ./cmd/vcheck
