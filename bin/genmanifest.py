#!/usr/bin/env python3
"""Regenerates /verif/MANIFEST.json from the table below (kept in one place so it is always valid)."""
import json, os, subprocess
V = os.path.dirname(os.path.dirname(os.path.abspath(__file__)))
props = [json.loads(l) for l in open(os.path.join(V, "properties.jsonl"))]
# id -> (level, technique, text, note)
CLAIMS = {}
exec(open(os.path.join(V, "bin", "claims.py")).read())
hooks_commits = []
try:
    out = subprocess.run(["git", "-C", "/repo", "log", "--format=%H %s"], capture_output=True, text=True).stdout
    for l in out.splitlines():
        h, s = l.split(" ", 1)
        if s.startswith("verif hook"):  # "verif hook Hn:" and "verif hooks ...:"
            hooks_commits.append(h)
except Exception:
    pass
checks, na = [], []
for p in props:
    i = p["id"]
    if i in CLAIMS:
        c = CLAIMS[i]
        checks.append({
            "property_id": i,
            "quick_cmd": f"bin/check {i} quick",
            "thorough_cmd": f"bin/check {i} thorough",
            "evidence_file": f"/verif/evidence/{i}.json",
            "replay_cmd_template": f"bin/check {i} quick --replay {{path}}",
            "engine": c.get("engine", "explore"),
            "level_claimed": {"category": c["level"], "text": c["text"], "design_ref": c.get("ref", f"DESIGN.md §4 {i}")},
            "level_note": c["note"],
            "technique": c["technique"],
        })
    else:
        na.append({"property_id": i, "reason": NOT_YET.get(i, "check not built yet in this session; no claim is made")})
m = {
    "version": 1,
    "setup_cmd": "bin/setup.sh",
    "hooks": {
        "guard": "verif",
        "enable": "go build -tags verif -overlay /verif/build/ov/{A,B}.json (overlay generated from /repo's working tree by tools/vrewrite)",
        "baseline_off_cmd": "cd /repo && go test -json -vet=off -count=1 -timeout 25m ./...",
        "source_commits": hooks_commits,
        "add_only": True,
    },
    "engines": [
        {"name": "explore", "path": "mc/explore", "serves_properties": sorted(CLAIMS), "kind_free_text": "stateless deviation-bounded exhaustive explorer over choice points (DFS, per-class budgets, state-key pruning, replay artefacts)"},
        {"name": "sched", "path": "shim/sched", "serves_properties": [i for i in sorted(CLAIMS) if CLAIMS[i].get("engine") == "sched"], "kind_free_text": "controlled cooperative scheduler over real goroutines; sync, sync/atomic and channel operations of package tls redirected by -overlay; preemption-bounded / happens-before-pruned schedule enumeration"},
    ],
    "checks": checks,
    "not_applicable": na,
    "notes": "All checks run the real code of /repo (rebuilt from the working tree on every invocation). See DESIGN.md.",
}
json.dump(m, open(os.path.join(V, "MANIFEST.json"), "w"), indent=1)
print("claimed", len(checks), "not_applicable", len(na))
