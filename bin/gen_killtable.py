#!/usr/bin/env python3
"""Fill the <!--KILLTABLE--> ... <!--/KILLTABLE--> block of DESIGN.md from kills/*.txt and seeded/*/meta.json."""
import json, glob, os, re
V = os.path.dirname(os.path.dirname(os.path.abspath(__file__)))
rows = []
for d in sorted(glob.glob(os.path.join(V, 'seeded/*/'))):
    name = os.path.basename(d.rstrip('/'))
    m = json.load(open(os.path.join(d, 'meta.json')))
    summ = re.split(r'(?<=[.;:])\s', m['summary'].strip())[0]
    if len(summ) > 230: summ = summ[:227] + '…'
    needs = m.get('needs_to_manifest', '').strip()
    needs = re.split(r'(?<=[.;])\s', needs)[0]
    if len(needs) > 200: needs = needs[:197] + '…'
    kf = os.path.join(V, 'kills', name + '.txt')
    res = []
    if os.path.exists(kf):
        cur = None; cnt = {}
        for l in open(kf):
            mm = re.match(r'=== (C\d+) on seeded', l)
            if mm: cur = mm.group(1); cnt[cur] = 0
            elif cur and l.startswith('SUMMARY'):
                u = re.search(r'unlisted=(\d+)', l)
                if u: cnt[cur] = int(u.group(1))
            elif cur and l.startswith('VIOLATION'):
                cnt[cur] = max(cnt[cur], 1)
        for k, n in cnt.items():
            res.append(f'**{k}** ({n})' if n else f'{k}: no')
    rows.append(f'| `{name}` | {summ} | {needs} | {", ".join(res) if res else "not run"} |')
tab = ['| seeded change | what it does | needs | reported by (distinct violation signatures, quick tier) |', '|---|---|---|---|'] + rows
block = '<!--KILLTABLE-->\n' + '\n'.join(tab) + '\n<!--/KILLTABLE-->'
p = os.path.join(V, 'DESIGN.md')
s = open(p).read()
if '<!--/KILLTABLE-->' in s:
    s = re.sub(r'<!--KILLTABLE-->.*?<!--/KILLTABLE-->', lambda _: block, s, flags=re.S)
else:
    s = s.replace('<!--KILLTABLE-->', block)
open(p, 'w').write(s)
print(len(rows), 'rows')
