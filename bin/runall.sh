#!/bin/bash
# usage: bin/runall.sh quick|thorough [ID...]  — run the registered command of every (or the named) property
# sequentially; prints one line per property (exit code, wall time, SUMMARY) and keeps the output in build/runall/.
VERIF="$(cd "$(dirname "$0")/.." && pwd)"; TIER="${1:-quick}"; shift
IDS="$@"; [ -z "$IDS" ] && IDS=$(python3 -c "import json;print(' '.join(c['property_id'] for c in json.load(open('$VERIF/MANIFEST.json'))['checks']))")
mkdir -p "$VERIF/build/runall"
for id in $IDS; do
  s=$(date +%s)
  ( cd "$VERIF" && timeout 14400 bin/check $id $TIER > "build/runall/$id.$TIER.out" 2>&1 ); rc=$?
  e=$(date +%s)
  echo "$id rc=$rc $((e-s))s $(grep -E '^SUMMARY' "$VERIF/build/runall/$id.$TIER.out" | cut -c1-200) $(grep -cE '^(VIOLATION|KNOWN-FINDING|INFRA)' "$VERIF/build/runall/$id.$TIER.out") flagged-lines"
done
