#!/bin/bash
# MANIFEST.setup_cmd: build the tools and warm the Go build cache, offline.
set -e
VERIF="$(cd "$(dirname "$0")/.." && pwd)"
. "$VERIF/bin/goenv.sh"
mkdir -p "$VERIF/build/ov" "$VERIF/evidence" "$VERIF/replays"
cp /repo/go.sum "$VERIF/mc/go.sum"
( cd "$VERIF/tools/vrewrite" && "$GO" build -o "$VERIF/build/vrewrite" . )
"$VERIF/build/vrewrite" -repo /repo -verif "$VERIF" -out "$VERIF/build/ov"
for V in A B; do
  ( cd "$VERIF/mc" && "$GO" build -tags verif -overlay "$VERIF/build/ov/$V.json" -o "$VERIF/build/vcheck$V" ./cmd/vcheck )
done
# the -race build used by the free-running pass of the scheduler properties
( cd "$VERIF/mc" && "$GO" build -race -tags verif -overlay "$VERIF/build/ov/B.json" -o "$VERIF/build/vcheckB-race" ./cmd/vcheck )
echo "setup ok"
