#!/bin/bash
# Runs /repo's test suite with the verif guard OFF and compares with /root/.vp/BASELINE.json stable_pass.
# usage: bin/baseline.sh [repo-dir]
REPO="${1:-/repo}"
OUT=$(mktemp /tmp/baseline.XXXXXX.json)
( cd "$REPO" && GOFLAGS=-mod=mod GOPROXY=off go test -json -vet=off -count=1 -timeout 25m ./... > "$OUT" 2>/dev/null )
python3 - "$OUT" <<'PY'
import json,sys
passed=set()
failed=set()
for l in open(sys.argv[1]):
    try: e=json.loads(l)
    except Exception: continue
    if e.get("Test") and e.get("Action") in("pass","fail"):
        (passed if e["Action"]=="pass" else failed).add(e["Package"]+"::"+e["Test"])
base=json.load(open("/root/.vp/BASELINE.json"))["stable_pass"]
missing=[t for t in base if t not in passed]
print(f"baseline: {len(base)} stable tests, {len(base)-len(missing)} pass, {len(missing)} missing/failing; other failing: {sorted(failed-set(base))[:5]}")
for t in missing[:20]: print("  NOT PASSING:", t)
sys.exit(1 if missing else 0)
PY
rc=$?
rm -f "$OUT"
exit $rc
