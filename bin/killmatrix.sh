#!/bin/bash
# usage: bin/killmatrix.sh [name-prefix...]  — run every seeded change (seeded/<name>/patch.diff) against
# its own property's quick check and the cross-checks listed below; writes kills/<name>.txt.
# /repo must be clean; each patch is applied, checked and reverted (trap-protected by seedrun.sh).
VERIF="$(cd "$(dirname "$0")/.." && pwd)"; cd "$VERIF"; mkdir -p kills
declare -A EXTRA=( [C03]="C05" [C12]="C21" [C08]="C02" [C33]="C21" [C17]="C02" [C13]="C10" [C01]="C02" [C21]="C12" [C02]="C01 C05" [C04]="C18 C02" [C05]="C06" [C06]="C07" [C07]="C06" [C16]="C17" [C19]="C20 C36 C14" [C20]="C19" [C32]="C05" [C10]="C11 C21" [C14]="C15" [C15]="C14" [C18]="C10 C17" )
for d in seeded/*/; do
  n=$(basename $d); id=${n%%-*}
  if [ $# -gt 0 ]; then m=0; for p in "$@"; do [[ $n == $p* ]] && m=1; done; [ $m = 1 ] || continue; fi
  ids="$id ${EXTRA[$id]:-}"
  echo "### $n -> $ids"
  timeout 3600 bin/seedrun.sh $n quick $ids > kills/$n.txt 2>&1
  grep -cE "^VIOLATION" kills/$n.txt
  rm -rf replays
done
