NOT_YET = {}
CLAIMS["C36"] = dict(level="model_checking", engine="sched",
    technique="explicit-state enumeration of all operation histories up to a depth bound against a reference LRU + exhaustive schedule enumeration (controlled scheduler, preemption-bounded / happens-before pruned) with brute-force linearizability check",
    text="Every Put/Put-nil/Get history over 3 keys x 2 values up to depth 6 (8 thorough) per capacity is executed on the real cache and compared step by step (results, recency order, size) with a reference LRU; every schedule of 3 threads x 2 ops (2 x 3 thorough) from a collision-forcing program menu is enumerated on the real cache and the recorded call/return history must have a linearization.",
    note="Scheduling points are the cache's mutex operations; unsynchronised accesses are not interleaved (separate -race pass). Reference LRU and the op alphabet are trusted.")
CLAIMS["C02"] = dict(level="exploration",
    technique="exhaustive enumeration of a bounded configuration/spec grid (IDs x Config deviations, generated custom specs, fingerprinted copies, every GREASE-ECH payload length) judged by an independent strict ClientHello parser",
    text="Every discovered ClientHelloID, every generated custom spec (singletons, ordered pairs, everything-once), every fingerprinted copy under all 8 Fingerprinter flag sets, every GREASE-ECH capture payload length 0..300 and enumerated randomized seeds are built under bounded Config deviations; the first flight must parse under a strict RFC-grammar parser or an error must have been returned.",
    note="Strict parser (mc/wire) trusted; unknown extension types opaque; values below an RFC minimum (empty lists) are observed, not judged; value menu per extension type is finite.")
CLAIMS["C05"] = dict(level="exploration",
    technique="exhaustive enumeration of the padding functions' domains and of padded parrots x every SNI length 0..255 x extension-placement variants against a reference padding rule",
    text="BoringPaddingStyle on every length 0..70000 and AlwaysPadToLen on [0,1100]^2 are compared with a reference rule; every padded parrot is built for every SNI length 0..255 in 4 variants (extra extension after/before padding, non-empty PSK after padding) and the wire hello must follow the rule; every padded capture is fingerprinted (4 flag sets) and re-applied with a same-length name and must reproduce the captured length.",
    note="Unpadded length measured as BoringSSL does (handshake message incl. 4-byte header, minus the padding extension); strict parser trusted.")
CLAIMS["C04"] = dict(level="exploration",
    technique="exhaustive enumeration of GREASE generator inputs (all 65536 seed words; every byte value per entropy position via scripted crypto/rand) and of on-wire hellos under all 256 forced (ext1,ext2) seed nibble pairs",
    text="All GREASE generators are run over their complete or boundary-complete entropy domains with predicates written from the RFC text; every ID (direct and fingerprinted copy) is built on 4 connections with pinned GREASE seed words covering all 256 (ext1,ext2) nibble pairs, checking placeholder counts, ext1!=ext2, key_share GREASE == supported_groups GREASE, variation across and determinism within a connection's entropy.",
    note="Freshness is decided as dependence on the connection's entropy (Config.Rand / crypto/rand scripted); GetGREASEID draws use a 6-value byte menu per position.")
CLAIMS["C08"] = dict(level="exploration",
    technique="exhaustive enumeration of every built-in extension type x value-variant table x every buffer size 0..Len()+16, with encode/decode/re-encode comparison modulo the documented normalisations",
    text="For each extension type and each in-limit value variant, Read is run on every buffer size from 0 to Len()+16 (ErrShortBuffer with 0 bytes below Len, exact count and canary above), the body is checked against the strict per-type grammar, and for Writer types Write(Read()) followed by Read is compared modulo exactly the normalisations the property lists.",
    note="Finite value table per type (mc/props/c08.go); buffers are zero-initialised as utls's own marshal path provides them (an encoder that relies on that is not flagged); binder sizes restricted to hash sizes utls accepts.")
CLAIMS["C24"] = dict(level="exploration",
    technique="exhaustive enumeration of varint values ([0,2^20], all 2^k+-2, byte patterns) x widths and of all ordered transport-parameter lists up to length 2 (3) against an independent RFC 9000 codec",
    text="Append/Len/Read/AppendWithLen are compared with an independent codec on every enumerated value and width (minimality, exact width, inverse, panic instead of truncation); every ordered parameter list up to the length bound over a menu of every parameter type is marshaled, parsed by an independent parser and compared entry by entry and byte by byte.",
    note="The 62-bit value space is covered at boundaries and byte patterns, not symbolically; GREASE parameter entropy is scripted.")
CLAIMS["C30"] = dict(level="model_checking", engine="sched",
    technique="exhaustive schedule enumeration (controlled scheduler, preemption-bounded / happens-before pruned) of concurrent draws on one PRNG + exhaustive enumeration of seeds/ranges against an independent SHAKE256; separate free-running -race pass",
    text="256 seeds x salts are compared with an independent SHAKE256(seed) under different chunkings; helper ranges are enumerated over boundary-complete argument grids; every schedule of 3 threads x 2 draws over a program menu is enumerated on one prng and the chunks handed out must partition the sequential stream; the same bodies run free under the race detector.",
    note="Scheduling points are the prng mutex operations; accesses that bypass the mutex are only visible to the (sampled) -race pass.")
CLAIMS["C27"] = dict(level="exploration",
    technique="exhaustive enumeration of all 65536 suite ids x versions x secret patterns (before and after EnableWeakCiphers) against an independent support table, with bidirectional payload exchange on every supported pair",
    text="Every suite id at TLS 1.0/1.1/1.2 with three secret/random patterns is forged as client and server: ids valid for the version (per a table built from the standard library plus utls's extra code points) must give two non-nil connections that exchange 1/100/16384/20000-byte payloads both ways; unknown ids must give nil.",
    note="Reference support table derived from stdlib crypto/tls; a suite at a version it is not valid for is not judged.")
CLAIMS["C10"] = dict(level="exploration",
    technique="exhaustive enumeration of a client x server-configuration grid (deviation-bounded pairs in quick, full product in thorough) with server choices restricted by a small negotiation model to values the on-wire hello offers",
    text="Every discovered ID, enumerated randomized seeds, custom specs and fingerprinted copies are handshaken against every server configuration (version, pinned group incl. HRR-forcing ones, pinned TLS 1.2 suite, certificate kind, ALPN) that the parsed on-wire hello offers; the handshake must complete on both sides and 1 KiB must echo both ways.",
    note="Peer is utls's own Server; TLS 1.3 suite selection is not pinned; who aborted is classified from error texts; negotiation model (mc/props/grid.go) trusted.")
CLAIMS["C18"] = dict(level="exploration",
    technique="exhaustive enumeration of clients x every offered key-share group forced on the server x 3 connections under scripted per-connection entropy",
    text="For every client and every group its hello carries a share for, the server is pinned to that group: the handshake must succeed without HRR and echo data; share sizes are checked by the strict parser; client random, session id and every key share must be pairwise distinct across the three connections.",
    note="Freshness = non-repetition under different Config.Rand streams; QUIC's empty session id is covered by C23.")
CLAIMS["C11"] = dict(level="exploration",
    technique="exhaustive enumeration of the handshake grid x SNI modes x client-auth, comparing both ends' ConnectionState and 27 exporter triples per successful handshake",
    text="Every successful handshake of the client x server-choice grid (plus SNI removed / IP literal / empty name, and a server requesting a client certificate) has its two ConnectionStates compared field by field, the reported server name compared with the SNI parsed from the wire, and ExportKeyingMaterial compared for 27 (label, context, length) triples.",
    note="One-sided exporter refusals accepted only for the two documented reasons; labels up to 240 bytes (the TLS 1.3 HKDF label limit).")
CLAIMS["C28"] = dict(level="exploration",
    technique="exhaustive enumeration of AEAD suites x lengths x sequence positions x call patterns on real connections, comparing keystream XOR plaintext with the captured next record",
    text="For 8 AEAD suites, every n in {0..64,255,256,1000,16384}, 4 sequence positions and 3 call patterns, GetOutKeystream(n) XOR the next plaintext must equal the ciphertext of the next application-data record after the explicit nonce, and the peer must receive exactly what was sent afterwards.",
    note="Suite pinned via a custom single-suite spec; dynamic record sizing disabled so that one write is one record.")
CLAIMS["C35"] = dict(level="exploration",
    technique="exhaustive single-bit/truncation mutation of tickets over a captured SessionState corpus x key sets, and exhaustive enumeration of key-rotation / clock histories against a reference key-validity model",
    text="Real SessionStates (TLS 1.2 with/without EMS, TLS 1.3, with/without client certificates, Extra variants) are sealed and opened under 1-3 keys (must serialise identically); every bit flip, truncation and extension of the ticket must yield no state; every bounded history of explicit rotations and of clock advances under auto-managed keys is compared with a reference model of which keys are still configured; TicketKeyFromBytes is compared with installed keys on all single-byte-set inputs.",
    note="Reference model of auto rotation derived from the documented 24h rotation / 7d lifetime; forged-session resumption is covered by C20.")
CLAIMS["C31"] = dict(level="exploration",
    technique="reflection-driven exhaustive enumeration of field patterns (zero, one-hot, empty-slice, all-set, pairs) through public->private->public conversions, plus byte round trips of the whole hello corpus",
    text="Every field of every public view type is set alone (and empty, and with every other field in thorough) and converted to the internal form and back with deep comparison; every corpus ClientHello (all IDs, custom specs, variants with spliced-in empty/boundary extensions) must satisfy Unmarshal.Marshal == input and parse/clear-Raw/marshal/parse field equality.",
    note="Fields without counterpart by design are listed in inpkg/roundtrip.go (cachedPrivateHello; deprecated CertificateRequestMsgTLS13.Raw; FinishedHash.Prf/Prfv2 wrapper closures).")
CLAIMS["C32"] = dict(level="exploration",
    technique="exhaustive enumeration of every dicttls table entry (value->name->value) and of the hello corpus rendered to JSON, comparing JSON import with raw import",
    text="Every entry of every value-indexed dictionary with a name-indexed sibling (discovered from the sources at check time) must resolve back to itself; every corpus ClientHello the JSON format can describe is rendered with the value-indexed tables, imported, applied and built, and must equal (normalised) the hello built from the raw-bytes import of the same bytes.",
    note="Harness JSON renderer written from the documented format; non-representable hellos (ECH GREASE, cookie, QUIC params, unnamed code points) are counted, not judged.")
CLAIMS["C06"] = dict(level="exploration",
    technique="exhaustive enumeration of source hellos (all IDs, seeds, generated custom specs, resumption shapes) x all 8 Fingerprinter flag sets through fingerprint -> apply -> build, compared in a normal form, plus a second round for idempotence",
    text="Every source hello is fingerprinted under every flag combination, re-applied with a different same-length server name and rebuilt; the normalised hello (GREASE and per-connection material masked, sizes kept) and the total length must equal the source, and fingerprinting the regenerated hello must reproduce it again.",
    note="Allowed differences: error without AllowBluntMimicry, padding appended under AlwaysAddPadding, PSK dropped under RealPSKResumption; sources with an empty-but-present extensions block are excluded (not representable).")
CLAIMS["C03"] = dict(level="exploration",
    technique="exhaustive enumeration of predefined parrots x SNI shapes x connections against an independent reference encoder of the parrot's ClientHelloSpec",
    text="For every predefined parrot the wire hello is compared with a reference encoding (written from the RFCs) of a second UTLSIdToSpec call: legacy version, suites, compression, extension sequence (multiset and fixed positions for shuffling parrots) and every extension body, per-connection material masked.",
    note="Shuffle permutations are observed over enumerated connections rather than enumerated decision by decision; padding presence is C05's subject.")
CLAIMS["C01"] = dict(level="model_checking",
    technique="exhaustive enumeration of all mutator sequences up to depth 2 (3) between BuildHandshakeState and Handshake x clients x {plain, HRR} servers on the real client, comparing wire bytes with Hello.Raw at first write and after the handshake",
    text="Every sequence of documented mutators up to the depth bound is applied to every non-Golang client; the first ClientHello on the wire must equal Hello.Raw read at the first write, the last edit of each field must be visible to the strict parser, and after Handshake Hello.Raw must equal the last ClientHello sent (the second after an HRR).",
    note="Mutator alphabet of 10 operations; states = (client, hello shape after the edits); the real code is executed for every sequence (no separate model).")
CLAIMS["C14"] = dict(level="exploration",
    technique="exhaustive enumeration of the full product of verification knobs x certificate kinds x versions x {fresh, two resumption histories} x ECH {accepted, rejected} against a reference verification predicate",
    text="Every combination of client, version, certificate kind, ServerName, InsecureServerNameToVerify, InsecureSkipTimeVerify, InsecureSkipVerify and connection history (fresh; resumed after an unverified first connection; resumed after a leniently verified one) is run and its success compared with a reference predicate; failures must be CertificateVerificationError; ECH accepted/rejected paths are checked for the verification name and the error type.",
    note="Reference predicate from the Config documentation; fixture PKI and fixed clock; one known finding (not-yet-valid leaf resumed after a lenient first connection).")
CLAIMS["C25"] = dict(level="exploration",
    technique="exhaustive enumeration of every negotiable (version, suite) x traffic shapes (write sizes at record boundaries, read buffers, key-update positions) and of every single-byte flip / truncation of small records in both directions",
    text="For every (version, suite) pair the utls server negotiates, both directions, all 1-2 write sequences over boundary sizes, 4 read-buffer sizes and 5 key-update placements must deliver exactly the written bytes; every byte position of the records of a 5- and a 20-byte write is flipped (two masks) and every truncation applied, and the receiver must error and return only a prefix. Weak CBC suites are exercised on forged connections.",
    note="Single-suite custom specs pin the suite; tampering granularity is one transport write; weak CBC suites are not negotiable with any server in the sandbox.")
CLAIMS["C17"] = dict(level="exploration",
    technique="exhaustive enumeration of TLS 1.3 clients x every listed-but-unshared classical group x cookie sizes x HRR kinds (valid and four invalid forms) using a hooked, self-consistent server",
    text="For every TLS 1.3 client and every classical group it lists without a share the server is forced (verif hook) to request that group, with cookies of 0/1/32/255/1024 bytes added to the HRR before it enters the server transcript: CH2 must equal CH1 extension by extension except key_share (one fresh share of the requested group), the echoed cookie and padding, and the handshake must complete; HRRs selecting an unlisted group, an already-shared group, nothing at all, or a second HRR must be refused without another ClientHello.",
    note="Server = utls Server with hooks H1/H2; completion is required for cookie-less HRRs only (the server refuses a cookie in CH2); cookie insertion index observed, not enumerated.")
CLAIMS["C12"] = dict(level="exploration",
    technique="exhaustive enumeration of clients x unoffered-choice kinds x complement values against a hooked server that stays self-consistent where the protocol allows it",
    text="For every client and every kind of server choice (TLS 1.3 / 1.2 suite, GREASE or cross-version suite id, key-share group, ALPN, compression, PSK identity, session-id echo) each value from the complement of the on-wire offer is forced or written into the server flight; the handshake must fail, HandshakeComplete stay false, no application data flow and ConnectionState never report the value.",
    note="Suite and ALPN forcing keep the server's key schedule consistent (a client without the check would complete); byte-level ServerHello edits rely on rejection before Finished.")
CLAIMS["C13"] = dict(level="exploration",
    technique="exhaustive enumeration of clients x server version behaviours (max version, legacy_version-only negotiation, canary honest/stripped/forged) through verif hooks",
    text="Every client is run against servers with MaxVersion 1.0..1.3 that either honour supported_versions or negotiate from legacy_version only, with the downgrade canary left, stripped or forced: a completed handshake must be at a version in the advertised set parsed from the wire, and a sentinel-carrying <=1.2 ServerHello must be refused when TLS 1.3 was offered.",
    note="Server = utls Server with hooks H3/H4 (self-consistent).")
