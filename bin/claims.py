NOT_YET = {}
CLAIMS["C36"] = dict(level="model_checking", engine="sched",
    technique="explicit-state enumeration of all operation histories up to a depth bound against a reference LRU + exhaustive schedule enumeration (controlled scheduler, preemption-bounded / happens-before pruned) with brute-force linearizability check",
    text="Every Put/Put-nil/Get history over 3 keys x 2 values up to depth 6 (8 thorough) per capacity is executed on the real cache and compared step by step (results, recency order, size) with a reference LRU; every schedule of 3 threads x 2 ops (2 x 3 thorough) from a collision-forcing program menu is enumerated on the real cache and the recorded call/return history must have a linearization.",
    note="Scheduling points are the cache's mutex operations; unsynchronised accesses are not interleaved (separate -race pass). Reference LRU and the op alphabet are trusted.")
CLAIMS["C02"] = dict(level="exploration",
    technique="exhaustive enumeration of a bounded configuration/spec grid (IDs x Config deviations, generated custom specs, fingerprinted copies, every GREASE-ECH payload length) judged by an independent strict ClientHello parser",
    text="Every discovered ClientHelloID, every generated custom spec (singletons, ordered pairs, everything-once), every fingerprinted copy under all 8 Fingerprinter flag sets, every GREASE-ECH capture payload length 0..300 and enumerated randomized seeds are built under bounded Config deviations; the first flight must parse under a strict RFC-grammar parser or an error must have been returned.",
    note="Strict parser (mc/wire) trusted; unknown extension types opaque; values below an RFC minimum (empty lists) are observed, not judged; value menu per extension type is finite.")
