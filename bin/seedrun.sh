#!/bin/bash
# usage: bin/seedrun.sh <seeded-name> <tier> <ID> [ID...]   — apply seeded patch to /repo, run checks, revert.
NAME="$1"; TIER="$2"; shift 2
cd /repo && git diff --quiet || { echo "/repo dirty"; exit 2; }
trap "git -C /repo checkout -- ." EXIT INT TERM
git -C /repo apply /verif/seeded/$NAME/patch.diff || { echo 'patch does not apply'; exit 2; }
for id in "$@"; do
  echo "=== $id on seeded/$NAME"
  /verif/bin/check $id $TIER 2>&1 | grep -E "^VIOLATION|^SUMMARY|^INFRA|^KNOWN" | head -8
done
git -C /repo checkout -- . ; git -C /repo status --short | head -3
