#!/bin/bash
# usage: bin/seedrun.sh <seeded-name> <tier> <ID> [ID...]   — apply a seeded patch to the tree under test
# (/repo, or the scratch copy named by VERIF_REPO), run checks, revert (also on interruption).
VERIF="$(cd "$(dirname "$0")/.." && pwd)"; REPO="${VERIF_REPO:-/repo}"
NAME="$1"; TIER="$2"; shift 2
cd "$REPO" && git diff --quiet || { echo "$REPO dirty"; exit 2; }
trap "git -C $REPO checkout -- ." EXIT INT TERM
git -C "$REPO" apply "$VERIF/seeded/$NAME/patch.diff" || { echo 'patch does not apply'; exit 2; }
for id in "$@"; do
  echo "=== $id on seeded/$NAME"
  out=$("$VERIF/bin/check" $id $TIER 2>&1)
  echo "$out" | grep -E "^VIOLATION|^INFRA|^KNOWN" | head -8
  echo "$out" | grep -E "^SUMMARY"
done
git -C "$REPO" checkout -- . ; git -C "$REPO" status --short | head -3
