package peer

import (
	"crypto/ecdh"

	tls "github.com/refraction-networking/utls"
)

// ECHParams describe one ECH configuration.
type ECHParams struct {
	ConfigID   uint8
	AEADs      []uint16 // HPKE AEAD ids: 1 AES-128-GCM, 2 AES-256-GCM, 3 ChaCha20Poly1305
	MaxNameLen uint8
	PublicName string
	KeyLabel   string // selects the (deterministic) HPKE key pair
}

// ECH is a marshalled config with its server key.
type ECH struct {
	Config     []byte // one ECHConfig
	ConfigList []byte // ECHConfigList containing Config
	Key        tls.EncryptedClientHelloKey
}

func put16(b []byte, v int) []byte { return append(b, byte(v>>8), byte(v)) }

// MakeECH builds an ECH configuration (draft-ietf-tls-esni-18 ECHConfig, version 0xfe0d).
func MakeECH(p ECHParams) *ECH {
	if p.KeyLabel == "" {
		p.KeyLabel = "ech key"
	}
	if len(p.AEADs) == 0 {
		p.AEADs = []uint16{1, 2, 3}
	}
	priv, err := ecdh.X25519().GenerateKey(newDetRand(p.KeyLabel))
	if err != nil {
		panic(err)
	}
	pub := priv.PublicKey().Bytes()
	var c []byte
	c = append(c, p.ConfigID)
	c = put16(c, 0x0020) // DHKEM(X25519, HKDF-SHA256)
	c = put16(c, len(pub))
	c = append(c, pub...)
	c = put16(c, 4*len(p.AEADs))
	for _, a := range p.AEADs {
		c = put16(c, 0x0001) // HKDF-SHA256
		c = put16(c, int(a))
	}
	c = append(c, p.MaxNameLen)
	c = append(c, byte(len(p.PublicName)))
	c = append(c, p.PublicName...)
	c = put16(c, 0) // extensions
	var cfg []byte
	cfg = put16(cfg, 0xfe0d)
	cfg = put16(cfg, len(c))
	cfg = append(cfg, c...)
	var list []byte
	list = put16(list, len(cfg))
	list = append(list, cfg...)
	return &ECH{Config: cfg, ConfigList: list, Key: tls.EncryptedClientHelloKey{Config: cfg, PrivateKey: priv.Bytes(), SendAsRetry: true}}
}
