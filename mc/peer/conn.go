// Package peer provides the in-memory transport, certificate fixtures and handshake runner used
// by the sequential (non-scheduler) scenarios.
package peer

import (
	"errors"
	"io"
	"net"
	"sync"
	"time"
)

// ErrStalled is returned by Read when both endpoints wait for each other with empty buffers
// (decided structurally, not by a timer).
var ErrStalled = errors.New("peer: stalled: both endpoints are waiting to read and no bytes are in flight")

type pair struct {
	mu      sync.Mutex
	cond    *sync.Cond
	stalled bool
}

// Endpoint is one side of an in-memory duplex connection. Writes never block and are recorded.
type Endpoint struct {
	p        *pair
	other    *Endpoint
	name     string
	in       []byte
	closed   bool // this side closed
	eof      bool // peer closed: EOF after draining
	waiting  bool // a goroutine is blocked in Read
	idle     bool // the goroutine driving this endpoint has finished for good
	Writes   [][]byte
	OnWrite  func(n int, b []byte) // called (under no lock) before the n-th write is delivered
	ReadHook func()
	// Transform, if set, may rewrite or drop outgoing bytes (used for tampering).
	Transform func(n int, b []byte) []byte
	nwrites   int
	MaxRead   int // if > 0, Read returns at most this many bytes (chunked delivery)
	// FailWrites, once set, makes every Write return an error (the peer reset the connection)
	FailWrites bool
}

// Pipe returns two connected endpoints (client, server).
func Pipe() (*Endpoint, *Endpoint) {
	p := &pair{}
	p.cond = sync.NewCond(&p.mu)
	a := &Endpoint{p: p, name: "client"}
	b := &Endpoint{p: p, name: "server"}
	a.other, b.other = b, a
	return a, b
}

func (e *Endpoint) Read(b []byte) (int, error) {
	if e.ReadHook != nil {
		e.ReadHook()
	}
	e.p.mu.Lock()
	defer e.p.mu.Unlock()
	for len(e.in) == 0 {
		if e.closed {
			return 0, net.ErrClosed
		}
		if e.eof {
			return 0, io.EOF
		}
		if e.p.stalled {
			return 0, ErrStalled
		}
		if e.other.idle || (e.other.waiting && len(e.other.in) == 0) {
			e.p.stalled = true
			e.p.cond.Broadcast()
			return 0, ErrStalled
		}
		e.waiting = true
		e.p.cond.Wait()
		e.waiting = false
	}
	n := len(b)
	if e.MaxRead > 0 && n > e.MaxRead {
		n = e.MaxRead
	}
	n = copy(b[:n], e.in)
	e.in = e.in[n:]
	return n, nil
}

func (e *Endpoint) Write(b []byte) (int, error) {
	e.p.mu.Lock()
	if e.closed {
		e.p.mu.Unlock()
		return 0, net.ErrClosed
	}
	if e.FailWrites {
		e.p.mu.Unlock()
		return 0, errors.New("peer: write: connection reset by peer")
	}
	n := e.nwrites
	e.nwrites++
	e.p.mu.Unlock()
	if e.OnWrite != nil {
		e.OnWrite(n, b)
	}
	c := append([]byte(nil), b...)
	out := c
	if e.Transform != nil {
		out = e.Transform(n, append([]byte(nil), b...))
	}
	e.p.mu.Lock()
	e.Writes = append(e.Writes, c)
	if !e.other.closed && out != nil {
		e.other.in = append(e.other.in, out...)
	}
	e.p.cond.Broadcast()
	e.p.mu.Unlock()
	return len(b), nil
}

// Inject appends bytes to this endpoint's inbound buffer as if the peer had written them.
func (e *Endpoint) Inject(b []byte) {
	e.p.mu.Lock()
	e.in = append(e.in, b...)
	e.p.cond.Broadcast()
	e.p.mu.Unlock()
}

func (e *Endpoint) Close() error {
	e.p.mu.Lock()
	defer e.p.mu.Unlock()
	if e.closed {
		return nil
	}
	e.closed = true
	e.other.eof = true
	e.p.cond.Broadcast()
	return nil
}

// SetIdle marks that the goroutine driving this endpoint will never read or write again.
func (e *Endpoint) SetIdle() {
	e.p.mu.Lock()
	e.idle = true
	if e.other.waiting && len(e.other.in) == 0 && !e.other.eof && !e.other.closed {
		e.p.stalled = true
	}
	e.p.cond.Broadcast()
	e.p.mu.Unlock()
}

// SetIdleTemp marks/unmarks the OTHER side as having nothing more to send for now, so that a
// Read on this endpoint with an empty buffer reports ErrStalled instead of blocking (used by
// single-goroutine exchanges: write on one end, then read on the other).
func (e *Endpoint) SetIdleTemp(on bool) {
	e.p.mu.Lock()
	e.other.idle = on
	if !on {
		e.p.stalled = false
	}
	e.p.mu.Unlock()
}

// Closed reports whether this side was closed.
func (e *Endpoint) Closed() bool {
	e.p.mu.Lock()
	defer e.p.mu.Unlock()
	return e.closed
}

// AllWritten returns the concatenation of everything written so far.
func (e *Endpoint) AllWritten() []byte {
	e.p.mu.Lock()
	defer e.p.mu.Unlock()
	var out []byte
	for _, w := range e.Writes {
		out = append(out, w...)
	}
	return out
}

// WriteCount returns the number of Write calls so far.
func (e *Endpoint) WriteCount() int {
	e.p.mu.Lock()
	defer e.p.mu.Unlock()
	return len(e.Writes)
}

type addr string

func (a addr) Network() string { return "mem" }
func (a addr) String() string  { return string(a) }

func (e *Endpoint) LocalAddr() net.Addr                { return addr(e.name) }
func (e *Endpoint) RemoteAddr() net.Addr               { return addr(e.other.name) }
func (e *Endpoint) SetDeadline(t time.Time) error      { return nil }
func (e *Endpoint) SetReadDeadline(t time.Time) error  { return nil }
func (e *Endpoint) SetWriteDeadline(t time.Time) error { return nil }
