package peer

import (
	"bytes"
	"fmt"
	"io"
	"runtime/debug"

	tls "github.com/refraction-networking/utls"
)

// HS is one client/server handshake over an in-memory pipe.
type HS struct {
	U        *tls.UConn
	S        *tls.Conn
	CE, SE   *Endpoint
	CErr     error
	SErr     error
	CPanic   string
	SPanic   string
	PrepErr  error
	Info     *tls.ClientHelloInfo // what the server saw (GetConfigForClient)
	done     chan struct{}
	shsDone  chan struct{} // closed when the server's Handshake call has returned (SErr is then set)
	EchoOK   bool
	EchoErr  error
	finished bool
}

// Opts tune Run.
type Opts struct {
	// Prepare runs after UClient and before Handshake (e.g. ApplyPreset, BuildHandshakeState, mutators).
	Prepare func(u *tls.UConn) error
	// Echo: after a successful handshake the client sends EchoLen bytes, the server echoes them
	// back plus its own banner, and the client verifies both directions.
	Echo    bool
	EchoLen int
	// KeepOpen leaves the connection open after Run (caller must call Finish).
	KeepOpen bool
	// ServerAfter runs in the server goroutine after a successful server handshake instead of the echo loop.
	ServerAfter func(s *tls.Conn) error
	// ClientConn lets the caller wrap the client's endpoint.
	WrapClient func(e *Endpoint)
	WrapServer func(e *Endpoint)
	// Server, if set, builds the server side (default tls.Server).
	MakeClient func(e *Endpoint, cfg *tls.Config, id tls.ClientHelloID) *tls.UConn
	// OnConns is called with both connection objects before any handshake step (hook registration).
	OnConns func(u *tls.UConn, s *tls.Conn)
	// Start: how the client gets the handshake going: "" = Handshake(); "read" = a Read (needs Echo:
	// the server's banner is what it reads); "write" = the first Write of the echo exchange.
	Start string
}

// Run performs one handshake (and optionally an echo round trip).
func Run(ccfg *tls.Config, id tls.ClientHelloID, scfg *tls.Config, o Opts) (h *HS) {
	ce, se := Pipe()
	h = &HS{CE: ce, SE: se, done: make(chan struct{}), shsDone: make(chan struct{})}
	if o.WrapClient != nil {
		o.WrapClient(ce)
	}
	if o.WrapServer != nil {
		o.WrapServer(se)
	}
	// capture ClientHelloInfo without disturbing a caller-provided GetConfigForClient
	sc := scfg.Clone()
	orig := scfg.GetConfigForClient
	sc.GetConfigForClient = func(chi *tls.ClientHelloInfo) (*tls.Config, error) {
		cp := *chi
		h.Info = &cp
		if orig != nil {
			return orig(chi)
		}
		return nil, nil
	}
	if o.MakeClient != nil {
		h.U = o.MakeClient(ce, ccfg, id)
	} else {
		h.U = tls.UClient(ce, ccfg, id)
	}
	h.S = tls.Server(se, sc)
	if o.OnConns != nil {
		o.OnConns(h.U, h.S)
	}

	go func() {
		defer close(h.done)
		defer se.SetIdle()
		defer func() {
			if e := recover(); e != nil {
				h.SPanic = fmt.Sprintf("%v\n%s", e, debug.Stack())
				se.Close()
			}
		}()
		func() {
			defer close(h.shsDone) // also when Handshake panics
			h.SErr = h.S.Handshake()
		}()
		if h.SErr != nil {
			se.Close()
			return
		}
		if o.ServerAfter != nil {
			if err := o.ServerAfter(h.S); err != nil && h.SErr == nil {
				h.SErr = err
			}
			return
		}
		// echo loop: banner first, then echo everything until the client goes away
		if o.Echo {
			if _, err := h.S.Write([]byte("server-banner:")); err != nil {
				return
			}
		}
		buf := make([]byte, 32768)
		for {
			n, err := h.S.Read(buf)
			if n > 0 && o.Echo {
				if _, werr := h.S.Write(buf[:n]); werr != nil {
					return
				}
			}
			if err != nil {
				return
			}
		}
	}()

	func() {
		defer func() {
			if e := recover(); e != nil {
				h.CPanic = fmt.Sprintf("%v\n%s", e, debug.Stack())
				ce.Close()
			}
		}()
		if o.Prepare != nil {
			if h.PrepErr = o.Prepare(h.U); h.PrepErr != nil {
				h.CErr = h.PrepErr
				ce.Close()
				return
			}
		}
		banner := []byte("server-banner:")
		bannerRead := false
		switch {
		case o.Start == "read" && o.Echo:
			got := make([]byte, len(banner))
			if _, h.CErr = io.ReadFull(h.U, got); h.CErr == nil && !bytes.Equal(got, banner) {
				h.CErr = fmt.Errorf("peer: banner mismatch")
			}
			bannerRead = true
		case o.Start == "write" && o.Echo:
			// the echo exchange below starts with a Write
		default:
			h.CErr = h.U.Handshake()
		}
		if h.CErr != nil {
			ce.Close()
			return
		}
		if o.Echo {
			n := o.EchoLen
			if n == 0 {
				n = 1024
			}
			msg := make([]byte, n)
			for i := range msg {
				msg[i] = byte(i*7 + 3)
			}
			if _, err := h.U.Write(msg); err != nil {
				h.EchoErr = fmt.Errorf("client write: %w", err)
				if o.Start == "write" && !h.U.ConnectionState().HandshakeComplete {
					h.CErr = err // the handshake itself failed inside Write
					ce.Close()
				}
				return
			}
			want := append([]byte("server-banner:"), msg...)
			if bannerRead {
				want = msg
			}
			got := make([]byte, len(want))
			if _, err := io.ReadFull(h.U, got); err != nil {
				h.EchoErr = fmt.Errorf("client read: %w", err)
				return
			}
			if !bytes.Equal(got, want) {
				h.EchoErr = fmt.Errorf("echo mismatch")
				return
			}
			h.EchoOK = true
		}
	}()
	if !o.KeepOpen {
		h.Finish()
	} else {
		// the caller goes on using the connection and reads SErr: wait until the server's Handshake
		// has returned (it has, or does at once, when the client's did; after a client error the
		// client end was closed above, which ends it too)
		<-h.shsDone
	}
	return h
}

// Finish closes the client side and waits for the server goroutine.
func (h *HS) Finish() {
	if h.finished {
		return
	}
	h.finished = true
	func() {
		defer func() { recover() }()
		h.U.Close()
	}()
	h.CE.Close()
	<-h.done
}

// OK reports a fully successful handshake on both sides.
func (h *HS) OK() bool {
	return h.CErr == nil && h.SErr == nil && h.CPanic == "" && h.SPanic == ""
}

// ClientHelloMsgs returns the ClientHello handshake messages found in the client's plaintext
// flight (one, or two after a HelloRetryRequest), reassembled from the records written before
// the first non-handshake, non-CCS record.
func ClientHelloMsgs(stream []byte) [][]byte {
	var msgs [][]byte
	var buf []byte
	off := 0
	for off+5 <= len(stream) {
		t := stream[off]
		n := int(stream[off+3])<<8 | int(stream[off+4])
		if off+5+n > len(stream) {
			break
		}
		p := stream[off+5 : off+5+n]
		off += 5 + n
		if t == 20 { // CCS (middlebox compatibility)
			continue
		}
		if t != 22 {
			break
		}
		buf = append(buf, p...)
		for len(buf) >= 4 {
			l := int(buf[1])<<16 | int(buf[2])<<8 | int(buf[3])
			if len(buf) < 4+l {
				break
			}
			if buf[0] == 1 {
				msgs = append(msgs, append([]byte(nil), buf[:4+l]...))
			} else {
				return msgs
			}
			buf = buf[4+l:]
		}
	}
	return msgs
}
