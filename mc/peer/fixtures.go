package peer

import (
	"crypto"
	"crypto/ecdsa"
	"crypto/ed25519"
	"crypto/elliptic"
	"crypto/rsa"
	"crypto/sha256"
	"crypto/x509"
	"crypto/x509/pkix"
	"io"
	"math/big"
	"net"
	"sync"
	"time"

	tls "github.com/refraction-networking/utls"
)

// Now is the fixed clock of every scenario.
var Now = time.Date(2026, 1, 15, 12, 0, 0, 0, time.UTC)

func FixedTime() time.Time { return Now }

// detRand is a deterministic byte stream (SHA-256 in counter mode) used for key generation only.
type detRand struct {
	seed [32]byte
	ctr  uint64
	buf  []byte
}

func newDetRand(label string) *detRand { return &detRand{seed: sha256.Sum256([]byte(label))} }
func (d *detRand) Read(p []byte) (int, error) {
	for i := range p {
		if len(d.buf) == 0 {
			var c [40]byte
			copy(c[:], d.seed[:])
			for j := 0; j < 8; j++ {
				c[32+j] = byte(d.ctr >> (8 * j))
			}
			d.ctr++
			s := sha256.Sum256(c[:])
			d.buf = s[:]
		}
		p[i] = d.buf[0]
		d.buf = d.buf[1:]
	}
	return len(p), nil
}

// Fixtures holds the harness PKI.
type Fixtures struct {
	Roots        *x509.CertPool
	CACert       *x509.Certificate
	caKey        *ecdsa.PrivateKey
	ECDSA        tls.Certificate // valid, names below
	RSA          tls.Certificate
	Ed25519      tls.Certificate
	WrongName    tls.Certificate // valid chain, name other.invalid only
	Untrusted    tls.Certificate // right names, signed by a CA not in Roots
	Expired      tls.Certificate
	NotYet       tls.Certificate
	Public       tls.Certificate // valid only for public.example (ECH public name)
	Chain3       tls.Certificate // leaf + 2 extra certs in the chain (bigger Certificate message)
	LongLived    tls.Certificate // valid for the CA's whole lifetime (scenarios that cannot fix the clock: Roller)
	LongLivedRSA tls.Certificate
}

// Names every "valid" leaf covers.
var Names = []string{"example.com", "a.example", "b.example", "secret.example", "*.wild.example"}

var (
	fixOnce sync.Once
	fix     *Fixtures
)

// Fix returns the process-wide fixtures.
func Fix() *Fixtures {
	fixOnce.Do(func() { fix = build() })
	return fix
}

func mkCA(label string) (*x509.Certificate, *ecdsa.PrivateKey) {
	k, err := ecdsa.GenerateKey(elliptic.P256(), newDetRand(label))
	if err != nil {
		panic(err)
	}
	t := &x509.Certificate{
		SerialNumber: big.NewInt(1), Subject: pkix.Name{CommonName: label},
		NotBefore: Now.AddDate(-5, 0, 0), NotAfter: Now.AddDate(10, 0, 0),
		IsCA: true, BasicConstraintsValid: true, KeyUsage: x509.KeyUsageCertSign | x509.KeyUsageDigitalSignature,
	}
	der, err := x509.CreateCertificate(newDetRand(label+"sig"), t, t, &k.PublicKey, k)
	if err != nil {
		panic(err)
	}
	c, _ := x509.ParseCertificate(der)
	return c, k
}

func leaf(ca *x509.Certificate, caKey *ecdsa.PrivateKey, label string, pub crypto.PublicKey, priv crypto.PrivateKey, names []string, nb, na time.Time, extra ...[]byte) tls.Certificate {
	t := &x509.Certificate{
		SerialNumber: new(big.Int).SetBytes(sha256.New().Sum([]byte(label))[:8]), Subject: pkix.Name{CommonName: label},
		NotBefore: nb, NotAfter: na, KeyUsage: x509.KeyUsageDigitalSignature | x509.KeyUsageKeyEncipherment,
		ExtKeyUsage: []x509.ExtKeyUsage{x509.ExtKeyUsageServerAuth}, BasicConstraintsValid: true,
		DNSNames:    names,
		IPAddresses: []net.IP{net.ParseIP("1.2.3.4"), net.ParseIP("::1")},
	}
	if len(names) == 1 && names[0] != "example.com" {
		t.IPAddresses = nil
	}
	der, err := x509.CreateCertificate(newDetRand(label+"sig"), t, ca, pub, caKey)
	if err != nil {
		panic(err)
	}
	l, _ := x509.ParseCertificate(der)
	chain := [][]byte{der}
	chain = append(chain, extra...)
	return tls.Certificate{Certificate: chain, PrivateKey: priv, Leaf: l}
}

func build() *Fixtures {
	f := &Fixtures{}
	f.CACert, f.caKey = mkCA("verif harness CA")
	f.Roots = x509.NewCertPool()
	f.Roots.AddCert(f.CACert)
	nb, na := Now.AddDate(-1, 0, 0), Now.AddDate(1, 0, 0)

	ek, _ := ecdsa.GenerateKey(elliptic.P256(), newDetRand("ecdsa leaf"))
	f.ECDSA = leaf(f.CACert, f.caKey, "ecdsa leaf", &ek.PublicKey, ek, Names, nb, na)
	rk, err := rsa.GenerateKey(nonDet{newDetRand("rsa leaf")}, 2048)
	if err != nil {
		panic(err)
	}
	f.RSA = leaf(f.CACert, f.caKey, "rsa leaf", &rk.PublicKey, rk, Names, nb, na)
	edPub, edPriv, _ := ed25519.GenerateKey(newDetRand("ed leaf"))
	f.Ed25519 = leaf(f.CACert, f.caKey, "ed leaf", edPub, edPriv, Names, nb, na)

	f.WrongName = leaf(f.CACert, f.caKey, "wrong name", &ek.PublicKey, ek, []string{"other.invalid"}, nb, na)
	oca, okey := mkCA("some other CA")
	f.Untrusted = leaf(oca, okey, "untrusted", &ek.PublicKey, ek, Names, nb, na)
	f.Expired = leaf(f.CACert, f.caKey, "expired", &ek.PublicKey, ek, Names, Now.AddDate(-2, 0, 0), Now.AddDate(0, 0, -10))
	f.NotYet = leaf(f.CACert, f.caKey, "not yet", &ek.PublicKey, ek, Names, Now.AddDate(0, 0, 10), Now.AddDate(2, 0, 0))
	f.Public = leaf(f.CACert, f.caKey, "public", &ek.PublicKey, ek, []string{"public.example"}, nb, na)
	f.Chain3 = leaf(f.CACert, f.caKey, "chain3", &ek.PublicKey, ek, Names, nb, na, f.CACert.Raw, oca.Raw)
	f.LongLived = leaf(f.CACert, f.caKey, "long lived", &ek.PublicKey, ek, Names, Now.AddDate(-5, 0, 0), Now.AddDate(10, 0, 0))
	f.LongLivedRSA = leaf(f.CACert, f.caKey, "long lived rsa", &rk.PublicKey, rk, Names, Now.AddDate(-5, 0, 0), Now.AddDate(10, 0, 0))
	return f
}

// nonDet wraps a reader for rsa.GenerateKey (which may read a random number of bytes; the key is
// only a fixture, its exact value is irrelevant).
type nonDet struct{ r io.Reader }

func (n nonDet) Read(p []byte) (int, error) { return n.r.Read(p) }

// ServerConfig returns a fresh server Config with the given certificate(s) and the fixed clock.
func ServerConfig(certs ...tls.Certificate) *tls.Config {
	if len(certs) == 0 {
		certs = []tls.Certificate{Fix().ECDSA}
	}
	c := &tls.Config{
		Certificates: certs,
		Time:         FixedTime,
		MinVersion:   tls.VersionTLS10,
		MaxVersion:   tls.VersionTLS13,
	}
	// explicit ticket keys: Run clones the Config per connection, and lazily generated
	// automatic keys would differ between clones (no resumption across connections)
	var k [32]byte
	copy(k[:], "verif harness session ticket key")
	c.SetSessionTicketKeys([][32]byte{k})
	return c
}

// ClientConfig returns a fresh client Config trusting the harness CA.
func ClientConfig(serverName string) *tls.Config {
	return &tls.Config{
		ServerName: serverName,
		RootCAs:    Fix().Roots,
		Time:       FixedTime,
	}
}

// CAKey returns the harness CA's private key (for scenario-specific leafs).
func CAKey() *ecdsa.PrivateKey { return Fix().caKey }
