module verifmc

go 1.24

require (
	github.com/andybalholm/brotli v1.0.6
	github.com/klauspost/compress v1.17.4
	github.com/refraction-networking/utls v0.0.0
	golang.org/x/crypto v0.36.0
)

require golang.org/x/sys v0.31.0 // indirect

replace github.com/refraction-networking/utls => /repo
