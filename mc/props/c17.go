package props

import (
	"bytes"
	"context"
	"fmt"
	"strings"

	tls "github.com/refraction-networking/utls"

	"verifmc/explore"
	"verifmc/peer"
	"verifmc/wire"
)

// C17 — a HelloRetryRequest changes only what RFC 8446 allows.

func c17Clients(nSeeds int) []gridClient {
	var out []gridClient
	for _, g := range gridClients(nSeeds, false) {
		if g.PSK {
			continue
		}
		out = append(out, g)
	}
	// specs whose key_share list is every ordered list of <= 2 groups (hybrid ones included), so that a
	// group is requested that the hello lists next to a hybrid share carrying the same classical curve
	out = append(out, shareListClients(2)...)
	return out
}

var cookieMenu = [][]byte{nil, {0x42}, rep(0xC1, 32), rep(0xC2, 255), rep(0xC3, 1024), rep(0xC4, 4000), rep(0xC5, 16000)}

func c17Scenario(clients []gridClient) *explore.Scenario {
	return &explore.Scenario{
		Name: "hrr-valid-and-invalid",
		Run: func(x *explore.X) (r explore.Result) {
			g := clients[x.Choose("client", len(clients))]
			h0, err := g.probeHello()
			if err != nil {
				r.Obs = "no-hello"
				return
			}
			o := offerOf(h0)
			if !has16(o.versions, tls.VersionTLS13) || h0.Find(51) == nil {
				r.Obs = "not-tls13"
				return
			}
			// classical groups listed without a share
			var cand []uint16
			for _, c := range []uint16{29, 23, 24, 25} {
				if has16(o.groups, c) && !has16(o.shares, c) {
					cand = append(cand, c)
				}
			}
			kind := x.Choose("kind", 5) // 0 valid, 1 group not listed, 2 group already shared, 3 neither group nor cookie, 4 second HRR
			var grp uint16
			if kind == 1 {
				for _, c := range []uint16{25, 24, 23, 29} {
					if !has16(o.groups, c) {
						grp = c
						break
					}
				}
				if grp == 0 {
					r.Obs = "all-groups-listed"
					return
				}
			} else {
				if len(cand) == 0 {
					r.Obs = "no-hrr-candidate"
					return
				}
				grp = cand[x.Choose("group", len(cand))]
			}
			cookie := cookieMenu[x.Choose("cookie", len(cookieMenu))]
			if kind != 0 && kind != 4 && cookie != nil && kind != 3 {
				cookie = nil
			}
			if kind == 3 {
				cookie = nil
			}
			var shared uint16
			if len(o.shares) > 0 {
				shared = o.shares[len(o.shares)-1]
			}
			if kind == 2 && shared == 0 {
				r.Obs = "no-share"
				return
			}
			what := fmt.Sprintf("%s kind=%d group=%d cookie=%dB", g.Name, kind, grp, len(cookie))
			certKind := "ecdsa"
			if !offersCert(o, "ecdsa") {
				certKind = "rsa"
			}
			sc := serverChoice{Vers: tls.VersionTLS13, Cert: certKind}
			scfg := sc.config()
			hk := &connHooks{AcceptCookie: true}
			// the server's TLS 1.3 suite: its own choice, or each of the three suites when the hello offers it
			// (the transcript of a retried handshake restarts with a message_hash of the suite's hash length)
			if si := x.Choose("srv.suite13", 4); si != 0 && kind == 0 {
				want := []uint16{tls.TLS_AES_128_GCM_SHA256, tls.TLS_AES_256_GCM_SHA384, tls.TLS_CHACHA20_POLY1305_SHA256}[si-1]
				if !has16(h0.Suites, want) {
					r.Obs = "suite-not-offered"
					return
				}
				hk.Suite13 = want
				what += fmt.Sprintf(" suite=%04x", want)
			}
			hk.Groups13 = func(cg, pref []tls.CurveID) []tls.CurveID { return []tls.CurveID{tls.CurveID(grp)} }
			nHRR := 0
			hk.Out = func(n int, t uint8, data []byte) []byte {
				if t != 2 || !isHRR(data) {
					return data
				}
				nHRR++
				sp, ok := parseServerHello(data)
				if !ok {
					return data
				}
				switch kind {
				case 2:
					if e := sp.find(51); e != nil {
						e.body = []byte{byte(shared >> 8), byte(shared)}
					}
				case 3:
					var kept []shExt
					for _, e := range sp.exts {
						if e.typ != 51 {
							kept = append(kept, e)
						}
					}
					sp.exts = kept
				}
				if cookie != nil {
					sp.exts = append(sp.exts, shExt{44, append([]byte{byte(len(cookie) >> 8), byte(len(cookie))}, cookie...)})
				}
				return sp.build()
			}
			if kind == 4 {
				// a second HelloRetryRequest: the ServerHello that follows CH2 is turned into an HRR
				inner := hk.Out
				hk.Out = func(n int, t uint8, data []byte) []byte {
					if t == 2 && !isHRR(data) && nHRR == 1 {
						sp, ok := parseServerHello(data)
						if ok {
							hrrRand := []byte{0xCF, 0x21, 0xAD, 0x74, 0xE5, 0x9A, 0x61, 0x11, 0xBE, 0x1D, 0x8C, 0x02, 0x1E, 0x65, 0xB8, 0x91, 0xC2, 0xA2, 0x11, 0x16, 0x7A, 0xBB, 0x8C, 0x5E, 0x07, 0x9E, 0x09, 0xE2, 0xC8, 0xA8, 0x33, 0x9C}
							copy(sp.head[6:38], hrrRand)
							other := uint16(24)
							if grp == 24 {
								other = 23
							}
							if e := sp.find(51); e != nil {
								e.body = []byte{byte(other >> 8), byte(other)}
							}
							return sp.build()
						}
					}
					return inner(n, t, data)
				}
			}
			// environment of the connection: 0 plain; 1 the caller built the hello twice
			// (BuildHandshakeStateWithoutSession, BuildHandshakeState) before Handshake; 2 the *Config is
			// shared with a second connection of another parrot family that builds its own hello while
			// this one waits for the server's answer (UClient does not clone the Config)
			// 3 the caller removed the SNI extension with RemoveSNIExtension; 4 the caller re-sliced
			// UConn.Extensions into a list with spare capacity and appended an extension of its own
			env := x.Choose("env", 5)
			what += fmt.Sprintf(" env=%d", env)
			ccfg := g.config("example.com")
			prep := g.prepare()
			if env == 1 {
				prep = withBuildOrder(prep, 2)
			}
			if env == 3 || env == 4 {
				if isGolang(g.ID) {
					r.Obs = "n/a"
					return
				}
				inner := prep
				prep = func(u *tls.UConn) error {
					if inner != nil {
						if err := inner(u); err != nil {
							return err
						}
					}
					if err := u.BuildHandshakeState(); err != nil {
						return err
					}
					if env == 3 {
						return u.RemoveSNIExtension()
					}
					ne := make([]tls.TLSExtension, 0, len(u.Extensions)+8)
					var last tls.TLSExtension
					for i, e := range u.Extensions {
						if _, isPSK := e.(tls.PreSharedKeyExtension); isPSK && i == len(u.Extensions)-1 {
							last = e
							continue
						}
						ne = append(ne, e)
					}
					ne = append(ne, &tls.GenericExtension{Id: 0x6f6f, Data: []byte{1, 2, 3}})
					if last != nil {
						ne = append(ne, last)
					}
					u.Extensions = ne
					return nil
				}
			}
			if env == 2 {
				inner := hk.Out
				built := false
				hk.Out = func(n int, t uint8, data []byte) []byte {
					if t == 2 && !built {
						built = true
						other := tls.HelloFirefox_120
						if strings.Contains(g.Name, "Firefox") {
							other = tls.HelloChrome_120
						}
						pe, pse := peer.Pipe()
						pse.SetIdle()
						b := tls.UClient(pe, ccfg, other)
						func() {
							defer func() { recover() }()
							b.BuildHandshakeState()
						}()
						pe.Close()
					}
					return inner(n, t, data)
				}
			}
			var cleanup func()
			hs := peer.Run(ccfg, g.ID, scfg, peer.Opts{Prepare: prep, Echo: true,
				OnConns: func(u *tls.UConn, s *tls.Conn) { cleanup = installHooks(s, hk) }})
			if cleanup != nil {
				cleanup()
			}
			if hs.CPanic != "" {
				r.Violate("C17|panic", "%s: %s", what, truncStr(hs.CPanic, 300))
				return
			}
			msgs := peer.ClientHelloMsgs(hs.CE.AllWritten())
			r.Nontrivial = true
			r.Class = what
			if nHRR == 0 {
				r.Violate("INFRA|c17-no-hrr", "%s: the server did not send a HelloRetryRequest (client %v server %v)", what, hs.CErr, hs.SErr)
				return
			}
			if kind != 0 {
				// invalid HelloRetryRequests must be refused
				limit := 1
				if kind == 4 {
					limit = 2
				}
				if hs.CErr == nil {
					r.Violate(fmt.Sprintf("C17|invalid-hrr-accepted|kind=%d", kind), "%s: handshake completed", what)
				} else if len(msgs) > limit {
					r.Violate(fmt.Sprintf("C17|invalid-hrr-answered|kind=%d|shares=%v|selected=%d", kind, o.shares, map[int]uint16{1: grp, 2: shared, 3: 0, 4: 0}[kind]), "%s: the client answered an invalid HelloRetryRequest with another ClientHello (%d hellos on the wire; error afterwards: %v)", what, len(msgs), hs.CErr)
				}
				r.Obs = fmt.Sprintf("invalid-kind%d|err=%s", kind, errClass(hs.CErr))
				r.Count("invalid_hrr_cases", 1)
				return
			}
			if len(msgs) != 2 {
				r.Violate("C17|no-second-hello|"+errClass(hs.CErr), "%s: %d ClientHello(s) on the wire, client error %v", what, len(msgs), hs.CErr)
				return
			}
			h1, e1 := wire.ParseClientHello(msgs[0])
			h2, e2 := wire.CheckAll(msgs[1])
			if e1 != nil || e2 != nil {
				r.Violate("C17|second-hello-malformed|"+errClass(e2), "%s: CH1 %v / CH2 %v", what, e1, e2)
				return
			}
			if h1.LegacyVersion != h2.LegacyVersion || !bytes.Equal(h1.Random, h2.Random) || !bytes.Equal(h1.SessionID, h2.SessionID) || fmt.Sprint(h1.Suites) != fmt.Sprint(h2.Suites) || !bytes.Equal(h1.Compression, h2.Compression) {
				r.Violate("C17|fixed-fields-changed", "%s: version/random/session id/suites/compression differ between CH1 and CH2", what)
			}
			// CH2 minus cookie must be CH1 extension by extension, except key_share and padding
			var e2s []wire.Ext
			var gotCookie *wire.Ext
			for i, e := range h2.Exts {
				if e.Type == 44 {
					gotCookie = &h2.Exts[i]
					continue
				}
				e2s = append(e2s, e)
			}
			if cookie != nil {
				want := append([]byte{byte(len(cookie) >> 8), byte(len(cookie))}, cookie...)
				if gotCookie == nil {
					r.Violate("C17|cookie-not-echoed", "%s: CH2 carries no cookie extension", what)
				} else if !bytes.Equal(gotCookie.Body, want) {
					r.Violate("C17|cookie-altered", "%s: cookie echoed as %d bytes", what, len(gotCookie.Body))
				}
			} else if gotCookie != nil {
				r.Violate("C17|cookie-invented", "%s: CH2 carries a cookie although none was sent", what)
			}
			// padding may appear/disappear: compare without it
			strip := func(es []wire.Ext) []wire.Ext {
				var o []wire.Ext
				for _, e := range es {
					if e.Type != 21 {
						o = append(o, e)
					}
				}
				return o
			}
			a, b := strip(h1.Exts), strip(e2s)
			if len(a) != len(b) {
				r.Violate("C17|extension-count", "%s: CH1 has %d extensions (without padding), CH2 %d (without cookie/padding): %s vs %s", what, len(a), len(b), extTypes(h1), extTypes(h2))
			} else {
				for i := range a {
					if a[i].Type != b[i].Type {
						r.Violate("C17|extension-order", "%s: position %d: CH1 type %d, CH2 type %d", what, i, a[i].Type, b[i].Type)
						break
					}
					if a[i].Type != 51 && !bytes.Equal(a[i].Body, b[i].Body) {
						r.Violate(fmt.Sprintf("C17|extension-changed|type=%d", a[i].Type), "%s: extension %d differs between CH1 and CH2", what, a[i].Type)
					}
				}
			}
			if ks := h2.Find(51); ks != nil {
				shares, err := wire.ParseKeyShares(ks.Body)
				if err != nil || len(shares) != 1 || shares[0].Group != grp {
					r.Violate("C17|keyshare-not-exactly-requested", "%s: CH2 key_share = %v (%v), want exactly one share for group %d", what, shares, err, grp)
				} else if ks1 := h1.Find(51); ks1 != nil {
					if s1, _ := wire.ParseKeyShares(ks1.Body); s1 != nil {
						for _, s := range s1 {
							if bytes.Equal(s.Data, shares[0].Data) || (len(shares[0].Data) >= 32 && len(s.Data) > len(shares[0].Data) && bytes.Contains(s.Data, shares[0].Data)) {
								// (also as a part of a longer share: the classical half of a hybrid share)
								r.Violate("C17|keyshare-not-fresh", "%s: CH2 reuses key material of CH1", what)
							}
						}
					}
				}
			} else {
				r.Violate("C17|keyshare-missing", "%s: CH2 has no key_share", what)
			}
			// (the server's verif hook AcceptCookie makes it tolerate the echoed cookie, which entered
			// its transcript with the modified HelloRetryRequest: completion is required in every case)
			if !(hs.OK() && hs.EchoOK) {
				r.Violate(fmt.Sprintf("C17|handshake-fails-after-hrr|cookie=%d|%s", len(cookie), errClass(hs.CErr)), "%s: client %v server %v echo %v", what, hs.CErr, hs.SErr, hs.EchoErr)
			} else if cookie != nil {
				r.Count("completed_with_cookie", 1)
			}
			r.Count("valid_hrr_cases", 1)
			r.Obs = fmt.Sprintf("valid|cookie=%d|viol=%d", len(cookie), len(r.Viol))
			if len(cookie) == 32 {
				r.Sample = map[string]any{"case": what, "ch1_exts": extTypes(h1), "ch2_exts": extTypes(h2)}
			}
			return
		},
	}
}

// c17QUIC — the same rule over QUIC: a UQUICClient whose spec shares X25519 only, against the package's
// QUICServer preferring P-256. The two Initial-level ClientHellos must be identical extension by extension
// except key_share (cookie, padding) — in particular quic_transport_parameters, whose GREASE entries are
// drawn at random when the extension is first encoded.
func c17QUIC() *explore.Scenario {
	specs := c23Specs()
	withGrease := func() *tls.ClientHelloSpec {
		sp := specs[1].mk()
		for _, e := range sp.Extensions {
			if q, ok := e.(*tls.QUICTransportParametersExtension); ok {
				q.TransportParameters = tls.TransportParameters{
					tls.MaxIdleTimeout(30000), tls.InitialMaxData(15728640), tls.InitialSourceConnectionID([]byte{}),
					&tls.GREASETransportParameter{},
					&tls.VersionInformation{ChoosenVersion: 1, AvailableVersions: []uint32{tls.VERSION_GREASE, 1}, LegacyID: true},
				}
			}
		}
		return sp
	}
	type named struct {
		name string
		mk   func() *tls.ClientHelloSpec
	}
	var menu []named
	for _, sp := range specs {
		menu = append(menu, named{sp.name, sp.mk})
	}
	menu = append(menu, named{"quic-chrome-like+random-grease-parameter+VERSION_GREASE", withGrease})
	return &explore.Scenario{
		Name:    "quic-hello-retry-request",
		Workers: 1,
		Run: func(x *explore.X) (r explore.Result) {
			sp := menu[x.Choose("spec", len(menu))]
			what := fmt.Sprintf("quic spec=%s, server prefers P-256", sp.name)
			ccfg := peer.ClientConfig("example.com")
			ccfg.MinVersion = tls.VersionTLS13
			ccfg.NextProtos = []string{"h3"}
			scfg := peer.ServerConfig()
			scfg.MinVersion = tls.VersionTLS13
			scfg.NextProtos = []string{"h3"}
			scfg.CurvePreferences = []tls.CurveID{tls.CurveP256}
			srv := tls.QUICServer(&tls.QUICConfig{TLSConfig: scfg})
			srv.SetTransportParameters([]byte{0x04, 0x04, 0x80, 0x10, 0x00, 0x00})
			defer srv.Close()
			q := tls.UQUICClient(&tls.QUICConfig{TLSConfig: ccfg}, tls.HelloCustom)
			defer q.Close()
			var cerr, serr error
			done := false
			var initial [][]byte
			if pm := catch(func() {
				if cerr = q.ApplyPreset(sp.mk()); cerr != nil {
					return
				}
				if serr = srv.Start(context.Background()); serr != nil {
					return
				}
				if cerr = q.Start(context.Background()); cerr != nil {
					return
				}
				for round := 0; round < 10 && cerr == nil && serr == nil; round++ {
					progress := false
					for {
						e := q.NextEvent()
						if e.Kind == tls.QUICNoEvent {
							break
						}
						switch e.Kind {
						case tls.QUICWriteData:
							progress = true
							if e.Level == tls.QUICEncryptionLevelInitial {
								initial = append(initial, append([]byte(nil), e.Data...))
							}
							if serr = srv.HandleData(e.Level, append([]byte(nil), e.Data...)); serr != nil {
								break
							}
						case tls.QUICHandshakeDone:
							done = true
						case tls.QUICTransportParametersRequired:
							q.SetTransportParameters([]byte{})
						}
					}
					for serr == nil {
						e := srv.NextEvent()
						if e.Kind == tls.QUICNoEvent {
							break
						}
						if e.Kind == tls.QUICWriteData {
							progress = true
							if cerr = q.HandleData(e.Level, append([]byte(nil), e.Data...)); cerr != nil {
								break
							}
						}
					}
					if !progress {
						break
					}
				}
			}); pm != "" {
				r.Violate("C17|quic|panic", "%s: %s", what, truncStr(pm, 300))
				return
			}
			r.Nontrivial = true
			r.Class = what
			if len(initial) != 2 {
				// a spec that already shares P-256 is answered without a retry
				r.Obs = fmt.Sprintf("no-retry|initial-messages=%d|done=%v", len(initial), done)
				r.Count("quic_no_retry", 1)
				return
			}
			r.Count("quic_retries_compared", 1)
			h1, e1 := wire.ParseClientHello(initial[0])
			h2, e2 := wire.ParseClientHello(initial[1])
			if e1 != nil || e2 != nil {
				r.Violate("C17|quic|unparsable", "%s: %v / %v", what, e1, e2)
				return
			}
			strip := func(in []wire.Ext) (out []wire.Ext) {
				for _, e := range in {
					if e.Type != 21 && e.Type != 44 { // padding comes and goes with the length, the cookie is new
						out = append(out, e)
					}
				}
				return
			}
			x1, x2 := strip(h1.Exts), strip(h2.Exts)
			if len(x1) != len(x2) {
				r.Violate("C17|quic|extension-count", "%s: %d extensions (padding and cookie aside), then %d", what, len(x1), len(x2))
			} else {
				for i := range x1 {
					a, b := x1[i], x2[i]
					if a.Type != b.Type {
						r.Violate("C17|quic|extension-order", "%s: extension %d is type %d, then %d", what, i, a.Type, b.Type)
						break
					}
					if a.Type == 51 || a.Type == 44 || a.Type == 21 {
						continue
					}
					if !bytes.Equal(a.Body, b.Body) {
						r.Violate(fmt.Sprintf("C17|quic|extension-changed|type=%d", a.Type), "%s: extension %d differs between the two ClientHellos: % x / % x", what, a.Type, trunc(a.Body, 40), trunc(b.Body, 40))
					}
				}
			}
			if !(done || q.ConnectionState().HandshakeComplete) {
				r.Violate("C17|quic|not-completed", "%s: the handshake did not complete after the retry (client %v, server %v)", what, cerr, serr)
			}
			r.Obs = fmt.Sprintf("done=%v|viol=%d", done, len(r.Viol))
			return
		},
	}
}

func c17Scenarios(thorough bool) []*explore.Scenario {
	n := 2
	if thorough {
		n = 64
	}
	return []*explore.Scenario{c17Scenario(c17Clients(n)), c17QUIC()}
}

func init() {
	register(&Prop{ID: "C17", Level: "exploration", Variant: "A", Scenarios: c17Scenarios,
		Run: func(c *explore.Check, thorough bool) {
			c.Rule = "every TLS 1.3 client without PSK (all IDs, 2 (64) seeds per randomized kind, custom specs) x every classical group it lists without a share (forced through the verif group hook) x cookie {none, 1, 32, 255, 1024, 4000, 16000 bytes} (added to the HRR before it enters the server transcript) x HRR kind {valid, group not listed, group already shared, neither group nor cookie, second HRR} x environment {plain, hello built twice before Handshake, *Config shared with a connection of another parrot family that builds its hello while this one awaits the server, SNI extension removed with RemoveSNIExtension, UConn.Extensions re-sliced with spare capacity plus an appended extension}: valid => CH2 equals CH1 extension by extension except key_share (exactly one fresh share of the requested group), the echoed cookie and padding, and the handshake completes with echo; invalid => client error and no further ClientHello. distinct = (client, kind, group, cookie)"
			c.Assumptions = []string{"the utls server with verif hooks H1/H2 is the HelloRetryRequest source; its transcript sees the modified HRR", "the cookie insertion index is drawn from a fresh PRNG and is observed, not enumerated", "the server tolerates the echoed cookie through the verif hook AcceptCookie13 (crypto/tls servers never issue cookies and would reject one)"}
			runAll(c, c17Scenarios(thorough), 0)
			c.Gate(c.Total.Counters["valid_hrr_cases"] > 200, "non-vacuity: %d valid HRR cases", c.Total.Counters["valid_hrr_cases"])
			c.Gate(c.Total.Counters["completed_with_cookie"] > 100, "non-vacuity: %d handshakes completed after an HRR with a cookie", c.Total.Counters["completed_with_cookie"])
			c.Gate(c.Total.Counters["invalid_hrr_cases"] > 100, "non-vacuity: %d invalid HRR cases", c.Total.Counters["invalid_hrr_cases"])
		}})
}

// secondHelloAfterHRR runs a valid HRR (optionally with a cookie) and returns the ClientHello
// messages the client put on the wire (used by C02 to judge the syntax of the second hello).
func secondHelloAfterHRR(g gridClient, grp uint16, cookie []byte) ([][]byte, *peer.HS) {
	h0, err := g.probeHello()
	if err != nil {
		return nil, nil
	}
	o := offerOf(h0)
	certKind := "ecdsa"
	if !offersCert(o, "ecdsa") {
		certKind = "rsa"
	}
	scfg := serverChoice{Vers: tls.VersionTLS13, Cert: certKind}.config()
	hk := &connHooks{}
	hk.Groups13 = func(cg, pref []tls.CurveID) []tls.CurveID { return []tls.CurveID{tls.CurveID(grp)} }
	hk.Out = func(n int, t uint8, data []byte) []byte {
		if t != 2 || !isHRR(data) || cookie == nil {
			return data
		}
		sp, ok := parseServerHello(data)
		if !ok {
			return data
		}
		sp.exts = append(sp.exts, shExt{44, append([]byte{byte(len(cookie) >> 8), byte(len(cookie))}, cookie...)})
		return sp.build()
	}
	var cleanup func()
	hs := peer.Run(g.config("example.com"), g.ID, scfg, peer.Opts{Prepare: g.prepare(),
		OnConns: func(u *tls.UConn, s *tls.Conn) { cleanup = installHooks(s, hk) }})
	if cleanup != nil {
		cleanup()
	}
	return peer.ClientHelloMsgs(hs.CE.AllWritten()), hs
}
