package props

import (
	"verifmc/peer"
	"sync"
	"bytes"
	"fmt"
	"io"
	"reflect"
	"strings"

	tls "github.com/refraction-networking/utls"

	"verifmc/explore"
	"verifmc/wire"
)

// C08 — every extension's encoder and decoder agree.

type extVal struct {
	Name     string
	Mk       func() tls.TLSExtension
	ZeroOK   bool   // Len()==0 and Read -> (0, EOF) is the documented behaviour for this value
	RoundTyp string // normalisation class for the Write∘Read comparison
}

func manyCurves(n int) []tls.CurveID {
	v := make([]tls.CurveID, n)
	for i := range v {
		v[i] = tls.CurveID(0x0100 + i)
	}
	return v
}
func manySigs(n int) []tls.SignatureScheme {
	v := make([]tls.SignatureScheme, n)
	for i := range v {
		v[i] = tls.SignatureScheme(0x0400 + i)
	}
	return v
}

func c08Values() []extVal {
	E := func(name, rt string, mk func() tls.TLSExtension) extVal {
		return extVal{Name: name, Mk: mk, RoundTyp: rt}
	}
	Z := func(name, rt string, mk func() tls.TLSExtension) extVal {
		return extVal{Name: name, Mk: mk, RoundTyp: rt, ZeroOK: true}
	}
	long := strings.Repeat("a", 63) + "." + strings.Repeat("b", 63) + "." + strings.Repeat("c", 63) + "." + strings.Repeat("d", 61)
	vals := []extVal{
		Z("sni:empty", "sni", func() tls.TLSExtension { return &tls.SNIExtension{} }),
		E("sni:a", "sni", func() tls.TLSExtension { return &tls.SNIExtension{ServerName: "a"} }),
		E("sni:example.com", "sni", func() tls.TLSExtension { return &tls.SNIExtension{ServerName: "example.com"} }),
		E("sni:trailing-dot", "sni", func() tls.TLSExtension { return &tls.SNIExtension{ServerName: "example.com."} }),
		Z("sni:ip4", "sni", func() tls.TLSExtension { return &tls.SNIExtension{ServerName: "1.2.3.4"} }),
		Z("sni:ip6", "sni", func() tls.TLSExtension { return &tls.SNIExtension{ServerName: "[::1]"} }),
		E("sni:253", "sni", func() tls.TLSExtension { return &tls.SNIExtension{ServerName: long} }),
		E("status_request", "exact", func() tls.TLSExtension { return &tls.StatusRequestExtension{} }),
		E("status_request_v2", "exact", func() tls.TLSExtension { return &tls.StatusRequestV2Extension{} }),
		E("groups:1", "grease16", func() tls.TLSExtension { return &tls.SupportedCurvesExtension{Curves: []tls.CurveID{tls.X25519}} }),
		E("groups:grease+4", "grease16", func() tls.TLSExtension {
			return &tls.SupportedCurvesExtension{Curves: []tls.CurveID{0x3a3a, tls.X25519MLKEM768, tls.X25519, tls.CurveP256, tls.CurveP384}}
		}),
		E("groups:100", "grease16", func() tls.TLSExtension { return &tls.SupportedCurvesExtension{Curves: manyCurves(100)} }),
		E("points:1", "exact", func() tls.TLSExtension { return &tls.SupportedPointsExtension{SupportedPoints: []uint8{0}} }),
		E("points:3", "exact", func() tls.TLSExtension { return &tls.SupportedPointsExtension{SupportedPoints: []uint8{0, 1, 2}} }),
		E("points:255", "exact", func() tls.TLSExtension { return &tls.SupportedPointsExtension{SupportedPoints: make([]uint8, 255)} }),
		E("sigalgs:1", "grease16", func() tls.TLSExtension {
			return &tls.SignatureAlgorithmsExtension{SupportedSignatureAlgorithms: []tls.SignatureScheme{tls.ECDSAWithP256AndSHA256}}
		}),
		E("sigalgs:9", "grease16", func() tls.TLSExtension {
			return &tls.SignatureAlgorithmsExtension{SupportedSignatureAlgorithms: append([]tls.SignatureScheme{}, sigAlgsFull...)}
		}),
		E("sigalgs:100", "grease16", func() tls.TLSExtension {
			return &tls.SignatureAlgorithmsExtension{SupportedSignatureAlgorithms: manySigs(100)}
		}),
		E("sigalgscert:4", "grease16", func() tls.TLSExtension {
			return &tls.SignatureAlgorithmsCertExtension{SupportedSignatureAlgorithms: append([]tls.SignatureScheme{}, sigAlgsFull[:4]...)}
		}),
		E("alpn:h2", "exact", func() tls.TLSExtension { return &tls.ALPNExtension{AlpnProtocols: []string{"h2"}} }),
		E("alpn:2", "exact", func() tls.TLSExtension { return &tls.ALPNExtension{AlpnProtocols: []string{"h2", "http/1.1"}} }),
		E("alpn:255", "exact", func() tls.TLSExtension { return &tls.ALPNExtension{AlpnProtocols: []string{strings.Repeat("p", 255)}} }),
		E("alpn:10", "exact", func() tls.TLSExtension {
			return &tls.ALPNExtension{AlpnProtocols: []string{"a", "bb", "ccc", "dddd", "e", "f", "g", "h", "i", "jj"}}
		}),
		E("alps_old:h2", "exact", func() tls.TLSExtension { return &tls.ApplicationSettingsExtension{SupportedProtocols: []string{"h2"}} }),
		E("alps_new:2", "exact", func() tls.TLSExtension {
			return &tls.ApplicationSettingsExtensionNew{SupportedProtocols: []string{"h2", "http/1.1"}}
		}),
		E("sct", "exact", func() tls.TLSExtension { return &tls.SCTExtension{} }),
		E("ems", "exact", func() tls.TLSExtension { return &tls.ExtendedMasterSecretExtension{} }),
		E("generic:empty", "none", func() tls.TLSExtension { return &tls.GenericExtension{Id: 0x1234} }),
		E("generic:1", "none", func() tls.TLSExtension { return &tls.GenericExtension{Id: 0x1234, Data: []byte{9}} }),
		E("generic:300", "none", func() tls.TLSExtension { return &tls.GenericExtension{Id: 0xff00, Data: rep(0xab, 300)} }),
		E("grease:empty", "greaseext", func() tls.TLSExtension { return &tls.UtlsGREASEExtension{Value: 0x0a0a} }),
		E("grease:body1", "greaseext", func() tls.TLSExtension { return &tls.UtlsGREASEExtension{Value: 0x1a1a, Body: []byte{0}} }),
		Z("padding:off", "padding", func() tls.TLSExtension { return &tls.UtlsPaddingExtension{} }),
		E("padding:0", "padding", func() tls.TLSExtension { return &tls.UtlsPaddingExtension{WillPad: true, PaddingLen: 0} }),
		E("padding:1", "padding", func() tls.TLSExtension { return &tls.UtlsPaddingExtension{WillPad: true, PaddingLen: 1} }),
		E("padding:100", "padding", func() tls.TLSExtension { return &tls.UtlsPaddingExtension{WillPad: true, PaddingLen: 100} }),
		E("compress_cert:1", "exact", func() tls.TLSExtension {
			return &tls.UtlsCompressCertExtension{Algorithms: []tls.CertCompressionAlgo{tls.CertCompressionBrotli}}
		}),
		E("compress_cert:3", "exact", func() tls.TLSExtension {
			return &tls.UtlsCompressCertExtension{Algorithms: []tls.CertCompressionAlgo{tls.CertCompressionZlib, tls.CertCompressionBrotli, tls.CertCompressionZstd}}
		}),
		E("keyshare:x25519", "keyshare", func() tls.TLSExtension {
			return &tls.KeyShareExtension{KeyShares: []tls.KeyShare{{Group: tls.X25519, Data: rep(0x44, 32)}}}
		}),
		E("keyshare:grease+mlkem+x25519", "keyshare", func() tls.TLSExtension {
			return &tls.KeyShareExtension{KeyShares: []tls.KeyShare{{Group: 0x4a4a, Data: []byte{0}}, {Group: tls.X25519MLKEM768, Data: rep(0x45, 1216)}, {Group: tls.X25519, Data: rep(0x46, 32)}}}
		}),
		E("keyshare:p256+p384", "keyshare", func() tls.TLSExtension {
			return &tls.KeyShareExtension{KeyShares: []tls.KeyShare{{Group: tls.CurveP256, Data: rep(4, 65)}, {Group: tls.CurveP384, Data: rep(4, 97)}}}
		}),
		E("pskmodes:1", "exact", func() tls.TLSExtension { return &tls.PSKKeyExchangeModesExtension{Modes: []uint8{tls.PskModeDHE}} }),
		E("pskmodes:2", "exact", func() tls.TLSExtension {
			return &tls.PSKKeyExchangeModesExtension{Modes: []uint8{tls.PskModePlain, tls.PskModeDHE}}
		}),
		E("versions:grease+2", "grease16v", func() tls.TLSExtension {
			return &tls.SupportedVersionsExtension{Versions: []uint16{0x5a5a, tls.VersionTLS13, tls.VersionTLS12}}
		}),
		E("versions:1", "grease16v", func() tls.TLSExtension { return &tls.SupportedVersionsExtension{Versions: []uint16{tls.VersionTLS13}} }),
		E("versions:100", "grease16v", func() tls.TLSExtension {
			v := make([]uint16, 100)
			for i := range v {
				v[i] = 0x0300 + uint16(i)
			}
			return &tls.SupportedVersionsExtension{Versions: v}
		}),
		E("cookie:1", "none", func() tls.TLSExtension { return &tls.CookieExtension{Cookie: []byte{7}} }),
		E("cookie:255", "none", func() tls.TLSExtension { return &tls.CookieExtension{Cookie: rep(0xc0, 255)} }),
		E("npn", "exact", func() tls.TLSExtension { return &tls.NPNExtension{} }),
		E("reneg:empty", "typeonly", func() tls.TLSExtension {
			return &tls.RenegotiationInfoExtension{Renegotiation: tls.RenegotiateOnceAsClient}
		}),
		E("reneg:12", "typeonly", func() tls.TLSExtension {
			return &tls.RenegotiationInfoExtension{Renegotiation: tls.RenegotiateOnceAsClient, RenegotiatedConnection: rep(3, 12)}
		}),
		E("channelid", "exact", func() tls.TLSExtension { return &tls.FakeChannelIDExtension{} }),
		E("channelid_old", "exact", func() tls.TLSExtension { return &tls.FakeChannelIDExtension{OldExtensionID: true} }),
		E("recordsizelimit", "exact", func() tls.TLSExtension { return &tls.FakeRecordSizeLimitExtension{Limit: 0x4001} }),
		E("tokenbinding:0", "exact", func() tls.TLSExtension { return &tls.FakeTokenBindingExtension{MajorVersion: 1} }),
		E("tokenbinding:2", "exact", func() tls.TLSExtension {
			return &tls.FakeTokenBindingExtension{MajorVersion: 1, MinorVersion: 0, KeyParameters: []uint8{2, 1}}
		}),
		E("delegated:3", "grease16", func() tls.TLSExtension {
			return &tls.FakeDelegatedCredentialsExtension{SupportedSignatureAlgorithms: append([]tls.SignatureScheme{}, sigAlgsFull[:3]...)}
		}),
		E("grease_ech:boring", "ech", func() tls.TLSExtension { return tls.BoringGREASEECH() }),
		E("grease_ech:explicit", "ech", func() tls.TLSExtension {
			g := tls.BoringGREASEECH()
			g.CandidatePayloadLens = []uint16{32}
			g.CandidateConfigIds = []uint8{7}
			g.EncapsulatedKey = rep(0x77, 32)
			return g
		}),
		// captured GREASE ECH extensions with other key / payload sizes: regenerated at the same sizes
		E("grease_ech:enc65", "ech", func() tls.TLSExtension {
			g := tls.BoringGREASEECH()
			g.CandidatePayloadLens = []uint16{128}
			g.EncapsulatedKey = rep(0x65, 65)
			return g
		}),
		E("grease_ech:enc97-payload1", "ech", func() tls.TLSExtension {
			g := tls.BoringGREASEECH()
			g.CandidatePayloadLens = []uint16{1}
			g.CandidateConfigIds = []uint8{0}
			g.EncapsulatedKey = rep(0x97, 97)
			return g
		}),
		E("grease_ech:enc133-payload300", "ech", func() tls.TLSExtension {
			g := tls.BoringGREASEECH()
			g.CandidatePayloadLens = []uint16{300}
			g.CandidateConfigIds = []uint8{255}
			g.EncapsulatedKey = rep(0x33, 133)
			return g
		}),
		E("session_ticket:empty", "typeonly", func() tls.TLSExtension { return &tls.SessionTicketExtension{} }),
		E("session_ticket:100", "typeonly", func() tls.TLSExtension {
			return &tls.SessionTicketExtension{Ticket: rep(0x99, 100), Initialized: true}
		}),
		E("fake_psk:1", "exact", func() tls.TLSExtension {
			return &tls.FakePreSharedKeyExtension{Identities: []tls.PskIdentity{{Label: rep(0x11, 32), ObfuscatedTicketAge: 5}}, Binders: [][]byte{rep(0x22, 32)}}
		}),
		E("fake_psk:2", "exact", func() tls.TLSExtension {
			return &tls.FakePreSharedKeyExtension{Identities: []tls.PskIdentity{{Label: rep(0x11, 100), ObfuscatedTicketAge: 0xffffffff}, {Label: rep(0x12, 1)}}, Binders: [][]byte{rep(0x22, 32), rep(0x23, 48)}}
		}),
		Z("fake_psk:omit-empty", "exact", func() tls.TLSExtension { return &tls.FakePreSharedKeyExtension{OmitEmptyPsk: true} }),
		Z("utls_psk:omit-empty", "typeonly", func() tls.TLSExtension { return &tls.UtlsPreSharedKeyExtension{OmitEmptyPsk: true} }),
		E("quic_tp:3", "none", func() tls.TLSExtension {
			return &tls.QUICTransportParametersExtension{TransportParameters: tls.TransportParameters{tls.MaxIdleTimeout(30000), tls.InitialMaxData(1 << 20), &tls.GREASEQUICBit{}}}
		}),
	}
	// bodies whose nested length prefixes sit on both sides of a carry into the high byte
	// (inner list length 252..258 and 508..514): an outer prefix is the inner one plus 2 or more
	for _, n := range []int{248, 249, 250, 251, 252, 253, 254, 504, 505, 506, 507, 508, 509, 510} {
		n := n
		vals = append(vals,
			E(fmt.Sprintf("keyshare:one-share-%dB", n), "keyshare", func() tls.TLSExtension {
				return &tls.KeyShareExtension{KeyShares: []tls.KeyShare{{Group: tls.CurveID(0x6a6a), Data: rep(0x47, n)}}}
			}),
			E(fmt.Sprintf("generic:%dB", n), "none", func() tls.TLSExtension { return &tls.GenericExtension{Id: 0xff00, Data: rep(0xab, n)} }),
			E(fmt.Sprintf("padding:%d", n+4), "padding", func() tls.TLSExtension { return &tls.UtlsPaddingExtension{WillPad: true, PaddingLen: n + 4} }),
			E(fmt.Sprintf("cookie:%dB", n+4), "exact", func() tls.TLSExtension { return &tls.CookieExtension{Cookie: rep(0xc7, n+4)} }))
		if n < 256 {
			vals = append(vals,
				E(fmt.Sprintf("sni:%dB", n), "sni", func() tls.TLSExtension { return &tls.SNIExtension{ServerName: strings.Repeat("a", n)} }),
				E(fmt.Sprintf("alpn:one-protocol-%dB", n), "exact", func() tls.TLSExtension { return &tls.ALPNExtension{AlpnProtocols: []string{strings.Repeat("p", n)}} }),
				E(fmt.Sprintf("fake_psk:label-%dB", n), "exact", func() tls.TLSExtension {
					return &tls.FakePreSharedKeyExtension{Identities: []tls.PskIdentity{{Label: rep(0x11, n), ObfuscatedTicketAge: 7}}, Binders: [][]byte{rep(0x22, 32)}}
				}))
		}
	}
	return vals
}

// u16GreaseNorm replaces every GREASE uint16 inside a length-prefixed uint16 list body.
func normGrease16(body []byte, prefix int) []byte {
	out := append([]byte(nil), body...)
	for i := prefix; i+1 < len(out); i += 2 {
		v := uint16(out[i])<<8 | uint16(out[i+1])
		if isGrease16(v) {
			out[i], out[i+1] = 0x0a, 0x0a
		}
	}
	return out
}

// encode runs Read on an exactly-sized buffer.
func encodeExt(e tls.TLSExtension) (b []byte, n int, err error) {
	l := e.Len()
	if l < 0 || l > 1<<20 {
		return nil, 0, fmt.Errorf("Len() = %d", l)
	}
	b = make([]byte, l)
	n, err = e.Read(b)
	return
}

func c08Codec() *explore.Scenario {
	vals := c08Values()
	return &explore.Scenario{
		Name: "extension-codec",
		Run: func(x *explore.X) (r explore.Result) {
			v := vals[x.Choose("value", len(vals))]
			e := v.Mk()
			typ := reflect.TypeOf(e).Elem().Name()
			sig := func(k string) string { return "C08|" + typ + "|" + k }
			n := e.Len()
			r.Nontrivial = true
			r.Class = v.Name
			r.Obs = typ
			if n == 0 {
				if !v.ZeroOK {
					r.Violate(sig("len0"), "%s: Len() == 0 for a value that must be encoded", v.Name)
					return
				}
				m, err := e.Read(make([]byte, 8))
				if m != 0 || (err != io.EOF && err != nil) {
					r.Violate(sig("zero-read"), "%s: zero-length state Read = (%d, %v)", v.Name, m, err)
				}
				r.Obs = typ + "|zero"
				r.Count("zero_length_states", 1)
				return
			}
			if v.ZeroOK {
				// a value declared zero-length that is nevertheless encoded is fine too (not judged)
				r.Count("zerook_but_encoded", 1)
			}
			// exact buffer
			buf := make([]byte, n)
			m, err := e.Read(buf)
			if err != io.EOF && err != nil || m != n {
				r.Violate(sig("read-exact"), "%s: Len()=%d but Read(exact buffer) = (%d, %v)", v.Name, n, m, err)
				return
			}
			if len(buf) < 4 || int(buf[2])<<8|int(buf[3]) != n-4 {
				r.Violate(sig("header-length"), "%s: extension header says %d body bytes, Len()-4 = %d", v.Name, int(buf[2])<<8|int(buf[3]), n-4)
				return
			}
			typeCode := uint16(buf[0])<<8 | uint16(buf[1])
			if err := wire.CheckExt(wire.Ext{Type: typeCode, Body: buf[4:]}); err != nil {
				r.Violate(sig("grammar"), "%s: encoded body violates the grammar: %v", v.Name, err)
			}
			// larger buffer with canary: nothing beyond n
			e2 := v.Mk()
			n2 := e2.Len()
			big := append(make([]byte, n2), bytes.Repeat([]byte{0xEE}, 16)...)
			m2, err2 := e2.Read(big)
			if n2 != n && v.RoundTyp != "ech" {
				r.Violate(sig("len-unstable"), "%s: two fresh instances report Len() %d and %d", v.Name, n, n2)
			} else if m2 != n2 || (err2 != io.EOF && err2 != nil) {
				r.Violate(sig("read-big"), "%s: Read(buffer of Len+16) = (%d, %v), want (%d, EOF)", v.Name, m2, err2, n2)
			} else {
				for i := n2; i < len(big); i++ {
					if big[i] != 0xEE {
						r.Violate(sig("write-beyond-len"), "%s: Read wrote beyond Len()=%d (offset %d)", v.Name, n, i)
						break
					}
				}
				if v.RoundTyp != "ech" && !bytes.Equal(big[:n2], buf) {
					r.Violate(sig("unstable"), "%s: two fresh instances encode differently", v.Name)
				}
			}
			// Read as the first call on a fresh instance (io.ReadAll, or a caller that grows its buffer on
			// ErrShortBuffer, never asks for Len() first): same bytes, and Len() afterwards agrees
			{
				e5 := v.Mk()
				big5 := make([]byte, n+4096) // (a fresh GREASE-ECH instance may draw a longer payload than the first one did)
				m5, err5 := e5.Read(big5)
				n5 := e5.Len()
				if m5 != n5 || (err5 != io.EOF && err5 != nil) {
					r.Violate(sig("read-before-len"), "%s: Read as the first call = (%d, %v), Len() afterwards = %d", v.Name, m5, err5, n5)
				} else if v.RoundTyp != "ech" && !bytes.Equal(big5[:m5], buf) {
					r.Violate(sig("read-before-len-differs"), "%s: Read as the first call encodes differently from Len() then Read", v.Name)
				}
				e6 := v.Mk()
				if m6, err6 := e6.Read(make([]byte, 3)); n >= 4 && (err6 != io.ErrShortBuffer || m6 != 0) {
					r.Violate(sig("short-buffer-before-len"), "%s: Read(3-byte buffer) as the first call = (%d, %v), want (0, io.ErrShortBuffer)", v.Name, m6, err6)
				}
			}
			// every shorter buffer
			shortOK := 0
			for k := 0; k < n; k++ {
				e3 := v.Mk()
				n3 := e3.Len()
				if k >= n3 {
					break
				}
				sb := bytes.Repeat([]byte{0xEE}, k)
				m3, err3 := e3.Read(sb)
				if err3 != io.ErrShortBuffer || m3 != 0 {
					r.Violate(sig("short-buffer"), "%s: Read(buffer of %d < Len()=%d) = (%d, %v), want (0, io.ErrShortBuffer)", v.Name, k, n3, m3, err3)
					break
				}
				if n4 := e3.Len(); n4 != n3 {
					r.Violate(sig("short-read-changes-len"), "%s: a failed short Read changed Len() from %d to %d", v.Name, n3, n4)
					break
				}
				shortOK++
			}
			r.Count("short_buffer_reads", shortOK)
			x.Transitions += n + 2
			// Write∘Read
			w, isWriter := e.(tls.TLSExtensionWriter)
			_ = w
			if isWriter && v.RoundTyp != "none" {
				var fresh tls.TLSExtensionWriter
				if fe := tls.ExtensionFromID(typeCode); fe != nil && reflect.TypeOf(fe) == reflect.TypeOf(e) {
					fresh, _ = fe.(tls.TLSExtensionWriter)
				}
				if fresh == nil {
					fresh = reflect.New(reflect.TypeOf(e).Elem()).Interface().(tls.TLSExtensionWriter)
				}
				var werr error
				var wn int
				pm := ""
				func() {
					defer func() {
						if p := recover(); p != nil {
							pm = fmt.Sprint(p)
						}
					}()
					wn, werr = fresh.Write(buf[4:])
				}()
				if pm != "" {
					r.Violate(sig("write-panic"), "%s: Write(own encoding) panicked: %s", v.Name, pm)
					return
				}
				if werr != nil {
					r.Violate(sig("write-rejects-own-encoding"), "%s: Write rejects the body Read produced: %v", v.Name, werr)
					return
				}
				if wn != n-4 && v.RoundTyp != "typeonly" && v.RoundTyp != "padding" && v.RoundTyp != "sni" {
					r.Violate(sig("write-consumed"), "%s: Write consumed %d of %d body bytes", v.Name, wn, n-4)
				}
				// the decoded extension may need the spec-level fixups ApplyPreset performs
				// (GREASE values, key data); compare modulo the documented normalisations
				buf2, m4, err4 := encodeExt(fresh)
				r.Count("roundtrips", 1)
				switch v.RoundTyp {
				case "sni", "typeonly", "padding":
					// name / ticket / body dropped or recomputed: (0, EOF) or same type code
					if len(buf2) >= 2 && (uint16(buf2[0])<<8|uint16(buf2[1])) != typeCode {
						r.Violate(sig("roundtrip-type"), "%s: re-encoded type %04x != %04x", v.Name, buf2[:2], typeCode)
					}
				case "ech":
					if err4 != io.EOF && err4 != nil || m4 != n {
						r.Violate(sig("roundtrip-ech-size"), "%s: re-encoded GREASE ECH has %d bytes (%v), original %d", v.Name, m4, err4, n)
						break
					}
					o1, _, e1 := wire.ParseECH(buf[4:])
					o2, _, e2 := wire.ParseECH(buf2[4:])
					if e1 != nil || e2 != nil || o1 == nil || o2 == nil {
						r.Violate(sig("roundtrip-ech-parse"), "%s: %v / %v", v.Name, e1, e2)
						break
					}
					if o1.KDF != o2.KDF || o1.AEAD != o2.AEAD || len(o1.Enc) != len(o2.Enc) || len(o1.Payload) != len(o2.Payload) {
						r.Violate(sig("roundtrip-ech-shape"), "%s: shape changed: kdf %d/%d aead %d/%d enc %d/%d payload %d/%d", v.Name, o1.KDF, o2.KDF, o1.AEAD, o2.AEAD, len(o1.Enc), len(o2.Enc), len(o1.Payload), len(o2.Payload))
					}
				case "keyshare":
					k1, e1 := wire.ParseKeyShares(buf[4:])
					// after Write the non-GREASE entries carry no data: parse leniently
					var g1, g2 []uint16
					for _, k := range k1 {
						g := k.Group
						if isGrease16(g) {
							g = 0x0a0a
						}
						g1 = append(g1, g)
					}
					b2 := buf2
					if len(b2) >= 6 {
						p := b2[6:]
						for len(p) >= 4 {
							g := uint16(p[0])<<8 | uint16(p[1])
							l := int(p[2])<<8 | int(p[3])
							if isGrease16(g) {
								g = 0x0a0a
							}
							g2 = append(g2, g)
							if 4+l > len(p) {
								break
							}
							p = p[4+l:]
						}
					}
					if e1 != nil || fmt.Sprint(g1) != fmt.Sprint(g2) {
						r.Violate(sig("roundtrip-keyshare-groups"), "%s: groups %v became %v (%v)", v.Name, g1, g2, e1)
					}
				default:
					if err4 != io.EOF && err4 != nil {
						r.Violate(sig("roundtrip-read"), "%s: re-encode failed: %v", v.Name, err4)
						break
					}
					a, b := buf, buf2
					switch v.RoundTyp {
					case "grease16":
						a, b = normGrease16(buf, 6), normGrease16(buf2, 6)
					case "grease16v":
						a, b = normGrease16(buf, 5), normGrease16(buf2, 5)
					case "greaseext":
						a, b = append([]byte{0x0a, 0x0a}, buf[2:]...), append([]byte{0x0a, 0x0a}, buf2[2:]...)
					}
					if !bytes.Equal(a, b) {
						r.Violate(sig("roundtrip-bytes"), "%s: Write(Read()) then Read gives different bytes:\n  %x\n  %x", v.Name, trunc(a, 80), trunc(b, 80))
					}
				}
			} else if !isWriter {
				r.Count("types_without_Write:"+typ, 1)
			}
			r.Obs = fmt.Sprintf("%s|writer=%v|viol=%d", typ, isWriter, len(r.Viol))
			if strings.HasSuffix(v.Name, ":2") || strings.HasSuffix(v.Name, ":3") {
				r.Sample = map[string]any{"value": v.Name, "type": typ, "len": n, "bytes": fmt.Sprintf("%x", trunc(buf, 48))}
			}
			return
		},
	}
}

func trunc(b []byte, n int) []byte {
	if len(b) > n {
		return b[:n]
	}
	return b
}

// c08Coverage: every wire code ExtensionFromID knows must be covered by the value table.
func c08Coverage() *explore.Scenario {
	vals := c08Values()
	return &explore.Scenario{
		Name: "type-coverage",
		Run: func(x *explore.X) (r explore.Result) {
			have := map[string]bool{}
			for _, v := range vals {
				have[reflect.TypeOf(v.Mk()).Elem().Name()] = true
			}
			var missing []string
			n := 0
			for id := 0; id < 65536; id++ {
				e := tls.ExtensionFromID(uint16(id))
				if e == nil {
					continue
				}
				n++
				t := reflect.TypeOf(e).Elem().Name()
				if !have[t] {
					missing = append(missing, fmt.Sprintf("%s(0x%04x)", t, id))
				}
			}
			r.Count("wire_codes_known_to_ExtensionFromID", n)
			r.Obs = fmt.Sprintf("known=%d missing=%v", n, missing)
			if len(missing) > 0 {
				r.Violate("INFRA|c08-uncovered-types", "extension types without a value table entry (extend c08Values): %v", missing)
			}
			return
		},
	}
}

func c08Scenarios(thorough bool) []*explore.Scenario {
	return []*explore.Scenario{c08Codec(), c08Coverage(), c08PSKLifecycle()}
}

func init() {
	register(&Prop{ID: "C08", Level: "exploration", Variant: "A", Scenarios: c08Scenarios,
		Run: func(c *explore.Check, thorough bool) {
			c.Rule = "every built-in extension type x 1-7 in-limit field-value variants (empty/singleton/multi/boundary) x every buffer size 0..Len()+16: Len()==bytes written, header length, strict per-type grammar, ErrShortBuffer with 0 bytes for every shorter buffer, canary beyond Len(); for Writer types Write(Read()) then Read compared modulo exactly the documented normalisations; all 65536 wire codes probed through ExtensionFromID for table coverage; the real pre_shared_key extension through its life (calls while still empty x OmitEmptyPsk x 1-2 identities, then initialised with a genuine TLS 1.3 session): Len()/Read()/header/body/short-buffer agree at each stage. non-trivial/distinct = value variant"
			c.Assumptions = []string{"value table per extension type is finite (listed in mc/props/c08.go); a type added to ExtensionFromID without a table entry is reported as an infrastructure error, not silently skipped"}
			runAll(c, c08Scenarios(thorough), 0)
			c.Gate(c.Total.Counters["short_buffer_reads"] > 1000, "non-vacuity: short-buffer reads %d", c.Total.Counters["short_buffer_reads"])
			c.Gate(c.Total.Counters["roundtrips"] > 30, "non-vacuity: roundtrips %d", c.Total.Counters["roundtrips"])
		}})
}

// c08PSKLifecycle — UtlsPreSharedKeyExtension is the one built-in extension whose encoding changes
// during its life: empty before a session is loaded, full afterwards. Len() and Read() must agree
// at every stage, whatever was asked of the object before (Len() on the still-empty extension
// included: that is what a first build without a session does).
func c08PSKLifecycle() *explore.Scenario {
	var (
		once   sync.Once
		state  *tls.SessionState
		ticket []byte
		gate   string
	)
	prepare := func() {
		cfg := peer.ClientConfig("example.com")
		cache := tls.NewLRUClientSessionCache(4)
		cfg.ClientSessionCache = cache
		if w := peer.Run(cfg, tls.HelloGolang, peer.ServerConfig(), peer.Opts{Echo: true}); !(w.OK() && w.EchoOK) {
			gate = fmt.Sprintf("handshake failed: %v / %v", w.CErr, w.SErr)
			return
		}
		cs, ok := cache.Get("example.com")
		if !ok || cs == nil {
			gate = "no session cached"
			return
		}
		var err error
		if ticket, state, err = cs.ResumptionState(); err != nil || state == nil {
			gate = fmt.Sprintf("no resumption state: %v", err)
		}
	}
	return &explore.Scenario{
		Name: "pre-shared-key-extension-before-and-after-initialisation",
		Run: func(x *explore.X) (r explore.Result) {
			once.Do(prepare)
			if gate != "" {
				r.Violate("INFRA|c08-psk-material", "%s", gate)
				return
			}
			// calls made on the extension while it is still empty
			early := x.Choose("calls-while-empty", 4) // 0 none, 1 Len, 2 Len+Read, 3 Len twice
			omit := x.Choose("omit-empty", 2) == 1
			nIDs := 1 + x.Choose("identities", 2)
			e := &tls.UtlsPreSharedKeyExtension{OmitEmptyPsk: omit}
			what := fmt.Sprintf("calls-while-empty=%d OmitEmptyPsk=%v identities=%d", early, omit, nIDs)
			if early >= 1 {
				l0 := e.Len()
				if early == 3 {
					l0 = e.Len()
				}
				if early == 2 {
					b := make([]byte, l0+8)
					if k, _ := e.Read(b); k != l0 {
						r.Violate("C08|psk-lifecycle|empty-stage", "%s: empty extension: Len() = %d, Read wrote %d", what, l0, k)
					}
				}
			}
			var ids []tls.PskIdentity
			for i := 0; i < nIDs; i++ {
				ids = append(ids, tls.PskIdentity{Label: append([]byte{byte(i)}, ticket...), ObfuscatedTicketAge: uint32(7 + i)})
			}
			e.InitializeByUtls(state, rep(1, 32), rep(2, 32), ids)
			n := e.Len()
			buf := make([]byte, n+16)
			k, err := e.Read(buf)
			r.Nontrivial = true
			r.Class = what
			if n <= 4 || k != n || (err != nil && err != io.EOF) {
				r.Violate("C08|psk-lifecycle|initialised-stage", "%s: initialised extension: Len() = %d, Read wrote %d bytes (err %v)", what, n, k, err)
				return
			}
			if int(buf[2])<<8|int(buf[3]) != n-4 || buf[0] != 0 || buf[1] != 41 {
				r.Violate("C08|psk-lifecycle|header", "%s: header % x for %d bytes", what, buf[:4], n)
			}
			if _, err := wire.ParsePSK(buf[4:n]); err != nil {
				r.Violate("C08|psk-lifecycle|body", "%s: body does not parse: %v", what, err)
			}
			if n > 1 {
				if k, err := e.Read(make([]byte, n-1)); err != io.ErrShortBuffer || k != 0 {
					r.Violate("C08|psk-lifecycle|short-buffer", "%s: Read into %d bytes returned (%d, %v)", what, n-1, k, err)
				}
			}
			r.Obs = fmt.Sprintf("len=%d|viol=%d", n, len(r.Viol))
			return
		},
	}
}
