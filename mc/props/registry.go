// Package props holds one scenario file per property.
package props

import (
	"sort"

	"verifmc/explore"
)

// Prop is a registered property check. Run adds scenario stats / gates to c.
type Prop struct {
	ID      string
	Level   string // evidence level
	Variant string // "A" (tag verif + inpkg overlay) or "B" (A + shim overlay)
	Run     func(c *explore.Check, thorough bool)
	// Replay maps a scenario name to the scenario (for --replay).
	Scenarios func(thorough bool) []*explore.Scenario
	// RaceScenarios are the scenario bodies re-run free-running under -race (the only sampled
	// ingredient; reported separately in evidence).
	RaceScenarios func(thorough bool) []*explore.Scenario
	// Sharded properties are explored by NumCPU single-threaded worker processes (token passing
	// between goroutines scales badly across OS threads).
	Sharded bool
	// Init runs once per process before anything else (process-wide environment).
	Init func(verifDir string)
}

var registry = map[string]*Prop{}

func register(p *Prop) { registry[p.ID] = p }

// Get returns the registered property or nil.
func Get(id string) *Prop { return registry[id] }

// IDs lists registered property ids.
func IDs() []string {
	var ids []string
	for k := range registry {
		ids = append(ids, k)
	}
	sort.Strings(ids)
	return ids
}
