package props

import (
	"bytes"
	"fmt"
	"io"
	"sync"

	tls "github.com/refraction-networking/utls"

	"verifmc/explore"
	"verifmc/peer"
)

// C25 — application data arrives intact and tampering is detected.

type vsuite struct {
	vers  uint16
	suite uint16
	cert  string
	weak  bool
}

func c25Suites(weak bool) []vsuite {
	var out []vsuite
	if weak {
		return []vsuite{
			{tls.VersionTLS12, tls.DISABLED_TLS_RSA_WITH_AES_256_CBC_SHA256, "rsa", true},
			{tls.VersionTLS12, tls.DISABLED_TLS_ECDHE_ECDSA_WITH_AES_256_CBC_SHA384, "ecdsa", true},
			{tls.VersionTLS12, tls.DISABLED_TLS_ECDHE_RSA_WITH_AES_256_CBC_SHA384, "rsa", true},
		}
	}
	for _, s := range []uint16{tls.TLS_AES_128_GCM_SHA256, tls.TLS_AES_256_GCM_SHA384, tls.TLS_CHACHA20_POLY1305_SHA256} {
		out = append(out, vsuite{tls.VersionTLS13, s, "ecdsa", false})
	}
	ref := refSuiteVersions(false)
	var ids []int
	for id := range suite12Auth {
		ids = append(ids, int(id))
	}
	sortInts(ids)
	for _, i := range ids {
		id := uint16(i)
		cert := "rsa"
		if suite12Auth[id] == "ecdsa" {
			cert = "ecdsa"
		}
		for _, v := range []uint16{tls.VersionTLS12, tls.VersionTLS11, tls.VersionTLS10} {
			if has16(ref[id], v) {
				out = append(out, vsuite{v, id, cert, false})
			}
		}
	}
	return out
}

func sortInts(a []int) {
	for i := 1; i < len(a); i++ {
		for j := i; j > 0 && a[j] < a[j-1]; j-- {
			a[j], a[j-1] = a[j-1], a[j]
		}
	}
}

func (v vsuite) spec() *tls.ClientHelloSpec {
	var sp *tls.ClientHelloSpec
	if v.vers == tls.VersionTLS13 {
		sp = handshakeSpec("tls13-minimal")
	} else {
		sp = handshakeSpec("tls12-only")
		sp.TLSVersMin = tls.VersionTLS10
		sp.TLSVersMax = tls.VersionTLS12
	}
	sp.CipherSuites = []uint16{v.suite}
	return sp
}

func (v vsuite) serverConfig() *tls.Config {
	f := peer.Fix()
	c := f.ECDSA
	if v.cert == "rsa" {
		c = f.RSA
	}
	s := peer.ServerConfig(c)
	s.MaxVersion = v.vers
	if v.vers != tls.VersionTLS13 {
		s.CipherSuites = []uint16{v.suite}
	}
	return s
}

func payload(n int, salt byte) []byte {
	b := make([]byte, n)
	for i := range b {
		b[i] = byte(i*17) + salt
	}
	return b
}

var weakOnce sync.Once

var c25Sizes = []int{-1, 0, 1, 2, 15, 16, 17, 16383, 16384, 16385, 32768}

func c25Traffic(name string, weak bool) *explore.Scenario {
	suites := c25Suites(weak)
	bufs := []int{4096, 1, 7, 65536}
	return &explore.Scenario{
		Name: name,
		Run: func(x *explore.X) (r explore.Result) {
			if weak {
				weakOnce.Do(tls.EnableWeakCiphers)
			}
			v := suites[x.Choose("suite", len(suites))]
			dir := x.Choose("dir", 2) // 0 client->server, 1 server->client
			w1 := c25Sizes[1+x.Choose("write1", len(c25Sizes)-1)]
			w2 := c25Sizes[x.Choose("write2", len(c25Sizes))]
			buf := bufs[x.Choose("readbuf", len(bufs))]
			ku := 0
			if v.vers == tls.VersionTLS13 {
				ku = x.Choose("keyupdate", 5) // 0 none, 1 before, 2 between (no request), 3 between (requesting), 4 after
			}
			what := fmt.Sprintf("vers=%04x suite=%04x dir=%d writes=[%d,%d] readbuf=%d keyupdate=%d", v.vers, v.suite, dir, w1, w2, buf, ku)
			var writes [][]byte
			writes = append(writes, payload(w1, 1))
			if w2 >= 0 {
				writes = append(writes, payload(w2, 2))
			}
			var want []byte
			for _, w := range writes {
				want = append(want, w...)
			}
			// the writer side performs the writes (with optional key updates), then closes its
			// write half; the reader side reads with the chosen buffer until EOF
			doWrites := func(wr io.Writer, kuConn *tls.Conn) error {
				for i, w := range writes {
					if (ku == 1 && i == 0) || ((ku == 2 || ku == 3) && i == 1) {
						if err := tls.VerifSendKeyUpdate(kuConn, ku == 3); err != nil {
							return fmt.Errorf("key update: %v", err)
						}
					}
					n, err := wr.Write(w)
					if err != nil || n != len(w) {
						return fmt.Errorf("write %d of %d bytes: n=%d err=%v", i, len(w), n, err)
					}
				}
				if ku == 4 {
					if err := tls.VerifSendKeyUpdate(kuConn, false); err != nil {
						return fmt.Errorf("key update: %v", err)
					}
				}
				return nil
			}
			readAll := func(rd io.Reader) ([]byte, error) {
				var got []byte
				b := make([]byte, buf)
				for {
					n, err := rd.Read(b)
					got = append(got, b[:n]...)
					if err != nil {
						if err == io.EOF {
							return got, nil
						}
						return got, err
					}
					if len(got) > len(want)+10 {
						return got, fmt.Errorf("more bytes than written")
					}
				}
			}
			var srvGot []byte
			var srvErr error
			hs := peer.Run(peer.ClientConfig("example.com"), tls.HelloCustom, v.serverConfig(), peer.Opts{KeepOpen: true,
				Prepare: func(u *tls.UConn) error { return u.ApplyPreset(v.spec()) },
				ServerAfter: func(s *tls.Conn) error {
					if dir == 0 {
						srvGot, srvErr = readAll(s)
						return nil
					}
					if err := doWrites(s, s); err != nil {
						srvErr = err
					}
					s.CloseWrite()
					// keep reading so that a requested key update from the client is consumed
					io.Copy(io.Discard, s)
					return nil
				}})
			if !hs.OK() {
				hs.Finish()
				r.Obs = "not-negotiable"
				r.Count(fmt.Sprintf("not_negotiable_%04x_%04x", v.vers, v.suite), 1)
				return
			}
			if cs := hs.U.ConnectionState(); cs.Version != v.vers || cs.CipherSuite != v.suite {
				hs.Finish()
				r.Violate("INFRA|c25-negotiated", "%s: negotiated %04x/%04x", what, cs.Version, cs.CipherSuite)
				return
			}
			var got []byte
			var rerr, werr error
			if dir == 0 {
				werr = doWrites(hs.U, hs.U.Conn)
				hs.U.CloseWrite()
				hs.Finish()
				got, rerr = srvGot, srvErr
			} else {
				got, rerr = readAll(hs.U)
				hs.Finish()
				werr = srvErr
			}
			r.Nontrivial = true
			r.Class = what
			if werr != nil {
				r.Violate(fmt.Sprintf("C25|write-error|vers=%04x|suite=%04x", v.vers, v.suite), "%s: %v", what, werr)
			} else if rerr != nil {
				r.Violate(fmt.Sprintf("C25|read-error|vers=%04x|suite=%04x|ku=%d", v.vers, v.suite, ku), "%s: reader got error %v after %d/%d bytes", what, rerr, len(got), len(want))
			} else if !bytes.Equal(got, want) {
				first := 0
				for first < len(got) && first < len(want) && got[first] == want[first] {
					first++
				}
				r.Violate(fmt.Sprintf("C25|stream-differs|vers=%04x|suite=%04x", v.vers, v.suite), "%s: reader saw %d bytes, writer wrote %d; first difference at offset %d", what, len(got), len(want), first)
			}
			r.Count("streams_compared", 1)
			r.Obs = fmt.Sprintf("%04x|viol=%d", v.vers, len(r.Viol))
			if w1 == 16385 && w2 == 1 && buf == 7 {
				r.Sample = map[string]any{"case": what, "bytes": len(want)}
			}
			return
		},
	}
}

// c25Tamper: every byte of the record(s) carrying a small write XOR 0x01 / 0x80, and every truncation.
func c25Tamper(name string, weak bool) *explore.Scenario {
	suites := c25Suites(weak)
	return &explore.Scenario{
		Name: name,
		Run: func(x *explore.X) (r explore.Result) {
			if weak {
				weakOnce.Do(tls.EnableWeakCiphers)
			}
			v := suites[x.Choose("suite", len(suites))]
			dir := x.Choose("dir", 2)
			msg := payload([]int{5, 20}[x.Choose("size", 2)], 9)
			follow := payload(3, 4)     // a second, untouched write after the tampered one
			mode := x.Choose("mode", 3) // 0 xor 0x01, 1 xor 0x80, 2 truncate
			pos := x.Choose("pos", 120)
			what := fmt.Sprintf("vers=%04x suite=%04x dir=%d size=%d mode=%d pos=%d", v.vers, v.suite, dir, len(msg), mode, pos)
			applied := false
			outOfRange := false
			tamper := func(first *int) func(n int, b []byte) []byte {
				return func(n int, b []byte) []byte {
					if *first < 0 || n < *first {
						return b
					}
					if n == *first {
						// the write call carrying the record(s) of msg
						if pos >= len(b) {
							outOfRange = true
							return b
						}
						applied = true
						switch mode {
						case 0:
							b[pos] ^= 0x01
						case 1:
							b[pos] ^= 0x80
						case 2:
							return b[:pos]
						}
					}
					return b
				}
			}
			firstC, firstS := -1, -1
			var srvGot []byte
			var srvErr error
			hsCh := make(chan *peer.HS, 1)
			hs := peer.Run(peer.ClientConfig("example.com"), tls.HelloCustom, v.serverConfig(), peer.Opts{KeepOpen: true,
				Prepare:    func(u *tls.UConn) error { return u.ApplyPreset(v.spec()) },
				WrapClient: func(e *peer.Endpoint) { e.Transform = tamper(&firstC) },
				WrapServer: func(e *peer.Endpoint) { e.Transform = tamper(&firstS) },
				ServerAfter: func(s *tls.Conn) error {
					if dir == 0 {
						b := make([]byte, 64)
						for {
							n, err := s.Read(b)
							srvGot = append(srvGot, b[:n]...)
							if err != nil {
								srvErr = err
								return nil
							}
						}
					}
					firstS = (<-hsCh).SE.WriteCount()
					s.Write(msg)
					s.Write(follow)
					s.CloseWrite()
					io.Copy(io.Discard, s)
					return nil
				}})
			hsCh <- hs
			if !hs.OK() {
				hs.Finish()
				r.Obs = "not-negotiable"
				return
			}
			var got []byte
			var rerr error
			if dir == 0 {
				firstC = hs.CE.WriteCount()
				hs.U.Write(msg)
				hs.U.Write(follow)
				hs.U.CloseWrite()
				hs.Finish()
				got, rerr = srvGot, srvErr
			} else {
				b := make([]byte, 64)
				for {
					n, err := hs.U.Read(b)
					got = append(got, b[:n]...)
					if err != nil {
						rerr = err
						break
					}
				}
				hs.Finish()
			}
			if outOfRange || !applied {
				r.Obs = "pos-beyond-record"
				return
			}
			r.Nontrivial = true
			r.Class = what
			orig := append(append([]byte{}, msg...), follow...)
			if rerr == nil || rerr == io.EOF {
				r.Violate(fmt.Sprintf("C25|tamper-undetected|vers=%04x|suite=%04x|mode=%d", v.vers, v.suite, mode), "%s: the receiver reported no error (err=%v) although a ciphertext byte was changed; it read %d bytes", what, rerr, len(got))
			}
			if !bytes.HasPrefix(orig, got) {
				r.Violate(fmt.Sprintf("C25|altered-plaintext|vers=%04x|suite=%04x|mode=%d", v.vers, v.suite, mode), "%s: the receiver returned bytes that are not a prefix of what was written: % x", what, got)
			}
			r.Count("tampered_streams", 1)
			r.Obs = fmt.Sprintf("%04x|detected=%v", v.vers, rerr != nil && rerr != io.EOF)
			if pos == 7 && mode == 0 {
				r.Sample = map[string]any{"case": what, "receiver_error": fmt.Sprint(rerr), "bytes_before_error": len(got)}
			}
			return
		},
	}
}

// c25ForgedWeak: no server in this sandbox negotiates the weak CBC suites, so their record
// protection is exercised on connections forged from shared secrets (both ends utls).
func c25ForgedWeak() *explore.Scenario {
	suites := c25Suites(true)
	return &explore.Scenario{
		Name: "weak-cbc-forged-connections",
		Run: func(x *explore.X) (r explore.Result) {
			weakOnce.Do(tls.EnableWeakCiphers)
			v := suites[x.Choose("suite", len(suites))]
			dir := x.Choose("dir", 2)
			mode := x.Choose("mode", 4) // 0 intact, 1 xor 0x01, 2 xor 0x80, 3 truncate
			pos := x.Choose("pos", 100)
			size := []int{5, 20, 16385}[x.Choose("size", 3)]
			if mode == 0 && pos != 0 {
				r.Obs = "n/a"
				return
			}
			what := fmt.Sprintf("forged suite=%04x dir=%d mode=%d pos=%d size=%d", v.suite, dir, mode, pos, size)
			ce, se := peer.Pipe()
			ms, cr, sr := secretPatterns[1](48), secretPatterns[2](32), secretPatterns[0](32)
			c := tls.MakeConnWithCompleteHandshake(ce, tls.VersionTLS12, v.suite, ms, cr, sr, true)
			s := tls.MakeConnWithCompleteHandshake(se, tls.VersionTLS12, v.suite, ms, cr, sr, false)
			if c == nil || s == nil {
				r.Violate("C25|forged-nil", "%s: MakeConnWithCompleteHandshake returned nil", what)
				return
			}
			w, rd, we, re := c, s, ce, se
			if dir == 1 {
				w, rd, we, re = s, c, se, ce
			}
			_ = re
			applied := false
			we.Transform = func(n int, b []byte) []byte {
				if n != 0 || mode == 0 || pos >= len(b) {
					return b
				}
				applied = true
				switch mode {
				case 1:
					b[pos] ^= 0x01
				case 2:
					b[pos] ^= 0x80
				case 3:
					return b[:pos]
				}
				return b
			}
			msg := payload(size, 3)
			if _, err := w.Write(msg); err != nil {
				r.Violate("C25|forged-write", "%s: %v", what, err)
				return
			}
			// a second, untouched record follows (as in the negotiated-connection scenario), so that
			// dropping a whole record is visible to the receiver as a sequence-number break
			follow := payload(3, 4)
			if _, err := w.Write(follow); err != nil {
				r.Violate("C25|forged-write", "%s: %v", what, err)
				return
			}
			msg = append(msg, follow...)
			we.Close()
			got, rerr := io.ReadAll(rd)
			if mode != 0 && !applied {
				r.Obs = "pos-beyond-record"
				return
			}
			r.Nontrivial = true
			r.Class = what
			if mode == 0 {
				if rerr != nil || !bytes.Equal(got, msg) {
					r.Violate(fmt.Sprintf("C25|stream-differs|vers=0303|suite=%04x", v.suite), "%s: read %d bytes err %v", what, len(got), rerr)
				}
				r.Count("streams_compared", 1)
			} else {
				if rerr == nil {
					r.Violate(fmt.Sprintf("C25|tamper-undetected|vers=0303|suite=%04x|mode=%d", v.suite, mode), "%s: no error, %d bytes read", what, len(got))
				}
				if !bytes.HasPrefix(msg, got) {
					r.Violate(fmt.Sprintf("C25|altered-plaintext|vers=0303|suite=%04x|mode=%d", v.suite, mode), "%s: altered plaintext returned", what)
				}
				r.Count("tampered_streams", 1)
			}
			r.Obs = fmt.Sprintf("weak|mode%d|viol=%d", mode, len(r.Viol))
			return
		},
	}
}

func c25Scenarios(thorough bool) []*explore.Scenario {
	// the weak scenarios run last: EnableWeakCiphers is process-global and irreversible
	return []*explore.Scenario{c25Traffic("traffic-shapes", false), c25Tamper("every-byte-tamper", false), c25Independent("rfc-reference-record-oracle", false), c25StdPeerKeyUpdates(), c25RetryAfterTimeout(), c25CoalescedPostHandshake(), c25PaddedRecords(), clientKeyUpdateReplyFails("C25"),
		c25ForgedWeak(), c25Independent("rfc-reference-record-oracle-weak-suites", true)}
}

func init() {
	register(&Prop{ID: "C25", Level: "exploration", Variant: "A", Scenarios: c25Scenarios,
		Run: func(c *explore.Check, thorough bool) {
			c.Rule = "every (version, suite) the utls server negotiates with a single-suite utls client (TLS 1.3 x3; every TLS 1.2/1.1/1.0 suite of the server's table at each version it is valid for; the 3 weak CBC suites after EnableWeakCiphers) x direction x 1-2 writes with sizes from {0,1,2,15,16,17,16383,16384,16385,32768} x read buffer {1,7,4096,65536} x TLS 1.3 key update {none, before, between, between+requested, after}: bytes read == bytes written; TLS 1.3 against the standard library's server: every sequence of <= 3 client KeyUpdates {plain, requesting one back} and two runs of 40 (all / every other one answered by a server KeyUpdate: a long-lived connection) x 3 suites x 3 chunk sizes with an echo after each; 5 (version, suite) pairs x 3 message sizes x first delivered piece of {1..6,13,21,40,100} bytes followed by one transport timeout in mid-record, Read retried: the message arrives intact; 1-4 KeyUpdate messages coalesced into one record (x 1-2 rounds, 3 clients) followed by data under the updated key; TLS 1.3 records whose inner plaintext carries {0,1,2,17,255,383} bytes of RFC 8446 5.4 padding x 4 content sizes x 3 suites x 3 clients: exactly the content is delivered; 1-2 server KeyUpdates {plain, update_requested} each followed by data while the client transport {works, fails every write} x 3 clients: the client reads exactly what was sent; tampering: for 5- and 20-byte writes every byte position of the written record(s) XOR 0x01 and XOR 0x80 and every truncation length, both directions: the receiver must return an error and only a prefix of the original. distinct = case"
			c.Assumptions = []string{"tampering is applied to the whole transport write that carries the message (records incl. the TLS 1.0 1/n-1 split)", "no server available in the sandbox negotiates the weak CBC suites: their record layer is exercised on connections forged with MakeConnWithCompleteHandshake (run last, EnableWeakCiphers is process-global)"}
			runAll(c, c25Scenarios(thorough), 0)
			c.Gate(c.Total.Counters["streams_compared"] > 5000, "non-vacuity: %d streams", c.Total.Counters["streams_compared"])
			c.Gate(c.Total.Counters["tampered_streams"] > 2000, "non-vacuity: %d tampered streams", c.Total.Counters["tampered_streams"])
		}})
}
