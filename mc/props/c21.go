package props

import (
	"bytes"
	"compress/flate"
	"compress/zlib"
	"crypto/ecdsa"
	"crypto/elliptic"
	"crypto/rand"
	"crypto/x509"
	"crypto/x509/pkix"
	"encoding/asn1"
	"fmt"
	"io"
	"math/big"
	"strings"
	"sync"
	"time"

	"github.com/andybalholm/brotli"
	"github.com/klauspost/compress/zstd"
	tls "github.com/refraction-networking/utls"

	"verifmc/explore"
	"verifmc/peer"
)

// C21 — compressed server certificates are recovered exactly.

const (
	algZlib   = 1
	algBrotli = 2
	algZstd   = 3
)

type encoder struct {
	name string
	alg  uint16
	enc  func(in []byte) []byte
}

// writeChunks feeds in to w, flushing after every `every` bytes (0 = never).
func writeChunks(w io.Writer, flush func() error, in []byte, every int) {
	if every <= 0 {
		w.Write(in)
		return
	}
	for len(in) > 0 {
		n := every
		if n > len(in) {
			n = len(in)
		}
		w.Write(in[:n])
		flush()
		in = in[n:]
	}
}

func c21Encoders() []encoder {
	var out []encoder
	for _, lvl := range []int{flate.NoCompression, flate.BestSpeed, flate.BestCompression, flate.HuffmanOnly} {
		for _, fl := range []int{0, 7, 512} {
			lvl, fl := lvl, fl
			out = append(out, encoder{fmt.Sprintf("zlib/level%d/flush%d", lvl, fl), algZlib, func(in []byte) []byte {
				var b bytes.Buffer
				w, _ := zlib.NewWriterLevel(&b, lvl)
				writeChunks(w, w.Flush, in, fl)
				w.Close()
				return b.Bytes()
			}})
		}
	}
	for _, q := range []int{0, 5, 11} {
		for _, lgwin := range []int{10, 22} {
			for _, fl := range []int{0, 7, 512} {
				q, lgwin, fl := q, lgwin, fl
				out = append(out, encoder{fmt.Sprintf("brotli/q%d/lgwin%d/flush%d", q, lgwin, fl), algBrotli, func(in []byte) []byte {
					var b bytes.Buffer
					w := brotli.NewWriterOptions(&b, brotli.WriterOptions{Quality: q, LGWin: lgwin})
					writeChunks(w, w.Flush, in, fl)
					w.Close()
					return b.Bytes()
				}})
			}
		}
	}
	for _, lvl := range []zstd.EncoderLevel{zstd.SpeedFastest, zstd.SpeedDefault, zstd.SpeedBestCompression} {
		for _, win := range []int{1 << 10, 8 << 20} {
			for _, fl := range []int{0, 7, 512} {
				lvl, win, fl := lvl, win, fl
				out = append(out, encoder{fmt.Sprintf("zstd/%v/win%d/flush%d", lvl, win, fl), algZstd, func(in []byte) []byte {
					var b bytes.Buffer
					w, err := zstd.NewWriter(&b, zstd.WithEncoderLevel(lvl), zstd.WithWindowSize(win), zstd.WithEncoderConcurrency(1))
					if err != nil {
						panic(err)
					}
					writeChunks(w, w.Flush, in, fl)
					w.Close()
					return b.Bytes()
				}})
			}
		}
	}
	out = append(out, encoder{"zstd/EncodeAll", algZstd, func(in []byte) []byte {
		w, _ := zstd.NewWriter(nil, zstd.WithEncoderConcurrency(1))
		return w.EncodeAll(in, nil)
	}})
	return out
}

var (
	bigCertOnce sync.Once
	bigCerts    map[string]tls.Certificate
)

// c21Certs: server certificates of growing Certificate-message size (all valid for example.com).
func c21Certs() map[string]tls.Certificate {
	bigCertOnce.Do(func() {
		f := peer.Fix()
		bigCerts = map[string]tls.Certificate{"small": f.ECDSA, "chain3": f.Chain3}
		for name, pad := range map[string]int{"60KiB": 60 << 10, "250KiB": 250 << 10} {
			k, _ := ecdsa.GenerateKey(elliptic.P256(), rand.Reader)
			t := &x509.Certificate{SerialNumber: big.NewInt(int64(pad)), Subject: pkix.Name{CommonName: "big " + name},
				NotBefore: peer.Now.AddDate(-1, 0, 0), NotAfter: peer.Now.AddDate(1, 0, 0), DNSNames: peer.Names,
				KeyUsage: x509.KeyUsageDigitalSignature, ExtKeyUsage: []x509.ExtKeyUsage{x509.ExtKeyUsageServerAuth},
				ExtraExtensions: []pkix.Extension{{Id: asn1.ObjectIdentifier{1, 3, 6, 1, 4, 1, 55555, 1}, Value: bytes.Repeat([]byte("verif-padding-"), pad/14)}}}
			der, err := x509.CreateCertificate(rand.Reader, t, f.CACert, &k.PublicKey, peer.CAKey())
			if err != nil {
				panic(err)
			}
			leaf, _ := x509.ParseCertificate(der)
			bigCerts[name] = tls.Certificate{Certificate: [][]byte{der}, PrivateKey: k, Leaf: leaf}
		}
	})
	return bigCerts
}

// certOfMessageBody makes a one-certificate chain whose TLS 1.3 Certificate message body is exactly n
// bytes (context length 1 + list length 3 + entry length 3 + DER + entry extensions 2).
var (
	limitCertMu sync.Mutex
	limitCerts  = map[int]tls.Certificate{}
)

func certOfMessageBody(n int) tls.Certificate {
	limitCertMu.Lock()
	defer limitCertMu.Unlock()
	if c, ok := limitCerts[n]; ok {
		return c
	}
	f := peer.Fix()
	pad := n - 1200
	for try := 0; try < 60; try++ {
		k, _ := ecdsa.GenerateKey(elliptic.P256(), rand.Reader)
		t := &x509.Certificate{SerialNumber: big.NewInt(int64(n)), Subject: pkix.Name{CommonName: "limit"},
			NotBefore: peer.Now.AddDate(-1, 0, 0), NotAfter: peer.Now.AddDate(1, 0, 0), DNSNames: peer.Names,
			KeyUsage: x509.KeyUsageDigitalSignature, ExtKeyUsage: []x509.ExtKeyUsage{x509.ExtKeyUsageServerAuth},
			ExtraExtensions: []pkix.Extension{{Id: asn1.ObjectIdentifier{1, 3, 6, 1, 4, 1, 55555, 2}, Value: bytes.Repeat([]byte{0x5a}, pad)}}}
		der, err := x509.CreateCertificate(rand.Reader, t, f.CACert, &k.PublicKey, peer.CAKey())
		if err != nil {
			panic(err)
		}
		if d := n - (len(der) + 9); d != 0 {
			pad += d // (signature length varies by a byte or two: converge on the exact size)
			continue
		}
		leaf, _ := x509.ParseCertificate(der)
		c := tls.Certificate{Certificate: [][]byte{der}, PrivateKey: k, Leaf: leaf}
		limitCerts[n] = c
		return c
	}
	panic("c21: could not size a certificate message")
}

// c21AtTheLimit: Certificate messages whose body sits on the 256 KiB handshake-message limit (and a few
// bytes below), compressed: every one of them is accepted uncompressed, so it must be recovered.
func c21AtTheLimit() *explore.Scenario {
	encs := c21Encoders()
	return &explore.Scenario{
		Name: "certificate-message-at-the-size-limit", Watchdog: 120 * time.Second, HangSig: "C21|hang",
		Run: func(x *explore.X) (r explore.Result) {
			size := []int{262144, 262143, 262141, 262140}[x.Choose("message-body", 4)]
			pick := x.Choose("alg", 3) + 1
			var e encoder
			for _, c := range encs {
				if int(c.alg) == pick && strings.HasSuffix(c.name, "flush0") {
					e = c
					break
				}
			}
			name := fmt.Sprintf("limit-%d", size)
			limitCertMu.Lock()
			_, have := c21Certs()[name]
			limitCertMu.Unlock()
			if !have {
				c := certOfMessageBody(size)
				limitCertMu.Lock()
				bigCerts[name] = c
				limitCertMu.Unlock()
			}
			cs := c21Case{certName: name, enc: e, advert: []tls.CertCompressionAlgo{tls.CertCompressionAlgo(e.alg)}, declared: func(n int) int { return n }, expect: "ok"}
			what := fmt.Sprintf("Certificate message body of %d bytes, %s", size, e.name)
			hs, body, rep := runC21(&cs)
			if !rep {
				r.Obs = "not-replaced"
				return
			}
			if len(body) != size {
				r.Violate("INFRA|c21-limit-size", "%s: body is %d bytes", what, len(body))
				return
			}
			c21Oracle(&r, what, cs, hs, body)
			r.Obs = fmt.Sprintf("size=%d|ok=%v", size, hs.CErr == nil)
			r.Nontrivial = true
			r.Class = what
			return
		},
	}
}

func compressCertSpec(algs []tls.CertCompressionAlgo) *tls.ClientHelloSpec {
	sp := handshakeSpec("tls13-minimal")
	if len(algs) > 0 {
		sp.Extensions = append(sp.Extensions, &tls.UtlsCompressCertExtension{Algorithms: algs})
	}
	return sp
}

// compressedCertMsg builds a CompressedCertificate handshake message.
func compressedCertMsg(alg uint16, declared int, compressed []byte) []byte {
	body := []byte{byte(alg >> 8), byte(alg), byte(declared >> 16), byte(declared >> 8), byte(declared),
		byte(len(compressed) >> 16), byte(len(compressed) >> 8), byte(len(compressed))}
	return hsMsg(25, append(body, compressed...))
}

type c21Case struct {
	certName string
	enc      encoder
	advert   []tls.CertCompressionAlgo
	declared func(real int) int
	mutate   func(c []byte) []byte
	label    string
	expect   string // "ok", "bad_certificate", "error-or-identical"
	client   *gridClient
	prepare  func(u *tls.UConn) error
	compLen  int // set by runC21: size of the compressed stream that was sent
	// clientAuth: the server also sends a CertificateRequest (the message before its certificate)
	clientAuth bool
}

// runC21 performs one handshake in which the server's Certificate is replaced by a CompressedCertificate.
func runC21(cs *c21Case) (hs *peer.HS, sentBody []byte, replaced bool) {
	cert := c21Certs()[cs.certName]
	scfg := peer.ServerConfig(cert)
	scfg.MinVersion = tls.VersionTLS13
	if cs.clientAuth {
		scfg.ClientAuth = tls.RequestClientCert
	}
	hk := &connHooks{}
	hk.Out = func(n int, t uint8, d []byte) []byte {
		if t != 11 || replaced {
			return d
		}
		replaced = true
		sentBody = append([]byte(nil), d[4:]...)
		comp := cs.enc.enc(sentBody)
		if cs.mutate != nil {
			comp = cs.mutate(comp)
		}
		cs.compLen = len(comp)
		return compressedCertMsg(cs.enc.alg, cs.declared(len(sentBody)), comp)
	}
	var cleanup func()
	id := tls.HelloCustom
	prep := func(u *tls.UConn) error { return u.ApplyPreset(compressCertSpec(cs.advert)) }
	ccfg := peer.ClientConfig("example.com")
	if cs.client != nil {
		id, prep, ccfg = cs.client.ID, cs.client.prepare(), cs.client.config("example.com")
	}
	if cs.prepare != nil {
		prep = cs.prepare
	}
	hs = peer.Run(ccfg, id, scfg, peer.Opts{Prepare: prep, Echo: true,
		OnConns: func(u *tls.UConn, s *tls.Conn) { cleanup = installHooks(s, hk) }})
	if cleanup != nil {
		cleanup()
	}
	return
}

// alertOf extracts the alert the server received from the client ("remote error: tls: bad certificate").
func alertOf(err error) string {
	if err == nil {
		return ""
	}
	s := err.Error()
	if i := strings.Index(s, "remote error: tls: "); i >= 0 {
		return s[i+len("remote error: tls: "):]
	}
	return ""
}

func c21Oracle(r *explore.Result, what string, cs c21Case, hs *peer.HS, sentBody []byte) {
	if hs.CPanic != "" {
		r.Violate("C21|panic", "%s: %s", what, truncStr(hs.CPanic, 300))
		return
	}
	encClass := strings.SplitN(cs.enc.name, "/", 2)[0]
	flushed := !strings.HasSuffix(cs.enc.name, "flush0") && cs.enc.name != "zstd/EncodeAll"
	switch cs.expect {
	case "ok":
		if 8+cs.compLen > 262144 {
			// the encoding itself exceeds the handshake message size limit: refusing it is allowed
			r.Count("encoding_exceeds_message_limit", 1)
			return
		}
		if !(hs.OK() && hs.EchoOK) {
			r.Violate(fmt.Sprintf("C21|valid-encoding-refused|alg=%s|flushed=%v|cert=%s", encClass, flushed, cs.certName), "%s: a valid compressed encoding with the exact declared length is refused: client %v / server %v", what, hs.CErr, hs.SErr)
			return
		}
		pcs := hs.U.ConnectionState().PeerCertificates
		want := c21Certs()[cs.certName].Certificate
		if len(pcs) != len(want) {
			r.Violate("C21|certificates-differ", "%s: client holds %d certificates, server sent %d", what, len(pcs), len(want))
			return
		}
		for i := range want {
			if !bytes.Equal(pcs[i].Raw, want[i]) {
				r.Violate("C21|certificates-differ", "%s: certificate %d differs", what, i)
			}
		}
		r.Count("recovered_exactly", 1)
	case "bad_certificate":
		if hs.CErr == nil {
			r.Violate(fmt.Sprintf("C21|accepted|%s", cs.label), "%s: the handshake succeeded", what)
			return
		}
		if a := alertOf(hs.SErr); a != "bad certificate" {
			r.Violate(fmt.Sprintf("C21|wrong-alert|%s|%s", cs.label, errClass(fmt.Errorf("%s", a))), "%s: the client aborted with alert %q (client error %v), RFC 8879 requires bad_certificate", what, a, hs.CErr)
		}
		r.Count("rejected_as_required", 1)
	case "error-or-identical":
		if hs.CErr == nil {
			pcs := hs.U.ConnectionState().PeerCertificates
			want := c21Certs()[cs.certName].Certificate
			same := len(pcs) == len(want)
			for i := 0; same && i < len(want); i++ {
				same = bytes.Equal(pcs[i].Raw, want[i])
			}
			if !same {
				r.Violate("C21|corrupted-stream-yields-other-certificate", "%s: a corrupted stream was accepted with different certificates", what)
			}
			r.Count("corruption_harmless", 1)
		} else {
			r.Count("corruption_rejected", 1)
		}
	}
}

func c21Encodings() *explore.Scenario {
	encs := c21Encoders()
	certNames := []string{"small", "chain3", "60KiB", "250KiB"}
	adverts := map[uint16][][]tls.CertCompressionAlgo{}
	all := []tls.CertCompressionAlgo{tls.CertCompressionZlib, tls.CertCompressionBrotli, tls.CertCompressionZstd}
	for _, a := range all {
		other := all[(int(a))%3]
		adverts[uint16(a)] = [][]tls.CertCompressionAlgo{{a}, {other, a}, all}
	}
	return &explore.Scenario{
		Name: "encoder-structures-x-sizes", Watchdog: 120 * time.Second, HangSig: "C21|hang",
		Run: func(x *explore.X) (r explore.Result) {
			e := encs[x.Choose("encoder", len(encs))]
			cn := certNames[x.Choose("cert", len(certNames))]
			adv := adverts[e.alg][x.Choose("advert", 3)]
			ca := x.Choose("srv.clientauth", 2) == 1
			if ca && cn != "small" {
				r.Obs = "n/a" // the client-certificate-request axis is run with the small certificate only
				return
			}
			cs := c21Case{certName: cn, enc: e, advert: adv, declared: func(n int) int { return n }, expect: "ok", clientAuth: ca}
			what := fmt.Sprintf("%s cert=%s advertised=%v clientauth=%v", e.name, cn, adv, ca)
			hs, body, rep := runC21(&cs)
			if !rep {
				r.Violate("INFRA|c21-no-certificate-message", "%s: no Certificate message seen (client %v)", what, hs.CErr)
				return
			}
			c21Oracle(&r, what, cs, hs, body)
			r.Obs = fmt.Sprintf("%s|ok=%v", strings.SplitN(e.name, "/", 2)[0], hs.CErr == nil)
			r.Nontrivial = true
			r.Class = what
			if cn == "chain3" && strings.HasSuffix(e.name, "flush7") {
				r.Sample = map[string]any{"case": what, "certificate_message_bytes": len(body), "result": fmt.Sprint(hs.CErr)}
			}
			return
		},
	}
}

func c21Lengths() *explore.Scenario {
	encs := c21Encoders()
	var base []encoder
	for _, e := range encs {
		if strings.HasSuffix(e.name, "flush0") && (strings.Contains(e.name, "level-1") || strings.Contains(e.name, "level1/") || strings.Contains(e.name, "q5/lgwin22") || strings.Contains(e.name, "default/win8388608") || strings.Contains(e.name, "Default") && strings.Contains(e.name, "8388608")) {
			base = append(base, e)
		}
	}
	if len(base) < 3 {
		base = []encoder{encs[3], encs[12+9+3], encs[len(encs)-1]}
	}
	type lenCase struct {
		name string
		f    func(n int) int
	}
	lens := []lenCase{{"-1", func(n int) int { return n - 1 }}, {"-100", func(n int) int { return n - 100 }}, {"0", func(n int) int { return 0 }},
		{"+1", func(n int) int { return n + 1 }}, {"+100", func(n int) int { return n + 100 }}, {"2^24-1", func(n int) int { return 1<<24 - 1 }}}
	return &explore.Scenario{
		Name: "declared-length-and-algorithm-lies", Watchdog: 60 * time.Second, HangSig: "C21|hang",
		Run: func(x *explore.X) (r explore.Result) {
			e := base[x.Choose("encoder", len(base))]
			cn := []string{"small", "chain3"}[x.Choose("cert", 2)]
			kind := x.Choose("kind", len(lens)+3)
			cs := c21Case{certName: cn, enc: e, advert: []tls.CertCompressionAlgo{tls.CertCompressionAlgo(e.alg)}, declared: func(n int) int { return n }, expect: "bad_certificate"}
			switch {
			case kind == len(lens)+2:
				// the hello was built advertising the server's algorithm, then the extension object was
				// edited to another one: only that one is on the wire
				cs.label = "algorithm-replaced-after-build"
				alg, other := tls.CertCompressionAlgo(e.alg), tls.CertCompressionAlgo(e.alg%3+1)
				cs.prepare = func(u *tls.UConn) error {
					if err := u.ApplyPreset(compressCertSpec([]tls.CertCompressionAlgo{alg})); err != nil {
						return err
					}
					if err := u.BuildHandshakeState(); err != nil {
						return err
					}
					for _, ex := range u.Extensions {
						if cc, ok := ex.(*tls.UtlsCompressCertExtension); ok {
							cc.Algorithms = []tls.CertCompressionAlgo{other}
						}
					}
					return nil
				}
			case kind < len(lens):
				cs.declared = lens[kind].f
				cs.label = "declared" + lens[kind].name
			case kind == len(lens):
				// algorithm not advertised (another one is)
				cs.advert = []tls.CertCompressionAlgo{tls.CertCompressionAlgo(e.alg%3 + 1)}
				cs.label = "algorithm-not-advertised"
			case kind == len(lens)+1 && x.Choose("longer", 2) == 1:
				// the stream decompresses to the Certificate message plus 5 more bytes, declared = message length
				inner := e.enc
				cs.enc = encoder{e.name, e.alg, func(in []byte) []byte { return inner(append(append([]byte(nil), in...), 1, 2, 3, 4, 5)) }}
				cs.declared = func(n int) int { return n }
				cs.label = "stream-longer-than-declared"
			default:
				// the extension was removed after the first build: nothing is advertised on the wire
				cs.label = "extension-removed-after-build"
				alg := tls.CertCompressionAlgo(e.alg)
				cs.prepare = func(u *tls.UConn) error {
					if err := u.ApplyPreset(compressCertSpec([]tls.CertCompressionAlgo{alg})); err != nil {
						return err
					}
					if err := u.BuildHandshakeState(); err != nil {
						return err
					}
					var kept []tls.TLSExtension
					for _, ex := range u.Extensions {
						if _, ok := ex.(*tls.UtlsCompressCertExtension); !ok {
							kept = append(kept, ex)
						}
					}
					u.Extensions = kept
					return u.BuildHandshakeState()
				}
			}
			what := fmt.Sprintf("%s cert=%s %s", e.name, cn, cs.label)
			hs, body, rep := runC21(&cs)
			if !rep {
				r.Violate("INFRA|c21-no-certificate-message", "%s: %v", what, hs.CErr)
				return
			}
			if cs.label == "extension-removed-after-build" {
				// any abort is acceptable here (the message itself is unexpected); acceptance is not
				if hs.CErr == nil {
					r.Violate("C21|accepted|"+cs.label, "%s: a CompressedCertificate was accepted although the ClientHello on the wire advertised no algorithm", what)
				}
			} else {
				c21Oracle(&r, what, cs, hs, body)
			}
			r.Obs = fmt.Sprintf("%s|rejected=%v", cs.label, hs.CErr != nil)
			r.Nontrivial = true
			r.Class = what
			r.Sample = map[string]any{"case": what, "client_error": fmt.Sprint(hs.CErr), "alert_seen_by_server": alertOf(hs.SErr)}
			return
		},
	}
}

func c21Corruption(thorough bool) *explore.Scenario {
	encs := c21Encoders()
	base := []encoder{encs[3], encs[12+9], encs[len(encs)-1]} // zlib level1/flush0, brotli q5/lgwin10/flush0, zstd EncodeAll
	// + encodings whose payload is carried verbatim and is protected only by the stream's own
	// checksum: zlib with stored blocks (Adler-32 trailer), zstd with raw blocks and a frame CRC
	base = append(base, encoder{"zlib/stored", algZlib, func(in []byte) []byte {
		var b bytes.Buffer
		w, _ := zlib.NewWriterLevel(&b, zlib.NoCompression)
		w.Write(in)
		w.Close()
		return b.Bytes()
	}}, encoder{"zstd/fastest+crc", algZstd, func(in []byte) []byte {
		w, _ := zstd.NewWriter(nil, zstd.WithEncoderLevel(zstd.SpeedFastest), zstd.WithEncoderCRC(true))
		return w.EncodeAll(in, nil)
	}})
	base = append(base, encoder{"zlib/stored/from-the-end", algZlib, base[3].enc})
	// a hand-assembled zstd frame: one Raw_Block carrying the message verbatim, plus the content checksum
	// (taken from the encoder's own output for the same content). Every byte of the block can be altered
	// without touching the frame structure or the declared length: only the checksum notices.
	base = append(base, encoder{"zstd/one-raw-block+crc", algZstd, func(in []byte) []byte {
		w, _ := zstd.NewWriter(nil, zstd.WithEncoderLevel(zstd.SpeedFastest), zstd.WithEncoderCRC(true))
		ref := w.EncodeAll(in, nil)
		sum := ref[len(ref)-4:]
		n := len(in)
		out := []byte{0x28, 0xb5, 0x2f, 0xfd, 0xa4, byte(n), byte(n >> 8), byte(n >> 16), byte(n >> 24)}
		bh := 1 | n<<3
		out = append(out, byte(bh), byte(bh>>8), byte(bh>>16))
		out = append(out, in...)
		return append(out, sum...)
	}})
	return &explore.Scenario{
		Name: "every-byte-corruption-and-truncation", Watchdog: 60 * time.Second, HangSig: "C21|hang",
		Run: func(x *explore.X) (r explore.Result) {
			e := base[x.Choose("encoder", len(base))]
			mode := x.Choose("mode", 2) // 0 xor 0xff at pos, 1 truncate at pos
			pos := x.Choose("pos", 900)
			applied := false
			certName := "small"
			fromEnd := false
			if strings.Contains(e.name, "one-raw-block") || strings.Contains(e.name, "from-the-end") {
				// the 3-certificate chain, positions counted back from the end of the block: the last
				// certificate is not needed for verification, so an altered copy of it still parses —
				// nothing but the frame checksum stands between the alteration and PeerCertificates
				certName, fromEnd = "chain3", true
			}
			cs := c21Case{certName: certName, enc: e, advert: []tls.CertCompressionAlgo{tls.CertCompressionAlgo(e.alg)}, declared: func(n int) int { return n }, expect: "error-or-identical",
				mutate: func(c []byte) []byte {
					if fromEnd {
						pos = len(c) - 5 - pos
					}
					if pos >= len(c) || pos < 0 {
						return c
					}
					applied = true
					if mode == 0 {
						c[pos] ^= 0xff
						return c
					}
					return c[:pos]
				}}
			what := fmt.Sprintf("%s mode=%d pos=%d", e.name, mode, pos)
			hs, body, rep := runC21(&cs)
			if !rep || !applied {
				r.Obs = "pos-beyond-stream"
				return
			}
			c21Oracle(&r, what, cs, hs, body)
			r.Obs = fmt.Sprintf("%s|mode%d|rejected=%v", strings.SplitN(e.name, "/", 2)[0], mode, hs.CErr != nil)
			r.Nontrivial = true
			r.Class = what
			return
		},
	}
}

// parrots that advertise certificate compression on their own
func c21Parrots() *explore.Scenario {
	var clients []gridClient
	for _, g := range gridClients(0, false) {
		if g.Spec != nil || isGolang(g.ID) {
			continue
		}
		sp, err := tls.UTLSIdToSpec(g.ID)
		if err != nil {
			continue
		}
		for _, e := range sp.Extensions {
			if _, ok := e.(*tls.UtlsCompressCertExtension); ok {
				clients = append(clients, g)
				break
			}
		}
	}
	encs := c21Encoders()
	return &explore.Scenario{
		Name: "parrots-advertising-compression",
		Run: func(x *explore.X) (r explore.Result) {
			if len(clients) == 0 {
				r.Violate("INFRA|c21-no-parrot", "no parrot advertises compress_certificate")
				return
			}
			g := clients[x.Choose("client", len(clients))]
			sp, _ := tls.UTLSIdToSpec(g.ID)
			var algs []tls.CertCompressionAlgo
			for _, e := range sp.Extensions {
				if c, ok := e.(*tls.UtlsCompressCertExtension); ok {
					algs = c.Algorithms
				}
			}
			pick := x.Choose("alg", 3) + 1
			adv := false
			for _, a := range algs {
				if int(a) == pick {
					adv = true
				}
			}
			var e encoder
			for _, c := range encs {
				if int(c.alg) == pick && (strings.HasSuffix(c.name, "flush512")) {
					e = c
					break
				}
			}
			cs := c21Case{certName: "chain3", enc: e, declared: func(n int) int { return n }, expect: "ok", client: &g}
			if !adv {
				cs.expect, cs.label = "bad_certificate", "algorithm-not-advertised"
			}
			what := fmt.Sprintf("%s (advertises %v) server uses %s", g.Name, algs, e.name)
			hs, body, rep := runC21(&cs)
			if !rep {
				r.Obs = "no-certificate-message:" + errClass(hs.CErr)
				return
			}
			c21Oracle(&r, what, cs, hs, body)
			r.Obs = fmt.Sprintf("advertised=%v|ok=%v", adv, hs.CErr == nil)
			r.Nontrivial = true
			r.Class = what
			return
		},
	}
}

func c21Scenarios(thorough bool) []*explore.Scenario {
	return []*explore.Scenario{c21Encodings(), c21Lengths(), c21Corruption(thorough), c21Parrots(), c21AtTheLimit()}
}

func init() {
	register(&Prop{ID: "C21", Level: "exploration", Variant: "A", Scenarios: c21Scenarios,
		Run: func(c *explore.Check, thorough bool) {
			c.Rule = "the server's Certificate message is replaced (verif hook, before it enters the server transcript) by a CompressedCertificate: every encoder structure of a finite menu (zlib 4 levels, brotli 3 qualities x 2 windows, zstd 3 levels x 2 windows + EncodeAll, each x flush {never, every 7 B, every 512 B}) x certificate message size {1 cert, 3-cert chain, 60 KiB, 250 KiB} x advertised list {only that algorithm, two, all three} (and, for the small certificate, with a CertificateRequest preceding it) must be recovered exactly; declared length {-1,-100,0,+1,+100,2^24-1}, unadvertised algorithm, algorithm replaced in the extension object after the first build, and extension-removed-after-build must be refused (bad_certificate); every byte XOR 0xff and every truncation of the compressed stream of the small certificate (6 encodings incl. zlib stored blocks, a zstd frame from the encoder with a checksum and a hand-assembled zstd frame of one Raw_Block with a checksum, where only the stream's own checksum notices) must be refused or decode to the identical certificates; parrots that advertise compression x each algorithm; Certificate message bodies of {262144 (the limit), 262143, 262141, 262140} bytes x 3 algorithms must be recovered. distinct = case"
			c.Assumptions = []string{"encoders: compress/zlib, andybalholm/brotli, klauspost/compress/zstd from the module cache", "the hook position keeps client and server transcripts in agreement (both hash the CompressedCertificate message)"}
			runAll(c, c21Scenarios(thorough), 0)
			c.Gate(c.Total.Counters["recovered_exactly"] > 50, "non-vacuity: %d exact recoveries", c.Total.Counters["recovered_exactly"])
			c.Gate(c.Total.Counters["corruption_rejected"] > 200, "non-vacuity: %d rejected corruptions", c.Total.Counters["corruption_rejected"])
		}})
}
