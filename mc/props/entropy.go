package props

import (
	"crypto/sha256"
	"encoding/binary"
)

// scriptRand is a deterministic Config.Rand: a SHA-256 counter stream tagged with a connection
// label, except that a read of exactly len(Special) bytes is answered with Special (used to pin
// the GREASE seed words, which ApplyPreset draws in one read of that size).
type scriptRand struct {
	tag     [32]byte
	ctr     uint64
	buf     []byte
	Special []byte
	// SpecialOnce: only the first matching read is answered with Special (a second ApplyPreset of
	// the same connection then draws fresh seed words from the stream)
	SpecialOnce bool
	Reads       int
	Bytes       int
}

func newScriptRand(label string) *scriptRand { return &scriptRand{tag: sha256.Sum256([]byte(label))} }

func (s *scriptRand) Read(p []byte) (int, error) {
	s.Reads++
	s.Bytes += len(p)
	if s.Special != nil && len(p) == len(s.Special) {
		copy(p, s.Special)
		if s.SpecialOnce {
			s.Special = nil
		}
		return len(p), nil
	}
	for i := range p {
		if len(s.buf) == 0 {
			var c [40]byte
			copy(c[:], s.tag[:])
			binary.LittleEndian.PutUint64(c[32:], s.ctr)
			s.ctr++
			h := sha256.Sum256(c[:])
			s.buf = h[:]
		}
		p[i] = s.buf[0]
		s.buf = s.buf[1:]
	}
	return len(p), nil
}

// seqReader answers reads from a fixed byte sequence, repeating it (for crypto/rand scripting).
type seqReader struct {
	seq []byte
	pos int
	N   int
}

func (s *seqReader) Read(p []byte) (int, error) {
	for i := range p {
		p[i] = s.seq[s.pos%len(s.seq)]
		s.pos++
	}
	s.N += len(p)
	return len(p), nil
}
