package props

import (
	"time"
	"bytes"
	"fmt"
	"io"

	tls "github.com/refraction-networking/utls"

	"verifmc/explore"
	"verifmc/peer"
)

// C28 — GetOutKeystream returns the keystream of the next record.

type aeadSuite struct {
	id       uint16
	vers     uint16
	explicit int // explicit nonce bytes in the record
	cert     string
}

var c28Suites = []aeadSuite{
	{tls.TLS_AES_128_GCM_SHA256, tls.VersionTLS13, 0, "ecdsa"},
	{tls.TLS_AES_256_GCM_SHA384, tls.VersionTLS13, 0, "ecdsa"},
	{tls.TLS_CHACHA20_POLY1305_SHA256, tls.VersionTLS13, 0, "ecdsa"},
	{tls.TLS_ECDHE_ECDSA_WITH_AES_128_GCM_SHA256, tls.VersionTLS12, 8, "ecdsa"},
	{tls.TLS_ECDHE_RSA_WITH_AES_256_GCM_SHA384, tls.VersionTLS12, 8, "rsa"},
	{tls.TLS_ECDHE_ECDSA_WITH_CHACHA20_POLY1305, tls.VersionTLS12, 0, "ecdsa"},
	{tls.TLS_ECDHE_RSA_WITH_CHACHA20_POLY1305, tls.VersionTLS12, 0, "rsa"},
	{tls.TLS_RSA_WITH_AES_128_GCM_SHA256, tls.VersionTLS12, 8, "rsa"},
}

func singleSuiteSpec(s aeadSuite) *tls.ClientHelloSpec {
	sp := handshakeSpec("tls13-minimal")
	sp.CipherSuites = []uint16{s.id}
	if s.vers == tls.VersionTLS12 {
		sp = handshakeSpec("tls12-only")
		sp.CipherSuites = []uint16{s.id}
	}
	return sp
}

func c28Lengths() []int {
	var l []int
	for i := 0; i <= 64; i++ {
		l = append(l, i)
	}
	return append(l, 255, 256, 1000, 16384)
}

func c28Scenario() *explore.Scenario {
	lens := c28Lengths()
	positions := []int{0, 1, 2, 300}
	return &explore.Scenario{
		Name:     "keystream-vs-next-record",
		Watchdog: 20 * time.Second, HangSig: "C28|hang|a-call-after-GetOutKeystream-never-returns",
		Run: func(x *explore.X) (r explore.Result) {
			s := c28Suites[x.Choose("suite", len(c28Suites))]
			pos := positions[x.Choose("position", len(positions))]
			calls := x.Choose("calls", 3) // 0 once, 1 twice, 2 a longer call first, then twice
			n := lens[x.Choose("n", len(lens))]
			// epoch 1 (TLS 1.3): the same calls were already made once under the previous traffic key,
			// at the same sequence position, before a KeyUpdate replaced the outgoing key
			// epoch 2 (TLS 1.3): the outgoing key was replaced because the SERVER asked for it
			// (KeyUpdate with update_requested, answered from inside the client's Read)
			epoch := x.Choose("epoch", 3)
			if epoch != 0 && (s.vers != tls.VersionTLS13 || n > 256) {
				r.Obs = "n/a"
				return
			}
			f := peer.Fix()
			cert := f.ECDSA
			if s.cert == "rsa" {
				cert = f.RSA
			}
			scfg := peer.ServerConfig(cert)
			scfg.MaxVersion = s.vers
			if s.vers == tls.VersionTLS12 {
				scfg.CipherSuites = []uint16{s.id}
			}
			received := new(bytes.Buffer)
			ccfg := peer.ClientConfig("example.com")
			ccfg.DynamicRecordSizingDisabled = true // so that a write of n <= 16384 bytes is one record
			hs := peer.Run(ccfg, tls.HelloCustom, scfg, peer.Opts{KeepOpen: true,
				Prepare:     func(u *tls.UConn) error { return u.ApplyPreset(singleSuiteSpec(s)) },
				ServerAfter: func(c *tls.Conn) error {
					if epoch == 2 {
						if err := tls.VerifSendKeyUpdate(c, true); err != nil {
							return err
						}
						if _, err := c.Write([]byte{0x77}); err != nil {
							return err
						}
					}
					_, err := io.Copy(received, c)
					return err
				}})
			defer hs.Finish()
			what := fmt.Sprintf("suite %04x vers %04x position %d calls-mode %d n=%d key-epoch=%d", s.id, s.vers, pos, calls, n, epoch)
			if !hs.OK() {
				r.Violate("INFRA|c28-handshake", "%s: handshake failed: %v / %v", what, hs.CErr, hs.SErr)
				return
			}
			if cs := hs.U.ConnectionState(); cs.CipherSuite != s.id {
				r.Violate("INFRA|c28-suite", "%s: negotiated %04x", what, cs.CipherSuite)
				return
			}
			var sent []byte
			if epoch == 2 {
				one := make([]byte, 1)
				if _, err := io.ReadFull(hs.U, one); err != nil || one[0] != 0x77 {
					r.Violate("INFRA|c28-requested-keyupdate", "%s: reading the byte behind the server's KeyUpdate: %v", what, err)
					return
				}
			}
			if epoch == 1 {
				for i := 0; i < pos; i++ {
					m := []byte{byte(i), 0x52, 0x53}
					hs.U.Write(m)
					sent = append(sent, m...)
				}
				if _, err := hs.U.GetOutKeystream(n + 64); err != nil {
					r.Violate("C28|error", "%s: %v", what, err)
					return
				}
				if err := tls.VerifSendKeyUpdate(hs.U.Conn, false); err != nil {
					r.Violate("INFRA|c28-keyupdate", "%s: %v", what, err)
					return
				}
			}
			for i := 0; i < pos; i++ {
				m := []byte{byte(i), 0x42, 0x43}
				hs.U.Write(m)
				sent = append(sent, m...)
			}
			var ks []byte
			var err error
			if calls == 2 {
				if _, err = hs.U.GetOutKeystream(4096); err != nil {
					r.Violate("C28|error", "%s: %v", what, err)
					return
				}
			}
			reps := 1
			if calls >= 1 {
				reps = 2
			}
			for i := 0; i < reps; i++ {
				if ks, err = hs.U.GetOutKeystream(n); err != nil {
					r.Violate("C28|error", "%s: %v", what, err)
					return
				}
			}
			if len(ks) < n {
				r.Violate("C28|short", "%s: returned %d bytes", what, len(ks))
				return
			}
			pl := n
			if pl == 0 {
				pl = 1
			}
			pt := make([]byte, pl)
			for i := range pt {
				pt[i] = byte(i*31 + 7)
			}
			before := hs.CE.WriteCount()
			if _, err := hs.U.Write(pt); err != nil {
				r.Violate("C28|write-fails-after-getter", "%s: %v", what, err)
				return
			}
			sent = append(sent, pt...)
			var rec []byte
			for _, w := range hs.CE.Writes[before:] {
				rec = append(rec, w...)
			}
			if len(rec) < 5+s.explicit+n || rec[0] != 23 {
				r.Violate("C28|record-shape", "%s: next record has %d bytes, type %d", what, len(rec), rec[0])
				return
			}
			ct := rec[5+s.explicit:]
			for i := 0; i < n; i++ {
				if ks[i]^pt[i] != ct[i] {
					r.Violate(fmt.Sprintf("C28|keystream-mismatch|vers=%04x|calls=%d", s.vers, calls), "%s: keystream XOR plaintext differs from the record's ciphertext at byte %d", what, i)
					break
				}
			}
			// the peer must still accept everything that was sent
			hs.U.Close()
			hs.Finish()
			if !bytes.Equal(received.Bytes(), sent) {
				r.Violate("C28|peer-rejects-after-getter", "%s: server received %d bytes, client sent %d (server err %v)", what, received.Len(), len(sent), hs.SErr)
			}
			r.Obs = fmt.Sprintf("%04x|viol=%d", s.id, len(r.Viol))
			r.Nontrivial = n > 0
			r.Class = fmt.Sprintf("%04x|%d|%d|%d|%d", s.id, pos, calls, n, epoch)
			if n == 33 && calls == 2 {
				r.Sample = map[string]any{"suite": fmt.Sprintf("%04x", s.id), "position": pos, "n": n, "keystream_prefix": fmt.Sprintf("%x", ks[:8])}
			}
			return
		},
	}
}

// c28Framing — "calling it does not change what the connection subsequently sends", with the
// default dynamic record sizing: two connections run the same script of writes, one of them with
// GetOutKeystream calls interleaved; the record lengths put on the wire must be the same and the
// peer must receive the same bytes.
func c28Framing() *explore.Scenario {
	return &explore.Scenario{
		Name:     "framing-with-and-without-the-call",
		Watchdog: 20 * time.Second, HangSig: "C28|hang|a-call-after-GetOutKeystream-never-returns",
		Run: func(x *explore.X) (r explore.Result) {
			s := c28Suites[x.Choose("suite", len(c28Suites))]
			n := []int{0, 1, 100, 2000, 16384}[x.Choose("n", 5)]
			when := x.Choose("when", 3) // the call(s) come 0 before the first write, 1 between the writes, 2 both
			script := [][]int{{6000}, {100, 6000}, {20000, 3000}, {1, 1, 40000}}[x.Choose("writes", 4)]
			what := fmt.Sprintf("suite %04x vers %04x GetOutKeystream(%d) placement %d writes %v", s.id, s.vers, n, when, script)
			run := func(withCalls bool) (lens []int, got []byte, err error) {
				f := peer.Fix()
				cert := f.ECDSA
				if s.cert == "rsa" {
					cert = f.RSA
				}
				scfg := peer.ServerConfig(cert)
				scfg.MaxVersion = s.vers
				if s.vers == tls.VersionTLS12 {
					scfg.CipherSuites = []uint16{s.id}
				}
				received := new(bytes.Buffer)
				ccfg := peer.ClientConfig("example.com")
				ccfg.Time = func() time.Time { return peer.Now } // the sizing ramp restarts after a second of idleness: frozen clock
				hs := peer.Run(ccfg, tls.HelloCustom, scfg, peer.Opts{KeepOpen: true,
					Prepare:     func(u *tls.UConn) error { return u.ApplyPreset(singleSuiteSpec(s)) },
					ServerAfter: func(c *tls.Conn) error { _, err := io.Copy(received, c); return err }})
				defer hs.Finish()
				if !hs.OK() {
					return nil, nil, fmt.Errorf("handshake: %v / %v", hs.CErr, hs.SErr)
				}
				before := hs.CE.WriteCount()
				for i, sz := range script {
					if withCalls && ((i == 0 && when != 1) || (i > 0 && when != 0)) {
						if _, err := hs.U.GetOutKeystream(n); err != nil {
							return nil, nil, err
						}
					}
					if _, err := hs.U.Write(payload(sz, byte(i))); err != nil {
						return nil, nil, err
					}
				}
				var stream []byte
				for _, w := range hs.CE.Writes[before:] {
					stream = append(stream, w...)
				}
				for len(stream) >= 5 {
					l := int(stream[3])<<8 | int(stream[4])
					lens = append(lens, l)
					if 5+l > len(stream) {
						break
					}
					stream = stream[5+l:]
				}
				hs.U.Close()
				hs.Finish()
				return lens, received.Bytes(), nil
			}
			l0, g0, e0 := run(false)
			l1, g1, e1 := run(true)
			r.Nontrivial = true
			r.Class = what
			if e0 != nil || e1 != nil {
				r.Violate("C28|framing|error", "%s: %v / %v", what, e0, e1)
				return
			}
			if fmt.Sprint(l0) != fmt.Sprint(l1) {
				r.Violate(fmt.Sprintf("C28|framing|record-lengths-differ|vers=%04x", s.vers), "%s: records without the call %v, with it %v", what, l0, l1)
			}
			if !bytes.Equal(g0, g1) {
				r.Violate("C28|framing|peer-received-differs", "%s: the peer received %d bytes without the call and %d with it", what, len(g0), len(g1))
			}
			r.Obs = fmt.Sprintf("records=%d|viol=%d", len(l0), len(r.Viol))
			r.Count("framing_compared", 1)
			return
		},
	}
}

func c28Scenarios(thorough bool) []*explore.Scenario {
	return []*explore.Scenario{c28Scenario(), c28Framing()}
}

func init() {
	register(&Prop{ID: "C28", Level: "exploration", Variant: "A", Scenarios: c28Scenarios,
		Run: func(c *explore.Check, thorough bool) {
			c.Rule = "8 AEAD suites (3 TLS 1.3, 5 TLS 1.2 incl. static-RSA GCM and both ChaCha20) x n in {0..64,255,256,1000,16384} x sequence position {0,1,2,300 records written before} x call pattern {once, twice, a 4096-byte call then twice} x (TLS 1.3) key epoch {first, after a KeyUpdate that followed the same calls at the same position, after answering a server KeyUpdate(update_requested) from inside Read}: keystream[:n] XOR plaintext == ciphertext of the next application-data record after the explicit nonce, and the peer receives exactly the bytes sent; with dynamic record sizing on: 8 suites x n {0,1,100,2000,16384} x call placement {before the first write, between writes, both} x 4 write scripts (up to 40000 bytes), the same connection script run with and without the calls puts the same record lengths on the wire. distinct = (suite, position, pattern, n)"
			c.Assumptions = []string{"the suite is pinned by a custom spec offering exactly that suite; legacy ChaCha20 code points are not negotiable with the utls server and are covered for data transfer by C27"}
			runAll(c, c28Scenarios(thorough), 0)
		}})
}
