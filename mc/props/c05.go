package props

import (
	"fmt"
	"reflect"

	tls "github.com/refraction-networking/utls"

	"verifmc/explore"
	"verifmc/peer"
	"verifmc/wire"
)

// C05 — padding makes the ClientHello length follow the declared padding policy.

// refBoringPadding is the reference rule, written from the property statement: returns the
// required total handshake-message length (incl. 4-byte header) and whether a padding extension
// must be present, given the unpadded length u.
func refBoringPadding(u int) (total int, padded bool) {
	if u > 255 && u < 512 {
		if 512-u < 5 {
			return u + 4 + 1, true // padding extension with a 1-byte body
		}
		return 512, true
	}
	return u, false
}

func isBoringStyle(p *tls.UtlsPaddingExtension) bool {
	return p.GetPaddingLen != nil && reflect.ValueOf(p.GetPaddingLen).Pointer() == reflect.ValueOf(tls.BoringPaddingStyle).Pointer()
}

// paddingOracle checks one emitted hello against the reference rule.
func paddingOracle(r *explore.Result, kind, what string, h *wire.Hello) (u int) {
	npad := 0
	var pad *wire.Ext
	for i := range h.Exts {
		if h.Exts[i].Type == 21 {
			npad++
			pad = &h.Exts[i]
		}
	}
	if npad > 1 {
		r.Violate("C05|"+kind+"|duplicate-padding", "%s: %d padding extensions", what, npad)
	}
	total := len(h.Msg)
	u = total
	if pad != nil {
		u = total - 4 - len(pad.Body)
		for _, c := range pad.Body {
			if c != 0 {
				r.Violate("C05|"+kind+"|nonzero-padding", "%s: padding body not all zero", what)
				break
			}
		}
	}
	want, padded := refBoringPadding(u)
	switch {
	case padded && pad == nil:
		r.Violate("C05|"+kind+"|missing-padding", "%s: unpadded length %d needs padding to %d, none present (total %d)", what, u, want, total)
	case !padded && pad != nil:
		r.Violate("C05|"+kind+"|unexpected-padding", "%s: unpadded length %d must not be padded, padding of %d bytes present (total %d)", what, u, len(pad.Body), total)
	case padded && total != want:
		r.Violate("C05|"+kind+"|wrong-total", "%s: unpadded length %d must give total %d, got %d (padding body %d)", what, u, want, total, len(pad.Body))
	}
	return u
}

func c05Functions() *explore.Scenario {
	return &explore.Scenario{
		Name: "padding-functions",
		Run: func(x *explore.X) (r explore.Result) {
			part := x.Choose("part", 12)
			n := 0
			if part == 0 {
				for u := 0; u <= 70000; u++ {
					l, will := tls.BoringPaddingStyle(u)
					want, padded := refBoringPadding(u)
					got := u
					if will {
						got = u + 4 + l
					}
					if will != padded || got != want {
						r.Violate("C05|func|BoringPaddingStyle", "BoringPaddingStyle(%d) = (%d,%v): total %d, reference total %d padded=%v", u, l, will, got, want, padded)
						break
					}
					n++
				}
			} else {
				// AlwaysPadToLen(L)(u): pads u up to exactly L when at least 5 bytes are missing,
				// by a 1-byte body when 1..4 are missing, and not at all when u >= L.
				for L := (part - 1) * 100; L < part*100 && L <= 1100; L++ {
					f := tls.AlwaysPadToLen(L)
					for u := 0; u <= 1100; u++ {
						l, will := f(u)
						var wantTotal int
						wantWill := u < L
						switch {
						case u >= L:
							wantTotal = u
						case L-u < 5:
							wantTotal = u + 5
						default:
							wantTotal = L
						}
						got := u
						if will {
							got = u + 4 + l
						}
						if will != wantWill || got != wantTotal {
							r.Violate("C05|func|AlwaysPadToLen", "AlwaysPadToLen(%d)(%d) = (%d,%v): total %d, reference %d", L, u, l, will, got, wantTotal)
							L = 99999
							break
						}
						n++
					}
				}
			}
			r.Count("function_evaluations", n)
			r.Obs = fmt.Sprintf("part%d|viol=%d", part, len(r.Viol))
			r.Nontrivial = true
			r.Class = r.Obs
			return
		},
	}
}

// paddedSources: every ID whose spec carries a BoringPaddingStyle padding extension.
func paddedIDs() []NamedID {
	var out []NamedID
	for _, n := range AllIDs() {
		id := n.ID
		if isCustom(id) || isGolang(id) {
			continue
		}
		if isRandomized(id) {
			continue
		}
		spec, err := tls.UTLSIdToSpec(id)
		if err != nil {
			continue
		}
		for _, e := range spec.Extensions {
			if p, ok := e.(*tls.UtlsPaddingExtension); ok && isBoringStyle(p) {
				out = append(out, n)
				break
			}
		}
	}
	return out
}

func sniConfig(n int) *tls.Config {
	if n == 0 {
		c := peer.ClientConfig("")
		c.InsecureSkipVerify = true
		return c
	}
	return peer.ClientConfig(nameOfLen(n))
}

func c05Hellos() *explore.Scenario {
	ids := paddedIDs()
	return &explore.Scenario{
		Name: "padded-parrots-x-sni-length",
		Run: func(x *explore.X) (r explore.Result) {
			n := ids[x.Choose("id", len(ids))]
			sniLen := x.Choose("snilen", 256)
			variant := x.Choose("variant", 4)
			cfg := sniConfig(sniLen)
			what := fmt.Sprintf("%s sni-len=%d variant=%d", n.Name, sniLen, variant)
			var prep func(u *tls.UConn) error
			id := n.ID
			switch variant {
			case 1, 2, 3:
				// same spec applied as a custom spec with one more extension placed after (1,3) or
				// before (2) the padding extension; (3) adds a non-empty PSK after padding when the
				// spec has none
				id = tls.HelloCustom
				prep = func(u *tls.UConn) error {
					spec, err := tls.UTLSIdToSpec(n.ID)
					if err != nil {
						return err
					}
					hasPSK := false
					padAt := -1
					for i, e := range spec.Extensions {
						if _, ok := e.(tls.PreSharedKeyExtension); ok {
							hasPSK = true
						}
						if _, ok := e.(*tls.UtlsPaddingExtension); ok {
							padAt = i
						}
					}
					extra := tls.TLSExtension(&tls.GenericExtension{Id: 0x4444, Data: rep(1, 37)})
					switch variant {
					case 1:
						if hasPSK {
							// keep PSK last: insert right after padding
							spec.Extensions = append(spec.Extensions[:padAt+1], append([]tls.TLSExtension{extra}, spec.Extensions[padAt+1:]...)...)
						} else {
							spec.Extensions = append(spec.Extensions, extra)
						}
					case 2:
						spec.Extensions = append([]tls.TLSExtension{extra}, spec.Extensions...)
					case 3:
						if hasPSK {
							return fmt.Errorf("skip: spec already has a PSK extension")
						}
						spec.Extensions = append(spec.Extensions, &tls.FakePreSharedKeyExtension{
							Identities: []tls.PskIdentity{{Label: rep(0x31, 40), ObfuscatedTicketAge: 9}}, Binders: [][]byte{rep(0x32, 32)}})
					}
					return u.ApplyPreset(&spec)
				}
			}
			stream, _, perr, pm := firstFlight(cfg, id, prep)
			if pm != "" {
				r.Violate("C05|hello|panic", "%s: %s", what, pm)
				return
			}
			msg, _, err := wire.FirstFlightHello(stream)
			if err != nil {
				r.Obs = "no-hello:" + errClass(perr)
				return
			}
			h, err := wire.ParseClientHello(msg)
			if err != nil {
				// a padded parrot's hello that does not even parse: the padding extension's own length
				// prefix is the first suspect (C02 judges syntax in general; here it is the subject)
				r.Violate("C05|hello|unparsable|"+truncStr(errClass(err), 60), "%s: the hello does not parse: %v", what, err)
				return
			}
			u := paddingOracle(&r, fmt.Sprintf("hello|variant%d", variant), what, h)
			zone := "low"
			if u > 255 && u < 512 {
				zone = "pad"
				if 512-u < 5 {
					zone = "pad1"
				}
			} else if u >= 512 {
				zone = "high"
			}
			r.Obs = fmt.Sprintf("zone=%s|viol=%d", zone, len(r.Viol))
			r.Nontrivial = true
			r.Class = fmt.Sprintf("%s|v%d|u=%d", n.Name, variant, u)
			r.Count("zone_"+zone, 1)
			if sniLen == 100 && variant == 0 {
				r.Sample = map[string]any{"id": n.Name, "sni_len": sniLen, "unpadded": u, "total": len(h.Msg)}
			}
			return
		},
	}
}

// c05Fingerprint: capture a hello with non-empty padding, fingerprint it, re-apply with a
// server name of the same length (different bytes): the total length must be reproduced.
func c05Fingerprint() *explore.Scenario {
	ids := paddedIDs()
	return &explore.Scenario{
		Name: "fingerprinted-padded-captures",
		Run: func(x *explore.X) (r explore.Result) {
			n := ids[x.Choose("id", len(ids))]
			sniLen := 1 + x.Choose("snilen", 255)
			flags := x.Choose("flags", 4)
			stream, _, _, _ := firstFlight(sniConfig(sniLen), n.ID, nil)
			msg, _, err := wire.FirstFlightHello(stream)
			if err != nil {
				r.Obs = "no-hello"
				return
			}
			h, err := wire.ParseClientHello(msg)
			if err != nil {
				r.Violate("C05|fingerprint|capture-unparsable|"+truncStr(errClass(err), 60), "%s sni-len=%d: the padded parrot's hello does not parse: %v", n.Name, sniLen, err)
				return
			}
			pad := h.Find(21)
			if pad == nil || len(pad.Body) == 0 {
				r.Obs = "capture-without-padding"
				return
			}
			if h.Find(41) != nil {
				// PSK identities/binders are per-connection parts whose size the fingerprint
				// does not promise to keep: outside the "same size" premise
				r.Obs = "capture-with-psk"
				return
			}
			f := tls.Fingerprinter{AllowBluntMimicry: flags&1 != 0, AlwaysAddPadding: flags&2 != 0}
			spec, err := f.FingerprintClientHello(recordOf(msg))
			if err != nil {
				r.Obs = "fp-error"
				return
			}
			other := []byte(nameOfLen(sniLen))
			for i := range other {
				if other[i] == 'x' {
					other[i] = 'y'
				}
			}
			cfg := peer.ClientConfig(string(other))
			stream2, _, perr, pm := firstFlight(cfg, tls.HelloCustom, func(u *tls.UConn) error { return u.ApplyPreset(spec) })
			if pm != "" {
				r.Violate("C05|fingerprint|panic", "%s: %s", n.Name, pm)
				return
			}
			msg2, _, err := wire.FirstFlightHello(stream2)
			if err != nil {
				r.Violate("C05|fingerprint|not-rebuilt", "%s sni-len=%d: fingerprinted spec did not build: %v / %v", n.Name, sniLen, perr, err)
				return
			}
			if len(msg2) != len(msg) {
				r.Violate("C05|fingerprint|length", "%s sni-len=%d flags=%d: captured hello %d bytes (padding %d), rebuilt %d bytes", n.Name, sniLen, flags, len(msg), len(pad.Body), len(msg2))
			}
			h2, err := wire.ParseClientHello(msg2)
			if err != nil {
				r.Violate("C05|fingerprint|rebuilt-unparsable|"+truncStr(errClass(err), 60), "%s sni-len=%d flags=%d: the hello rebuilt from the fingerprint does not parse: %v", n.Name, sniLen, flags, err)
			}
			if err == nil {
				np := 0
				for _, e := range h2.Exts {
					if e.Type == 21 {
						np++
						for _, c := range e.Body {
							if c != 0 {
								r.Violate("C05|fingerprint|nonzero-padding", "%s: rebuilt padding not zero", n.Name)
								break
							}
						}
					}
				}
				if np > 1 {
					r.Violate("C05|fingerprint|duplicate-padding", "%s flags=%d: %d padding extensions after re-apply", n.Name, flags, np)
				}
			}
			r.Obs = fmt.Sprintf("rebuilt|viol=%d", len(r.Viol))
			r.Nontrivial = true
			r.Class = fmt.Sprintf("%s|%d|%d", n.Name, len(msg), flags)
			if sniLen == 20 && flags == 0 {
				r.Sample = map[string]any{"id": n.Name, "sni_len": sniLen, "captured_len": len(msg), "captured_padding": len(pad.Body), "rebuilt_len": len(msg2)}
			}
			return
		},
	}
}

// c05Remarshal: the padding decision belongs to the hello that goes out, not to the one that was built
// first. The hello is built under one server name (padded, or too short / too long to be), the name is
// then changed with SetSNI, and Handshake marshals again: the padding of the hello on the wire must
// follow the policy for ITS unpadded length.
func c05Remarshal() *explore.Scenario {
	ids := paddedIDs()
	firstLens := []int{1, 60, 120, 180, 253}
	return &explore.Scenario{
		Name: "padded-parrots-rebuilt-after-SetSNI",
		Run: func(x *explore.X) (r explore.Result) {
			n := ids[x.Choose("id", len(ids))]
			l1 := firstLens[x.Choose("first-snilen", len(firstLens))]
			l2 := 1 + x.Choose("second-snilen", 253)
			what := fmt.Sprintf("%s built with a %d-byte name, SetSNI(%d-byte name), Handshake", n.Name, l1, l2)
			stream, _, perr, pm := firstFlight(sniConfig(l1), n.ID, func(u *tls.UConn) error {
				if err := u.BuildHandshakeState(); err != nil {
					return err
				}
				u.SetSNI(nameOfLen(l2))
				return nil
			})
			if pm != "" {
				r.Violate("C05|remarshal|panic", "%s: %s", what, pm)
				return
			}
			msg, _, err := wire.FirstFlightHello(stream)
			if err != nil {
				r.Obs = "no-hello:" + errClass(perr)
				return
			}
			h, err := wire.ParseClientHello(msg)
			if err != nil {
				r.Violate("C05|remarshal|unparsable|"+truncStr(errClass(err), 60), "%s: the hello does not parse: %v", what, err)
				return
			}
			if e := h.Find(0); e == nil || len(e.Body) != 5+l2 {
				r.Obs = "sni-not-changed" // not this property's subject (C01)
				return
			}
			u := paddingOracle(&r, "remarshal", what, h)
			r.Nontrivial = true
			r.Class = fmt.Sprintf("%s|%d|%d", n.Name, l1, l2)
			r.Obs = fmt.Sprintf("u<256=%v|u>511=%v|viol=%d", u < 256, u > 511, len(r.Viol))
			return
		},
	}
}

func c05Scenarios(thorough bool) []*explore.Scenario {
	return []*explore.Scenario{c05Functions(), c05Hellos(), c05Fingerprint(), c05Remarshal()}
}

func init() {
	register(&Prop{ID: "C05", Level: "exploration", Variant: "A", Scenarios: c05Scenarios,
		Run: func(c *explore.Check, thorough bool) {
			c.Rule = "BoringPaddingStyle on every n in [0,70000]; AlwaysPadToLen(L)(n) on [0,1100]^2; every ID whose spec has BoringSSL-style padding x every SNI length 0..255 x 4 variants (plain; extra extension after padding; extra extension before padding; non-empty PSK after padding); fingerprint of every padded capture x SNI length 1..255 x 4 flag sets re-applied with a different name of the same length; every such ID built under a name of {1, 60, 120, 180, 253} bytes, renamed with SetSNI to every length 1..253 and marshalled again by Handshake: the padding on the wire follows the policy for the final hello. non-trivial = hello emitted; distinct = (id, variant, unpadded length)"
			c.Assumptions = []string{"unpadded length = handshake message length (incl. 4-byte header) minus the padding extension, as BoringSSL measures it", "reference padding rule written from the property statement"}
			runAll(c, c05Scenarios(thorough), 0)
			for _, z := range []string{"zone_low", "zone_pad", "zone_high"} {
				c.Gate(c.Total.Counters[z] > 0, "non-vacuity: no execution in %s", z)
			}
			c.Extra["function_evaluations"] = c.Total.Counters["function_evaluations"]
		}})
}
