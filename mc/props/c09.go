package props

import (
	"fmt"
	"reflect"
	"sort"
	"strings"
	"sync"

	tls "github.com/refraction-networking/utls"

	"verifmc/explore"
	"verifmc/peer"
	"verifmc/wire"
)

// C09 — randomized fingerprints are seed-reproducible and internally consistent.
//
// FlipWeightedCoin(0) is always false and FlipWeightedCoin(1) always true, and every coin draws
// from the stream whatever its weight: the 2^17 corner vectors of Weights therefore enumerate
// every combination of the generator's optional features through the public API, with the
// remaining randomness (permutations, the fractional suite-removal coins) driven by enumerated
// seeds. Default and mid-range weights are enumerated over seed ranges.

var c09Kinds = []string{"Randomized", "Randomized-ALPN", "Randomized-NoALPN"}

func c09Seed(i int) *tls.PRNGSeed {
	var s tls.PRNGSeed
	s[0], s[1], s[2], s[3] = byte(i), byte(i>>8), byte(i>>16), 0xc9
	return &s
}

func weightFields() []string {
	t := reflect.TypeOf(tls.Weights{})
	var out []string
	for i := 0; i < t.NumField(); i++ {
		out = append(out, t.Field(i).Name)
	}
	return out
}

func cornerWeights(mask int) *tls.Weights {
	w := &tls.Weights{}
	v := reflect.ValueOf(w).Elem()
	for i := 0; i < v.NumField(); i++ {
		if mask&(1<<i) != 0 {
			v.Field(i).SetFloat(1)
		}
	}
	return w
}

func wget(w *tls.Weights, name string) float64 {
	return reflect.ValueOf(w).Elem().FieldByName(name).Float()
}

// describeSpec renders everything that makes up the fingerprint (function-valued fields by
// presence only).
func describeSpec(s *tls.ClientHelloSpec) string {
	var b strings.Builder
	fmt.Fprintf(&b, "vers=%04x-%04x|cs=%04x|comp=%v|grease=%v", s.TLSVersMin, s.TLSVersMax, s.CipherSuites, s.CompressionMethods, s.GetSessionID != nil)
	for _, e := range s.Extensions {
		switch x := e.(type) {
		case *tls.UtlsPaddingExtension:
			fmt.Fprintf(&b, "|padding(len=%d,will=%v,fn=%v)", x.PaddingLen, x.WillPad, x.GetPaddingLen != nil)
		default:
			fmt.Fprintf(&b, "|%T%+v", e, reflect.ValueOf(e).Elem().Interface())
		}
	}
	return b.String()
}

var (
	suiteInfoMu sync.Mutex
	suiteInfo   = map[uint16][2]any{}
)

// suiteNameClass caches tls.CipherSuiteName (it rebuilds its tables on every call).
func suiteNameClass(id uint16) (string, int) {
	suiteInfoMu.Lock()
	defer suiteInfoMu.Unlock()
	if v, ok := suiteInfo[id]; ok {
		return v[0].(string), v[1].(int)
	}
	n := tls.CipherSuiteName(id)
	k := 2
	if id>>8 == 0x13 {
		k = 0
	} else if strings.Contains(n, "GCM") || strings.Contains(n, "CHACHA20") || strings.HasSuffix(n, "_SHA256") || strings.HasSuffix(n, "_SHA384") {
		k = 1
	}
	suiteInfo[id] = [2]any{n, k}
	return n, k
}

func suiteClass(id uint16) int { // 0 TLS 1.3, 1 TLS 1.2-only, 2 older
	_, k := suiteNameClass(id)
	return k
}

func suiteName(id uint16) string {
	n, _ := suiteNameClass(id)
	return n
}

type specView struct {
	exts     map[string]tls.TLSExtension
	alpn     *tls.ALPNExtension
	alps     *tls.ApplicationSettingsExtension
	sigs     []tls.SignatureScheme
	groups   []tls.CurveID
	shares   []tls.CurveID
	versions []uint16
	hasKS    bool
	hasSV    bool
	dupExt   string
}

func viewOf(s *tls.ClientHelloSpec) specView {
	v := specView{exts: map[string]tls.TLSExtension{}}
	for _, e := range s.Extensions {
		k := fmt.Sprintf("%T", e)
		if _, dup := v.exts[k]; dup {
			v.dupExt = k
		}
		v.exts[k] = e
		switch x := e.(type) {
		case *tls.ALPNExtension:
			v.alpn = x
		case *tls.ApplicationSettingsExtension:
			v.alps = x
		case *tls.SignatureAlgorithmsExtension:
			v.sigs = x.SupportedSignatureAlgorithms
		case *tls.SupportedCurvesExtension:
			v.groups = x.Curves
		case *tls.KeyShareExtension:
			v.hasKS = true
			for _, ks := range x.KeyShares {
				v.shares = append(v.shares, ks.Group)
			}
		case *tls.SupportedVersionsExtension:
			v.hasSV = true
			v.versions = x.Versions
		}
	}
	return v
}

func hasSig(v specView, s tls.SignatureScheme) bool {
	for _, x := range v.sigs {
		if x == s {
			return true
		}
	}
	return false
}
func hasGroup(gs []tls.CurveID, g tls.CurveID) bool {
	for _, x := range gs {
		if x == g {
			return true
		}
	}
	return false
}

func isHybrid(g tls.CurveID) bool { return g == tls.X25519MLKEM768 || g == tls.X25519Kyber768Draft00 }

// c09Consistency checks the "consistent TLS offer" clauses of the property on one spec.
func c09Consistency(r *explore.Result, what string, s *tls.ClientHelloSpec) specView {
	v := viewOf(s)
	if v.dupExt != "" {
		r.Violate("C09|duplicate-extension|"+v.dupExt, "%s: extension %s appears twice", what, v.dupExt)
	}
	// suite order: TLS 1.3, then TLS 1.2-only, then older
	last := 0
	for i, c := range s.CipherSuites {
		k := suiteClass(c)
		if k < last {
			r.Violate("C09|suite-order", "%s: suite %04x (class %d) at %d follows a class-%d suite: %04x", what, c, k, i, last, s.CipherSuites)
			break
		}
		last = k
	}
	seenSuite := map[uint16]bool{}
	for _, c := range s.CipherSuites {
		if seenSuite[c] {
			r.Violate("C09|duplicate-suite", "%s: suite %04x twice", what, c)
		}
		seenSuite[c] = true
	}
	if len(s.CipherSuites) == 0 {
		r.Violate("C09|no-suites", "%s: empty cipher suite list", what)
	}
	tls13 := s.TLSVersMax == tls.VersionTLS13
	if tls13 {
		for _, c := range s.CipherSuites {
			if strings.Contains(suiteName(c), "RC4") {
				r.Violate("C09|rc4-in-tls13-spec", "%s: %s offered with TLS 1.3", what, suiteName(c))
			}
		}
		has13 := false
		for _, c := range s.CipherSuites {
			has13 = has13 || suiteClass(c) == 0
		}
		if !has13 {
			r.Violate("C09|tls13-without-tls13-suite", "%s: TLS 1.3 spec without a TLS 1.3 suite", what)
		}
		if !hasSig(v, tls.PSSWithSHA256) {
			r.Violate("C09|tls13-without-rsa-pss", "%s: signature algorithms %v lack RSA-PSS", what, v.sigs)
		}
		if v.exts["*tls.UtlsPaddingExtension"] == nil {
			r.Violate("C09|tls13-without-padding", "%s: TLS 1.3 spec without padding", what)
		}
		var want []uint16
		for x := s.TLSVersMax; x >= s.TLSVersMin && x >= tls.VersionTLS10; x-- {
			want = append(want, x)
		}
		if !v.hasSV || fmt.Sprint(v.versions) != fmt.Sprint(want) {
			r.Violate("C09|supported-versions-mismatch", "%s: supported_versions %04x, [min,max]=[%04x,%04x]", what, v.versions, s.TLSVersMin, s.TLSVersMax)
		}
		if !v.hasKS || len(v.shares) == 0 {
			r.Violate("C09|tls13-without-key-share", "%s: TLS 1.3 spec without key shares", what)
		}
	} else {
		if s.TLSVersMax != tls.VersionTLS12 {
			r.Violate("C09|unexpected-max-version", "%s: TLSVersMax %04x", what, s.TLSVersMax)
		}
		for _, c := range s.CipherSuites {
			if suiteClass(c) == 0 {
				r.Violate("C09|tls13-suite-in-tls12-spec", "%s: %04x offered with max version 1.2", what, c)
			}
		}
		if v.hasKS || v.hasSV {
			r.Violate("C09|tls13-extension-in-tls12-spec", "%s: key_share=%v supported_versions=%v with max version 1.2", what, v.hasKS, v.hasSV)
		}
	}
	if s.TLSVersMin > s.TLSVersMax || s.TLSVersMin < tls.VersionTLS10 {
		r.Violate("C09|version-range", "%s: [%04x,%04x]", what, s.TLSVersMin, s.TLSVersMax)
	}
	if v.alps != nil && v.alpn == nil {
		r.Violate("C09|alps-without-alpn", "%s: application_settings %v without ALPN", what, v.alps.SupportedProtocols)
	}
	if v.alps != nil && !tls13 {
		r.Violate("C09|alps-in-tls12-spec", "%s: application_settings with max version 1.2", what)
	}
	seenShare := map[tls.CurveID]bool{}
	for _, g := range v.shares {
		if !hasGroup(v.groups, g) {
			r.Violate(fmt.Sprintf("C09|key-share-not-in-supported-groups|group=%d", g), "%s: key shares %v, supported_groups %v", what, v.shares, v.groups)
		}
		if seenShare[g] {
			r.Violate("C09|duplicate-key-share", "%s: key shares %v", what, v.shares)
		}
		seenShare[g] = true
	}
	for _, g := range v.groups {
		if isHybrid(g) && v.hasKS && !hasGroup(v.shares, g) {
			r.Violate(fmt.Sprintf("C09|hybrid-group-without-key-share|group=%d", g), "%s: supported_groups %v, key shares %v", what, v.groups, v.shares)
		}
		if isHybrid(g) && !tls13 {
			r.Violate("C09|hybrid-group-in-tls12-spec", "%s: supported_groups %v with max version 1.2", what, v.groups)
		}
	}
	if len(v.groups) == 0 || len(v.sigs) == 0 {
		r.Violate("C09|missing-groups-or-sigalgs", "%s: groups %v sigalgs %v", what, v.groups, v.sigs)
	}
	return v
}

// c09Corner checks the 0/1 weight clauses.
func c09Corner(r *explore.Result, what, kind string, w *tls.Weights, s *tls.ClientHelloSpec, v specView, fields map[string]bool) {
	on := func(f string) bool { return fields[f] && wget(w, f) == 1 }
	expect := func(name string, want, got bool) {
		if want != got {
			r.Violate("C09|corner|"+name, "%s: %s present=%v, the weights (and TLS 1.3 rules) require %v", what, name, got, want)
		}
	}
	tls13 := s.TLSVersMax == tls.VersionTLS13
	expect("tls13", on("TLSVersMax_Set_VersionTLS13"), tls13)
	switch kind {
	case "Randomized":
		expect("alpn", on("Extensions_Append_ALPN"), v.alpn != nil)
	case "Randomized-ALPN":
		expect("alpn", true, v.alpn != nil)
	case "Randomized-NoALPN":
		expect("alpn", false, v.alpn != nil)
	}
	expect("ecdsa-sha1", on("SigAndHashAlgos_Append_ECDSAWithSHA1"), hasSig(v, tls.ECDSAWithSHA1))
	expect("ecdsa-p521", on("SigAndHashAlgos_Append_ECDSAWithP521AndSHA512"), hasSig(v, tls.ECDSAWithP521AndSHA512))
	pss := on("SigAndHashAlgos_Append_PSSWithSHA256") || tls13
	expect("pss-sha256", pss, hasSig(v, tls.PSSWithSHA256))
	expect("pss-sha384", pss && on("SigAndHashAlgos_Append_PSSWithSHA384_PSSWithSHA512"), hasSig(v, tls.PSSWithSHA384))
	expect("pss-sha512", pss && on("SigAndHashAlgos_Append_PSSWithSHA384_PSSWithSHA512"), hasSig(v, tls.PSSWithSHA512))
	expect("group-x25519", on("CurveIDs_Append_X25519") || tls13, hasGroup(v.groups, tls.X25519))
	expect("group-x25519mlkem768", on("CurveIDs_Append_X25519") && tls13, hasGroup(v.groups, tls.X25519MLKEM768))
	expect("group-p521", on("CurveIDs_Append_CurveP521"), hasGroup(v.groups, tls.CurveP521))
	expect("group-p256", true, hasGroup(v.groups, tls.CurveP256))
	expect("group-p384", true, hasGroup(v.groups, tls.CurveP384))
	expect("padding", on("Extensions_Append_Padding") || tls13, v.exts["*tls.UtlsPaddingExtension"] != nil)
	expect("status_request", on("Extensions_Append_Status"), v.exts["*tls.StatusRequestExtension"] != nil)
	expect("sct", on("Extensions_Append_SCT"), v.exts["*tls.SCTExtension"] != nil)
	expect("renegotiation_info", on("Extensions_Append_Reneg"), v.exts["*tls.RenegotiationInfoExtension"] != nil)
	expect("extended_master_secret", on("Extensions_Append_EMS"), v.exts["*tls.ExtendedMasterSecretExtension"] != nil)
	expect("alps", tls13 && v.alpn != nil && on("Extensions_Append_ALPS"), v.alps != nil)
	for _, always := range []string{"*tls.SNIExtension", "*tls.SessionTicketExtension", "*tls.SignatureAlgorithmsExtension", "*tls.SupportedPointsExtension", "*tls.SupportedCurvesExtension"} {
		expect(always, true, v.exts[always] != nil)
	}
	if tls13 {
		var classical []tls.CurveID
		for _, g := range v.shares {
			if !isHybrid(g) {
				classical = append(classical, g)
			}
		}
		first256 := on("FirstKeyShare_Set_CurveP256")
		want := []tls.CurveID{tls.X25519}
		if first256 {
			want = []tls.CurveID{tls.CurveP256}
		} else if on("KeyShare_Append_RandomGroups") {
			want = []tls.CurveID{tls.X25519, tls.CurveP256}
		}
		if fmt.Sprint(classical) != fmt.Sprint(want) {
			r.Violate("C09|corner|classical-key-shares", "%s: classical key shares %v, the weights require %v", what, classical, want)
		}
		expect("share-x25519mlkem768", hasGroup(v.groups, tls.X25519MLKEM768), hasGroup(v.shares, tls.X25519MLKEM768))
		if s.TLSVersMin != tls.VersionTLS10 && s.TLSVersMin != tls.VersionTLS12 {
			r.Violate("C09|corner|min-version", "%s: TLSVersMin %04x", what, s.TLSVersMin)
		}
	}
}

func c09ID(kind string, seed *tls.PRNGSeed, w *tls.Weights) tls.ClientHelloID {
	var sc *tls.PRNGSeed
	if seed != nil {
		c := *seed
		sc = &c
	}
	var wc *tls.Weights
	if w != nil {
		c := *w
		wc = &c
	}
	return tls.ClientHelloID{Client: kind, Version: "0", Seed: sc, Weights: wc}
}

// c09ViaConn builds the same id through a UConn (server name and Config.NextProtos reach the generator).
func c09ViaConn(kind string, seed *tls.PRNGSeed, w *tls.Weights, nextProtos []string) (*tls.UConn, error) {
	ce, se := peer.Pipe()
	se.SetIdle()
	cfg := peer.ClientConfig("example.com")
	cfg.NextProtos = nextProtos
	u := tls.UClient(ce, cfg, c09ID(kind, seed, w))
	err := u.BuildHandshakeState()
	ce.Close()
	return u, err
}

func specOfConn(u *tls.UConn, base *tls.ClientHelloSpec) *tls.ClientHelloSpec {
	return &tls.ClientHelloSpec{CipherSuites: u.HandshakeState.Hello.CipherSuites, CompressionMethods: u.HandshakeState.Hello.CompressionMethods,
		Extensions: u.Extensions, TLSVersMin: base.TLSVersMin, TLSVersMax: base.TLSVersMax}
}

func specExtTypes(s *tls.ClientHelloSpec) string {
	var t []string
	for _, e := range s.Extensions {
		t = append(t, strings.TrimPrefix(fmt.Sprintf("%T", e), "*tls."))
	}
	return strings.Join(t, ",")
}

// c09One: the full per-(kind, seed, weights) judgement. connEvery: also build through a UConn.
// the package's default weights as they are before any spec has been generated in this process
var c09PristineDefault = tls.DefaultWeights

func c09One(r *explore.Result, kind string, seedN int, w *tls.Weights, corner bool, fields map[string]bool, viaConn bool, what string) (shape string) {
	seed := c09Seed(seedN)
	var wBefore tls.Weights
	if w != nil {
		wBefore = *w
	}
	seedBefore := *seed
	// both builds go through ONE ClientHelloID value (one Seed pointer), as a caller that keeps its id does
	id1 := c09ID(kind, seed, w)
	s1, err1 := tls.UTLSIdToSpec(id1)
	s2, err2 := tls.UTLSIdToSpec(id1)
	if id1.Seed != nil && *id1.Seed != seedBefore {
		r.Violate("C09|seed-modified", "%s: generating the spec changed the Seed the ClientHelloID points to", what)
	}
	if id1.Weights != nil && w != nil && *id1.Weights != wBefore {
		r.Violate("C09|weights-modified|id", "%s: generating the spec changed the Weights the ClientHelloID points to", what)
	}
	if err1 != nil || err2 != nil {
		r.Violate("C09|generator-error", "%s: %v / %v", what, err1, err2)
		return "error"
	}
	// the same (seed, weights) must give the same fingerprint whatever was generated before: the weights
	// are an input, not a scratch area — neither the caller's struct nor the package default may change
	if w != nil && *w != wBefore {
		r.Violate("C09|weights-modified|caller", "%s: generating the spec changed the caller's Weights", what)
	}
	if tls.DefaultWeights != c09PristineDefault {
		r.Violate("C09|weights-modified|default", "%s: DefaultWeights differs from its value at process start: a later spec from the same seed is no longer the same fingerprint", what)
	}
	d1, d2 := describeSpec(&s1), describeSpec(&s2)
	if d1 != d2 {
		r.Violate("C09|not-reproducible", "%s: two builds from the same seed and weights differ at %s", what, firstDiffStr(d1, d2))
	}
	v := c09Consistency(r, what, &s1)
	wEff := w
	if wEff == nil {
		wEff = &tls.DefaultWeights
	}
	if corner {
		c09Corner(r, what, kind, wEff, &s1, v, fields)
	}
	// removal never touches the first suite and only removes
	if fields["CipherSuites_Remove_RandomCiphers"] {
		w0 := *wEff
		w0.CipherSuites_Remove_RandomCiphers = 0
		s0, err0 := tls.UTLSIdToSpec(c09ID(kind, seed, &w0))
		if err0 == nil && len(s0.CipherSuites) > 0 && len(s1.CipherSuites) > 0 {
			if s0.CipherSuites[0] != s1.CipherSuites[0] {
				r.Violate("C09|first-suite-removed", "%s: first suite %04x, without removal %04x", what, s1.CipherSuites[0], s0.CipherSuites[0])
			}
			j := 0
			for _, c := range s0.CipherSuites {
				if j < len(s1.CipherSuites) && s1.CipherSuites[j] == c {
					j++
				}
			}
			if j != len(s1.CipherSuites) {
				r.Violate("C09|removal-reorders-suites", "%s: %04x is not a subsequence of %04x", what, s1.CipherSuites, s0.CipherSuites)
			}
			if wget(wEff, "CipherSuites_Remove_RandomCiphers") == 0 && len(s1.CipherSuites) != len(s0.CipherSuites) {
				r.Violate("C09|corner|suites-removed-at-weight-0", "%s: %d of %d suites", what, len(s1.CipherSuites), len(s0.CipherSuites))
			}
		}
	}
	if viaConn {
		for _, np := range [][]string{nil, {"h3", "x"}} {
			u, err := c09ViaConn(kind, seed, w, np)
			cw := fmt.Sprintf("%s via UConn NextProtos=%v", what, np)
			if err != nil {
				r.Violate("C09|conn-build-error|"+errClass(err), "%s: %v", cw, err)
				continue
			}
			cs := specOfConn(u, &s1)
			cv := viewOf(cs)
			if specExtTypes(cs) != specExtTypes(&s1) {
				r.Violate("C09|conn-spec-differs", "%s: extensions %s, UTLSIdToSpec gave %s", cw, specExtTypes(cs), specExtTypes(&s1))
			}
			if fmt.Sprint(cs.CipherSuites) != fmt.Sprint(s1.CipherSuites) {
				r.Violate("C09|conn-suites-differ", "%s: %04x vs %04x", cw, cs.CipherSuites, s1.CipherSuites)
			}
			if cv.alps != nil && cv.alpn == nil {
				r.Violate("C09|alps-without-alpn", "%s: application_settings without ALPN", cw)
			}
			if cv.alpn != nil && np != nil && fmt.Sprint(cv.alpn.AlpnProtocols) != fmt.Sprint(np) {
				r.Violate("C09|conn-alpn-ignores-config", "%s: ALPN %v", cw, cv.alpn.AlpnProtocols)
			}
			// the wire form obeys the same cross-extension rules
			if np == nil {
				if msg := u.HandshakeState.Hello.Raw; len(msg) > 0 {
					if h, perr := wire.CheckAll(msg); perr != nil {
						r.Violate("C09|wire-malformed", "%s: %v", cw, perr)
					} else {
						if h.Find(17513) != nil && h.Find(16) == nil || h.Find(17613) != nil && h.Find(16) == nil {
							r.Violate("C09|alps-without-alpn", "%s: on the wire", cw)
						}
						if ks := h.Find(51); ks != nil {
							shares, _ := wire.ParseKeyShares(ks.Body)
							var groups []uint16
							if sg := h.Find(10); sg != nil && len(sg.Body) >= 2 {
								for i := 2; i+1 < len(sg.Body); i += 2 {
									groups = append(groups, uint16(sg.Body[i])<<8|uint16(sg.Body[i+1]))
								}
							}
							for _, sh := range shares {
								ok := false
								for _, g := range groups {
									ok = ok || g == sh.Group
								}
								if !ok {
									r.Violate(fmt.Sprintf("C09|key-share-not-in-supported-groups|group=%d", sh.Group), "%s: on the wire: share %d, groups %v", cw, sh.Group, groups)
								}
							}
						}
					}
				}
			}
		}
	}
	return fmt.Sprintf("tls13=%v|n_ext=%d|alpn=%v|alps=%v|shares=%v", s1.TLSVersMax == tls.VersionTLS13, len(s1.Extensions), v.alpn != nil, v.alps != nil, v.shares)
}

func firstDiffStr(a, b string) string {
	i := 0
	for i < len(a) && i < len(b) && a[i] == b[i] {
		i++
	}
	lo := i - 30
	if lo < 0 {
		lo = 0
	}
	hiA, hiB := i+40, i+40
	if hiA > len(a) {
		hiA = len(a)
	}
	if hiB > len(b) {
		hiB = len(b)
	}
	return fmt.Sprintf("offset %d: %q vs %q", i, a[lo:hiA], b[lo:hiB])
}

const c09Chunk = 256

// c09Corners — every 0/1 weight vector x id kind x seeds.
func c09Corners(thorough bool) *explore.Scenario {
	fields := weightFields()
	fset := map[string]bool{}
	for _, f := range fields {
		fset[f] = true
	}
	n := 1 << len(fields)
	seeds := 1
	if thorough {
		seeds = 4
	}
	return &explore.Scenario{
		Name: "weight-corners",
		Run: func(x *explore.X) (r explore.Result) {
			kind := c09Kinds[x.Choose("kind", len(c09Kinds))]
			seedN := x.Choose("seed", seeds)
			chunk := x.Choose("chunk", n/c09Chunk)
			shapes := map[string]int{}
			for m := chunk * c09Chunk; m < (chunk+1)*c09Chunk; m++ {
				w := cornerWeights(m)
				var on []string
				for i, f := range fields {
					if m&(1<<i) != 0 {
						on = append(on, f)
					}
				}
				what := fmt.Sprintf("id=%s seed=%d weights=1 for {%s}, 0 otherwise", kind, seedN, strings.Join(on, ","))
				// the UConn path for one vector in 8 and all vectors that enable ALPS or TLS 1.3 extras
				via := m%8 == 0 || (wget(w, "Extensions_Append_ALPS") == 1 && wget(w, "TLSVersMax_Set_VersionTLS13") == 1 && m%2 == 0)
				shapes[c09One(&r, kind, seedN, w, true, fset, via, what)]++
				r.Count("specs", 1)
			}
			var ks []string
			for k := range shapes {
				ks = append(ks, k)
			}
			sort.Strings(ks)
			r.Nontrivial = len(ks) > 1
			r.Obs = fmt.Sprintf("%d shapes", len(ks))
			r.Class = kind + "|" + strings.Join(ks, ";")
			return
		},
	}
}

// c09Seeds — default and mid-range weights over an enumerated seed range.
func c09Seeds(thorough bool) *explore.Scenario {
	fields := weightFields()
	fset := map[string]bool{}
	for _, f := range fields {
		fset[f] = true
	}
	nSeeds := 1 << 13
	if thorough {
		nSeeds = 1 << 18
	}
	half := &tls.Weights{}
	hv := reflect.ValueOf(half).Elem()
	for i := 0; i < hv.NumField(); i++ {
		hv.Field(i).SetFloat(0.5)
	}
	wsets := []struct {
		name string
		w    *tls.Weights
	}{{"default(nil)", nil}, {"all-0.5", half}}
	return &explore.Scenario{
		Name: "seed-range",
		Run: func(x *explore.X) (r explore.Result) {
			kind := c09Kinds[x.Choose("kind", len(c09Kinds))]
			ws := wsets[x.Choose("weights", len(wsets))]
			chunk := x.Choose("chunk", nSeeds/c09Chunk)
			shapes := map[string]int{}
			for sN := chunk * c09Chunk; sN < (chunk+1)*c09Chunk; sN++ {
				what := fmt.Sprintf("id=%s seed=%d weights=%s", kind, sN, ws.name)
				shapes[c09One(&r, kind, sN, ws.w, false, fset, sN%4 == 0, what)]++
				r.Count("specs", 1)
			}
			var ks []string
			for k := range shapes {
				ks = append(ks, k)
			}
			sort.Strings(ks)
			r.Nontrivial = len(ks) > 1
			r.Obs = fmt.Sprintf("%d shapes", len(ks))
			r.Class = kind + "|" + ws.name + "|" + strings.Join(ks, ";")
			return
		},
	}
}

// c09AfterWeak — EnableWeakCiphers is documented not to change the shape of any hello: every spec
// (randomized: 3 kinds x 2 weight sets x 512 seeds; every fixed parrot) is described before the
// process-wide switch is thrown and regenerated afterwards. Runs last: the switch cannot be undone.
var (
	c09WeakOnce   sync.Once
	c09WeakGolden = map[string]string{}
)

func c09AfterWeak() *explore.Scenario {
	const n = 512
	half := &tls.Weights{}
	hv := reflect.ValueOf(half).Elem()
	for i := 0; i < hv.NumField(); i++ {
		hv.Field(i).SetFloat(0.5)
	}
	wsets := []*tls.Weights{nil, half}
	key := func(kind string, wi, sN int) string { return fmt.Sprintf("%s|%d|%d", kind, wi, sN) }
	gen := func(kind string, wi, sN int) string {
		sp, err := tls.UTLSIdToSpec(c09ID(kind, c09Seed(sN), wsets[wi]))
		if err != nil {
			return "error: " + err.Error()
		}
		return describeSpec(&sp)
	}
	genFixed := func(id tls.ClientHelloID) string {
		sp, err := tls.UTLSIdToSpec(id)
		if err != nil {
			return "error: " + err.Error()
		}
		parts := strings.Split(describeSpec(&sp), "|") // Chrome-family parrots shuffle their extensions per call: compared as a multiset
		sort.Strings(parts)
		return strings.Join(parts, "|")
	}
	return &explore.Scenario{
		Name: "specs-before-and-after-EnableWeakCiphers",
		Run: func(x *explore.X) (r explore.Result) {
			c09WeakOnce.Do(func() {
				for _, kind := range c09Kinds {
					for wi := range wsets {
						for sN := 0; sN < n; sN++ {
							c09WeakGolden[key(kind, wi, sN)] = gen(kind, wi, sN)
						}
					}
				}
				for _, p := range ParrotIDs() {
					c09WeakGolden["fixed|"+p.Name] = genFixed(p.ID)
				}
				weakOnce.Do(tls.EnableWeakCiphers)
			})
			ki := x.Choose("kind", len(c09Kinds)+1)
			if ki == len(c09Kinds) {
				for _, p := range ParrotIDs() {
					if got := genFixed(p.ID); got != c09WeakGolden["fixed|"+p.Name] {
						r.Violate("C09|changed-by-EnableWeakCiphers|fixed", "%s: the spec differs after EnableWeakCiphers() at %s", p.Name, firstDiffStr(c09WeakGolden["fixed|"+p.Name], got))
					}
					r.Count("weak_compared", 1)
				}
				r.Obs, r.Nontrivial, r.Class = "fixed", true, "fixed"
				return
			}
			kind := c09Kinds[ki]
			wi := x.Choose("weights", len(wsets))
			for sN := 0; sN < n; sN++ {
				if got := gen(kind, wi, sN); got != c09WeakGolden[key(kind, wi, sN)] {
					r.Violate("C09|changed-by-EnableWeakCiphers|randomized", "id=%s seed=%d weights#%d: the spec generated from the same id differs after EnableWeakCiphers() at %s", kind, sN, wi, firstDiffStr(c09WeakGolden[key(kind, wi, sN)], got))
					break
				}
				r.Count("weak_compared", 1)
			}
			r.Obs, r.Nontrivial, r.Class = "randomized", true, fmt.Sprintf("%s|%d", kind, wi)
			return
		},
	}
}

func init() {
	register(&Prop{ID: "C09", Level: "exploration", Variant: "A",
		Scenarios: func(thorough bool) []*explore.Scenario {
			return []*explore.Scenario{c09Corners(thorough), c09Seeds(thorough), c09AfterWeak()}
		},
		Run: func(c *explore.Check, thorough bool) {
			c.Rule = fmt.Sprintf("(1) all 2^%d vectors of Weights with every field 0 or 1 (fields discovered by reflection; a coin with weight 0/1 is forced and still draws, so this enumerates every combination of optional features) x {Randomized, Randomized-ALPN, Randomized-NoALPN} x 1 (4) seeds; (2) default and all-0.5 weights x seeds 0..2^13-1 (2^18-1) x the three kinds. Each: UTLSIdToSpec twice from fresh copies of the id (equal fingerprints), consistency clauses (suite classes ordered 1.3 / 1.2-only / older, no duplicates; TLS 1.3: no RC4, RSA-PSS, padding, supported_versions = [max..min], key shares; TLS 1.2: no 1.3 suites/extensions/hybrid groups; ALPS only with ALPN and TLS 1.3; every share group listed, every listed hybrid group shared), corner clauses (each feature present iff its weight is 1 or a TLS 1.3 rule forces it; classical key shares as configured), suite removal keeps the first suite and yields a subsequence of the weight-0 list; a subset is also built through a UConn with Config.NextProtos {nil, [h3 x]} (same extension types and suites as UTLSIdToSpec, ALPN carries the configured protocols, wire form parses and obeys the cross-extension rules); (3) last, 3 kinds x 2 weight sets x seeds 0..511 and every fixed parrot described before and after the process-wide EnableWeakCiphers() (documented not to change any hello's shape): equal. distinct = set of spec shapes per chunk", len(weightFields()))
			c.Assumptions = []string{"seeds are enumerated over a range, not all 2^256: the corner vectors cover the feature decisions exhaustively, permutations and fractional removal coins are covered only as far as the seed range reaches", "suite classes are derived from the IANA suite names"}
			runAll(c, []*explore.Scenario{c09Corners(thorough), c09Seeds(thorough), c09AfterWeak()}, 0)
		}})
}
