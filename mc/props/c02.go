package props

import (
	"fmt"
	"regexp"
	"strings"

	tls "github.com/refraction-networking/utls"

	"verifmc/explore"
	"verifmc/peer"
	"verifmc/wire"
)

// C02 — every ClientHello utls emits is syntactically valid TLS (or an error is returned).

var digitsRe = regexp.MustCompile(`[0-9]+`)

func errClass(err error) string {
	if err == nil {
		return "nil"
	}
	s := err.Error()
	if len(s) > 90 {
		s = s[:90]
	}
	return digitsRe.ReplaceAllString(s, "N")
}

type cfgAxes struct {
	sni       int
	protos    int
	omitPsk   bool
	skipVerif bool
}

var protoShapes = [][]string{nil, {"h2"}, {"h2", "http/1.1"}, {strings.Repeat("q", 255)}}

func chooseCfg(x *explore.X) (*tls.Config, string) {
	sni := sniShapes[x.Choose("cfg.sni", len(sniShapes))]
	protos := protoShapes[x.Choose("cfg.protos", len(protoShapes))]
	omit := x.Choose("cfg.omitpsk", 2) == 1
	cfg := peer.ClientConfig(sni)
	cfg.NextProtos = protos
	cfg.OmitEmptyPsk = omit
	if sni == "" {
		cfg.InsecureSkipVerify = true
	}
	d := fmt.Sprintf("sni=%q protos=%d omitpsk=%v", sni, len(protos), omit)
	return cfg, d
}

// checkFlight applies the C02 oracle to what a client wrote.
func c02Oracle(r *explore.Result, kind, what string, stream []byte, prepErr error, panicMsg string) (valid bool, h *wire.Hello) {
	if panicMsg != "" {
		r.Violate("C02|"+kind+"|panic|"+errClass(fmt.Errorf("%s", panicMsg)), "%s: panic instead of error or valid hello: %s", what, panicMsg)
		return false, nil
	}
	if len(stream) == 0 {
		if prepErr == nil {
			r.Violate("C02|"+kind+"|no-bytes-no-error", "%s: nothing written and no error", what)
		}
		r.Count("errors_returned", 1)
		return false, nil
	}
	msg, _, err := wire.FirstFlightHello(stream)
	if err != nil {
		r.Violate("C02|"+kind+"|record|"+errClass(err), "%s: first flight is not a well-formed ClientHello record sequence: %v", what, err)
		return false, nil
	}
	h, err = wire.CheckAll(msg)
	if err != nil {
		r.Violate("C02|"+kind+"|grammar|"+errClass(err), "%s: malformed ClientHello (%d bytes): %v", what, len(msg), err)
		return false, h
	}
	r.Count("valid_hellos", 1)
	return true, h
}

func extTypes(h *wire.Hello) string {
	var p []string
	for _, e := range h.Exts {
		if wire.IsGREASE(e.Type) {
			p = append(p, "G")
		} else {
			p = append(p, fmt.Sprint(e.Type))
		}
	}
	return strings.Join(p, ",")
}

func c02IDs(cfgBudget int) *explore.Scenario {
	ids := AllIDs()
	return &explore.Scenario{
		Name:   "ids-x-config",
		Budget: map[string]int{"cfg": cfgBudget},
		Run: func(x *explore.X) (r explore.Result) {
			n := ids[x.Choose("id", len(ids))]
			id := n.ID
			if isCustom(id) {
				r.Obs = "custom-skipped"
				return
			}
			if isRandomized(id) {
				id = seededRandomized(id.Client, x.Choose("seed", 8))
			}
			cfg, d := chooseCfg(x)
			stream, _, perr, pm := firstFlight(cfg, id, nil)
			ok, h := c02Oracle(&r, "id", n.Name+" "+d, stream, perr, pm)
			r.Obs = fmt.Sprintf("%s|ok=%v|err=%s", n.Name, ok, errClass(perr))
			if ok {
				r.Nontrivial = true
				r.Class = n.Name + "|" + extTypes(h) + "|" + fmt.Sprint(len(h.Msg))
				if x.Choose("zz", 1) == 0 && len(x.Points) > 0 && x.Points[0].Pick%9 == 0 {
					r.Sample = map[string]any{"id": n.Name, "config": d, "hello_len": len(h.Msg), "extensions": extTypes(h)}
				}
			}
			return
		},
	}
}

func c02Custom(thorough bool, cfgBudget int) *explore.Scenario {
	specs := CustomSpecs(thorough)
	return &explore.Scenario{
		Name:   "custom-specs",
		Budget: map[string]int{"cfg": cfgBudget},
		Run: func(x *explore.X) (r explore.Result) {
			sp := specs[x.Choose("spec", len(specs))]
			cfg, d := chooseCfg(x)
			stream, _, perr, pm := firstFlight(cfg, tls.HelloCustom, applySpec(sp.Mk))
			ok, h := c02Oracle(&r, "custom", sp.Name+" "+d, stream, perr, pm)
			r.Obs = fmt.Sprintf("ok=%v|err=%s", ok, errClass(perr))
			if ok {
				r.Nontrivial = true
				r.Class = extTypes(h) + "|" + fmt.Sprint(len(h.Msg))
				if strings.HasPrefix(sp.Name, "all-once") {
					r.Sample = map[string]any{"spec": sp.Name, "config": d, "hello_len": len(h.Msg), "extensions": extTypes(h)}
				}
			} else if perr != nil {
				r.Count("custom_error:"+errClass(perr), 1)
			}
			return
		},
	}
}

// over-limit probes: the oracle is "error or valid", never malformed bytes.
func c02OverLimit() *explore.Scenario {
	type probe struct {
		name string
		mk   func() tls.TLSExtension
	}
	many16 := func(n int) []uint16 {
		v := make([]uint16, n)
		for i := range v {
			v[i] = 0x0300 + uint16(i)
		}
		return v
	}
	probes := []probe{
		{"alpn-256-byte-proto", func() tls.TLSExtension { return &tls.ALPNExtension{AlpnProtocols: []string{strings.Repeat("z", 256)}} }},
		{"alpn-empty-proto", func() tls.TLSExtension { return &tls.ALPNExtension{AlpnProtocols: []string{""}} }},
		{"versions-128", func() tls.TLSExtension { return &tls.SupportedVersionsExtension{Versions: many16(128)} }},
		{"compresscert-128", func() tls.TLSExtension {
			a := make([]tls.CertCompressionAlgo, 128)
			for i := range a {
				a[i] = tls.CertCompressionAlgo(i + 1)
			}
			return &tls.UtlsCompressCertExtension{Algorithms: a}
		}},
		{"points-256", func() tls.TLSExtension { return &tls.SupportedPointsExtension{SupportedPoints: make([]uint8, 256)} }},
		{"pskmodes-256", func() tls.TLSExtension { return &tls.PSKKeyExchangeModesExtension{Modes: make([]uint8, 256)} }},
		{"generic-65535", func() tls.TLSExtension { return &tls.GenericExtension{Id: 0x1234, Data: make([]byte, 65535)} }},
		{"generic-70000", func() tls.TLSExtension { return &tls.GenericExtension{Id: 0x1234, Data: make([]byte, 70000)} }},
		{"cookie-empty", func() tls.TLSExtension { return &tls.CookieExtension{} }},
		{"cookie-65535", func() tls.TLSExtension { return &tls.CookieExtension{Cookie: make([]byte, 65535)} }},
		{"groups-empty", func() tls.TLSExtension { return &tls.SupportedCurvesExtension{} }},
		{"groups-40000", func() tls.TLSExtension { return &tls.SupportedCurvesExtension{Curves: make([]tls.CurveID, 40000)} }},
		{"sigalgs-empty", func() tls.TLSExtension { return &tls.SignatureAlgorithmsExtension{} }},
		{"keyshare-empty", func() tls.TLSExtension { return &tls.KeyShareExtension{} }},
		{"fakepsk-binder-256", func() tls.TLSExtension {
			return &tls.FakePreSharedKeyExtension{Identities: []tls.PskIdentity{{Label: rep(1, 32)}}, Binders: [][]byte{rep(2, 256)}}
		}},
		{"renego-256", func() tls.TLSExtension {
			return &tls.RenegotiationInfoExtension{Renegotiation: tls.RenegotiateOnceAsClient, RenegotiatedConnection: make([]byte, 256)}
		}},
		{"tokenbinding-256", func() tls.TLSExtension { return &tls.FakeTokenBindingExtension{KeyParameters: make([]uint8, 256)} }},
	}
	// the extensions block as a whole exceeds 65535 although every extension fits its own prefix
	// (padding last / first / computed by callback / absent), and one block just below the limit
	more := map[string]func() []tls.TLSExtension{
		"generic-60000+padding-6000": func() []tls.TLSExtension {
			return []tls.TLSExtension{&tls.UtlsPaddingExtension{WillPad: true, PaddingLen: 6000}}
		},
		"padding-30000+ticket-40000": func() []tls.TLSExtension {
			return []tls.TLSExtension{&tls.SessionTicketExtension{Ticket: make([]byte, 40000), Initialized: true}}
		},
		"generic-40000+cookie-30000": func() []tls.TLSExtension { return []tls.TLSExtension{&tls.CookieExtension{Cookie: make([]byte, 30000)}} },
		"cookie-65000+padding-getlen-600": func() []tls.TLSExtension {
			return []tls.TLSExtension{&tls.UtlsPaddingExtension{GetPaddingLen: func(int) (int, bool) { return 600, true }}}
		},
		"generic-60000+padding-5000": func() []tls.TLSExtension {
			return []tls.TLSExtension{&tls.UtlsPaddingExtension{WillPad: true, PaddingLen: 5000}}
		},
	}
	probes = append(probes,
		probe{"alps-256-byte-proto", func() tls.TLSExtension {
			return &tls.ApplicationSettingsExtension{SupportedProtocols: []string{strings.Repeat("z", 256)}}
		}},
		probe{"alps-new-256-byte-proto", func() tls.TLSExtension {
			return &tls.ApplicationSettingsExtensionNew{SupportedProtocols: []string{strings.Repeat("z", 256)}}
		}},
		probe{"sni-70000", func() tls.TLSExtension { return &tls.SNIExtension{ServerName: strings.Repeat("a", 70000)} }},
		probe{"sigalgs-40000", func() tls.TLSExtension {
			return &tls.SignatureAlgorithmsExtension{SupportedSignatureAlgorithms: make([]tls.SignatureScheme, 40000)}
		}},
		probe{"generic-1+32768-cipher-suites", func() tls.TLSExtension { return &tls.GenericExtension{Id: 0x1234, Data: []byte{1}} }},
		probe{"generic-60000+padding-6000", func() tls.TLSExtension { return &tls.GenericExtension{Id: 0x1234, Data: make([]byte, 60000)} }},
		probe{"padding-30000+ticket-40000", func() tls.TLSExtension { return &tls.UtlsPaddingExtension{WillPad: true, PaddingLen: 30000} }},
		probe{"generic-40000+cookie-30000", func() tls.TLSExtension { return &tls.GenericExtension{Id: 0x1234, Data: make([]byte, 40000)} }},
		probe{"cookie-65000+padding-getlen-600", func() tls.TLSExtension { return &tls.CookieExtension{Cookie: make([]byte, 65000)} }},
		probe{"generic-60000+padding-5000", func() tls.TLSExtension { return &tls.GenericExtension{Id: 0x1234, Data: make([]byte, 60000)} }})
	return &explore.Scenario{
		Name: "over-limit-probes",
		Run: func(x *explore.X) (r explore.Result) {
			p := probes[x.Choose("probe", len(probes))]
			mk := func() *tls.ClientHelloSpec {
				s := specOf()()
				s.Extensions = []tls.TLSExtension{&tls.SNIExtension{}, p.mk()}
				if p.name == "generic-1+32768-cipher-suites" {
					s.CipherSuites = make([]uint16, 32768) // 65536 bytes: one more than the 16-bit length field holds
					for i := range s.CipherSuites {
						s.CipherSuites[i] = 0x1301
					}
				}
				if m := more[p.name]; m != nil {
					s.Extensions = append(s.Extensions, m()...)
				}
				return s
			}
			stream, _, perr, pm := firstFlight(peer.ClientConfig("example.com"), tls.HelloCustom, applySpec(mk))
			// A value below an RFC minimum (empty list, empty cookie) is encodable: the property
			// makes no claim about it, so such probes are observed, not judged. A value that
			// does not fit its length prefix "cannot be encoded": error or valid bytes required.
			var ok bool
			if strings.HasSuffix(p.name, "-empty") || p.name == "alpn-empty-proto" {
				var rr explore.Result
				ok, _ = c02Oracle(&rr, "overlimit:"+p.name, p.name, stream, perr, pm)
				r.Count("sub_minimum_probe_emitted_invalid", len(rr.Viol))
			} else {
				ok, _ = c02Oracle(&r, "overlimit:"+p.name, p.name, stream, perr, pm)
			}
			r.Obs = fmt.Sprintf("%s|ok=%v|err=%s", p.name, ok, errClass(perr))
			r.Nontrivial = true
			r.Class = r.Obs
			return
		},
	}
}

// recordOf wraps a handshake message in one TLS record (what a fingerprinter consumes).
func recordOf(msg []byte) []byte {
	out := []byte{22, 3, 1, byte(len(msg) >> 8), byte(len(msg))}
	return append(out, msg...)
}

// c02Fingerprint: fingerprint the wire hello of every ID / custom spec with all 8 flag sets, re-apply, build.
func c02Fingerprint(thorough bool) *explore.Scenario {
	ids := AllIDs()
	specs := CustomSpecs(false)
	return &explore.Scenario{
		Name: "fingerprinted-copies",
		Run: func(x *explore.X) (r explore.Result) {
			src := x.Choose("src", len(ids)+len(specs))
			var stream []byte
			var name string
			cfg := peer.ClientConfig("example.com")
			if src < len(ids) {
				n := ids[src]
				name = n.Name
				id := n.ID
				if isCustom(id) {
					r.Obs = "skip"
					return
				}
				if isRandomized(id) {
					id = seededRandomized(id.Client, 3)
				}
				stream, _, _, _ = firstFlight(cfg, id, nil)
			} else {
				sp := specs[src-len(ids)]
				name = sp.Name
				stream, _, _, _ = firstFlight(cfg, tls.HelloCustom, applySpec(sp.Mk))
			}
			msg, _, err := wire.FirstFlightHello(stream)
			if err != nil {
				r.Obs = "source-not-buildable"
				return
			}
			if _, err := wire.CheckAll(msg); err != nil {
				r.Obs = "source-invalid" // judged by the other scenarios
				return
			}
			flags := x.Choose("flags", 8)
			f := tls.Fingerprinter{AllowBluntMimicry: flags&1 != 0, AlwaysAddPadding: flags&2 != 0, RealPSKResumption: flags&4 != 0}
			sni := "example.com"
			if x.Choose("cfg.sni", 2) == 1 {
				sni = "a-much-longer-server-name.example.com"
			}
			var spec *tls.ClientHelloSpec
			var ferr error
			pm := ""
			func() {
				defer func() {
					if e := recover(); e != nil {
						pm = fmt.Sprint(e)
					}
				}()
				spec, ferr = f.FingerprintClientHello(recordOf(msg))
			}()
			if pm != "" {
				r.Violate("C02|fingerprint|panic-in-fingerprinter", "%s flags=%d: %s", name, flags, pm)
				r.Obs = "fp-panic"
				return
			}
			if ferr != nil {
				r.Obs = "fp-error:" + errClass(ferr)
				r.Count("fingerprint_errors", 1)
				return
			}
			stream2, _, perr, pm2 := firstFlight(peer.ClientConfig(sni), tls.HelloCustom, func(u *tls.UConn) error { return u.ApplyPreset(spec) })
			ok, h := c02Oracle(&r, "fingerprinted", fmt.Sprintf("fingerprint(%s) flags=%d sni=%s", name, flags, sni), stream2, perr, pm2)
			r.Obs = fmt.Sprintf("ok=%v|err=%s", ok, errClass(perr))
			if ok {
				r.Nontrivial = true
				r.Class = name + "|" + fmt.Sprint(flags) + "|" + extTypes(h)
			}
			return
		},
	}
}

// c02GreaseECHLen: rewrite the GREASE-ECH payload length of captured hellos to every value 0..maxLen.
func c02GreaseECHLen(maxLen int) *explore.Scenario {
	var srcs []NamedID
	for _, n := range ParrotIDs() {
		srcs = append(srcs, n)
	}
	return &explore.Scenario{
		Name: "grease-ech-payload-lengths",
		Run: func(x *explore.X) (r explore.Result) {
			// only parrots whose hello carries an outer ECH extension are kept (decided on the wire)
			n := srcs[x.Choose("id", len(srcs))]
			stream, _, _, _ := firstFlight(peer.ClientConfig("example.com"), n.ID, nil)
			msg, _, err := wire.FirstFlightHello(stream)
			if err != nil {
				r.Obs = "no-hello"
				return
			}
			h, err := wire.ParseClientHello(msg)
			if err != nil || h.Find(0xfe0d) == nil {
				r.Obs = "no-ech"
				return
			}
			plen := x.Choose("payloadlen", maxLen+1)
			mod, err := rewriteECHPayload(h, plen)
			if err != nil {
				r.Obs = "rewrite-failed:" + err.Error()
				return
			}
			if plen > 0 {
				if _, err := wire.CheckAll(mod); err != nil {
					r.Violate("INFRA|c02-rewrite", "rewritten capture is itself invalid: %v", err)
					return
				}
			}
			f := tls.Fingerprinter{}
			var spec *tls.ClientHelloSpec
			var ferr error
			pm := ""
			func() {
				defer func() {
					if e := recover(); e != nil {
						pm = fmt.Sprint(e)
					}
				}()
				spec, ferr = f.FingerprintClientHello(recordOf(mod))
			}()
			if pm != "" {
				r.Violate("C02|greaseech-len|panic", "%s payload=%d: %s", n.Name, plen, pm)
				return
			}
			if ferr != nil {
				r.Obs = "fp-error"
				r.Nontrivial = true
				r.Class = fmt.Sprintf("err|%d", plen)
				return
			}
			stream2, _, perr, pm2 := firstFlight(peer.ClientConfig("example.com"), tls.HelloCustom, func(u *tls.UConn) error { return u.ApplyPreset(spec) })
			cls := "ge16"
			if plen < 16 {
				cls = "lt16"
			}
			ok, h2 := c02Oracle(&r, "greaseech-len|payload-"+cls, fmt.Sprintf("%s with captured GREASE-ECH payload of %d bytes", n.Name, plen), stream2, perr, pm2)
			r.Obs = fmt.Sprintf("ok=%v|%s|err=%s", ok, cls, errClass(perr))
			r.Nontrivial = true
			r.Class = fmt.Sprintf("%d|%v", plen, ok)
			if ok && plen%97 == 0 {
				r.Sample = map[string]any{"source": n.Name, "captured_ech_payload_len": plen, "rebuilt_hello_len": len(h2.Msg)}
			}
			return
		},
	}
}

// rewriteECHPayload returns a copy of the hello whose outer ECH payload has exactly n bytes.
func rewriteECHPayload(h *wire.Hello, n int) ([]byte, error) {
	e := h.Find(0xfe0d)
	o, inner, err := wire.ParseECH(e.Body)
	if err != nil || inner {
		return nil, fmt.Errorf("source ECH not outer")
	}
	var body []byte
	body = append(body, 0, byte(o.KDF>>8), byte(o.KDF), byte(o.AEAD>>8), byte(o.AEAD), o.ConfigID, byte(len(o.Enc)>>8), byte(len(o.Enc)))
	body = append(body, o.Enc...)
	body = append(body, byte(n>>8), byte(n))
	body = append(body, rep(0x5e, n)...)
	return rebuildHello(h, map[uint16][]byte{0xfe0d: body}), nil
}

// rebuildHello re-encodes a parsed hello, replacing the bodies of the given extension types.
func rebuildHello(h *wire.Hello, repl map[uint16][]byte) []byte {
	var exts []byte
	for _, e := range h.Exts {
		b := e.Body
		if nb, ok := repl[e.Type]; ok {
			b = nb
		}
		exts = append(exts, byte(e.Type>>8), byte(e.Type), byte(len(b)>>8), byte(len(b)))
		exts = append(exts, b...)
	}
	var body []byte
	body = append(body, byte(h.LegacyVersion>>8), byte(h.LegacyVersion))
	body = append(body, h.Random...)
	body = append(body, byte(len(h.SessionID)))
	body = append(body, h.SessionID...)
	body = append(body, byte(len(h.Suites)*2>>8), byte(len(h.Suites)*2))
	for _, s := range h.Suites {
		body = append(body, byte(s>>8), byte(s))
	}
	body = append(body, byte(len(h.Compression)))
	body = append(body, h.Compression...)
	if h.HasExts {
		body = append(body, byte(len(exts)>>8), byte(len(exts)))
		body = append(body, exts...)
	}
	msg := []byte{1, byte(len(body) >> 16), byte(len(body) >> 8), byte(len(body))}
	return append(msg, body...)
}

func c02Randomized(nSeeds int) *explore.Scenario {
	kinds := []string{"Randomized", "Randomized-ALPN", "Randomized-NoALPN"}
	return &explore.Scenario{
		Name:   "randomized-seeds",
		Budget: map[string]int{"cfg": 1},
		Run: func(x *explore.X) (r explore.Result) {
			k := kinds[x.Choose("kind", len(kinds))]
			seed := x.Choose("seed", nSeeds)
			cfg, d := chooseCfg(x)
			stream, _, perr, pm := firstFlight(cfg, seededRandomized(k, seed), nil)
			ok, h := c02Oracle(&r, "randomized", fmt.Sprintf("%s seed=%d %s", k, seed, d), stream, perr, pm)
			r.Obs = fmt.Sprintf("ok=%v|err=%s", ok, errClass(perr))
			if ok {
				r.Nontrivial = true
				r.Class = extTypes(h) + fmt.Sprint(h.Suites)
			}
			return
		},
	}
}

// c02AfterHRR: the SECOND ClientHello (after a HelloRetryRequest, with and without a cookie)
// must be syntactically valid too.
func c02AfterHRR() *explore.Scenario {
	clients := c17Clients(2)
	return &explore.Scenario{
		Name: "second-hello-after-hrr",
		Run: func(x *explore.X) (r explore.Result) {
			g := clients[x.Choose("client", len(clients))]
			cookie := cookieMenu[x.Choose("cookie", 3)]
			h0, err := g.probeHello()
			if err != nil {
				r.Obs = "no-hello"
				return
			}
			o := offerOf(h0)
			var grp uint16
			for _, c := range []uint16{24, 23, 25, 29} {
				if has16(o.groups, c) && !has16(o.shares, c) {
					grp = c
					break
				}
			}
			if grp == 0 || !has16(o.versions, tls.VersionTLS13) {
				r.Obs = "no-hrr-possible"
				return
			}
			msgs, hs := secondHelloAfterHRR(g, grp, cookie)
			if hs == nil || len(msgs) < 2 {
				r.Obs = "no-second-hello"
				return
			}
			if hs.CPanic != "" {
				r.Violate("C02|after-hrr|panic", "%s: %s", g.Name, truncStr(hs.CPanic, 200))
				return
			}
			if _, err := wire.CheckAll(msgs[1]); err != nil {
				r.Violate("C02|after-hrr|grammar|"+errClass(err), "%s cookie=%dB: second ClientHello malformed: %v", g.Name, len(cookie), err)
			}
			r.Count("valid_hellos", 1)
			r.Obs = fmt.Sprintf("second-hello|viol=%d", len(r.Viol))
			r.Nontrivial = true
			r.Class = fmt.Sprintf("%s|%d", g.Name, len(cookie))
			return
		},
	}
}

func c02Scenarios(thorough bool) []*explore.Scenario {
	if thorough {
		return []*explore.Scenario{c02IDs(2), c02Custom(true, 1), c02OverLimit(), c02Fingerprint(true), c02GreaseECHLen(300), c02Randomized(2048), c02AfterHRR()}
	}
	return []*explore.Scenario{c02IDs(1), c02Custom(false, 1), c02OverLimit(), c02Fingerprint(false), c02GreaseECHLen(300), c02Randomized(128), c02AfterHRR()}
}

func init() {
	register(&Prop{ID: "C02", Level: "exploration", Variant: "A", Scenarios: c02Scenarios,
		Run: func(c *explore.Check, thorough bool) {
			c.Rule = "every discovered ClientHelloID (8 enumerated seeds for randomized kinds) x Config deviations (SNI shape, NextProtos, OmitEmptyPsk; <=1 quick, <=2 thorough); every generated custom spec (all singletons, ordered pairs, everything-once x3 orders) x config deviations; over-limit probes; fingerprinted copy of every ID/custom hello x 8 Fingerprinter flag sets x 2 SNI lengths; GREASE-ECH capture with payload length rewritten to every value 0..300; enumerated randomized seeds x 3 kinds. Oracle: independent strict parser accepts the first flight, or an error was returned. non-trivial = a hello was emitted; distinct = (source, extension type sequence, length)"
			c.Assumptions = []string{"strict parser (mc/wire) written from the RFC grammars is trusted", "unknown extension types are treated as opaque", "session-cache and QUIC configurations are exercised by C19/C23 whose first flights go through the same oracle"}
			runAll(c, c02Scenarios(thorough), 0)
			valid, errs := c.Total.Counters["valid_hellos"], c.Total.Counters["errors_returned"]
			c.Gate(valid > 500, "non-vacuity: only %d valid hellos emitted", valid)
			c.Gate(valid*20 > errs, "non-vacuity: %d errors vs %d valid hellos", errs, valid)
		}})
}
