package props

import (
	"bytes"
	"fmt"
	"regexp"
	"strings"
	"time"

	tls "github.com/refraction-networking/utls"

	"verifmc/explore"
	"verifmc/peer"
	"verifmc/wire"
)

// C20 — injected sessions are used exactly as given, under any legal call order.

type c20Op int

const (
	opSetCache c20Op = iota
	opBuildWithout
	opSetTicket
	opSetState // SetSessionState (deprecated TLS 1.2 path) with a forged ClientSessionState
	opSetPsk
	opBuild
	opHandshake
	opCount
)

var c20OpNames = []string{"SetSessionCache", "BuildHandshakeStateWithoutSession", "SetSessionTicketExtension", "SetSessionState(forged)", "SetPskExtension", "BuildHandshakeState", "Handshake"}

// the guard messages the session controller documents for forbidden call orders
var documentedPanic = regexp.MustCompile(`^tls: .* failed: (you must not modify the session after it's locked|we can't modify the session after the clientHello is built|undesired controller state|session is set and locked|must only load session when|invalid state)|^BuildHandshakeState failed: invalid call|^tls: (setSessionTicketExt|setPskToUConn|checkSessionExts|overrideExtension|initSessionTicketExt|initPskExt|aboutToLoadSession|LoadSessionCoordinator)`)

type c20Material struct {
	ticket    []byte
	state     *tls.SessionState
	css       *tls.ClientSessionState
	pskIdent  []byte
	mkPskExt  func() tls.PreSharedKeyExtension
	available bool
}

// c20Prepare runs the preliminary connections that yield a real TLS 1.2 ticket and a real
// initialised TLS 1.3 PSK extension for name.
func c20Prepare(name string) (m12, m13 c20Material) {
	byName := map[string]tls.ClientHelloID{}
	for _, n := range AllIDs() {
		byName[n.Name] = n.ID
	}
	// TLS 1.2 ticket
	{
		cache := tls.NewLRUClientSessionCache(4)
		cfg := peer.ClientConfig(name)
		cfg.ClientSessionCache = cache
		scfg := peer.ServerConfig()
		scfg.MaxVersion = tls.VersionTLS12
		hs := peer.Run(cfg, byName["HelloChrome_100"], scfg, peer.Opts{Echo: true})
		if hs.OK() {
			if css, ok := cache.Get(name); ok && css != nil {
				if t, st, err := css.ResumptionState(); err == nil {
					m12 = c20Material{ticket: t, state: st, css: css, available: true}
				}
			}
		}
	}
	// TLS 1.3 PSK: connection 1 fills the cache, connection 2 is built (session loaded) but not
	// used: its initialised extension is the material
	{
		cache := tls.NewLRUClientSessionCache(4)
		mk := func() *tls.Config {
			cfg := peer.ClientConfig(name)
			cfg.ClientSessionCache = cache
			cfg.OmitEmptyPsk = true
			return cfg
		}
		scfg := peer.ServerConfig()
		hs := peer.Run(mk(), byName["HelloChrome_100_PSK"], scfg, peer.Opts{Echo: true})
		if hs.OK() {
			m13.mkPskExt = func() tls.PreSharedKeyExtension {
				u := tls.UClient(nil, mk(), byName["HelloChrome_100_PSK"])
				if err := u.BuildHandshakeState(); err != nil {
					return nil
				}
				for _, e := range u.Extensions {
					if p, ok := e.(tls.PreSharedKeyExtension); ok && p.IsInitialized() {
						return p
					}
				}
				return nil
			}
			if p := m13.mkPskExt(); p != nil {
				c := p.GetPreSharedKeyCommon()
				if len(c.Identities) > 0 {
					m13.pskIdent = c.Identities[0].Label
					m13.available = true
				}
			}
		}
	}
	return
}

func c20Scenario(maxLen int) *explore.Scenario {
	byName := map[string]tls.ClientHelloID{}
	for _, n := range AllIDs() {
		byName[n.Name] = n.ID
	}
	type specKind struct {
		name   string
		id     string
		hasTkt bool
		hasPsk bool
	}
	kinds := []specKind{
		{"ticket-ext-only", "HelloChrome_100", true, false},
		{"ticket+psk", "HelloChrome_100_PSK", true, true},
		{"neither", "HelloIOS_12_1", false, false},
	}
	return &explore.Scenario{
		Name:     "session-api-call-orders",
		Watchdog: 60 * time.Second, HangSig: "C20|hang",
		Run: func(x *explore.X) (r explore.Result) {
			k := kinds[x.Choose("spec", len(kinds))]
			cacheAtStart := x.Choose("cache-at-construction", 2) == 0
			// 0 TLS 1.2; 1 TLS 1.3; 2 TLS 1.3 whose suite choice changed since the session was issued
			// (another suite of the same hash: the PSK stays usable, RFC 8446 4.2.11)
			srvKind := x.Choose("server", 3)
			srv13 := srvKind >= 1
			var seq []c20Op
			bare, bareChosen := false, false
			for i := 0; i < maxLen; i++ {
				o := c20Op(x.Choose("op", int(opCount)))
				if o == opSetState && !bareChosen {
					// the forged state carries the certificates and chains of the original session, or — as
					// examples/old does — nothing but ticket, version, suite and master secret
					bareChosen = true
					bare = x.Choose("forged-state-without-certificates", 2) == 1
				}
				seq = append(seq, o)
				if o == opHandshake {
					break
				}
			}
			if seq[len(seq)-1] != opHandshake {
				seq = append(seq, opHandshake)
			}
			var names []string
			for _, o := range seq {
				names = append(names, c20OpNames[o])
			}
			name := "a.example"
			m12, m13 := c20Prepare(name)
			if !m12.available || !m13.available {
				r.Violate("INFRA|c20-material", "could not obtain session material (1.2 %v, 1.3 %v)", m12.available, m13.available)
				return
			}
			what := fmt.Sprintf("spec=%s cache-at-construction=%v server13=%v calls=%v", k.name, cacheAtStart, srv13, names)
			if bare {
				what += " forged-state-without-certificates"
			}
			if srvKind == 2 {
				what += " server-suite=TLS_CHACHA20_POLY1305_SHA256 (the session's is another SHA-256 suite)"
			}
			ccfg := peer.ClientConfig(name)
			ccfg.OmitEmptyPsk = true
			if cacheAtStart {
				ccfg.ClientSessionCache = tls.NewLRUClientSessionCache(4)
			}
			scfg := peer.ServerConfig()
			if !srv13 {
				scfg.MaxVersion = tls.VersionTLS12
			}
			// --- reference protocol model ---
			cacheSet := cacheAtStart
			built := 0 // 0 not built, 1 built without session, 2 built (session settled)
			overridden := ""
			legal := true
			var injectedTicket, injectedIdent []byte
			var verdicts []string
			var hs *peer.HS
			stop := false
			var u *tls.UConn
			runOp := func(o c20Op) (err error, pm string) {
				pm = catch(func() {
					switch o {
					case opSetCache:
						u.SetSessionCache(tls.NewLRUClientSessionCache(4))
					case opBuildWithout:
						err = u.BuildHandshakeStateWithoutSession()
					case opSetTicket:
						err = u.SetSessionTicketExtension(&tls.SessionTicketExtension{Session: m12.state, Ticket: m12.ticket, Initialized: true})
					case opSetState:
						f := tls.MakeClientSessionState(m12.css.SessionTicket(), m12.css.Vers(), m12.css.CipherSuite(), m12.css.MasterSecret(), m12.css.ServerCertificates(), m12.css.VerifiedChains())
						if bare {
							f = tls.MakeClientSessionState(m12.css.SessionTicket(), m12.css.Vers(), m12.css.CipherSuite(), m12.css.MasterSecret(), nil, nil)
						}
						f.SetEMS(m12.css.EMS())
						err = u.SetSessionState(f)
					case opSetPsk:
						err = u.SetPskExtension(m13.mkPskExt())
					case opBuild:
						err = u.BuildHandshakeState()
					}
				})
				return
			}
			var unhook func()
			hs = peer.Run(ccfg, byName[k.id], scfg, peer.Opts{Echo: true, OnConns: func(_ *tls.UConn, s *tls.Conn) {
				if srvKind == 2 {
					unhook = installHooks(s, &connHooks{Suite13: tls.TLS_CHACHA20_POLY1305_SHA256})
				}
			}, Prepare: func(uc *tls.UConn) error {
				u = uc
				for i, o := range seq[:len(seq)-1] {
					if stop {
						break
					}
					x.Transitions++
					// classify o in the current model state
					class := "legal"
					if !legal {
						class = "after-illegal" // the order already left the documented protocol: only undocumented panics are judged
					}
					switch {
					case class == "after-illegal":
					case o == opSetTicket || o == opSetState || o == opSetPsk:
						switch {
						case !cacheSet:
							class = "error-expected" // documented: "session is disabled"
						case built == 2:
							class = "forbidden" // setters after BuildHandshakeState
						case overridden != "":
							class = "forbidden" // a second override
						case (o == opSetPsk && !k.hasPsk) || (o != opSetPsk && !k.hasTkt):
							class = "unspecified" // injecting what the spec has no extension for: the docs are silent
						}
					case o == opBuild || o == opBuildWithout:
						if built == 2 && o == opBuildWithout {
							class = "unspecified"
						}
					}
					err, pm := runOp(o)
					verdicts = append(verdicts, fmt.Sprintf("%s:%s:err=%v:panic=%v", c20OpNames[o], class, err != nil, pm != ""))
					switch class {
					case "legal":
						if pm != "" {
							r.Violate(fmt.Sprintf("C20|legal-call-panics|%s|%s", c20OpNames[o], errClass(fmt.Errorf("%s", pm))), "%s: call %d (%s) is allowed by the documentation but panicked: %s", what, i, c20OpNames[o], truncStr(pm, 300))
							stop = true
						} else if err != nil {
							r.Violate(fmt.Sprintf("C20|legal-call-errors|%s|%s", c20OpNames[o], errClass(err)), "%s: call %d (%s) is allowed by the documentation but returned %v", what, i, c20OpNames[o], err)
							legal = false
						}
					case "error-expected":
						if pm != "" || err == nil {
							r.Violate("C20|disabled-session-setter|"+c20OpNames[o], "%s: call %d with sessions disabled: err=%v panic=%q (an error is documented)", what, i, err, truncStr(pm, 120))
						}
						if pm != "" {
							stop = true
						}
					case "forbidden":
						if pm != "" && !documentedPanic.MatchString(pm) {
							r.Violate(fmt.Sprintf("C20|forbidden-call-undocumented-panic|%s|%s", c20OpNames[o], errClass(fmt.Errorf("%s", pm))), "%s: forbidden call %d (%s) failed with a panic that is not one of the documented guards: %s", what, i, c20OpNames[o], truncStr(pm, 300))
						}
						if pm == "" && err == nil {
							r.Count("forbidden_call_silently_accepted", 1)
						}
						legal = false
						if pm != "" {
							stop = true
						}
					case "unspecified":
						legal = false
						if pm != "" {
							stop = true
						}
					case "after-illegal":
						if pm != "" && !documentedPanic.MatchString(pm) {
							r.Violate(fmt.Sprintf("C20|undocumented-panic-after-illegal-order|%s|%s", c20OpNames[o], errClass(fmt.Errorf("%s", pm))), "%s: call %d (%s) panicked with something other than a documented guard: %s", what, i, c20OpNames[o], truncStr(pm, 300))
						}
						if pm != "" {
							stop = true
						}
					}
					if pm != "" {
						continue
					}
					// model update
					switch o {
					case opSetCache:
						cacheSet = true
					case opBuildWithout:
						if built == 0 {
							built = 1
						}
					case opBuild:
						built = 2
					case opSetTicket, opSetState:
						if class == "legal" && err == nil {
							overridden = "ticket"
							injectedTicket = m12.ticket
						}
					case opSetPsk:
						if class == "legal" && err == nil {
							overridden = "psk"
							injectedIdent = m13.pskIdent
						}
					}
				}
				if stop {
					return fmt.Errorf("stopped after a panic")
				}
				return nil
			}})
			if unhook != nil {
				unhook()
			}
			r.Nontrivial = true
			r.Class = what
			r.Obs = strings.Join(verdicts, ";")
			if stop {
				return
			}
			if hs.CPanic != "" {
				sig := "C20|handshake-panics"
				if legal {
					sig = "C20|legal-order-handshake-panics"
				} else if documentedPanic.MatchString(firstLineOf(hs.CPanic)) {
					r.Obs += "|handshake-documented-panic"
					return
				}
				r.Violate(sig+"|"+errClass(fmt.Errorf("%s", firstLineOf(hs.CPanic))), "%s: Handshake panicked (call order legal per the docs: %v): %s", what, legal, truncStr(hs.CPanic, 400))
				return
			}
			if !legal {
				r.Obs += fmt.Sprintf("|not-judged|done=%v", hs.CErr == nil)
				return
			}
			// legal order: the handshake must work, and an injected session must be used as given
			if !(hs.OK() && hs.EchoOK) {
				r.Violate(fmt.Sprintf("C20|legal-order-handshake-fails|override=%s|built=%d|server13=%v|%s", overridden, built, srv13, truncStr(errClass(pickErr(hs)), 60)), "%s: every call is allowed by the documentation but the handshake fails: client %v / server %v", what, hs.CErr, hs.SErr)
				return
			}
			msgs := peer.ClientHelloMsgs(hs.CE.AllWritten())
			h, _ := wire.ParseClientHello(msgs[0])
			cs, ss := hs.U.ConnectionState(), hs.S.ConnectionState()
			switch overridden {
			case "ticket":
				e := h.Find(35)
				if e == nil || !bytes.Equal(e.Body, injectedTicket) {
					n := -1
					if e != nil {
						n = len(e.Body)
					}
					r.Violate(fmt.Sprintf("C20|injected-ticket-not-on-wire|built=%d", built), "%s: the session_ticket extension on the wire carries %d bytes, the injected ticket has %d", what, n, len(injectedTicket))
				} else if !srv13 && !(cs.DidResume && ss.DidResume) {
					r.Violate("C20|injected-ticket-not-resumed", "%s: ticket on the wire but DidResume client=%v server=%v", what, cs.DidResume, ss.DidResume)
				}
				r.Count("ticket_injections_judged", 1)
			case "psk":
				e := h.Find(41)
				okW := false
				if e != nil {
					if ps, err := wire.ParsePSK(e.Body); err == nil && bytes.Equal(ps.Identities[0], injectedIdent) {
						okW = true
					}
				}
				if !okW {
					r.Violate(fmt.Sprintf("C20|injected-psk-not-on-wire|built=%d", built), "%s: the injected PSK identity is not on the wire", what)
				} else if srv13 && !(cs.DidResume && ss.DidResume) {
					r.Violate("C20|injected-psk-not-resumed", "%s: identity on the wire but DidResume client=%v server=%v", what, cs.DidResume, ss.DidResume)
				}
				r.Count("psk_injections_judged", 1)
			}
			r.Count("legal_orders_completed", 1)
			r.Obs += "|legal|completed"
			if overridden != "" && len(seq) >= 4 {
				r.Sample = map[string]any{"case": what, "override": overridden, "resumed": cs.DidResume}
			}
			return
		},
	}
}

func c20Scenarios(thorough bool) []*explore.Scenario {
	if thorough {
		return []*explore.Scenario{c20Scenario(5), c20Unset()}
	}
	return []*explore.Scenario{c20Scenario(4), c20Unset()}
}

func init() {
	register(&Prop{ID: "C20", Level: "model_checking", Variant: "A", Scenarios: c20Scenarios,
		Run: func(c *explore.Check, thorough bool) {
			c.Rule = "every sequence of up to 4 (5) calls from {SetSessionCache, BuildHandshakeStateWithoutSession, SetSessionTicketExtension(real ticket of a previous connection), SetSessionState(forged from the known master secret), SetPskExtension(initialised extension of a previous TLS 1.3 session), BuildHandshakeState} followed by Handshake x spec kind {ticket extension only, ticket + pre_shared_key, neither} x {cache set at construction, unset} x server {TLS 1.2, TLS 1.3, TLS 1.3 now selecting another suite of the same hash than the session carries}, each call classified by a reference model of the documentation (legal / error expected / forbidden / unspecified): legal calls neither panic nor error; with sessions disabled the setters return an error; forbidden calls fail with an error or a documented guard panic; a legal order completes the handshake, carries the injected ticket / PSK identity byte-exact on the wire and resumes on both ends; plus 6 parrots x {SetSessionState(nil), the same after BuildHandshakeStateWithoutSession, no call} on a connection whose Config holds a warm session cache: after an accepted SetSessionState(nil) the session_ticket extension is empty and the connection does not resume (the control does). distinct = (configuration, call sequence)"
			c.Assumptions = []string{"the legal/forbidden table encodes a reading of the godoc of BuildHandshakeState, BuildHandshakeStateWithoutSession and the setters (setters before the first BuildHandshakeState; at most one override; a cache must be set); orders the docs are silent about are recorded but not judged"}
			runAll(c, c20Scenarios(thorough), 0)
			c.Gate(c.Total.Counters["ticket_injections_judged"] > 50, "non-vacuity: %d ticket injections", c.Total.Counters["ticket_injections_judged"])
			c.Gate(c.Total.Counters["psk_injections_judged"] > 20, "non-vacuity: %d psk injections", c.Total.Counters["psk_injections_judged"])
		}})
}

// c20Unset — the documented way to switch an offered session OFF: SetSessionState(nil) "unsets the
// body of the session ticket extension" although the session cache holds a resumable session for
// the name (left there by a first connection through the same Config): the hello then carries an
// empty session_ticket extension and the connection does not resume at TLS 1.2.
func c20Unset() *explore.Scenario {
	var clients []gridClient
	for _, n := range AllIDs() {
		switch n.Name {
		case "HelloChrome_100", "HelloChrome_120", "HelloFirefox_120", "HelloChrome_58", "HelloIOS_14", "HelloChrome_112_PSK_Shuf":
			clients = append(clients, gridClient{Name: n.Name, ID: n.ID, PSK: specHasPSK(n.ID)})
		}
	}
	return &explore.Scenario{
		Name:     "SetSessionState-nil-over-a-warm-cache",
		Watchdog: 60 * time.Second, HangSig: "C20|hang",
		Run: func(x *explore.X) (r explore.Result) {
			g := clients[x.Choose("client", len(clients))]
			how := x.Choose("how", 3) // 0 SetSessionState(nil); 1 the same after an explicit BuildHandshakeStateWithoutSession; 2 control: no call (must resume)
			what := fmt.Sprintf("%s how=%d", g.Name, how)
			ccfg := g.config("a.example")
			ccfg.ClientSessionCache = tls.NewLRUClientSessionCache(4)
			scfg := peer.ServerConfig()
			scfg.MaxVersion = tls.VersionTLS12
			if w := peer.Run(ccfg, g.ID, scfg, peer.Opts{Prepare: g.prepare(), Echo: true}); !(w.OK() && w.EchoOK) {
				r.Obs = "first-connection-failed"
				return
			}
			var setErr error
			hs := peer.Run(ccfg, g.ID, scfg, peer.Opts{Echo: true, Prepare: func(u *tls.UConn) error {
				if how == 1 {
					if err := u.BuildHandshakeStateWithoutSession(); err != nil {
						return err
					}
				}
				if how != 2 {
					setErr = u.SetSessionState(nil)
				}
				return nil
			}})
			r.Nontrivial = true
			r.Class = what
			if hs.CPanic != "" {
				if documentedPanic.MatchString(firstLineOf(hs.CPanic)) && how == 1 {
					r.Obs = "documented-guard"
					return
				}
				r.Violate("C20|unset|panic", "%s: %s", what, truncStr(hs.CPanic, 300))
				return
			}
			msgs := peer.ClientHelloMsgs(hs.CE.AllWritten())
			if len(msgs) == 0 || !hs.OK() {
				if h0, err := g.probeHello(); err == nil && h0.Find(35) == nil && how != 2 {
					// a spec without a session_ticket extension cannot carry the (empty) ticket the
					// caller asked for: the documented answer is an error from the build
					r.Obs = "spec-without-session-ticket-extension:" + errClass(hs.CErr)
					return
				}
				if setErr != nil || how == 1 {
					r.Obs = "refused:" + errClass(setErr)
					return
				}
				r.Violate("C20|unset|handshake-fails", "%s: client %v server %v", what, hs.CErr, hs.SErr)
				return
			}
			h, err := wire.ParseClientHello(msgs[0])
			if err != nil {
				return
			}
			tk := h.Find(35)
			resumed := hs.U.ConnectionState().DidResume
			if how == 2 {
				if tk != nil && !resumed {
					r.Violate("C20|unset|control-does-not-resume", "%s: without the call the cached session is not resumed", what)
				}
				r.Count("unset_control_resumed", 1)
				r.Obs = fmt.Sprintf("control|resumed=%v", resumed)
				return
			}
			if setErr == nil {
				if tk != nil && len(tk.Body) != 0 {
					r.Violate("C20|unset|ticket-on-the-wire", "%s: SetSessionState(nil) returned nil, yet the hello carries a %d-byte session ticket", what, len(tk.Body))
				}
				if resumed {
					r.Violate("C20|unset|resumed", "%s: SetSessionState(nil) returned nil, yet the connection resumed the cached session", what)
				}
				r.Count("unset_honoured", 1)
			}
			r.Obs = fmt.Sprintf("set-err=%v|ticket=%v|resumed=%v", setErr != nil, tk != nil && len(tk.Body) > 0, resumed)
			return
		},
	}
}
