package props

import (
	"bytes"
	"crypto/rand"
	"fmt"
	"runtime"
	"strings"

	tls "github.com/refraction-networking/utls"

	"verifmc/explore"
	"verifmc/peer"
	"verifmc/wire"
)

// C16 — GREASE ECH extensions look like real outer ECH extensions.

// echRand scripts crypto/rand.Reader: single-byte reads are answered from a list (config id,
// cipher-suite index, payload-length index draws), later single-byte reads and all longer reads
// from a per-connection counter stream.
type echRand struct {
	single []byte
	pos    int
	stream *scriptRand
	// sent reports whether the client has already written its first ClientHello: until then the
	// scripted draws repeat cyclically (an initialisation that is wrongly re-run keeps drawing the
	// same answers), afterwards the draws come from the stream (a wrongly re-run initialisation
	// now changes the extension)
	sent func() bool
}

// calledFromGreaseECHInit reports whether the read comes from the GREASE ECH initialisation
// (other code, e.g. key generation, also issues occasional single-byte reads).
func calledFromGreaseECHInit() bool {
	pc := make([]uintptr, 24)
	n := runtime.Callers(3, pc)
	fr := runtime.CallersFrames(pc[:n])
	for {
		f, more := fr.Next()
		if strings.Contains(f.Function, "GREASEEncryptedClientHelloExtension).init") {
			return true
		}
		if !more {
			return false
		}
	}
}

func (e *echRand) Read(p []byte) (int, error) {
	if len(p) == 1 && calledFromGreaseECHInit() && (e.sent == nil || !e.sent()) {
		p[0] = e.single[e.pos%len(e.single)]
		e.pos++
		return 1, nil
	}
	return e.stream.Read(p)
}

func greaseECHParrots() []NamedID {
	var out []NamedID
	for _, n := range ParrotIDs() {
		sp, err := tls.UTLSIdToSpec(n.ID)
		if err != nil {
			continue
		}
		for _, e := range sp.Extensions {
			if _, ok := e.(*tls.GREASEEncryptedClientHelloExtension); ok {
				out = append(out, n)
				break
			}
		}
	}
	return out
}

func c16Scenario() *explore.Scenario {
	ids := greaseECHParrots()
	return &explore.Scenario{
		Name:    "grease-ech-shape-hrr-freshness",
		Workers: 1, // crypto/rand.Reader is process-global
		Run: func(x *explore.X) (r explore.Result) {
			if len(ids) < 3 {
				r.Violate("INFRA|c16-parrots", "only %d GREASE-ECH parrots", len(ids))
				return
			}
			n := ids[x.Choose("id", len(ids))]
			n0 := n.Name
			cfgID := []byte{0x00, 0x01, 0x7f, 0xff}[x.Choose("configid", 4)]
			suiteDraw := byte(x.Choose("suite", 2))
			lenDraw := byte(x.Choose("payloadlen", 4))
			hrrKind := x.Choose("srv.hrr", 4) // 0 none, 1 HelloRetryRequest, 2 HelloRetryRequest carrying a cookie, 3 HelloRetryRequest carrying an 8-byte encrypted_client_hello confirmation (what an ECH-aware server sends)
			hrr := hrrKind != 0
			// a sibling connection (another GREASE-ECH parrot with its own Config) builds its ClientHello
			// while this one is waiting for the server's first message, as a client dialling in parallel does
			sibling := x.Choose("sibling-built-meanwhile", 2) == 1
			// the caller fixes the client random (documented setter) to bytes that look like the start of an
			// encrypted_client_hello extension: fe 0d, a small length
			oddRandom := x.Choose("client-random-looks-like-an-ech-extension", 2) == 1
			spec, _ := tls.UTLSIdToSpec(n.ID)
			var g *tls.GREASEEncryptedClientHelloExtension
			for _, e := range spec.Extensions {
				if ge, ok := e.(*tls.GREASEEncryptedClientHelloExtension); ok {
					g = ge
				}
			}
			if int(suiteDraw) >= len(g.CandidateCipherSuites) && len(g.CandidateCipherSuites) > 0 {
				r.Obs = "suite-index-out-of-range"
				return
			}
			if int(lenDraw) >= len(g.CandidatePayloadLens) && len(g.CandidatePayloadLens) > 0 {
				r.Obs = "len-index-out-of-range"
				return
			}
			what := fmt.Sprintf("%s configid-draw=%#02x suite-draw=%d len-draw=%d hrr=%d sibling=%v", n.Name, cfgID, suiteDraw, lenDraw, hrrKind, sibling) + map[bool]string{true: " client-random=fe0d0010…", false: ""}[oddRandom]
			saved := rand.Reader
			defer func() { rand.Reader = saved }()
			type view struct {
				ech  *wire.ECHOuter
				raw  []byte
				raw2 []byte
			}
			var views []view
			for conn := 0; conn < 4; conn++ {
				var ce *peer.Endpoint
				rand.Reader = &echRand{single: []byte{cfgID + byte(conn), suiteDraw, lenDraw}, stream: newScriptRand(fmt.Sprintf("c16-%d", conn)),
					sent: func() bool { return ce != nil && ce.WriteCount() > 0 }}
				scfg := peer.ServerConfig()
				scfg.MinVersion = tls.VersionTLS13
				if hrr {
					scfg.CurvePreferences = []tls.CurveID{tls.CurveP384}
				}
				cfg := peer.ClientConfig("example.com")
				cfg.OmitEmptyPsk = true
				var unhook func()
				hs := peer.Run(cfg, n.ID, scfg, peer.Opts{Echo: true, Prepare: c16Prepare(oddRandom, conn%3), WrapClient: func(e *peer.Endpoint) { ce = e },
					OnConns: func(u *tls.UConn, s *tls.Conn) {
						if hrrKind == 2 || hrrKind == 3 || sibling {
							hk := &connHooks{}
							if hrrKind == 2 {
								hk.addHRRCookie = rep(0xC0, 32)
							}
							built := false
							hk.Out = func(n int, t uint8, d []byte) []byte {
								if sibling && t == 2 && !built {
									built = true
									other := ids[0]
									if other.Name == n0 {
										other = ids[len(ids)-1]
									}
									pe, pse := peer.Pipe()
									pse.SetIdle()
									b := tls.UClient(pe, peer.ClientConfig("sibling.example"), other.ID)
									func() {
										defer func() { recover() }()
										b.BuildHandshakeState()
									}()
									pe.Close()
								}
								if hrrKind == 3 && t == 2 && isHRR(d) {
									if sp, ok := parseServerHello(d); ok {
										sp.exts = append(sp.exts, shExt{0xfe0d, rep(0x3e, 8)})
										return sp.build()
									}
								}
								return baseTransform(hk, t, d)
							}
							unhook = installHooks(s, hk)
						}
					}})
				rand.Reader = saved
				if unhook != nil {
					unhook()
				}
				if hs.CPanic != "" {
					r.Violate("C16|panic", "%s: %s", what, truncStr(hs.CPanic, 300))
					return
				}
				msgs := peer.ClientHelloMsgs(hs.CE.AllWritten())
				if len(msgs) == 0 {
					r.Violate("C16|no-hello", "%s conn %d: %v", what, conn, hs.CErr)
					return
				}
				h1, err := wire.ParseClientHello(msgs[0])
				if err != nil || h1.Find(0xfe0d) == nil {
					r.Violate("C16|no-ech-extension", "%s conn %d: first hello carries no ECH extension (%v)", what, conn, err)
					return
				}
				e := h1.Find(0xfe0d)
				o, inner, err := wire.ParseECH(e.Body)
				if err != nil || inner || o == nil {
					r.Violate("C16|not-outer-ech|"+errClass(err), "%s conn %d: extension body is not a well-formed outer ECH extension: %v (inner=%v)", what, conn, err, inner)
					return
				}
				v := view{ech: o, raw: e.Body}
				// candidate membership
				okSuite := len(g.CandidateCipherSuites) == 0
				for _, c := range g.CandidateCipherSuites {
					if c.KdfId == o.KDF && c.AeadId == o.AEAD {
						okSuite = true
					}
				}
				if !okSuite {
					r.Violate("C16|suite-not-candidate", "%s conn %d: (KDF %d, AEAD %d) is not in the candidate list %v", what, conn, o.KDF, o.AEAD, g.CandidateCipherSuites)
				}
				if len(g.CandidateCipherSuites) > int(suiteDraw) && conn == 0 {
					want := g.CandidateCipherSuites[suiteDraw]
					if want.KdfId != o.KDF || want.AeadId != o.AEAD {
						r.Count("suite_draw_mapped_differently", 1)
					}
				}
				if len(o.Enc) != 32 {
					r.Violate("C16|enc-length", "%s conn %d: encapsulated key of %d bytes", what, conn, len(o.Enc))
				}
				okLen := false
				for _, l := range g.CandidatePayloadLens {
					if len(o.Payload) == int(l)+16 {
						okLen = true
					}
				}
				if !okLen {
					r.Violate("C16|payload-length", "%s conn %d: payload of %d bytes, candidates %v (+16 tag)", what, conn, len(o.Payload), g.CandidatePayloadLens)
				}
				if hrr {
					if len(msgs) != 2 && hrrKind == 3 && hs.CErr != nil {
						// a client that only sent GREASE may refuse such a retry altogether: then there is no
						// second hello to judge
						r.Count("ech_in_hrr_refused", 1)
						views = append(views, v)
						continue
					}
					if len(msgs) != 2 {
						r.Violate("INFRA|c16-hrr", "%s conn %d: expected two hellos, got %d (client %v)", what, conn, len(msgs), hs.CErr)
						return
					}
					h2, err := wire.ParseClientHello(msgs[1])
					if err != nil || h2.Find(0xfe0d) == nil {
						r.Violate("C16|hrr-ech-missing", "%s conn %d: second hello has no ECH extension", what, conn)
					} else if !bytes.Equal(h2.Find(0xfe0d).Body, e.Body) {
						o2, _, _ := wire.ParseECH(h2.Find(0xfe0d).Body)
						d := "bytes differ"
						if o2 != nil {
							d = fmt.Sprintf("config id %#02x->%#02x, aead %d->%d, enc equal=%v, payload equal=%v", o.ConfigID, o2.ConfigID, o.AEAD, o2.AEAD, bytes.Equal(o.Enc, o2.Enc), bytes.Equal(o.Payload, o2.Payload))
						}
						r.Violate(fmt.Sprintf("C16|hrr-ech-differs|configid=%#02x", o.ConfigID), "%s conn %d: the GREASE ECH extension resent after the HelloRetryRequest differs from the first one (%s)", what, conn, d)
					}
					r.Count("hrr_connections", 1)
				}
				// (the server refuses a cookie it did not issue in the second hello: completion is required
				// for cookie-less retries only)
				if hrrKind != 2 && !(hs.OK() && hs.EchoOK) {
					r.Violate("C16|handshake-fails|"+errClass(hs.CErr), "%s conn %d: %v / %v", what, conn, hs.CErr, hs.SErr)
				}
				views = append(views, v)
			}
			// fresh per connection
			for i := 0; i < len(views); i++ {
				for j := i + 1; j < len(views); j++ {
					if views[i].ech.ConfigID == views[j].ech.ConfigID {
						r.Violate("C16|stale|config-id", "%s: config id repeats on connections %d and %d although the entropy differs", what, i, j)
					}
					if bytes.Equal(views[i].ech.Enc, views[j].ech.Enc) {
						r.Violate("C16|stale|enc", "%s: encapsulated key repeats on connections %d and %d", what, i, j)
					}
					if bytes.Equal(views[i].ech.Payload, views[j].ech.Payload) {
						r.Violate("C16|stale|payload", "%s: payload repeats on connections %d and %d", what, i, j)
					}
				}
			}
			r.Obs = fmt.Sprintf("hrr=%v|viol=%d", hrr, len(r.Viol))
			r.Nontrivial = true
			r.Class = what
			if cfgID == 0 && hrr {
				r.Sample = map[string]any{"case": what, "conn0": fmt.Sprintf("configid=%#02x kdf=%d aead=%d enc=%dB payload=%dB", views[0].ech.ConfigID, views[0].ech.KDF, views[0].ech.AEAD, len(views[0].ech.Enc), len(views[0].ech.Payload))}
			}
			return
		},
	}
}

func c16Scenarios(thorough bool) []*explore.Scenario { return []*explore.Scenario{c16Scenario()} }

func init() {
	register(&Prop{ID: "C16", Level: "exploration", Variant: "A", Scenarios: c16Scenarios,
		Run: func(c *explore.Check, thorough bool) {
			c.Rule = "every parrot whose spec carries a GREASE ECH extension x scripted crypto/rand draws {config id 0x00/0x01/0x7f/0xff (+connection index), every cipher-suite candidate index, every payload-length candidate index} x server {no HRR, HRR, HRR carrying a cookie (verif hook)} x 4 connections with distinct entropy streams: the extension parses as an outer ECH extension, (KDF,AEAD) is a candidate, enc is 32 bytes, payload length is a candidate + 16, after an HRR the extension bytes are identical, and config id / enc / payload differ across connections; handshakes complete (cookie-less retries). distinct = case"
			c.Assumptions = []string{"crypto/rand.Reader is scripted (single-byte reads = the three index draws), hence one worker"}
			runAll(c, c16Scenarios(thorough), 0)
			c.Gate(c.Total.Counters["hrr_connections"] > 50, "non-vacuity: %d HRR connections", c.Total.Counters["hrr_connections"])
		}})
}

func c16Prepare(oddRandom bool, order int) func(u *tls.UConn) error {
	if !oddRandom {
		return withBuildOrder(nil, order)
	}
	return func(u *tls.UConn) error {
		if err := u.BuildHandshakeState(); err != nil {
			return err
		}
		return u.SetClientRandom(append([]byte{0xfe, 0x0d, 0x00, 0x10}, rep(0x21, 28)...))
	}
}
