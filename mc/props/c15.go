package props

import (
	"bytes"
	"errors"
	"fmt"
	"strings"

	tls "github.com/refraction-networking/utls"

	"verifmc/explore"
	"verifmc/peer"
	"verifmc/wire"
)

// C15 — ECH hides the real server name and is honoured end to end.

func echClients() []gridClient {
	var out []gridClient
	for _, n := range AllIDs() {
		if isGolang(n.ID) {
			out = append(out, gridClient{Name: n.Name, ID: n.ID})
			continue
		}
		if isCustom(n.ID) || isRandomized(n.ID) {
			continue
		}
		sp, err := tls.UTLSIdToSpec(n.ID)
		if err != nil {
			continue
		}
		for _, e := range sp.Extensions {
			if _, ok := e.(tls.EncryptedClientHelloExtension); ok {
				out = append(out, gridClient{Name: n.Name, ID: n.ID, PSK: specHasPSK(n.ID)})
				break
			}
		}
	}
	return out
}

func c15Scenario() *explore.Scenario {
	clients := echClients()
	secrets := []string{"secret.example", nameOfLen(253)}
	publics := []string{"p.example", "public." + strings.Repeat("x", 40) + ".example"}
	return &explore.Scenario{
		Name:   "ech-accept-reject-hrr",
		Budget: map[string]int{"cfg": 2, "cli": 1},
		Run: func(x *explore.X) (r explore.Result) {
			if len(clients) < 4 {
				r.Violate("INFRA|c15-clients", "only %d ECH-capable clients", len(clients))
				return
			}
			g := clients[x.Choose("client", len(clients))]
			mode := x.Choose("server", 4) // 0 accept, 1 accept after HRR, 2 reject with retry configs, 3 reject without
			cfgID := []uint8{7, 0, 255}[x.Choose("cfg.configid", 3)]
			aeads := [][]uint16{{1, 2, 3}, {1}, {3}}[x.Choose("cfg.aead", 3)]
			maxName := []uint8{32, 0, 255}[x.Choose("cfg.maxname", 3)]
			public := publics[x.Choose("cfg.public", 2)]
			secret := secrets[x.Choose("cfg.secret", 2)]
			ech := peer.MakeECH(peer.ECHParams{ConfigID: cfgID, AEADs: aeads, MaxNameLen: maxName, PublicName: public})
			other := peer.MakeECH(peer.ECHParams{ConfigID: cfgID ^ 0x55, AEADs: aeads, MaxNameLen: maxName, PublicName: public, KeyLabel: "the server's newer ech key"})
			what := fmt.Sprintf("%s server-mode=%d config{id=%d aeads=%v maxname=%d public=%dB} secret=%dB", g.Name, mode, cfgID, aeads, maxName, len(public), len(secret))
			ccfg := g.config(secret)
			// the list the client is given: the config alone, followed by a second config (for a key
			// this server does not hold), or preceded by an entry of an unknown version (skipped by clients)
			listShape := x.Choose("cfg.list", 3)
			clientList := ech.ConfigList
			switch listShape {
			case 1:
				third := peer.MakeECH(peer.ECHParams{ConfigID: cfgID ^ 0x33, AEADs: aeads, MaxNameLen: maxName, PublicName: public, KeyLabel: "a key of some other deployment"})
				clientList = joinECHLists(ech.ConfigList[2:], third.ConfigList[2:])
			case 2:
				clientList = joinECHLists([]byte{0xfe, 0x0a, 0, 3, 1, 2, 3}, ech.ConfigList[2:])
			}
			what += fmt.Sprintf(" list-shape=%d", listShape)
			ccfg.EncryptedClientHelloConfigList = clientList
			ccfg.MinVersion = tls.VersionTLS13
			ccfg.InsecureSkipVerify = true // certificate verification is C14's subject
			ccfg.EncryptedClientHelloRejectionVerify = func(tls.ConnectionState) error { return nil }
			scfg := peer.ServerConfig()
			scfg.MinVersion = tls.VersionTLS13
			switch mode {
			case 0, 1:
				scfg.EncryptedClientHelloKeys = []tls.EncryptedClientHelloKey{ech.Key}
				// a server in the middle of a key rotation holds several keys; the client's config may be
				// for the first, the last or the middle one
				switch x.Choose("srv.keys", 4) {
				case 1:
					scfg.EncryptedClientHelloKeys = []tls.EncryptedClientHelloKey{other.Key, ech.Key}
					what += " server-keys=[another, this]"
				case 2:
					scfg.EncryptedClientHelloKeys = []tls.EncryptedClientHelloKey{ech.Key, other.Key}
					what += " server-keys=[this, another]"
				case 3:
					third := peer.MakeECH(peer.ECHParams{ConfigID: cfgID ^ 0x21, AEADs: aeads, MaxNameLen: maxName, PublicName: public, KeyLabel: "the server's oldest ech key"})
					scfg.EncryptedClientHelloKeys = []tls.EncryptedClientHelloKey{other.Key, ech.Key, third.Key}
					what += " server-keys=[another, this, a third]"
				}
			case 2:
				scfg.EncryptedClientHelloKeys = []tls.EncryptedClientHelloKey{other.Key}
			}
			if mode == 1 {
				scfg.CurvePreferences = []tls.CurveID{tls.CurveP384}
			}
			if (mode == 2 || mode == 3) && x.Choose("server-hrr-before-rejecting", 2) == 1 {
				// the rejecting server first asks for another key share: the second outer hello must be
				// a real second hello, and the rejection must still surface as ECHRejectionError
				scfg.CurvePreferences = []tls.CurveID{tls.CurveP384}
				what += " hello-retry-request-first"
			}
			prep := g.prepare()
			id := g.ID
			if prefill := x.Choose("cli.prefilled-sni", 2) == 1; prefill {
				if isGolang(g.ID) {
					r.Obs = "n/a"
					return
				}
				// the application applies the parrot's spec itself, with the SNI extension already
				// carrying the real server name
				id = tls.HelloCustom
				prep = func(u *tls.UConn) error {
					sp, err := tls.UTLSIdToSpec(g.ID)
					if err != nil {
						return err
					}
					for _, e := range sp.Extensions {
						if sni, ok := e.(*tls.SNIExtension); ok {
							sni.ServerName = secret
						}
					}
					return u.ApplyPreset(&sp)
				}
				what += " prefilled-sni"
			}
			// the documented inspect-then-connect order: an explicit BuildHandshakeState before Handshake
			// (which marshals, and for ECH encrypts, the hello a second time)
			if x.Choose("prebuild", 2) == 1 {
				inner := prep
				prep = func(u *tls.UConn) error {
					if inner != nil {
						if err := inner(u); err != nil {
							return err
						}
					}
					return u.BuildHandshakeState()
				}
				what += " prebuilt"
			}
			// the caller changes its mind about the (secret) name with the documented setter, before the
			// handshake: the new name is the one to hide and to deliver, the old one stays hidden too
			oldSecret := ""
			if x.Choose("cli.setsni", 2) == 1 {
				inner := prep
				oldSecret, secret = secret, "a.example"
				prep = func(u *tls.UConn) error {
					if inner != nil {
						if err := inner(u); err != nil {
							return err
						}
					}
					u.SetSNI("a.example")
					return nil
				}
				what += " then-SetSNI(another secret name)"
			}
			hs := peer.Run(ccfg, id, scfg, peer.Opts{Prepare: prep, Echo: true, KeepOpen: true})
			defer hs.Finish()
			r.Nontrivial = true
			r.Class = what
			if hs.CPanic != "" {
				r.Violate("C15|panic", "%s: %s", what, truncStr(hs.CPanic, 300))
				return
			}
			stream := hs.CE.AllWritten()
			// (1) the secret name never appears in what the client wrote (any case)
			if i := bytes.Index(bytes.ToLower(stream), []byte(strings.ToLower(secret))); i >= 0 {
				r.Violate("C15|secret-name-on-the-wire", "%s: Config.ServerName appears in the client's byte stream at offset %d", what, i)
			}
			if oldSecret != "" {
				if i := bytes.Index(bytes.ToLower(stream), []byte(strings.ToLower(oldSecret))); i >= 0 {
					r.Violate("C15|secret-name-on-the-wire|the-name-before-SetSNI", "%s: the name configured before SetSNI appears in the client's byte stream at offset %d", what, i)
				}
			}
			msgs := peer.ClientHelloMsgs(stream)
			if len(msgs) == 0 {
				r.Violate("C15|no-hello|"+errClass(hs.CErr), "%s: %v", what, hs.CErr)
				return
			}
			for i, m := range msgs {
				h, err := wire.CheckAll(m)
				if err != nil {
					r.Violate("C15|outer-hello-malformed|"+errClass(err), "%s: outer hello %d: %v", what, i, err)
					continue
				}
				// (2) outer SNI is the public name; an outer ECH extension is present
				if e := h.Find(0); e == nil || len(e.Body) < 5 || string(e.Body[5:]) != public {
					got := ""
					if e != nil && len(e.Body) >= 5 {
						got = string(e.Body[5:])
					}
					r.Violate("C15|outer-sni", "%s: outer hello %d carries SNI %q, want the public name %q", what, i, truncStr(got, 40), truncStr(public, 40))
				}
				if e := h.Find(0xfe0d); e == nil {
					r.Violate("C15|no-ech-extension", "%s: outer hello %d has no encrypted_client_hello extension", what, i)
				} else if o, inner, err := wire.ParseECH(e.Body); err != nil || inner || (o.ConfigID != cfgID && !(i > 0 && mode >= 2)) {
					// (after a HelloRetryRequest that did not confirm ECH, uTLS re-marshals the outer hello with
					// a freshly drawn GREASE-like ECH extension: the property says nothing about that hello's
					// config id, so only its shape is judged there)
					r.Violate("C15|ech-extension-shape", "%s: outer hello %d: %v inner=%v parsed=%+v (want config id %d)", what, i, err, inner, o, cfgID)
				}
			}
			var rej *tls.ECHRejectionError
			switch mode {
			case 0, 1:
				if mode == 1 && len(msgs) != 2 && hs.CErr == nil {
					r.Violate("INFRA|c15-hrr", "%s: expected an HRR", what)
				}
				if !(hs.OK() && hs.EchoOK) {
					r.Violate(fmt.Sprintf("C15|accepting-server-fails|hrr=%v|golang=%v|%s", mode == 1, isGolang(g.ID), errClass(hs.SErr)), "%s: client %v / server %v", what, hs.CErr, hs.SErr)
					break
				}
				cs, ss := hs.U.ConnectionState(), hs.S.ConnectionState()
				if !cs.ECHAccepted || !ss.ECHAccepted {
					r.Violate("C15|echaccepted-flag", "%s: ECHAccepted client=%v server=%v", what, cs.ECHAccepted, ss.ECHAccepted)
				}
				if cs.ServerName != secret || ss.ServerName != secret {
					r.Violate("C15|servername-reported", "%s: ServerName client=%q server=%q", what, truncStr(cs.ServerName, 30), truncStr(ss.ServerName, 30))
				}
				if hs.Info == nil || hs.Info.ServerName != secret {
					r.Violate("C15|inner-hello-name", "%s: the server's decrypted inner hello names %v", what, hs.Info)
				}
				r.Count("accepted", 1)
			case 2, 3:
				if !errors.As(hs.CErr, &rej) {
					r.Violate(fmt.Sprintf("C15|rejection-error-type|%s", errClass(hs.CErr)), "%s: want ECHRejectionError, got %v", what, hs.CErr)
					break
				}
				var want []byte
				if mode == 2 {
					want = other.ConfigList
				}
				if !bytes.Equal(rej.RetryConfigList, want) {
					r.Violate("C15|retry-configs", "%s: RetryConfigList = %d bytes, the server offered %d bytes", what, len(rej.RetryConfigList), len(want))
				}
				r.Count("rejected", 1)
			}
			r.Obs = fmt.Sprintf("mode%d|done=%v|viol=%d", mode, hs.CErr == nil, len(r.Viol))
			if mode == 1 {
				r.Sample = map[string]any{"case": what, "client_error": fmt.Sprint(hs.CErr), "server_error": fmt.Sprint(hs.SErr)}
			}
			return
		},
	}
}

func c15Scenarios(thorough bool) []*explore.Scenario {
	s := c15Scenario()
	if thorough {
		s.Budget = nil
	}
	return []*explore.Scenario{s}
}

func init() {
	register(&Prop{ID: "C15", Level: "exploration", Variant: "A", Scenarios: c15Scenarios,
		Run: func(c *explore.Check, thorough bool) {
			c.Rule = "every parrot with a real ECH extension and HelloGolang x server {accept, accept after HRR, reject with retry configs, reject without, each rejection also after a HelloRetryRequest} x ECH config variants (config id 7/0/255, AEAD list all/AES-128-GCM/ChaCha20, max name length 32/0/255, public name 1 B / 55 B, the config alone / followed by a config for a foreign key / preceded by an entry of an unknown version; <=2 deviations quick, full product thorough) x secret name {short, 253 B} x {Handshake alone, BuildHandshakeState then Handshake} x {name from the Config, another secret name set with SetSNI afterwards (neither name may appear)}: the secret name occurs nowhere in the client's byte stream, every outer hello is valid with SNI == public name and an outer ECH extension of the config id, accepting servers complete with ECHAccepted and ServerName on both sides and the decrypted inner hello naming the secret, rejecting servers yield ECHRejectionError with exactly the server's retry configs. distinct = case"
			c.Assumptions = []string{"inner/outer extension expansion is judged through the server's transcript check (a wrong expansion fails Finished)", "certificate verification disabled here (C14 covers it)"}
			runAll(c, c15Scenarios(thorough), 0)
			c.Gate(c.Total.Counters["accepted"] > 30, "non-vacuity: %d accepted", c.Total.Counters["accepted"])
			c.Gate(c.Total.Counters["rejected"] > 30, "non-vacuity: %d rejected", c.Total.Counters["rejected"])
		}})
}

// joinECHLists builds an ECHConfigList from encoded ECHConfig entries.
func joinECHLists(entries ...[]byte) []byte {
	var body []byte
	for _, e := range entries {
		body = append(body, e...)
	}
	return append([]byte{byte(len(body) >> 8), byte(len(body))}, body...)
}
