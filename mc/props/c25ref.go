package props

import (
	"time"
	"net"
	"bytes"
	"crypto/aes"
	"crypto/cipher"
	"crypto/des"
	"crypto/hmac"
	"crypto/md5"
	"crypto/rc4"
	"crypto/sha1"
	"crypto/sha256"
	"crypto/sha512"
	stdtls "crypto/tls"
	"encoding/hex"
	"fmt"
	"hash"
	"io"
	"strings"

	tls "github.com/refraction-networking/utls"
	"golang.org/x/crypto/chacha20poly1305"

	"verifmc/explore"
	"verifmc/peer"
)

// Independent record-layer oracle for TLS <= 1.2 (RFC 2246 / 4346 / 5246 / 5288 / 5289 / 7905).
//
// A utls client and a utls server share one cipher-suite table, so a wrong key/MAC/IV length in
// that table is invisible to a client-vs-server echo: both sides slice the key block the same
// wrong way. Here the bytes on the wire are judged by a reference written from the RFCs: the
// master secret comes from the client's KeyLogWriter, the randoms from the hellos on the wire,
// the key block from an independent PRF, the suite parameters from a table derived from the
// IANA suite names, and every protected record of both directions is decrypted and its MAC / tag
// verified by this file's own code. What the reference recovers must be exactly what the
// application wrote.

type refSuite struct {
	kind   string // "cbc-aes", "cbc-3des", "rc4", "gcm", "chacha"
	keyLen int
	macLen int // CBC / RC4
	ivLen  int // CBC: block size (TLS 1.0 key-block IV); AEAD: fixed IV length
	mac    func() hash.Hash
	prf384 bool
}

var weakSuiteNames = map[uint16]string{
	0x003d: "TLS_RSA_WITH_AES_256_CBC_SHA256",
	0xc024: "TLS_ECDHE_ECDSA_WITH_AES_256_CBC_SHA384",
	0xc028: "TLS_ECDHE_RSA_WITH_AES_256_CBC_SHA384",
}

func refSuiteOf(id uint16) (refSuite, string, bool) {
	name := tls.CipherSuiteName(id)
	if n, ok := weakSuiteNames[id]; ok {
		name = n
	}
	i := strings.Index(name, "_WITH_")
	if i < 0 {
		return refSuite{}, name, false
	}
	alg := name[i+6:]
	var s refSuite
	switch {
	case alg == "RC4_128_SHA":
		s = refSuite{kind: "rc4", keyLen: 16, macLen: 20, mac: sha1.New}
	case alg == "3DES_EDE_CBC_SHA":
		s = refSuite{kind: "cbc-3des", keyLen: 24, macLen: 20, ivLen: 8, mac: sha1.New}
	case alg == "AES_128_CBC_SHA":
		s = refSuite{kind: "cbc-aes", keyLen: 16, macLen: 20, ivLen: 16, mac: sha1.New}
	case alg == "AES_256_CBC_SHA":
		s = refSuite{kind: "cbc-aes", keyLen: 32, macLen: 20, ivLen: 16, mac: sha1.New}
	case alg == "AES_128_CBC_SHA256":
		s = refSuite{kind: "cbc-aes", keyLen: 16, macLen: 32, ivLen: 16, mac: sha256.New}
	case alg == "AES_256_CBC_SHA256":
		s = refSuite{kind: "cbc-aes", keyLen: 32, macLen: 32, ivLen: 16, mac: sha256.New}
	case alg == "AES_256_CBC_SHA384":
		s = refSuite{kind: "cbc-aes", keyLen: 32, macLen: 48, ivLen: 16, mac: sha512.New384, prf384: true}
	case alg == "AES_128_GCM_SHA256":
		s = refSuite{kind: "gcm", keyLen: 16, ivLen: 4}
	case alg == "AES_256_GCM_SHA384":
		s = refSuite{kind: "gcm", keyLen: 32, ivLen: 4, prf384: true}
	case alg == "CHACHA20_POLY1305_SHA256" && (id == 0xcca8 || id == 0xcca9):
		s = refSuite{kind: "chacha", keyLen: 32, ivLen: 12}
	default:
		return refSuite{}, name, false
	}
	return s, name, true
}

func pHash(h func() hash.Hash, secret, seed []byte, n int) []byte {
	var out []byte
	a := seed
	for len(out) < n {
		m := hmac.New(h, secret)
		m.Write(a)
		a = m.Sum(nil)
		m = hmac.New(h, secret)
		m.Write(a)
		m.Write(seed)
		out = append(out, m.Sum(nil)...)
	}
	return out[:n]
}

func refPRF(vers uint16, prf384 bool, secret []byte, label string, seed []byte, n int) []byte {
	ls := append([]byte(label), seed...)
	if vers >= tls.VersionTLS12 {
		if prf384 {
			return pHash(sha512.New384, secret, ls, n)
		}
		return pHash(sha256.New, secret, ls, n)
	}
	half := (len(secret) + 1) / 2
	a := pHash(md5.New, secret[:half], ls, n)
	b := pHash(sha1.New, secret[len(secret)-half:], ls, n)
	for i := range a {
		a[i] ^= b[i]
	}
	return a
}

type refDir struct {
	s       refSuite
	vers    uint16
	macKey  []byte
	key     []byte
	iv      []byte
	seq     uint64
	rc4     *rc4.Cipher
	block   cipher.Block
	aead    cipher.AEAD
	chainIV []byte // TLS 1.0 CBC
}

func newRefDir(s refSuite, vers uint16, macKey, key, iv []byte) (*refDir, error) {
	d := &refDir{s: s, vers: vers, macKey: macKey, key: key, iv: iv}
	var err error
	switch s.kind {
	case "rc4":
		d.rc4, err = rc4.NewCipher(key)
	case "cbc-aes":
		d.block, err = aes.NewCipher(key)
		d.chainIV = append([]byte(nil), iv...)
	case "cbc-3des":
		d.block, err = des.NewTripleDESCipher(key)
		d.chainIV = append([]byte(nil), iv...)
	case "gcm":
		var b cipher.Block
		if b, err = aes.NewCipher(key); err == nil {
			d.aead, err = cipher.NewGCM(b)
		}
	case "chacha":
		d.aead, err = chacha20poly1305.New(key)
	}
	return d, err
}

func seqBytes(n uint64) []byte {
	var b [8]byte
	for i := 7; i >= 0; i-- {
		b[i] = byte(n)
		n >>= 8
	}
	return b[:]
}

// open decrypts and authenticates one protected record body.
func (d *refDir) open(typ byte, body []byte) ([]byte, error) {
	seq := seqBytes(d.seq)
	d.seq++
	hdr := func(n int) []byte {
		return append(append([]byte{}, seq...), typ, byte(d.vers>>8), byte(d.vers), byte(n>>8), byte(n))
	}
	checkMAC := func(pt []byte) ([]byte, error) {
		if len(pt) < d.s.macLen {
			return nil, fmt.Errorf("record shorter than the MAC")
		}
		data, mac := pt[:len(pt)-d.s.macLen], pt[len(pt)-d.s.macLen:]
		m := hmac.New(d.s.mac, d.macKey)
		m.Write(hdr(len(data)))
		m.Write(data)
		if !hmac.Equal(m.Sum(nil), mac) {
			return nil, fmt.Errorf("MAC mismatch under the RFC key block")
		}
		return data, nil
	}
	switch d.s.kind {
	case "rc4":
		pt := make([]byte, len(body))
		d.rc4.XORKeyStream(pt, body)
		return checkMAC(pt)
	case "cbc-aes", "cbc-3des":
		bs := d.block.BlockSize()
		iv := d.chainIV
		ct := body
		if d.vers >= tls.VersionTLS11 {
			if len(body) < bs {
				return nil, fmt.Errorf("no explicit IV")
			}
			iv, ct = body[:bs], body[bs:]
		}
		if len(ct) == 0 || len(ct)%bs != 0 {
			return nil, fmt.Errorf("ciphertext length %d not a multiple of the block size", len(ct))
		}
		pt := make([]byte, len(ct))
		cipher.NewCBCDecrypter(d.block, iv).CryptBlocks(pt, ct)
		d.chainIV = append([]byte(nil), ct[len(ct)-bs:]...)
		pad := int(pt[len(pt)-1])
		if pad+1 > len(pt) {
			return nil, fmt.Errorf("bad padding length %d", pad)
		}
		for _, b := range pt[len(pt)-1-pad:] {
			if int(b) != pad {
				return nil, fmt.Errorf("bad padding bytes")
			}
		}
		return checkMAC(pt[:len(pt)-1-pad])
	case "gcm":
		if len(body) < 8+16 {
			return nil, fmt.Errorf("short GCM record")
		}
		nonce := append(append([]byte{}, d.iv...), body[:8]...)
		return d.aead.Open(nil, nonce, body[8:], hdr(len(body)-8-16))
	case "chacha":
		if len(body) < 16 {
			return nil, fmt.Errorf("short ChaCha20-Poly1305 record")
		}
		nonce := append([]byte{}, d.iv...)
		for i := 0; i < 8; i++ {
			nonce[4+i] ^= seq[i]
		}
		return d.aead.Open(nil, nonce, body, hdr(len(body)-16))
	}
	return nil, fmt.Errorf("unknown kind")
}

// refDecryptStream walks one direction's byte stream and returns the application data the
// reference recovers, after checking every protected record.
func refDecryptStream(stream []byte, d *refDir) (app []byte, protected int, err error) {
	enc := false
	off := 0
	for off+5 <= len(stream) {
		typ := stream[off]
		n := int(stream[off+3])<<8 | int(stream[off+4])
		if off+5+n > len(stream) {
			return app, protected, fmt.Errorf("truncated record at %d", off)
		}
		body := stream[off+5 : off+5+n]
		off += 5 + n
		if !enc {
			if typ == 20 {
				enc = true
			}
			continue
		}
		pt, e := d.open(typ, body)
		if e != nil {
			return app, protected, fmt.Errorf("protected record #%d (type %d, %d bytes): %v", protected, typ, n, e)
		}
		protected++
		if typ == 23 {
			app = append(app, pt...)
		}
	}
	return app, protected, nil
}

func helloRandom(stream []byte, want byte) []byte {
	// first handshake message of the stream: type(1) len(3) version(2) random(32)
	if len(stream) < 5+4+2+32 || stream[0] != 22 || stream[5] != want {
		return nil
	}
	return stream[5+4+2 : 5+4+2+32]
}

type keyLog struct{ bytes.Buffer }

func (k *keyLog) master() ([]byte, []byte) {
	for _, l := range strings.Split(k.String(), "\n") {
		f := strings.Fields(l)
		if len(f) == 3 && f[0] == "CLIENT_RANDOM" {
			cr, _ := hex.DecodeString(f[1])
			ms, _ := hex.DecodeString(f[2])
			return cr, ms
		}
	}
	return nil, nil
}

// c25Independent — every TLS <= 1.2 (version, suite), both directions, judged by the reference.
func c25Independent(name string, weak bool) *explore.Scenario {
	suites := c25Suites(weak)
	var list []vsuite
	for _, v := range suites {
		if v.vers != tls.VersionTLS13 {
			list = append(list, v)
		}
	}
	sizes := []int{1, 37, 1024, 16385}
	return &explore.Scenario{
		Name: name,
		Run: func(x *explore.X) (r explore.Result) {
			if weak {
				weakOnce.Do(tls.EnableWeakCiphers)
			}
			v := list[x.Choose("suite", len(list))]
			size := sizes[x.Choose("size", len(sizes))]
			rs, sname, ok := refSuiteOf(v.suite)
			what := fmt.Sprintf("vers=%04x suite=%04x (%s) size=%d", v.vers, v.suite, sname, size)
			if !ok {
				r.Obs = "no-reference"
				r.Class = fmt.Sprintf("%04x|no-reference", v.suite)
				r.Count("suites_without_reference", 1)
				return
			}
			ccfg := peer.ClientConfig("example.com")
			kl := &keyLog{}
			ccfg.KeyLogWriter = kl
			ccfg.MinVersion = tls.VersionTLS10
			scfg := v.serverConfig()
			scfg.MinVersion = tls.VersionTLS10
			var unhook func()
			h := peer.Run(ccfg, tls.HelloCustom, scfg, peer.Opts{Echo: true, EchoLen: size,
				Prepare: func(u *tls.UConn) error { return u.ApplyPreset(v.spec()) },
				OnConns: func(u *tls.UConn, s *tls.Conn) {
					if v.weak {
						unhook = installHooks(s, &connHooks{Suite12: v.suite}) // the server's preference list lacks the weak suites
					}
				}})
			if unhook != nil {
				unhook()
			}
			if !h.OK() || !h.EchoOK {
				r.Violate(fmt.Sprintf("C25|independent|handshake-or-echo-failed|vers=%04x|suite=%04x", v.vers, v.suite), "%s: client %v server %v echo %v %v", what, h.CErr, h.SErr, h.EchoOK, h.EchoErr)
				return
			}
			cs := h.U.ConnectionState()
			if cs.Version != v.vers || cs.CipherSuite != v.suite {
				r.Violate("C25|independent|wrong-negotiation", "%s: negotiated %04x/%04x", what, cs.Version, cs.CipherSuite)
				return
			}
			cstream, sstream := h.CE.AllWritten(), h.SE.AllWritten()
			cr, ms := kl.master()
			crw, srw := helloRandom(cstream, 1), helloRandom(sstream, 2)
			if len(ms) != 48 || crw == nil || srw == nil || !bytes.Equal(cr, crw) {
				r.Violate("INFRA|c25-independent-capture", "%s: key log / hello capture incomplete (ms %d bytes, randoms %v %v)", what, len(ms), crw != nil, srw != nil)
				return
			}
			n := 2*rs.macLen + 2*rs.keyLen + 2*rs.ivLen
			kb := refPRF(v.vers, rs.prf384, ms, "key expansion", append(append([]byte{}, srw...), crw...), n)
			cut := func(k int) []byte { b := kb[:k]; kb = kb[k:]; return b }
			cMAC, sMAC := cut(rs.macLen), cut(rs.macLen)
			cKey, sKey := cut(rs.keyLen), cut(rs.keyLen)
			cIV, sIV := cut(rs.ivLen), cut(rs.ivLen)
			cd, err1 := newRefDir(rs, v.vers, cMAC, cKey, cIV)
			sd, err2 := newRefDir(rs, v.vers, sMAC, sKey, sIV)
			if err1 != nil || err2 != nil {
				r.Violate("INFRA|c25-independent-cipher", "%s: %v %v", what, err1, err2)
				return
			}
			msg := make([]byte, size)
			for i := range msg {
				msg[i] = byte(i*7 + 3)
			}
			wantS := append([]byte("server-banner:"), msg...)
			sig := fmt.Sprintf("vers=%04x|suite=%04x", v.vers, v.suite)
			capp, cn, cerr := refDecryptStream(cstream, cd)
			if cerr != nil {
				r.Violate("C25|independent|client-records-not-rfc|"+sig, "%s: what the client wrote is not a valid protected record stream under the RFC key block: %v", what, cerr)
			} else if !bytes.Equal(capp, msg) {
				r.Violate("C25|independent|client-plaintext-differs|"+sig, "%s: reference recovers %d application bytes from the client, %d were written", what, len(capp), len(msg))
			}
			sapp, sn, serr := refDecryptStream(sstream, sd)
			if serr != nil {
				r.Violate("C25|independent|server-records-not-rfc|"+sig, "%s: what the server wrote is not a valid protected record stream under the RFC key block: %v", what, serr)
			} else if !bytes.Equal(sapp, wantS) {
				r.Violate("C25|independent|server-plaintext-differs|"+sig, "%s: reference recovers %d application bytes from the server, %d were written", what, len(sapp), len(wantS))
			}
			r.Nontrivial = cn > 1 && sn > 1
			r.Count("kind_"+rs.kind, 1)
			r.Obs = fmt.Sprintf("%s|client-records=%d|server-records=%d", rs.kind, cn, sn)
			r.Class = sig + "|" + r.Obs
			return
		},
	}
}

// c25StdPeerKeyUpdates — TLS 1.3 key updates against an independent implementation. A utls
// client and a utls server ratchet their traffic secrets with the same code, so a wrong ratchet
// (e.g. always deriving from the first application secret) is invisible between them. Here the
// peer is the standard library's server: the utls client sends every sequence of up to 3
// KeyUpdates {not requesting, requesting one back} with an echo round trip after each; a
// requested update makes the server update its own sending keys, which exercises the client's
// receive-side ratchet as often as the sequence says.
func c25StdPeerKeyUpdates() *explore.Scenario {
	suites := []uint16{tls.TLS_AES_128_GCM_SHA256, tls.TLS_AES_256_GCM_SHA384, tls.TLS_CHACHA20_POLY1305_SHA256}
	return &explore.Scenario{
		Name: "tls13-key-updates-vs-standard-library-peer",
		Run: func(x *explore.X) (r explore.Result) {
			suite := suites[x.Choose("suite", len(suites))]
			n := x.Choose("updates", 6)
			var ops []bool
			switch n {
			case 4, 5: // a long-lived connection: 40 key updates (all / every other one requesting one back), data between each
				for i := 0; i < 40; i++ {
					ops = append(ops, n == 4 || i%2 == 0)
				}
			default:
				for i := 0; i < n; i++ {
					ops = append(ops, x.Choose("requested", 2) == 1)
				}
			}
			size := []int{1, 1000, 17000}[x.Choose("size", 3)]
			what := fmt.Sprintf("suite=%04x updates(requesting)=%v chunk=%d", suite, ops, size)
			ce, se := peer.Pipe()
			srv := stdtls.Server(se, stdServerConfig())
			sdone := make(chan error, 1)
			go func() {
				defer se.SetIdle()
				if err := srv.Handshake(); err != nil {
					se.Close()
					sdone <- err
					return
				}
				buf := make([]byte, 32768)
				for {
					k, err := srv.Read(buf)
					if k > 0 {
						if _, werr := srv.Write(buf[:k]); werr != nil {
							se.Close()
							sdone <- werr
							return
						}
					}
					if err != nil {
						se.Close()
						sdone <- err
						return
					}
				}
			}()
			sp := handshakeSpec("tls13-minimal")
			sp.CipherSuites = []uint16{suite}
			u := tls.UClient(ce, peer.ClientConfig("example.com"), tls.HelloCustom)
			fail := func(stage string, err error) {
				r.Violate(fmt.Sprintf("C25|std-peer|%s|suite=%04x|updates=%d", stage, suite, len(ops)), "%s: %s: %v", what, stage, err)
			}
			defer func() { u.Close(); ce.Close(); <-sdone }()
			if err := u.ApplyPreset(sp); err != nil {
				fail("apply", err)
				return
			}
			if err := u.Handshake(); err != nil {
				fail("handshake", err)
				return
			}
			echo := func(round int) bool {
				msg := payload(size, byte(round))
				if _, err := u.Write(msg); err != nil {
					fail(fmt.Sprintf("write-after-%d-updates", round), err)
					return false
				}
				got := make([]byte, len(msg))
				if _, err := io.ReadFull(u, got); err != nil {
					fail(fmt.Sprintf("read-after-%d-updates", round), err)
					return false
				}
				if !bytes.Equal(got, msg) {
					fail(fmt.Sprintf("echo-differs-after-%d-updates", round), nil)
					return false
				}
				return true
			}
			r.Nontrivial = len(ops) > 1
			r.Class = what
			if !echo(0) {
				return
			}
			for i, req := range ops {
				if err := tls.VerifSendKeyUpdate(u.Conn, req); err != nil {
					fail("send-key-update", err)
					return
				}
				if !echo(i + 1) {
					return
				}
			}
			r.Obs = fmt.Sprintf("ok|%d", len(ops))
			return
		},
	}
}

// flakyConn delivers the peer's bytes in two pieces with one temporary (timeout) error in between:
// the first Read after arming returns at most `first` bytes, the next one fails with a deadline
// error although more bytes are waiting, later Reads are normal. A read deadline that expires in
// the middle of a record is a retryable condition: the bytes already received must not be lost.
type flakyConn struct {
	*peer.Endpoint
	armed bool
	first int
	stage int
}

type c25Timeout struct{}

func (c25Timeout) Error() string   { return "i/o timeout (scripted)" }
func (c25Timeout) Timeout() bool   { return true }
func (c25Timeout) Temporary() bool { return true }

func (f *flakyConn) Read(b []byte) (int, error) {
	if !f.armed {
		return f.Endpoint.Read(b)
	}
	switch f.stage {
	case 0:
		f.stage = 1
		if len(b) > f.first {
			b = b[:f.first]
		}
		return f.Endpoint.Read(b)
	case 1:
		f.stage = 2
		return 0, c25Timeout{}
	}
	return f.Endpoint.Read(b)
}

// c25RetryAfterTimeout — what the peer wrote arrives intact when the reader's transport times out
// once in the middle of a record and Read is simply called again.
func c25RetryAfterTimeout() *explore.Scenario {
	type sv struct {
		name string
		vers uint16
		id   uint16
	}
	suites := []sv{{"tls13-aes128", tls.VersionTLS13, tls.TLS_AES_128_GCM_SHA256}, {"tls13-chacha", tls.VersionTLS13, tls.TLS_CHACHA20_POLY1305_SHA256},
		{"tls12-gcm", tls.VersionTLS12, tls.TLS_ECDHE_ECDSA_WITH_AES_128_GCM_SHA256}, {"tls12-cbc", tls.VersionTLS12, tls.TLS_ECDHE_ECDSA_WITH_AES_128_CBC_SHA}, {"tls10-cbc", tls.VersionTLS10, tls.TLS_ECDHE_ECDSA_WITH_AES_128_CBC_SHA}}
	firsts := []int{1, 2, 3, 4, 5, 6, 13, 21, 40, 100}
	return &explore.Scenario{
		Name: "read-retried-after-a-timeout-in-mid-record",
		Run: func(x *explore.X) (r explore.Result) {
			s := suites[x.Choose("suite", len(suites))]
			first := firsts[x.Choose("first-piece", len(firsts))]
			size := []int{1, 60, 3000}[x.Choose("size", 3)]
			what := fmt.Sprintf("%s: server writes %d bytes, the client's transport delivers %d byte(s), times out once, then the rest", s.name, size, first)
			msg := payload(size, 0x3c)
			scfg := peer.ServerConfig()
			scfg.MinVersion = tls.VersionTLS10
			scfg.MaxVersion = s.vers
			if s.vers != tls.VersionTLS13 {
				scfg.CipherSuites = []uint16{s.id}
			}
			var fc *flakyConn
			spec := handshakeSpec("tls13-minimal")
			if s.vers == tls.VersionTLS13 {
				spec.CipherSuites = []uint16{s.id}
			} else {
				spec = handshakeSpec("tls12-only")
				spec.CipherSuites = []uint16{s.id}
			}
			ccfg := peer.ClientConfig("example.com")
			ccfg.MinVersion = tls.VersionTLS10
			hs := peer.Run(ccfg, tls.HelloCustom, scfg, peer.Opts{KeepOpen: true,
				MakeClient: func(e *peer.Endpoint, cfg *tls.Config, id tls.ClientHelloID) *tls.UConn {
					fc = &flakyConn{Endpoint: e, first: first}
					return tls.UClient(fc, cfg, id)
				},
				Prepare:     func(u *tls.UConn) error { return u.ApplyPreset(spec) },
				ServerAfter: func(c *tls.Conn) error { _, err := c.Write(msg); return err }})
			defer hs.Finish()
			if !hs.OK() {
				r.Violate("INFRA|c25-flaky-handshake", "%s: %v / %v", what, hs.CErr, hs.SErr)
				return
			}
			r.Nontrivial = true
			r.Class = what
			fc.armed = true
			var got []byte
			timeouts := 0
			buf := make([]byte, 4096)
			for len(got) < len(msg) {
				n, err := hs.U.Read(buf)
				got = append(got, buf[:n]...)
				if err != nil {
					if ne, ok := err.(net.Error); ok && ne.Timeout() && timeouts < 3 {
						timeouts++
						continue // the application retries, as after any expired read deadline
					}
					r.Violate(fmt.Sprintf("C25|retry-after-timeout|vers=%04x|%s", s.vers, truncStr(errClass(err), 60)), "%s: after %d of %d bytes and %d timeout(s) Read fails with %v", what, len(got), len(msg), timeouts, err)
					return
				}
			}
			if !bytes.Equal(got, msg) {
				r.Violate("C25|retry-after-timeout|data-differs", "%s: the bytes read are not the bytes written", what)
			}
			r.Count("retries_after_timeout", timeouts)
			r.Obs = fmt.Sprintf("ok|timeouts=%d", timeouts)
			return
		},
	}
}

// c25CoalescedPostHandshake — a TLS 1.3 peer may put several post-handshake messages into one
// record: n KeyUpdates in one record, then application data under the n-times updated key. The
// reader must process every message of the record and deliver the data.
func c25CoalescedPostHandshake() *explore.Scenario {
	ids := []tls.ClientHelloID{tls.HelloGolang, tls.HelloChrome_Auto, tls.HelloFirefox_Auto}
	return &explore.Scenario{
		Name: "several-post-handshake-messages-in-one-record",
		Run: func(x *explore.X) (r explore.Result) {
			id := ids[x.Choose("client", len(ids))]
			n := 1 + x.Choose("messages-in-the-record", 4)
			rounds := 1 + x.Choose("rounds", 2)
			what := fmt.Sprintf("%s: %d x (one record with %d KeyUpdates, then 300 bytes of data)", id.Client, rounds, n)
			msg := payload(300, 0x5e)
			hs := peer.Run(peer.ClientConfig("example.com"), id, peer.ServerConfig(), peer.Opts{KeepOpen: true,
				ServerAfter: func(c *tls.Conn) error {
					for i := 0; i < rounds; i++ {
						if err := tls.VerifSendKeyUpdatesCoalesced(c, n); err != nil {
							return err
						}
						if _, err := c.Write(msg); err != nil {
							return err
						}
					}
					return nil
				}})
			defer hs.Finish()
			if !hs.OK() || hs.U.ConnectionState().Version != tls.VersionTLS13 {
				r.Violate("INFRA|c25-coalesced-handshake", "%s: %v / %v", what, hs.CErr, hs.SErr)
				return
			}
			r.Nontrivial = true
			r.Class = what
			got := make([]byte, rounds*len(msg))
			if k, err := io.ReadFull(hs.U, got); err != nil {
				r.Violate(fmt.Sprintf("C25|coalesced-post-handshake|messages=%d|%s", n, truncStr(errClass(err), 60)), "%s: read %d of %d bytes: %v", what, k, len(got), err)
				return
			}
			for i := 0; i < rounds; i++ {
				if !bytes.Equal(got[i*len(msg):(i+1)*len(msg)], msg) {
					r.Violate("C25|coalesced-post-handshake|data-differs", "%s: round %d", what, i)
				}
			}
			r.Count("coalesced_records_processed", rounds)
			r.Obs = "ok"
			return
		},
	}
}

// c25PaddedRecords — RFC 8446 5.4: a peer may pad the inner plaintext of any record with zero bytes. The
// receiver delivers exactly the content, whatever the amount of padding, for every TLS 1.3 suite.
func c25PaddedRecords() *explore.Scenario {
	ids := []tls.ClientHelloID{tls.HelloGolang, tls.HelloChrome_Auto, tls.HelloFirefox_Auto}
	sizes := []int{1, 5, 300, 16000}
	pads := []int{0, 1, 2, 17, 255, 383}
	suites := []uint16{tls.TLS_AES_128_GCM_SHA256, tls.TLS_AES_256_GCM_SHA384, tls.TLS_CHACHA20_POLY1305_SHA256}
	return &explore.Scenario{
		Name: "tls13-records-with-inner-padding",
		Run: func(x *explore.X) (r explore.Result) {
			id := ids[x.Choose("client", len(ids))]
			suite := suites[x.Choose("suite", len(suites))]
			size := sizes[x.Choose("size", len(sizes))]
			pad := pads[x.Choose("padding", len(pads))]
			what := fmt.Sprintf("%s suite %04x: a %d-byte record padded with %d zero bytes, an unpadded one, the first again", id.Client, suite, size, pad)
			msg := payload(size, 0x3c)
			var unhook func()
			hs := peer.Run(peer.ClientConfig("example.com"), id, peer.ServerConfig(), peer.Opts{KeepOpen: true,
				OnConns: func(_ *tls.UConn, s *tls.Conn) { unhook = installHooks(s, &connHooks{Suite13: suite}) },
				ServerAfter: func(c *tls.Conn) error {
					if err := tls.VerifWriteTLS13PaddedRecord(c, msg, pad); err != nil {
						return err
					}
					if _, err := c.Write([]byte("between")); err != nil {
						return err
					}
					return tls.VerifWriteTLS13PaddedRecord(c, msg, pad)
				}})
			if unhook != nil {
				unhook()
			}
			defer hs.Finish()
			if !hs.OK() || hs.U.ConnectionState().Version != tls.VersionTLS13 {
				r.Obs = "no-tls13-handshake"
				return
			}
			r.Nontrivial = true
			r.Class = what
			want := append(append(append([]byte(nil), msg...), []byte("between")...), msg...)
			got := make([]byte, len(want))
			if k, err := io.ReadFull(hs.U, got); err != nil {
				r.Violate(fmt.Sprintf("C25|padded-record|%s", truncStr(errClass(err), 60)), "%s: read %d of %d bytes: %v", what, k, len(want), err)
				return
			}
			if !bytes.Equal(got, want) {
				r.Violate("C25|padded-record|data-differs", "%s: the bytes delivered are not the bytes sent (first difference at %d)", what, firstDiffIndex(got, want))
			}
			r.Count("padded_records_read", 2)
			r.Obs = "ok"
			return
		},
	}
}

func firstDiffIndex(a, b []byte) int {
	for i := range a {
		if i >= len(b) || a[i] != b[i] {
			return i
		}
	}
	return len(a)
}

// clientKeyUpdateReplyFails — an established TLS 1.3 connection on which the SERVER sends
// KeyUpdate(update_requested) and then data under its new keys, while the client's transport has started
// to fail writes (the client half-closed, its write deadline passed, the peer stopped reading): the client
// cannot send its own KeyUpdate back, but what it reads must still be exactly what the server sent
// (C25), and Read / Close must return (C33).
func clientKeyUpdateReplyFails(prop string) *explore.Scenario {
	ids := []tls.ClientHelloID{tls.HelloGolang, tls.HelloChrome_Auto, tls.HelloFirefox_Auto}
	return &explore.Scenario{
		Name:     "server-key-update-while-the-client-cannot-write",
		Watchdog: 30 * time.Second, HangSig: prop + "|hang|key-update-reply-write-fails",
		Run: func(x *explore.X) (r explore.Result) {
			id := ids[x.Choose("client", len(ids))]
			requested := x.Choose("update-requested", 2) == 1
			failing := x.Choose("client-writes-fail", 2) == 1
			updates := 1 + x.Choose("updates", 2)
			what := fmt.Sprintf("%s: %d x (server KeyUpdate(update_requested=%v), 300 bytes); client transport writes fail=%v", id.Client, updates, requested, failing)
			msg := payload(300, 0x6b)
			ready := make(chan struct{})
			hs := peer.Run(peer.ClientConfig("example.com"), id, peer.ServerConfig(), peer.Opts{KeepOpen: true,
				ServerAfter: func(s *tls.Conn) error {
					<-ready
					for i := 0; i < updates; i++ {
						if err := tls.VerifSendKeyUpdate(s, requested); err != nil {
							return err
						}
						if _, err := s.Write(msg); err != nil {
							return err
						}
					}
					return nil
				}})
			defer hs.Finish()
			if !hs.OK() || hs.U.ConnectionState().Version != tls.VersionTLS13 {
				close(ready)
				r.Obs = "no-tls13-handshake"
				return
			}
			r.Nontrivial = true
			r.Class = what
			hs.CE.FailWrites = failing
			close(ready)
			got := make([]byte, updates*len(msg))
			var k int
			var err error
			if pm := catch(func() { k, err = io.ReadFull(hs.U, got) }); pm != "" {
				r.Violate(prop+"|client-panic|key-update-reply-write-fails", "%s: %s", what, truncStr(pm, 300))
				return
			}
			if err != nil {
				r.Violate(fmt.Sprintf("%s|key-update-reply-write-fails|read-error|%s", prop, truncStr(errClass(err), 50)), "%s: read %d of %d bytes: %v", what, k, len(got), err)
			} else {
				for i := 0; i < updates; i++ {
					if !bytes.Equal(got[i*len(msg):(i+1)*len(msg)], msg) {
						r.Violate(prop+"|key-update-reply-write-fails|data-differs", "%s: round %d", what, i)
					}
				}
			}
			if pm := catch(func() { hs.U.Close() }); pm != "" {
				r.Violate(prop+"|client-panic|close-after-key-update", "%s: %s", what, truncStr(pm, 300))
			}
			r.Obs = fmt.Sprintf("read=%d|%s", k, errClass(err))
			return
		},
	}
}
