package props

import (
	"crypto/rand"
	"errors"
	"fmt"
	"sort"
	"strings"

	tls "github.com/refraction-networking/utls"

	"verifmc/explore"
	"verifmc/peer"
	"verifmc/wire"
)

// C03 — predefined parrots send exactly the ClientHello their spec describes.

func g16(v uint16) string {
	if wire.IsGREASE(v) {
		return "G"
	}
	return fmt.Sprintf("%04x", v)
}

func list16[T ~uint16](l []T) string {
	var p []string
	for _, v := range l {
		p = append(p, g16(uint16(v)))
	}
	return strings.Join(p, ",")
}

func protoBody(ps []string) string {
	var inner []byte
	for _, p := range ps {
		inner = append(inner, byte(len(p)))
		inner = append(inner, p...)
	}
	return fmt.Sprintf("%x", append([]byte{byte(len(inner) >> 8), byte(len(inner))}, inner...))
}

// refNorm is the reference encoder: it renders what a spec extension must look like on the wire
// in the normal form of normExt (written from the RFCs, independent of the extension's Read()).
// present=false means the extension legitimately encodes to nothing in this configuration.
func refNorm(e tls.TLSExtension, cfg *tls.Config) (s string, present bool, known bool) {
	switch x := e.(type) {
	case *tls.SNIExtension:
		return "0[sni:*]", true, true
	case *tls.StatusRequestExtension:
		return "5[0100000000]", true, true
	case *tls.StatusRequestV2Extension:
		return "17[000702000400000000]", true, true
	case *tls.SupportedCurvesExtension:
		return "10[" + list16(x.Curves) + "]", true, true
	case *tls.SupportedPointsExtension:
		return fmt.Sprintf("11[%02x%x]", len(x.SupportedPoints), x.SupportedPoints), true, true
	case *tls.SignatureAlgorithmsExtension:
		return "13[" + list16(x.SupportedSignatureAlgorithms) + "]", true, true
	case *tls.SignatureAlgorithmsCertExtension:
		return "50[" + list16(x.SupportedSignatureAlgorithms) + "]", true, true
	case *tls.FakeDelegatedCredentialsExtension:
		return "34[" + list16(x.SupportedSignatureAlgorithms) + "]", true, true
	case *tls.ALPNExtension:
		return "16[" + protoBody(x.AlpnProtocols) + "]", true, true
	case *tls.ApplicationSettingsExtension:
		return "17513[" + protoBody(x.SupportedProtocols) + "]", true, true
	case *tls.ApplicationSettingsExtensionNew:
		return "17613[" + protoBody(x.SupportedProtocols) + "]", true, true
	case *tls.SCTExtension:
		return "18[]", true, true
	case *tls.ExtendedMasterSecretExtension:
		return "23[]", true, true
	case *tls.GenericExtension:
		return fmt.Sprintf("%d[%x]", x.Id, x.Data), true, true
	case *tls.UtlsGREASEExtension:
		return "G", true, true
	case *tls.UtlsPaddingExtension:
		return "21[padding]", true, true
	case *tls.UtlsCompressCertExtension:
		return "27[" + list16(x.Algorithms) + "]", true, true
	case *tls.KeyShareExtension:
		var p []string
		for _, k := range x.KeyShares {
			if wire.IsGREASE(uint16(k.Group)) {
				p = append(p, fmt.Sprintf("G:%d", len(k.Data)))
				continue
			}
			n := len(k.Data)
			if n <= 1 {
				n = wire.KeyShareSizes[uint16(k.Group)]
				if k.Group == tls.X25519Kyber768Draft00 {
					n = 32 + 1184
				}
			}
			p = append(p, fmt.Sprintf("%d:%d", k.Group, n))
		}
		return "51[" + strings.Join(p, ",") + "]", true, true
	case *tls.PSKKeyExchangeModesExtension:
		return fmt.Sprintf("45[%02x%x]", len(x.Modes), x.Modes), true, true
	case *tls.SupportedVersionsExtension:
		return "43[" + list16(x.Versions) + "]", true, true
	case *tls.CookieExtension:
		return fmt.Sprintf("44[%04x%x]", len(x.Cookie), x.Cookie), true, true
	case *tls.NPNExtension:
		return "13172[]", true, true
	case *tls.RenegotiationInfoExtension:
		return fmt.Sprintf("65281[%02x%x]", len(x.RenegotiatedConnection), x.RenegotiatedConnection), true, true
	case *tls.FakeChannelIDExtension:
		if x.OldExtensionID {
			return "30031[]", true, true
		}
		return "30032[]", true, true
	case *tls.FakeRecordSizeLimitExtension:
		return fmt.Sprintf("28[%04x]", x.Limit), true, true
	case *tls.FakeTokenBindingExtension:
		return fmt.Sprintf("24[%02x%02x%02x%x]", x.MajorVersion, x.MinorVersion, len(x.KeyParameters), x.KeyParameters), true, true
	case *tls.GREASEEncryptedClientHelloExtension:
		return "65037[ech]", true, true
	case *tls.SessionTicketExtension:
		return "35[ticket:*]", true, true
	case *tls.UtlsPreSharedKeyExtension, *tls.FakePreSharedKeyExtension:
		// without a cached session there are no identities: with OmitEmptyPsk the extension vanishes
		return "41[psk:*]", !cfg.OmitEmptyPsk, true
	}
	return "", false, false
}

// wireNormC03 is normExt with the ECH body reduced to its presence (its grammar is C16's job).
func wireNormC03(e wire.Ext) string {
	if e.Type == 0xfe0d {
		return "65037[ech]"
	}
	if wire.IsGREASE(e.Type) {
		return "G"
	}
	return normExt(e, normOpts{})
}

func c03Scenario(nConn int) *explore.Scenario {
	ids := ParrotIDs()
	snis := []string{"example.com", "a", nameOfLen(200), nameOfLen(250), nameOfLen(251), nameOfLen(252), nameOfLen(253)}
	return &explore.Scenario{
		Name: "parrot-vs-spec",
		Run: func(x *explore.X) (r explore.Result) {
			n := ids[x.Choose("id", len(ids))]
			sni := snis[x.Choose("sni", len(snis))]
			conn := x.Choose("connection", nConn)
			// how the caller gets to the first flight: the documented orders must all send the spec
			build := x.Choose("build", 3) // 0 BuildHandshakeState+Handshake, 1 Handshake only, 2 BuildHandshakeStateWithoutSession, BuildHandshakeState, Handshake
			cfg := peer.ClientConfig(sni)
			cfg.OmitEmptyPsk = true
			cfg.Rand = newScriptRand(fmt.Sprintf("c03-%d", conn))
			what := fmt.Sprintf("%s sni-len=%d conn=%d build-order=%d", n.Name, len(sni), conn, build)
			// version bounds the application left in its Config: a parrot's hello is described by its spec
			// (TLSVersMin / TLSVersMax / supported_versions), whatever the Config said before
			switch x.Choose("config-version-bounds", 5) {
			case 1:
				cfg.MinVersion, cfg.MaxVersion = tls.VersionTLS10, tls.VersionTLS11
				what += " Config{Min:1.0,Max:1.1}"
			case 2:
				cfg.MinVersion, cfg.MaxVersion = tls.VersionTLS10, tls.VersionTLS10
				what += " Config{Min:1.0,Max:1.0}"
			case 3:
				cfg.MaxVersion = tls.VersionTLS11
				what += " Config{Max:1.1}"
			case 4:
				cfg.MinVersion = tls.VersionTLS13
				what += " Config{Min:1.3}"
			}
			// reference spec: a second, independent UTLSIdToSpec call
			spec, err := tls.UTLSIdToSpec(n.ID)
			if err != nil {
				r.Violate("C03|no-spec", "%s: UTLSIdToSpec: %v", what, err)
				return
			}
			// is this a shuffling parrot? (order of two further spec calls differs)
			shuffler := false
			for i := 0; i < 6 && !shuffler; i++ {
				s2, _ := tls.UTLSIdToSpec(n.ID)
				for j := range s2.Extensions {
					a, _, _ := refNorm(s2.Extensions[j], cfg)
					b, _, _ := refNorm(spec.Extensions[j], cfg)
					if a != b {
						shuffler = true
					}
				}
			}
			var stream []byte
			var perr error
			var pm string
			switch build {
			case 0:
				stream, _, perr, pm = firstFlight(cfg, n.ID, nil)
			case 1:
				stream, perr, pm = handshakeOnlyFlight(cfg, n.ID)
			default:
				stream, _, perr, pm = firstFlight(cfg, n.ID, func(u *tls.UConn) error { return u.BuildHandshakeStateWithoutSession() })
			}
			if pm != "" {
				r.Violate("C03|panic", "%s: %s", what, pm)
				return
			}
			msg, _, err := wire.FirstFlightHello(stream)
			if err != nil {
				r.Violate("C03|no-hello|"+errClass(perr), "%s: %v / %v", what, err, perr)
				return
			}
			h, err := wire.ParseClientHello(msg)
			if err != nil {
				r.Obs = "unparsable" // C02
				return
			}
			// legacy version, suites, compression
			wantV := spec.TLSVersMax
			if wantV == 0 {
				wantV = tls.VersionTLS12
				for _, e := range spec.Extensions {
					if sv, ok := e.(*tls.SupportedVersionsExtension); ok {
						_ = sv
					}
				}
			}
			if wantV > tls.VersionTLS12 {
				wantV = tls.VersionTLS12
			}
			if h.LegacyVersion != wantV {
				r.Violate("C03|legacy-version", "%s: legacy_version %04x, spec maximum gives %04x", what, h.LegacyVersion, wantV)
			}
			if list16(h.Suites) != list16(spec.CipherSuites) {
				r.Violate("C03|cipher-suites", "%s: suites on the wire [%s], spec [%s]", what, list16(h.Suites), list16(spec.CipherSuites))
			}
			wantComp := spec.CompressionMethods
			if len(wantComp) == 0 {
				wantComp = []byte{0}
			}
			if fmt.Sprintf("%x", h.Compression) != fmt.Sprintf("%x", wantComp) {
				r.Violate("C03|compression", "%s: compression %x, spec %x", what, h.Compression, wantComp)
			}
			// extensions
			var want []string
			for _, e := range spec.Extensions {
				s, present, known := refNorm(e, cfg)
				if !known {
					r.Violate("INFRA|c03-unknown-extension-type", "%s: spec extension %T has no reference encoder (extend refNorm)", what, e)
					return
				}
				if p, ok := e.(*tls.UtlsPaddingExtension); ok {
					_ = p
					// padding is present only when the policy pads (C05): take presence from the wire
					if h.Find(21) == nil {
						present = false
					}
				}
				if present {
					want = append(want, s)
				}
			}
			var got []string
			for _, e := range h.Exts {
				got = append(got, wireNormC03(e))
			}
			fixed := func(s string) bool {
				return s == "G" || strings.HasPrefix(s, "21[") || strings.HasPrefix(s, "41[")
			}
			if !shuffler {
				if strings.Join(got, " ") != strings.Join(want, " ") {
					r.Violate("C03|extensions|"+truncStr(firstDiff(strings.Join(got, " "), strings.Join(want, " ")), 60), "%s: extension sequence/bodies differ from the spec: wire vs spec %s", what, firstDiff(strings.Join(got, " "), strings.Join(want, " ")))
				}
			} else {
				a, b := append([]string{}, got...), append([]string{}, want...)
				sort.Strings(a)
				sort.Strings(b)
				if strings.Join(a, " ") != strings.Join(b, " ") {
					r.Violate("C03|extensions-multiset|"+truncStr(firstDiff(strings.Join(a, " "), strings.Join(b, " ")), 60), "%s (shuffling parrot): extension multiset differs from the spec: %s", what, firstDiff(strings.Join(a, " "), strings.Join(b, " ")))
				} else if len(got) == len(want) {
					for i := range got {
						if fixed(want[i]) != fixed(got[i]) || (fixed(want[i]) && want[i] != got[i]) {
							r.Violate("C03|shuffle-moved-fixed-extension", "%s: position %d holds %s on the wire but %s in the spec (GREASE, padding and pre_shared_key must keep their positions)", what, i, got[i], want[i])
							break
						}
					}
				}
				r.Count("shuffler_hellos", 1)
			}
			r.Obs = fmt.Sprintf("shuffler=%v|viol=%d", shuffler, len(r.Viol))
			r.Nontrivial = true
			r.Class = fmt.Sprintf("%s|%d|%s", n.Name, len(sni), strings.Join(got, " "))
			if conn == 0 && len(sni) == 1 {
				r.Sample = map[string]any{"id": n.Name, "shuffler": shuffler, "extensions": strings.Join(got, " ")}
			}
			return
		},
	}
}

// handshakeOnlyFlight sends the first flight with a bare Handshake() (no explicit build).
func handshakeOnlyFlight(cfg *tls.Config, id tls.ClientHelloID) (stream []byte, err error, panicMsg string) {
	ce, se := peer.Pipe()
	se.SetIdle()
	u := tls.UClient(ce, cfg, id)
	func() {
		defer func() {
			if e := recover(); e != nil {
				panicMsg = fmt.Sprint(e)
			}
		}()
		if herr := u.Handshake(); herr != nil && ce.WriteCount() == 0 {
			err = herr
		}
	}()
	return ce.AllWritten(), err, panicMsg
}

type failingReader struct{}

func (failingReader) Read([]byte) (int, error) { return 0, errors.New("verif: no entropy") }

// c03ShuffleWithoutEntropy: the Chrome shuffle draws from crypto/rand and falls back to another source when
// that fails. Whatever the source, the entries the spec pins — GREASE first and (second) last, padding and
// pre_shared_key behind it — stay where they are. crypto/rand.Reader fails while the hello is built
// (Config.Rand still serves the connection's own material).
func c03ShuffleWithoutEntropy() *explore.Scenario {
	var ids []NamedID
	for _, n := range ParrotIDs() {
		if sp, err := tls.UTLSIdToSpec(n.ID); err == nil && len(sp.Extensions) > 2 {
			if _, ok := sp.Extensions[0].(*tls.UtlsGREASEExtension); ok {
				ids = append(ids, n)
			}
		}
	}
	return &explore.Scenario{
		Name:    "shuffling-parrots-while-crypto-rand-fails",
		Workers: 1, // crypto/rand.Reader is process-global
		Run: func(x *explore.X) (r explore.Result) {
			if len(ids) == 0 {
				r.Violate("INFRA|c03-no-grease-first-parrot", "no parrot starts with a GREASE extension")
				return
			}
			n := ids[x.Choose("id", len(ids))]
			conn := x.Choose("connection", 6)
			cfg := peer.ClientConfig("example.com")
			cfg.OmitEmptyPsk = true
			cfg.Rand = newScriptRand(fmt.Sprintf("c03-noent-%d", conn))
			// (only the spec is generated without entropy: Go's crypto/rand.Read ends the process when its
			// Reader fails, which the GREASE-ECH extension would run into while the hello is built)
			saved := rand.Reader
			rand.Reader = failingReader{}
			var spec tls.ClientHelloSpec
			var serr error
			pm0 := catch(func() { spec, serr = tls.UTLSIdToSpec(n.ID) })
			rand.Reader = saved
			if pm0 != "" || serr != nil {
				r.Obs = "no-spec-without-entropy"
				r.Count("refused_without_entropy", 1)
				return
			}
			stream, _, perr, pm := firstFlight(cfg, tls.HelloCustom, func(u *tls.UConn) error { return u.ApplyPreset(&spec) })
			what := fmt.Sprintf("%s conn=%d, crypto/rand failing while the spec is generated", n.Name, conn)
			if pm != "" {
				r.Violate("C03|panic|no-entropy", "%s: %s", what, pm)
				return
			}
			msg, _, err := wire.FirstFlightHello(stream)
			if err != nil {
				r.Obs = "no-hello:" + errClass(perr) // refusing to build without entropy is an answer too
				r.Count("refused_without_entropy", 1)
				return
			}
			h, err := wire.ParseClientHello(msg)
			if err != nil {
				r.Obs = "unparsable"
				return
			}
			r.Nontrivial = true
			r.Class = what
			isGrease := func(t uint16) bool { return t&0x0f0f == 0x0a0a && t>>8 == t&0xff }
			var greaseAt []int
			for i, e := range h.Exts {
				if isGrease(e.Type) {
					greaseAt = append(greaseAt, i)
				}
			}
			if len(greaseAt) == 0 || greaseAt[0] != 0 {
				r.Violate("C03|fixed-position|first-grease", "%s: the hello does not start with the GREASE extension (extension types %s)", what, extTypes(h))
			}
			if len(greaseAt) >= 2 {
				for _, e := range h.Exts[greaseAt[len(greaseAt)-1]+1:] {
					if e.Type != 21 && e.Type != 41 {
						r.Violate("C03|fixed-position|last-grease", "%s: extension %d follows the last GREASE extension (only padding and pre_shared_key may): %s", what, e.Type, extTypes(h))
						break
					}
				}
			}
			r.Obs = fmt.Sprintf("grease=%v|viol=%d", greaseAt, len(r.Viol))
			return
		},
	}
}

func c03Scenarios(thorough bool) []*explore.Scenario {
	if thorough {
		return []*explore.Scenario{c03Scenario(200), c03ShuffleWithoutEntropy()}
	}
	return []*explore.Scenario{c03Scenario(12), c03ShuffleWithoutEntropy()}
}

func init() {
	register(&Prop{ID: "C03", Level: "exploration", Variant: "A", Scenarios: c03Scenarios,
		Run: func(c *explore.Check, thorough bool) {
			c.Rule = "every predefined parrot x 7 server-name lengths (1, 11, 200, 250..253) x 12 (200) connections with per-connection scripted entropy x 3 ways of reaching the first flight {BuildHandshakeState then Handshake, Handshake alone, BuildHandshakeStateWithoutSession then BuildHandshakeState then Handshake} x version bounds left in the application Config {none, 1.0-1.1, 1.0-1.0, max 1.1, min 1.3} (+ every parrot starting with GREASE, its spec generated while crypto/rand fails: GREASE stays first and last-but-padding/PSK): legacy_version, cipher suites, compression and every extension (sequence for non-shuffling parrots; multiset plus fixed positions of GREASE/padding/pre_shared_key for shuffling ones) compared with an independent reference encoding (refNorm, written from the RFCs) of a second UTLSIdToSpec call, per-connection material masked. distinct = (id, sni length, observed extension order)"
			c.Assumptions = []string{"the Chrome shuffle is driven by its own crypto/rand seed: permutations are observed over the enumerated connections, not enumerated decision by decision", "padding presence is taken from the wire (its policy is C05's subject)"}
			runAll(c, c03Scenarios(thorough), 0)
			c.Gate(c.Total.Counters["shuffler_hellos"] > 20, "non-vacuity: %d shuffler hellos", c.Total.Counters["shuffler_hellos"])
		}})
}
