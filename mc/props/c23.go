package props

import (
	"bytes"
	"context"
	stdtls "crypto/tls"
	"fmt"
	"os"
	"reflect"
	"strings"

	tls "github.com/refraction-networking/utls"
	"github.com/refraction-networking/utls/verifshim/sched"

	"verifmc/explore"
	"verifmc/peer"
	"verifmc/wire"
)

// C23 — QUIC clients complete the handshake through the event API and never hang.
//
// The UQUICConn is driven by one managed "pump" thread that plays the QUIC transport: it drains
// NextEvent, carries CRYPTO bytes to a standard-library QUIC server (the environment: synchronous,
// no scheduling points) and back, and decides — as explorer choices — how server bytes are
// fragmented over HandleData calls and when Close is called. The handshake goroutine that Start
// spawns is a managed thread as well (the `go` statement and every channel operation, select and
// mutex of package tls are redirected), and a third managed thread may cancel the Start context
// at any scheduling point. "Every call returns" is decided by the scheduler's deadlock detection.

type quicSpec struct {
	name      string
	mk        func() *tls.ClientHelloSpec
	p256Share bool // offers a P-256 key share (no HelloRetryRequest from the P-256-only server)
}

func c23Params(kind int) tls.TransportParameters {
	switch kind {
	case 0:
		return tls.TransportParameters{tls.InitialMaxData(1 << 20), tls.InitialMaxStreamsBidi(4), tls.InitialSourceConnectionID([]byte{})}
	case 1:
		return tls.TransportParameters{
			tls.MaxIdleTimeout(30000), tls.MaxUDPPayloadSize(1472), tls.InitialMaxData(15728640),
			tls.InitialMaxStreamDataBidiLocal(6291456), tls.InitialMaxStreamDataBidiRemote(6291456), tls.InitialMaxStreamDataUni(6291456),
			tls.InitialMaxStreamsBidi(100), tls.InitialMaxStreamsUni(103), tls.InitialSourceConnectionID([]byte{}),
			&tls.GREASETransportParameter{IdOverride: 27 + 31*5, ValueOverride: []byte{1, 2, 3}},
			&tls.VersionInformation{ChoosenVersion: 1, AvailableVersions: []uint32{1, 0x6b3343cf}, LegacyID: true},
			tls.MaxDatagramFrameSize(65536),
		}
	default:
		return tls.TransportParameters{
			tls.InitialMaxStreamDataBidiRemote(0x100000), tls.InitialMaxStreamsBidi(16), tls.MaxDatagramFrameSize(1200),
			tls.MaxIdleTimeout(30000), tls.ActiveConnectionIDLimit(8), &tls.GREASEQUICBit{},
			&tls.VersionInformation{ChoosenVersion: 1, AvailableVersions: []uint32{0x8acafaea, 1}, LegacyID: true},
			tls.InitialMaxStreamsUni(16), &tls.GREASETransportParameter{IdOverride: 0xff02de1a, ValueOverride: []byte{0x43, 0xe8}},
			tls.InitialMaxStreamDataBidiLocal(0xc00000), tls.InitialMaxStreamDataUni(0x100000),
			tls.InitialSourceConnectionID([]byte{0x53, 0xf0, 0xb2}), tls.MaxAckDelay(20), tls.InitialMaxData(0x1800000), &tls.DisableActiveMigration{},
		}
	}
}

func c23Specs() []quicSpec {
	return []quicSpec{
		{"quic-minimal", func() *tls.ClientHelloSpec {
			return &tls.ClientHelloSpec{
				TLSVersMin: tls.VersionTLS13, TLSVersMax: tls.VersionTLS13,
				CipherSuites:       []uint16{tls.TLS_AES_128_GCM_SHA256, tls.TLS_AES_256_GCM_SHA384, tls.TLS_CHACHA20_POLY1305_SHA256},
				CompressionMethods: []uint8{0},
				Extensions: []tls.TLSExtension{
					&tls.SNIExtension{},
					&tls.SupportedCurvesExtension{Curves: []tls.CurveID{tls.X25519, tls.CurveP256}},
					&tls.SignatureAlgorithmsExtension{SupportedSignatureAlgorithms: append([]tls.SignatureScheme{}, sigAlgsFull...)},
					&tls.ALPNExtension{AlpnProtocols: []string{"h3"}},
					&tls.SupportedVersionsExtension{Versions: []uint16{tls.VersionTLS13}},
					&tls.KeyShareExtension{KeyShares: []tls.KeyShare{{Group: tls.X25519}}},
					&tls.QUICTransportParametersExtension{TransportParameters: c23Params(0)},
				},
			}
		}, false},
		{"quic-chrome-like", func() *tls.ClientHelloSpec {
			return &tls.ClientHelloSpec{
				TLSVersMin: tls.VersionTLS13, TLSVersMax: tls.VersionTLS13,
				CipherSuites:       []uint16{tls.GREASE_PLACEHOLDER, tls.TLS_AES_128_GCM_SHA256, tls.TLS_AES_256_GCM_SHA384, tls.TLS_CHACHA20_POLY1305_SHA256},
				CompressionMethods: []uint8{0},
				Extensions: []tls.TLSExtension{
					&tls.UtlsGREASEExtension{},
					&tls.SNIExtension{},
					&tls.SupportedCurvesExtension{Curves: []tls.CurveID{tls.GREASE_PLACEHOLDER, tls.X25519, tls.CurveP256, tls.CurveP384}},
					&tls.ALPNExtension{AlpnProtocols: []string{"h3"}},
					&tls.SignatureAlgorithmsExtension{SupportedSignatureAlgorithms: append([]tls.SignatureScheme{}, sigAlgsFull...)},
					&tls.KeyShareExtension{KeyShares: []tls.KeyShare{{Group: tls.GREASE_PLACEHOLDER, Data: []byte{0}}, {Group: tls.X25519}}},
					&tls.PSKKeyExchangeModesExtension{Modes: []uint8{tls.PskModeDHE}},
					&tls.SupportedVersionsExtension{Versions: []uint16{tls.GREASE_PLACEHOLDER, tls.VersionTLS13}},
					&tls.QUICTransportParametersExtension{TransportParameters: c23Params(1)},
					&tls.UtlsCompressCertExtension{Algorithms: []tls.CertCompressionAlgo{tls.CertCompressionBrotli}},
					&tls.ApplicationSettingsExtension{SupportedProtocols: []string{"h3"}},
					&tls.UtlsGREASEExtension{},
					&tls.UtlsPaddingExtension{GetPaddingLen: tls.BoringPaddingStyle},
				},
			}
		}, false},
		{"quic-firefox-like", func() *tls.ClientHelloSpec {
			return &tls.ClientHelloSpec{
				TLSVersMin: tls.VersionTLS13, TLSVersMax: tls.VersionTLS13,
				CipherSuites:       []uint16{tls.TLS_AES_128_GCM_SHA256, tls.TLS_CHACHA20_POLY1305_SHA256, tls.TLS_AES_256_GCM_SHA384},
				CompressionMethods: []uint8{0},
				Extensions: []tls.TLSExtension{
					&tls.SNIExtension{},
					&tls.ExtendedMasterSecretExtension{},
					&tls.RenegotiationInfoExtension{Renegotiation: tls.RenegotiateOnceAsClient},
					&tls.SupportedCurvesExtension{Curves: []tls.CurveID{tls.X25519, tls.CurveP256, tls.CurveP384, tls.CurveP521}},
					&tls.ALPNExtension{AlpnProtocols: []string{"h3"}},
					&tls.StatusRequestExtension{},
					&tls.KeyShareExtension{KeyShares: []tls.KeyShare{{Group: tls.X25519}, {Group: tls.CurveP256}}},
					&tls.SupportedVersionsExtension{Versions: []uint16{tls.VersionTLS13}},
					&tls.SignatureAlgorithmsExtension{SupportedSignatureAlgorithms: append([]tls.SignatureScheme{}, sigAlgsFull...)},
					&tls.PSKKeyExchangeModesExtension{Modes: []uint8{tls.PskModeDHE}},
					&tls.FakeRecordSizeLimitExtension{Limit: 0x4001},
					&tls.QUICTransportParametersExtension{TransportParameters: c23Params(2)},
				},
			}
		}, true},
	}
}

type quicServerKind struct {
	name string
	cfg  func() *stdtls.Config
	hrr  bool
}

func c23Servers() []quicServerKind {
	base := func() *stdtls.Config {
		c := stdServerConfig()
		c.MinVersion = stdtls.VersionTLS13
		c.NextProtos = []string{"h3"}
		return c
	}
	return []quicServerKind{
		{"default", base, false},
		{"hrr-p256", func() *stdtls.Config { c := base(); c.CurvePreferences = []stdtls.CurveID{stdtls.CurveP256}; return c }, true},
		{"request-client-cert", func() *stdtls.Config { c := base(); c.ClientAuth = stdtls.RequestClientCert; return c }, false},
	}
}

// injections
const (
	qiNone          = iota
	qiCancelThread  // a concurrent thread cancels the Start context at any point
	qiNoServerName  // ClientHello cannot be built: parrot id (no explicit ApplyPreset), no ServerName, verification on
	qiDupExtension  // ClientHello cannot be built: duplicate padding extension in the spec
	qiMinVersion12  // Start refuses: the spec allows TLS 1.2
	qiPreCancelled  // the context is cancelled before Start
	qiNoCommonALPN  // server aborts: no application protocol in common
	qiUntrustedCert // client aborts: server certificate from an unknown CA
	qiServerGarbage // the first server flight is corrupted (handshake type 0xff)
	qiCount
)

var qiNames = []string{"none", "cancel-thread", "no-servername", "dup-extension", "minversion-1.2", "pre-cancelled", "no-common-alpn", "untrusted-cert", "server-garbage"}

type qEvent struct {
	kind  tls.QUICEventKind
	level tls.QUICEncryptionLevel
	data  []byte
	suite uint16
}

type sEvent struct {
	kind  stdtls.QUICEventKind
	level stdtls.QUICEncryptionLevel
	data  []byte
}

func c23Pump(bound int, free bool) *explore.Scenario {
	specs := c23Specs()
	servers := c23Servers()
	serverParams := []byte{0x04, 0x04, 0x80, 0x10, 0x00, 0x00, 0x0f, 0x00}
	one := 1
	if free {
		one = 0 // free-running executions are not replayable: only the leading (deterministic) choices vary
	}
	return &explore.Scenario{
		Name:   "quic-event-pump",
		Dedup:  !free,
		Budget: map[string]int{"preempt": bound, "switch": bound, "select": bound, "frag": bound, "pump": bound, "close": one, "late": one},
		Run: func(x *explore.X) (r explore.Result) {
			sp := specs[x.Choose("spec", len(specs))]
			sv := servers[x.Choose("server", len(servers))]
			nInj := qiCount
			if free {
				nInj = qiCancelThread + 1 // the free-running pass has no deadlock detection: only completing runs
			}
			inj := x.Choose("inject", nInj)
			what := fmt.Sprintf("spec=%s server=%s inject=%s", sp.name, sv.name, qiNames[inj])

			// ---- server (environment) ----
			scfg := sv.cfg()
			switch inj {
			case qiNoCommonALPN:
				scfg.NextProtos = []string{"hq-29"}
			case qiUntrustedCert:
				f := peer.Fix()
				scfg.Certificates = []stdtls.Certificate{{Certificate: f.Untrusted.Certificate, PrivateKey: f.Untrusted.PrivateKey}}
			}
			srv := stdtls.QUICServer(&stdtls.QUICConfig{TLSConfig: scfg})
			srv.SetTransportParameters(serverParams)
			defer srv.Close()

			// ---- client under test ----
			ccfg := peer.ClientConfig("example.com")
			ccfg.MinVersion = tls.VersionTLS13
			ccfg.NextProtos = []string{"h3"}
			spec := sp.mk()
			id := tls.HelloCustom
			switch inj {
			case qiNoServerName:
				ccfg.ServerName = ""
				id = tls.HelloFirefox_Auto
				spec = nil
			case qiDupExtension:
				spec.Extensions = append(spec.Extensions, &tls.UtlsPaddingExtension{GetPaddingLen: tls.BoringPaddingStyle}, &tls.UtlsPaddingExtension{GetPaddingLen: tls.BoringPaddingStyle})
			case qiMinVersion12:
				spec.TLSVersMin = tls.VersionTLS12
				for _, e := range spec.Extensions {
					if sv, ok := e.(*tls.SupportedVersionsExtension); ok {
						sv.Versions = append(sv.Versions, tls.VersionTLS12)
					}
				}
			}
			ctx, cancel := context.WithCancel(context.Background())
			defer cancel()
			if inj == qiPreCancelled {
				cancel()
			}
			env := &envObj{}

			var (
				cev                []qEvent // every client event in order
				sev                []sEvent
				calls              []string // "Start:err" ...
				startErr           error
				startRet           bool
				firstErr           error // first error returned by Start/HandleData
				closed             bool
				closedEarly        bool // Close by explorer choice before the pump ran dry
				misdelivered       bool // data was handed to a wrong encryption level once (by explorer choice)
				wrongLevelAccepted bool
				closeErr           error
				closeRet           bool
				presetErr          error
				clientDone         bool
				serverDone         bool
				cliWrites          = map[tls.QUICEncryptionLevel][]byte{}
				sdata              = map[stdtls.QUICEncryptionLevel][]byte{} // server → client, undelivered
				cdata              = map[tls.QUICEncryptionLevel][]byte{}    // client → server, undelivered
				srvErr             error
				garbled            bool
				q                  *tls.UQUICConn
				pumpFinished       bool
			)
			note := func(name string, err error) {
				calls = append(calls, fmt.Sprintf("%s:%v", name, err == nil))
				if err != nil && firstErr == nil {
					firstErr = err
				}
			}
			cLevels := []tls.QUICEncryptionLevel{tls.QUICEncryptionLevelInitial, tls.QUICEncryptionLevelHandshake, tls.QUICEncryptionLevelApplication}
			sLevels := []stdtls.QUICEncryptionLevel{stdtls.QUICEncryptionLevelInitial, stdtls.QUICEncryptionLevelHandshake, stdtls.QUICEncryptionLevelApplication}
			drainServer := func() {
				for {
					e := srv.NextEvent()
					if e.Kind == stdtls.QUICNoEvent {
						return
					}
					ev := sEvent{kind: e.Kind, level: e.Level, data: append([]byte(nil), e.Data...)}
					sev = append(sev, ev)
					switch e.Kind {
					case stdtls.QUICWriteData:
						sdata[e.Level] = append(sdata[e.Level], ev.data...)
					case stdtls.QUICHandshakeDone:
						serverDone = true
					}
				}
			}
			drainClient := func() {
				for {
					e := q.NextEvent()
					if e.Kind == tls.QUICNoEvent {
						return
					}
					ev := qEvent{kind: e.Kind, level: e.Level, data: append([]byte(nil), e.Data...), suite: e.Suite}
					cev = append(cev, ev)
					switch e.Kind {
					case tls.QUICWriteData:
						cliWrites[e.Level] = append(cliWrites[e.Level], ev.data...)
						if startRet && !closed && srvErr == nil && x.Choose("pump.reactive", 2) == 1 {
							// a reactive transport: forward this chunk at once and feed the peer's answer
							// back BEFORE asking for further events (the event queue is not drained first)
							calls = append(calls, "reactive")
							if err := srv.HandleData(stdtls.QUICEncryptionLevel(e.Level), ev.data); err != nil {
								srvErr = err
							}
							drainServer()
							for li, l := range sLevels {
								if d := sdata[l]; len(d) > 0 {
									sdata[l] = nil
									if inj == qiServerGarbage && !garbled {
										garbled = true
										d = append([]byte{0xff}, d[1:]...)
									}
									err := q.HandleData(cLevels[li], d)
									note("HandleData", err)
									if err != nil {
										break
									}
								}
							}
						} else {
							cdata[e.Level] = append(cdata[e.Level], ev.data...)
						}
					case tls.QUICHandshakeDone:
						clientDone = true
					case tls.QUICTransportParametersRequired:
						q.SetTransportParameters(c23Params(0).Marshal())
					}
				}
			}

			pump := func() {
				defer func() { pumpFinished = true }()
				q = tls.UQUICClient(&tls.QUICConfig{TLSConfig: ccfg}, id)
				if spec != nil {
					if presetErr = q.ApplyPreset(spec); presetErr != nil {
						return
					}
				}
				if err := srv.Start(context.Background()); err != nil {
					srvErr = err
					return
				}
				drainServer()
				startErr = q.Start(ctx)
				startRet = true
				note("Start", startErr)
				drainClient()
				ticketSent := false
				// after a failed Start a transport only closes the connection (further calls are not
				// part of the property: Start refusing MinVersion < 1.3 never starts the handshake)
				for round := 0; round < 12 && !closed && startErr == nil; round++ {
					progress := false
					// optional early Close (one per execution at most)
					if x.Choose("close.round", 2) == 1 {
						closeErr = q.Close()
						closeRet, closed, closedEarly = true, true, true
						break
					}
					// a (redundant) SetTransportParameters after Start must return as well
					if x.Choose("late.setparams", 2) == 1 {
						q.SetTransportParameters(c23Params(0).Marshal())
						calls = append(calls, "SetTransportParameters")
						drainClient()
					}
					// client → server (whole; the server is the environment)
					for li, l := range cLevels {
						if d := cdata[l]; len(d) > 0 && srvErr == nil {
							cdata[l] = nil
							progress = true
							if err := srv.HandleData(sLevels[li], d); err != nil {
								srvErr = err
							}
							drainServer()
						}
					}
					if serverDone && !ticketSent && srvErr == nil {
						ticketSent = true
						if err := srv.SendSessionTicket(stdtls.QUICSessionTicketOptions{}); err == nil {
							drainServer()
						}
					}
					// server → client, fragmented by choice
					for li, l := range sLevels {
						d := sdata[l]
						if len(d) == 0 {
							continue
						}
						sdata[l] = nil
						progress = true
						if inj == qiServerGarbage && !garbled {
							garbled = true
							d = append([]byte{0xff}, d[1:]...)
						}
						if !misdelivered && x.Choose("pump.wronglevel", 2) == 1 {
							// a confused transport hands the first byte to the wrong encryption level first:
							// HandleData must refuse it and return (the handshake is allowed to fail afterwards)
							misdelivered = true
							wrong := cLevels[(li+1)%len(cLevels)]
							err := q.HandleData(wrong, d[:1])
							note("HandleData(wrong level)", err)
							if err == nil {
								wrongLevelAccepted = true
							}
							drainClient()
						}
						var frags [][]byte
						switch x.Choose("frag.deliver", 4) {
						case 0:
							frags = [][]byte{d}
						case 1:
							frags = [][]byte{d[:1], d[1:]}
						case 2:
							frags = [][]byte{d[:len(d)/2], d[len(d)/2:]}
						case 3:
							frags = [][]byte{d[:len(d)-1], d[len(d)-1:]}
						}
						for _, f := range frags {
							if len(f) == 0 {
								continue
							}
							err := q.HandleData(cLevels[li], f)
							note("HandleData", err)
							drainClient()
							if err != nil {
								break
							}
						}
					}
					if !progress {
						break
					}
				}
				if !closed {
					closeErr = q.Close()
					closeRet, closed = true, true
				}
				drainClient()
			}

			out := sched.Run(x, sched.Options{Context: what}, func() {
				sched.GoNamed("pump", false, pump)
				if inj == qiCancelThread {
					sched.GoNamed("C", false, func() { env.do("cancel", cancel) })
				}
			})
			x.Transitions += out.Steps
			r.Nontrivial = out.Threads > 2

			// ---- oracle ----
			for _, p := range out.Panics {
				r.Violate("C23|panic|"+errClass(fmt.Errorf("%s", firstLineOf(p))), "%s: %s", what, truncStr(p, 600))
			}
			for _, e := range out.InfraErrors {
				r.Violate("INFRA|sched", "%s", e)
			}
			if out.Deadlock || out.Horizon || !pumpFinished {
				stage := "Start"
				if startRet {
					stage = "HandleData/Close"
				}
				if len(out.Panics) == 0 {
					r.Violate("C23|never-returns|"+stage+"|inject="+qiNames[inj], "%s: a UQUICConn call never returns (blocked: %v; calls so far %v)", what, out.Blocked, calls)
				}
				r.Obs = "hang|" + stage
				r.Class = what + "|" + r.Obs
				return
			}
			if presetErr != nil && inj != qiDupExtension {
				r.Violate("C23|preset-refused|spec="+sp.name, "%s: ApplyPreset: %v", what, presetErr)
				return
			}
			if presetErr != nil {
				r.Obs = "preset-error"
				r.Class = what + "|" + r.Obs
				return
			}
			if srvErr != nil && inj != qiNoCommonALPN && inj != qiCancelThread && inj != qiPreCancelled && inj != qiUntrustedCert && inj != qiServerGarbage && !(closeRet && !clientDone) {
				r.Violate("C23|server-refuses|"+errClass(srvErr), "%s: the QUIC server refused the client's flight: %v", what, srvErr)
			}

			// event-order invariants (hold on every run, also failing ones)
			idx := func(k tls.QUICEventKind, l tls.QUICEncryptionLevel) (first, n int) {
				first = -1
				for i, e := range cev {
					if e.kind == k && (e.level == l || k == tls.QUICHandshakeDone || k == tls.QUICTransportParameters) {
						if first < 0 {
							first = i
						}
						n++
					}
				}
				return
			}
			for _, l := range []tls.QUICEncryptionLevel{tls.QUICEncryptionLevelHandshake, tls.QUICEncryptionLevelApplication} {
				w, wn := idx(tls.QUICSetWriteSecret, l)
				rd, rn := idx(tls.QUICSetReadSecret, l)
				if wn > 1 || rn > 1 {
					r.Violate(fmt.Sprintf("C23|secret-twice|level=%v", l), "%s: level %v secrets delivered %d (write) / %d (read) times", what, l, wn, rn)
				}
				if rd >= 0 && (w < 0 || w > rd) {
					r.Violate(fmt.Sprintf("C23|read-secret-before-write-secret|level=%v", l), "%s: level %v: read secret at event %d, write secret at %d", what, l, rd, w)
				}
			}
			done, doneN := idx(tls.QUICHandshakeDone, 0)
			appRead, _ := idx(tls.QUICSetReadSecret, tls.QUICEncryptionLevelApplication)
			if doneN > 1 {
				r.Violate("C23|handshake-done-twice", "%s: %d QUICHandshakeDone events", what, doneN)
			}
			if appRead >= 0 && (done < 0 || done > appRead) {
				r.Violate("C23|1rtt-read-secret-before-handshake-done", "%s: application read secret at event %d, HandshakeDone at %d", what, appRead, done)
			}
			_, tpN := idx(tls.QUICTransportParameters, 0)
			if tpN > 1 {
				r.Violate("C23|transport-parameters-twice", "%s: peer transport parameters delivered %d times", what, tpN)
			}
			for _, e := range cev {
				if e.kind == tls.QUICTransportParameters && !bytes.Equal(e.data, serverParams) {
					r.Violate("C23|transport-parameters-wrong", "%s: delivered %x, the server sent %x", what, e.data, serverParams)
				}
			}
			// what the client wrote: handshake messages only, ClientHello(s) with empty session id
			nCH := 0
			for _, l := range cLevels {
				buf := cliWrites[l]
				for len(buf) > 0 {
					if len(buf) < 4 {
						r.Violate("C23|client-crypto-not-handshake-framing", "%s: level %v: trailing %x", what, l, buf)
						break
					}
					n := int(buf[1])<<16 | int(buf[2])<<8 | int(buf[3])
					if len(buf) < 4+n {
						r.Violate("C23|client-crypto-not-handshake-framing", "%s: level %v: message type %d length %d exceeds the %d bytes written", what, l, buf[0], n, len(buf)-4)
						break
					}
					msg := buf[:4+n]
					buf = buf[4+n:]
					switch msg[0] {
					case 1:
						nCH++
						if l != tls.QUICEncryptionLevelInitial {
							r.Violate("C23|clienthello-at-wrong-level", "%s: ClientHello at level %v", what, l)
						}
						ch, err := wire.ParseClientHello(msg)
						if err != nil {
							r.Violate("C23|clienthello-malformed", "%s: %v", what, err)
							continue
						}
						if len(ch.SessionID) != 0 {
							r.Violate("C23|nonempty-session-id", "%s: QUIC ClientHello #%d has a %d-byte legacy_session_id", what, nCH, len(ch.SessionID))
						}
						if ch.Find(57) == nil {
							r.Violate("C23|no-transport-parameters-in-hello", "%s: ClientHello #%d lacks quic_transport_parameters", what, nCH)
						}
					case 8, 11, 15, 20, 24, 25:
						if l == tls.QUICEncryptionLevelInitial {
							r.Violate("C23|non-hello-at-initial", "%s: message type %d at Initial level", what, msg[0])
						}
					default:
						r.Violate(fmt.Sprintf("C23|unexpected-client-message|type=%d", msg[0]), "%s: level %v message type %d", what, l, msg[0])
					}
				}
			}
			if sv.hrr && !sp.p256Share && nCH > 2 || !(sv.hrr && !sp.p256Share) && nCH > 1 {
				r.Violate("C23|too-many-clienthellos", "%s: %d ClientHellos", what, nCH)
			}

			// outcome per injection
			// a cancelled context may or may not stop the handshake: select picks any ready alternative
			failing := inj != qiNone && inj != qiCancelThread && inj != qiPreCancelled
			earlyClose := closedEarly || misdelivered
			if wrongLevelAccepted {
				r.Violate("C23|wrong-level-data-accepted", "%s: HandleData accepted data for a level other than the current read level", what)
			}
			switch {
			case inj == qiNone && !earlyClose:
				if firstErr != nil || !clientDone || !serverDone {
					r.Violate("C23|handshake-incomplete|"+errClass(firstErr), "%s: no failure injected but client done=%v server done=%v first error=%v server error=%v calls=%v", what, clientDone, serverDone, firstErr, srvErr, calls)
				} else {
					cs, ss := q.ConnectionState(), srv.ConnectionState()
					if cs.Version != ss.Version || cs.CipherSuite != ss.CipherSuite || cs.NegotiatedProtocol != ss.NegotiatedProtocol || cs.NegotiatedProtocol != "h3" || !cs.HandshakeComplete {
						r.Violate("C23|state-mismatch", "%s: client %x/%x/%q complete=%v, server %x/%x/%q", what, cs.Version, cs.CipherSuite, cs.NegotiatedProtocol, cs.HandshakeComplete, ss.Version, ss.CipherSuite, ss.NegotiatedProtocol)
					}
					if tpN != 1 {
						r.Violate("C23|transport-parameters-missing", "%s: handshake done but %d QUICTransportParameters events", what, tpN)
					}
					// the client's secrets are the server's opposite-direction secrets
					for _, l := range []tls.QUICEncryptionLevel{tls.QUICEncryptionLevelHandshake, tls.QUICEncryptionLevelApplication} {
						for _, dir := range []struct {
							ck tls.QUICEventKind
							sk stdtls.QUICEventKind
							n  string
						}{{tls.QUICSetWriteSecret, stdtls.QUICSetReadSecret, "client-write"}, {tls.QUICSetReadSecret, stdtls.QUICSetWriteSecret, "client-read"}} {
							var c, s []byte
							for _, e := range cev {
								if e.kind == dir.ck && e.level == l {
									c = e.data
								}
							}
							for _, e := range sev {
								if e.kind == dir.sk && int(e.level) == int(l) {
									s = e.data
								}
							}
							if len(c) == 0 || !bytes.Equal(c, s) {
								r.Violate(fmt.Sprintf("C23|secret-mismatch|%s|level=%v", dir.n, l), "%s: client %x, server %x", what, c, s)
							}
						}
					}
					if sv.hrr && !sp.p256Share && nCH != 2 {
						r.Violate("C23|hrr-not-followed", "%s: HRR-forcing server but %d ClientHellos", what, nCH)
					}
				}
			case inj == qiCancelThread || inj == qiPreCancelled:
				if !clientDone && !earlyClose && firstErr == nil && closeErr == nil {
					r.Violate("C23|cancelled-without-error", "%s: the handshake did not complete and no call reported an error (calls=%v)", what, calls)
				}
			case failing:
				if firstErr == nil && !earlyClose && !(closeRet && closeErr != nil) {
					r.Violate("C23|failure-not-reported|inject="+qiNames[inj], "%s: the handshake cannot succeed but Start/HandleData/Close reported no error (client done=%v, calls=%v)", what, clientDone, calls)
				}
				if clientDone && inj != qiNoCommonALPN {
					r.Violate("C23|done-despite-failure|inject="+qiNames[inj], "%s: QUICHandshakeDone although the handshake must fail", what)
				}
				if (inj == qiNoServerName || inj == qiDupExtension || inj == qiMinVersion12) && startErr == nil {
					r.Violate("C23|start-ok-on-unbuildable|inject="+qiNames[inj], "%s: Start returned nil although the ClientHello cannot be built / the configuration is refused", what)
				}
			}
			if clientDone && firstErr != nil {
				// an error after completion can only come from post-handshake data
				last := calls[len(calls)-1]
				_ = last
			}
			r.Obs = fmt.Sprintf("cdone=%v|sdone=%v|start=%v|err=%s|close=%v|nCH=%d|early=%v", clientDone, serverDone, startErr == nil, errClass(firstErr), closeErr == nil, nCH, earlyClose)
			r.Class = what + "|" + r.Obs
			if len(cev) > 0 && inj == qiNone && out.Preemptions == 0 {
				var ks []string
				for _, e := range cev {
					ks = append(ks, fmt.Sprintf("%v@%v", e.kind, e.level))
				}
				r.Sample = map[string]any{"case": what, "client_events": strings.Join(ks, " "), "calls": calls}
			}
			return
		},
	}
}

// c23SecondConnection — two connections in sequence through one ClientSessionCache with a spec that
// carries pre_shared_key, the application having asked for session events (QUICConfig.EnableSessionEvents)
// or not, driven by the ordinary pump: drain NextEvent until QUICNoEvent, hand the data to the peer, repeat.
// The server issues a ticket after the first handshake. Both connections must complete through that pump.
func c23SecondConnection() *explore.Scenario {
	specs := c23Specs()
	return &explore.Scenario{
		Name:    "second-connection-through-a-session-cache",
		Workers: 1,
		Run: func(x *explore.X) (r explore.Result) {
			sp := specs[x.Choose("spec", len(specs))]
			events := x.Choose("EnableSessionEvents", 2) == 1
			what := fmt.Sprintf("spec=%s+pre_shared_key EnableSessionEvents=%v", sp.name, events)
			cache := tls.NewLRUClientSessionCache(4)
			scfg := stdServerConfig()
			scfg.MinVersion = stdtls.VersionTLS13
			scfg.NextProtos = []string{"h3"}
			var key [32]byte
			copy(key[:], "verif quic ticket key 0123456789")
			scfg.SetSessionTicketKeys([][32]byte{key})
			serverParams := []byte{0x04, 0x04, 0x80, 0x10, 0x00, 0x00, 0x0f, 0x00}
			connect := func(k int) (done bool, resumed bool, log []string, pm string) {
				ccfg := peer.ClientConfig("example.com")
				ccfg.MinVersion = tls.VersionTLS13
				ccfg.NextProtos = []string{"h3"}
				ccfg.ClientSessionCache = cache
				ccfg.OmitEmptyPsk = true
				srv := stdtls.QUICServer(&stdtls.QUICConfig{TLSConfig: scfg.Clone()})
				srv.SetTransportParameters(serverParams)
				defer srv.Close()
				q := tls.UQUICClient(&tls.QUICConfig{TLSConfig: ccfg, EnableSessionEvents: events}, tls.HelloCustom)
				defer q.Close()
				pm = catch(func() {
					spec := sp.mk()
					spec.Extensions = append(spec.Extensions, &tls.UtlsPreSharedKeyExtension{})
					hasModes := false
					for _, e := range spec.Extensions {
						if _, ok := e.(*tls.PSKKeyExchangeModesExtension); ok {
							hasModes = true
						}
					}
					if !hasModes {
						spec.Extensions = append([]tls.TLSExtension{&tls.PSKKeyExchangeModesExtension{Modes: []uint8{tls.PskModeDHE}}}, spec.Extensions...)
					}
					if err := q.ApplyPreset(spec); err != nil {
						log = append(log, "preset:"+err.Error())
						return
					}
					if err := srv.Start(context.Background()); err != nil {
						log = append(log, "srv.Start:"+err.Error())
						return
					}
					if err := q.Start(context.Background()); err != nil {
						log = append(log, "Start:"+err.Error())
						return
					}
					ticketSent := false
					for round := 0; round < 12; round++ {
						progress := false
						for {
							e := q.NextEvent()
							if e.Kind == tls.QUICNoEvent {
								break
							}
							switch e.Kind {
							case tls.QUICWriteData:
								progress = true
								if err := srv.HandleData(stdtls.QUICEncryptionLevel(e.Level), append([]byte(nil), e.Data...)); err != nil {
									log = append(log, "srv.HandleData:"+err.Error())
									return
								}
							case tls.QUICHandshakeDone:
								done = true
							case tls.QUICTransportParametersRequired:
								q.SetTransportParameters([]byte{})
							case tls.QUICResumeSession:
								log = append(log, "RESUME")
							case tls.QUICStoreSession:
								log = append(log, "STORE")
								// an application that asked for the events stores the session itself
								if m := reflect.ValueOf(q).MethodByName("StoreSession"); m.IsValid() {
									m.Call([]reflect.Value{reflect.ValueOf(e.SessionState)})
								}
							}
						}
						for {
							e := srv.NextEvent()
							if e.Kind == stdtls.QUICNoEvent {
								break
							}
							switch e.Kind {
							case stdtls.QUICWriteData:
								progress = true
								if err := q.HandleData(tls.QUICEncryptionLevel(e.Level), append([]byte(nil), e.Data...)); err != nil {
									log = append(log, "HandleData:"+err.Error())
									return
								}
							case stdtls.QUICHandshakeDone:
								if !ticketSent {
									ticketSent = true
									progress = true
									if err := srv.SendSessionTicket(stdtls.QUICSessionTicketOptions{}); err != nil {
										log = append(log, "SendSessionTicket:"+err.Error())
									}
								}
							}
						}
						if !progress {
							break
						}
					}
					resumed = q.ConnectionState().DidResume
				})
				return
			}
			r.Nontrivial = true
			r.Class = what
			for k := 1; k <= 2; k++ {
				done, resumed, log, pm := connect(k)
				if pm != "" {
					r.Violate("C23|second-connection|panic", "%s connection %d: %s", what, k, truncStr(pm, 300))
					return
				}
				if !done {
					r.Violate(fmt.Sprintf("C23|second-connection|not-completed|connection=%d|events=%v", k, events), "%s: connection %d did not complete through the drain-then-deliver pump: %v", what, k, log)
					return
				}
				if resumed {
					r.Count("quic_resumed_connections", 1)
				}
				r.Obs += fmt.Sprintf("c%d:done,resumed=%v;", k, resumed)
			}
			return
		},
	}
}

func c23Scenarios(thorough bool) []*explore.Scenario {
	b := 2
	if thorough {
		b = 4
	}
	if os.Getenv("C23_BOUND") != "" {
		fmt.Sscan(os.Getenv("C23_BOUND"), &b)
	}
	return []*explore.Scenario{c23Pump(b, false), c23SecondConnection()}
}

func init() {
	register(&Prop{ID: "C23", Level: "model_checking", Variant: "B", Scenarios: c23Scenarios, Sharded: true,
		RaceScenarios: func(thorough bool) []*explore.Scenario { return []*explore.Scenario{c23Pump(0, true)} },
		Run: func(c *explore.Check, thorough bool) {
			c.Rule = "real UQUICConn (3 TLS 1.3-only custom specs with quic_transport_parameters) x standard-library QUIC server {default, HelloRetryRequest-forcing, requesting a client certificate} x injections {none, concurrent cancel thread, no ServerName, duplicate extension, MinVersion 1.2, pre-cancelled context, no common ALPN, untrusted certificate, corrupted server flight}, driven by a pump thread under the controlled scheduler (go/chan/select/mutex of package tls redirected): all schedules with <= 2 (4) preemptions/free switches/select alternatives x all fragmentations of server flights {whole, 1|rest, half|half, rest|1} with <= 2 (4) deviations x a reactive pump step (forward a CRYPTO chunk and feed the answer back before draining further events) at any WriteData event x one delivery to a wrong encryption level (must be refused and return) x an optional early Close in any round x an optional SetTransportParameters call after Start in any round. Oracle: every Start/HandleData/Close returns (scheduler deadlock detection), no panic; client CRYPTO data is handshake-framed, ClientHello only at Initial with empty legacy_session_id and quic_transport_parameters; per level write secret before read secret, each once; 1-RTT read secret after HandshakeDone; peer transport parameters exactly once and byte-equal; without injection both sides complete with equal state and pairwise equal secrets (HRR followed with exactly 2 hellos); with a failure injected an error is reported and Start fails on unbuildable hellos. Plus (sequential): 3 specs with pre_shared_key appended x QUICConfig.EnableSessionEvents {off, on}: two connections in a row through one session cache, the server issuing a ticket after the first, each driven by the drain-until-QUICNoEvent-then-deliver pump, must both complete. distinct = outcome class"
			c.Assumptions = []string{"the standard-library QUIC server is the environment and adds no scheduling points", "UQUICConn methods are called from one thread (documented as not concurrency-safe); only context cancellation is concurrent", "bounded: <= k deviations per class"}
			runAll(c, c23Scenarios(thorough), 0)
			attachRacePass(c)
		}})
}
