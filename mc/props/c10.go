package props

import (
	"fmt"
	"strings"

	tls "github.com/refraction-networking/utls"

	"verifmc/explore"
	"verifmc/peer"
)

// C10 — every offered fingerprint completes a handshake with a compliant server.

type gridOutcome struct {
	client gridClient
	sc     serverChoice
	hs     *peer.HS
	offer  offer
	skip   string
	build  int // index into buildOrderNames
	knob   int // index into clientKnobNames
}

var clientKnobNames = []string{"-", "SessionTicketsDisabled", "ClientSessionCache", "DynamicRecordSizingDisabled", "RenegotiateFreelyAsClient", "PreferSkipResumptionOnNilExtension"}

// runGrid picks a client and a compatible server configuration and runs handshake + echo.
func runGrid(x *explore.X, clients []gridClient, keepOpen bool, tweak func(c *tls.Config, s *tls.Config)) gridOutcome {
	g := clients[x.Choose("client", len(clients))]
	out := gridOutcome{client: g}
	// client Config axis: NextProtos the application configured (the wire list of a parrot
	// comes from its spec; the two may differ)
	np := [][]string{nil, {"http/1.1"}, {"h2", "spdy/3"}}[x.Choose("cli.nextprotos", 3)]
	g.NextProtos = np
	out.client = g
	h, err := g.probeHello()
	if err != nil {
		out.skip = "no-hello:" + errClass(err)
		return out
	}
	out.offer = offerOf(h)
	sc := chooseServer(x, out.offer)
	out.sc = sc
	if !sc.Usable {
		out.skip = "no-compatible-server-choice"
		return out
	}
	ccfg := g.config("example.com")
	scfg := sc.config()
	if tweak != nil {
		tweak(ccfg, scfg)
	}
	// client Config knobs that leave the offer on the wire as it is and therefore may not make
	// the client refuse what the server then does with it
	out.knob = x.Choose("cli.config", len(clientKnobNames))
	switch clientKnobNames[out.knob] {
	case "SessionTicketsDisabled":
		ccfg.SessionTicketsDisabled = true
	case "ClientSessionCache":
		ccfg.ClientSessionCache = tls.NewLRUClientSessionCache(4)
	case "DynamicRecordSizingDisabled":
		ccfg.DynamicRecordSizingDisabled = true
	case "RenegotiateFreelyAsClient":
		ccfg.Renegotiation = tls.RenegotiateFreelyAsClient
	case "PreferSkipResumptionOnNilExtension":
		ccfg.PreferSkipResumptionOnNilExtension = true
	}
	out.build = x.Choose("cli.build", len(buildOrderNames))
	out.hs = peer.Run(ccfg, g.ID, scfg, peer.Opts{Prepare: withBuildOrder(g.prepare(), out.build), Echo: true, KeepOpen: keepOpen})
	return out
}

func shareShape(o offer) string { return fmt.Sprint(o.shares) }

func c10Grid(name string, clients []gridClient, srvBudget int) *explore.Scenario {
	return &explore.Scenario{
		Name:   name,
		Budget: map[string]int{"srv": srvBudget, "cli": 1},
		Run: func(x *explore.X) (r explore.Result) {
			o := runGrid(x, clients, false, nil)
			if o.skip != "" {
				r.Obs = o.skip
				if o.skip != "no-compatible-server-choice" {
					r.Count("skipped:"+o.skip, 1)
				}
				return
			}
			hs := o.hs
			what := fmt.Sprintf("%s (Config.NextProtos=%v, %s, Config knob %s) vs server{%s}", o.client.Name, o.client.NextProtos, buildOrderNames[o.build], clientKnobNames[o.knob], o.sc.desc)
			r.Nontrivial = true
			r.Class = fmt.Sprintf("%s|%v|%s|%d|%d", o.client.Name, o.client.NextProtos, o.sc.desc, o.knob, o.build)
			if o.sc.HRR {
				r.Count("hrr_handshakes", 1)
			}
			if hs.OK() && hs.EchoOK {
				cs := hs.U.ConnectionState()
				r.Obs = fmt.Sprintf("ok|%04x", cs.Version)
				r.Count("completed", 1)
				if cs.Version != o.sc.Vers {
					r.Violate("C10|wrong-version", "%s: completed at %04x", what, cs.Version)
				}
				if o.sc.Proto != "" && cs.NegotiatedProtocol != o.sc.Proto {
					r.Violate("C10|alpn-not-negotiated", "%s: negotiated protocol %q", what, cs.NegotiatedProtocol)
				}
				if x.Points[0].Pick%11 == 0 && len(x.Points) > 2 && x.Points[1].Pick == 0 {
					r.Sample = map[string]any{"client": o.client.Name, "server": o.sc.desc, "suite": fmt.Sprintf("%04x", cs.CipherSuite), "result": "completed+echo"}
				}
				return
			}
			who := whoFailed(hs)
			selIdx := -1
			for i, g := range o.offer.shares {
				if g == o.sc.Group {
					selIdx = i
				}
			}
			sig := fmt.Sprintf("C10|%s-abort|vers=%04x|shares=%s|selected-share-index=%d|hrr=%v|psk=%v|cfgprotos=%d|cerr=%s", who, o.sc.Vers, shareShape(o.offer), selIdx, o.sc.HRR, o.client.PSK, len(o.client.NextProtos), errClass(hs.CErr))
			if hs.OK() && !hs.EchoOK {
				sig = fmt.Sprintf("C10|echo-failed|vers=%04x|%s", o.sc.Vers, errClass(hs.EchoErr))
			}
			r.Obs = "fail|" + who + "|" + errClass(hs.CErr)
			r.Violate(sig, "%s: handshake with a server choice the hello offers failed (%s side aborted): client err=%v server err=%v echo=%v %s%s", what, who, hs.CErr, hs.SErr, hs.EchoErr, hs.CPanic, hs.SPanic)
			return
		},
	}
}

// c10EditedShares — a hello whose key_share list the caller trimmed after BuildHandshakeState is
// still an offered fingerprint: whatever classical group it lists the server may pick, with a
// HelloRetryRequest when the share for it was removed.
func c10EditedShares(clients []gridClient) *explore.Scenario {
	return &explore.Scenario{
		Name: "trimmed-key-share-lists",
		Run: func(x *explore.X) (r explore.Result) {
			g := clients[x.Choose("client", len(clients))]
			h0, err := g.probeHello()
			if err != nil {
				r.Obs = "no-hello"
				return
			}
			o := offerOf(h0)
			var classical []uint16
			for _, s := range o.shares {
				if s == 29 || s == 23 || s == 24 || s == 25 {
					classical = append(classical, s)
				}
			}
			if !has16(o.versions, tls.VersionTLS13) || len(classical) < 2 {
				r.Obs = "fewer-than-two-classical-shares"
				return
			}
			drop := classical[x.Choose("drop", len(classical))]
			var listed []uint16
			for _, c := range []uint16{29, 23, 24, 25} {
				if has16(o.groups, c) {
					listed = append(listed, c)
				}
			}
			grp := listed[x.Choose("srv.group", len(listed))]
			certKind := "ecdsa"
			if !offersCert(o, "ecdsa") {
				certKind = "rsa"
			}
			sc := serverChoice{Vers: tls.VersionTLS13, Group: grp, Cert: certKind}
			what := fmt.Sprintf("%s with the share for group %d removed after BuildHandshakeState, server forced to group %d", g.Name, drop, grp)
			prep := g.prepare()
			hs := peer.Run(g.config("example.com"), g.ID, sc.config(), peer.Opts{Echo: true, Prepare: func(u *tls.UConn) error {
				if prep != nil {
					if err := prep(u); err != nil {
						return err
					}
				}
				if err := u.BuildHandshakeState(); err != nil {
					return err
				}
				for _, e := range u.Extensions {
					if ks, ok := e.(*tls.KeyShareExtension); ok {
						var kept []tls.KeyShare
						for _, k := range ks.KeyShares {
							if uint16(k.Group) != drop {
								kept = append(kept, k)
							}
						}
						ks.KeyShares = kept
					}
				}
				return nil
			}})
			r.Nontrivial = true
			r.Class = fmt.Sprintf("%s|drop=%d|group=%d", g.Name, drop, grp)
			if hs.OK() && hs.EchoOK {
				r.Obs = "ok"
				r.Count("completed", 1)
				if grp == drop {
					r.Count("hrr_handshakes", 1)
				}
				return
			}
			r.Obs = "fail|" + whoFailed(hs)
			r.Violate(fmt.Sprintf("C10|edited-shares|%s-abort|dropped=%d|server-group=%d|cerr=%s", whoFailed(hs), drop, grp, errClass(hs.CErr)), "%s: client err=%v server err=%v echo=%v %s%s", what, hs.CErr, hs.SErr, hs.EchoErr, hs.CPanic, hs.SPanic)
			return
		},
	}
}

// c10Compressing: a compliant server may answer compress_certificate by compressing its certificate, and
// may ask for a client certificate in the same flight (CertificateRequest precedes the certificate): every
// parrot that advertises certificate compression must complete against it, for each algorithm it lists.
func c10Compressing() *explore.Scenario {
	var clients []gridClient
	for _, g := range gridClients(0, false) {
		if g.Spec != nil || isGolang(g.ID) {
			continue
		}
		if sp, err := tls.UTLSIdToSpec(g.ID); err == nil {
			for _, e := range sp.Extensions {
				if _, ok := e.(*tls.UtlsCompressCertExtension); ok {
					clients = append(clients, g)
					break
				}
			}
		}
	}
	encs := c21Encoders()
	return &explore.Scenario{
		Name: "server-compresses-its-certificate",
		Run: func(x *explore.X) (r explore.Result) {
			if len(clients) == 0 {
				r.Violate("INFRA|c10-no-compressing-parrot", "no parrot advertises compress_certificate")
				return
			}
			g := clients[x.Choose("client", len(clients))]
			pick := x.Choose("alg", 3) + 1
			clientAuth := x.Choose("server-requests-client-certificate", 2) == 1
			sp, _ := tls.UTLSIdToSpec(g.ID)
			adv := false
			for _, e := range sp.Extensions {
				if c, ok := e.(*tls.UtlsCompressCertExtension); ok {
					for _, a := range c.Algorithms {
						if int(a) == pick {
							adv = true
						}
					}
				}
			}
			if !adv {
				r.Obs = "algorithm-not-offered"
				return
			}
			var e encoder
			for _, c := range encs {
				if int(c.alg) == pick && strings.HasSuffix(c.name, "flush512") {
					e = c
					break
				}
			}
			cs := c21Case{certName: "chain3", enc: e, declared: func(n int) int { return n }, expect: "ok", client: &g, clientAuth: clientAuth}
			what := fmt.Sprintf("%s vs a server compressing its certificate with %s, client certificate requested=%v", g.Name, e.name, clientAuth)
			hs, _, rep := runC21(&cs)
			if !rep {
				r.Obs = "no-tls13"
				return
			}
			r.Nontrivial = true
			r.Class = what
			if hs.CPanic != "" {
				r.Violate("C10|panic", "%s: %s", what, truncStr(hs.CPanic, 300))
				return
			}
			if !(hs.OK() && hs.EchoOK) {
				r.Violate(fmt.Sprintf("C10|handshake-fails|compressing-server|clientauth=%v|%s", clientAuth, truncStr(errClass(hs.CErr), 60)), "%s: client %v / server %v", what, hs.CErr, hs.SErr)
			}
			r.Count("completed", 1)
			r.Obs = fmt.Sprintf("done=%v", hs.OK())
			return
		},
	}
}

func c10Scenarios(thorough bool) []*explore.Scenario {
	if thorough {
		return []*explore.Scenario{c10Grid("grid-full-product", append(gridClients(64, true), shareListClients(3)...), -1), c10EditedShares(gridClients(64, true)), c10Compressing()}
	}
	return []*explore.Scenario{c10Grid("grid-pairs", append(gridClients(3, true), shareListClients(3)...), 2), c10EditedShares(gridClients(8, true)), c10Compressing()}
}

func init() {
	register(&Prop{ID: "C10", Level: "exploration", Variant: "A", Scenarios: c10Scenarios,
		Run: func(c *explore.Check, thorough bool) {
			c.Rule = "client in {every discovered ID, 3 (64) enumerated seeds per randomized kind, 5 handshake-capable custom specs, 85 custom specs carrying every ordered key_share list of <=3 distinct groups among {X25519MLKEM768, X25519Kyber768Draft00, X25519, P-256, P-384}, fingerprinted copy of every parrot} x server configuration chosen only among values the on-wire hello offers and the utls server implements: version {1.3,1.2,1.1,1.0 as offered} x CurvePreferences {default, each offered group incl. ones without a share => HRR} x pinned TLS 1.2 suite {default, each offered} x certificate kind {ECDSA, RSA, Ed25519 as verifiable by the offered signature algorithms} x ALPN {none, each offered}; client-side deviations (<=1): Config.NextProtos, Config knob {SessionTicketsDisabled, ClientSessionCache, DynamicRecordSizingDisabled, RenegotiateFreelyAsClient, PreferSkipResumptionOnNilExtension}, build order {Handshake, BuildHandshakeState+Handshake, BuildHandshakeStateWithoutSession+BuildHandshakeState+Handshake}; server-axis deviations <=2 (quick) / full product (thorough). Plus: every client with two or more classical key shares x each share removed from the KeyShareExtension after BuildHandshakeState x the server forced to each listed classical group (HelloRetryRequest when it is the removed one). Plus: every parrot advertising compress_certificate x each algorithm it lists x {no, a} CertificateRequest in the same flight against a server that compresses its certificate (verif hook). Oracle: handshake completes on both sides and 1 KiB echoes both ways. distinct = (client, server choice)"
			c.Assumptions = []string{"server choices are restricted (by a small negotiation model over the parsed on-wire hello) to ones a compliant server must accept, so every failure is a violation; who aborted is classified from the error texts", "peer is utls's own Server (TLS 1.3 suite selection not pinned); PSK parrots run with OmitEmptyPsk"}
			runAll(c, c10Scenarios(thorough), 0)
			c.Gate(c.Total.Counters["completed"] > 1000, "non-vacuity: completed=%d", c.Total.Counters["completed"])
			c.Gate(c.Total.Counters["hrr_handshakes"] > 50, "non-vacuity: hrr=%d", c.Total.Counters["hrr_handshakes"])
		}})
}
