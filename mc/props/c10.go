package props

import (
	"fmt"

	tls "github.com/refraction-networking/utls"

	"verifmc/explore"
	"verifmc/peer"
)

// C10 — every offered fingerprint completes a handshake with a compliant server.

type gridOutcome struct {
	client gridClient
	sc     serverChoice
	hs     *peer.HS
	offer  offer
	skip   string
}

// runGrid picks a client and a compatible server configuration and runs handshake + echo.
func runGrid(x *explore.X, clients []gridClient, keepOpen bool, tweak func(c *tls.Config, s *tls.Config)) gridOutcome {
	g := clients[x.Choose("client", len(clients))]
	out := gridOutcome{client: g}
	// client Config axis: NextProtos the application configured (the wire list of a parrot
	// comes from its spec; the two may differ)
	np := [][]string{nil, {"http/1.1"}, {"h2", "spdy/3"}}[x.Choose("cli.nextprotos", 3)]
	g.NextProtos = np
	out.client = g
	h, err := g.probeHello()
	if err != nil {
		out.skip = "no-hello:" + errClass(err)
		return out
	}
	out.offer = offerOf(h)
	sc := chooseServer(x, out.offer)
	out.sc = sc
	if !sc.Usable {
		out.skip = "no-compatible-server-choice"
		return out
	}
	ccfg := g.config("example.com")
	scfg := sc.config()
	if tweak != nil {
		tweak(ccfg, scfg)
	}
	out.hs = peer.Run(ccfg, g.ID, scfg, peer.Opts{Prepare: g.prepare(), Echo: true, KeepOpen: keepOpen})
	return out
}

func shareShape(o offer) string { return fmt.Sprint(o.shares) }

func c10Grid(name string, clients []gridClient, srvBudget int) *explore.Scenario {
	return &explore.Scenario{
		Name:   name,
		Budget: map[string]int{"srv": srvBudget, "cli": 1},
		Run: func(x *explore.X) (r explore.Result) {
			o := runGrid(x, clients, false, nil)
			if o.skip != "" {
				r.Obs = o.skip
				if o.skip != "no-compatible-server-choice" {
					r.Count("skipped:"+o.skip, 1)
				}
				return
			}
			hs := o.hs
			what := fmt.Sprintf("%s (Config.NextProtos=%v) vs server{%s}", o.client.Name, o.client.NextProtos, o.sc.desc)
			r.Nontrivial = true
			r.Class = fmt.Sprintf("%s|%v|%s", o.client.Name, o.client.NextProtos, o.sc.desc)
			if o.sc.HRR {
				r.Count("hrr_handshakes", 1)
			}
			if hs.OK() && hs.EchoOK {
				cs := hs.U.ConnectionState()
				r.Obs = fmt.Sprintf("ok|%04x", cs.Version)
				r.Count("completed", 1)
				if cs.Version != o.sc.Vers {
					r.Violate("C10|wrong-version", "%s: completed at %04x", what, cs.Version)
				}
				if o.sc.Proto != "" && cs.NegotiatedProtocol != o.sc.Proto {
					r.Violate("C10|alpn-not-negotiated", "%s: negotiated protocol %q", what, cs.NegotiatedProtocol)
				}
				if x.Points[0].Pick%11 == 0 && len(x.Points) > 2 && x.Points[1].Pick == 0 {
					r.Sample = map[string]any{"client": o.client.Name, "server": o.sc.desc, "suite": fmt.Sprintf("%04x", cs.CipherSuite), "result": "completed+echo"}
				}
				return
			}
			who := whoFailed(hs)
			selIdx := -1
			for i, g := range o.offer.shares {
				if g == o.sc.Group {
					selIdx = i
				}
			}
			sig := fmt.Sprintf("C10|%s-abort|vers=%04x|shares=%s|selected-share-index=%d|hrr=%v|psk=%v|cfgprotos=%d|cerr=%s", who, o.sc.Vers, shareShape(o.offer), selIdx, o.sc.HRR, o.client.PSK, len(o.client.NextProtos), errClass(hs.CErr))
			if hs.OK() && !hs.EchoOK {
				sig = fmt.Sprintf("C10|echo-failed|vers=%04x|%s", o.sc.Vers, errClass(hs.EchoErr))
			}
			r.Obs = "fail|" + who + "|" + errClass(hs.CErr)
			r.Violate(sig, "%s: handshake with a server choice the hello offers failed (%s side aborted): client err=%v server err=%v echo=%v %s%s", what, who, hs.CErr, hs.SErr, hs.EchoErr, hs.CPanic, hs.SPanic)
			return
		},
	}
}

func c10Scenarios(thorough bool) []*explore.Scenario {
	if thorough {
		return []*explore.Scenario{c10Grid("grid-full-product", gridClients(64, true), -1)}
	}
	return []*explore.Scenario{c10Grid("grid-pairs", gridClients(3, true), 2)}
}

func init() {
	register(&Prop{ID: "C10", Level: "exploration", Variant: "A", Scenarios: c10Scenarios,
		Run: func(c *explore.Check, thorough bool) {
			c.Rule = "client in {every discovered ID, 3 (64) enumerated seeds per randomized kind, 5 handshake-capable custom specs, fingerprinted copy of every parrot} x server configuration chosen only among values the on-wire hello offers and the utls server implements: version {1.3,1.2} x CurvePreferences {default, each offered group incl. ones without a share => HRR} x pinned TLS 1.2 suite {default, each offered} x certificate kind {ECDSA, RSA, Ed25519 as verifiable by the offered signature algorithms} x ALPN {none, each offered}; server-axis deviations <=2 (quick) / full product (thorough). Oracle: handshake completes on both sides and 1 KiB echoes both ways. distinct = (client, server choice)"
			c.Assumptions = []string{"server choices are restricted (by a small negotiation model over the parsed on-wire hello) to ones a compliant server must accept, so every failure is a violation; who aborted is classified from the error texts", "peer is utls's own Server (TLS 1.3 suite selection not pinned); PSK parrots run with OmitEmptyPsk"}
			runAll(c, c10Scenarios(thorough), 0)
			c.Gate(c.Total.Counters["completed"] > 1000, "non-vacuity: completed=%d", c.Total.Counters["completed"])
			c.Gate(c.Total.Counters["hrr_handshakes"] > 50, "non-vacuity: hrr=%d", c.Total.Counters["hrr_handshakes"])
		}})
}
