package props

import (
	"bytes"
	"fmt"
	"math"
	"sort"
	"sync"

	tls "github.com/refraction-networking/utls"
	"github.com/refraction-networking/utls/verifshim/sched"
	"golang.org/x/crypto/sha3"

	"verifmc/explore"
)

// C30 — the seeded PRNG is deterministic and its helpers stay in range.

func seedN(i int) *tls.PRNGSeed {
	var s tls.PRNGSeed
	s[0], s[1], s[31] = byte(i), byte(i>>8), 0xc3
	return &s
}

func c30Determinism() *explore.Scenario {
	salts := []string{"", "ALPS", "x"}
	return &explore.Scenario{
		Name: "determinism-and-salts",
		Run: func(x *explore.X) (r explore.Result) {
			i := x.Choose("seed", 257)
			seed := seedN(i)
			if i == 256 {
				seed = &tls.PRNGSeed{} // the all-zero seed is a seed like any other
			}
			a, _ := tls.VerifNewPRNG(seed, nil)
			b, _ := tls.VerifNewPRNG(seed, nil)
			ba, bb := make([]byte, 100), make([]byte, 100)
			// different chunking on the two instances: the stream must be the same byte sequence
			a.Read(ba[:3])
			a.Read(ba[3:50])
			a.Read(ba[50:])
			b.Read(bb)
			ref := make([]byte, 100)
			sh := sha3.NewShake256()
			sh.Write(seed[:])
			sh.Read(ref)
			if !bytes.Equal(ba, bb) {
				r.Violate("C30|determinism|two-instances", "seed %d: two instances give different streams", i)
			}
			if !bytes.Equal(ba, ref) {
				r.Violate("C30|determinism|not-shake256-of-seed", "seed %d: stream differs from SHAKE256(seed)", i)
			}
			// helpers are functions of the stream: same call sequence, same answers
			c, _ := tls.VerifNewPRNG(seed, nil)
			d, _ := tls.VerifNewPRNG(seed, nil)
			for k := 0; k < 16; k++ {
				v1 := fmt.Sprint(c.Intn(10+k), c.Int63n(1000), c.Range(2, 9), c.FlipWeightedCoin(0.5), c.Perm(4), c.Uint64())
				v2 := fmt.Sprint(d.Intn(10+k), d.Int63n(1000), d.Range(2, 9), d.FlipWeightedCoin(0.5), d.Perm(4), d.Uint64())
				if v1 != v2 {
					r.Violate("C30|determinism|helpers", "seed %d draw %d: %s vs %s", i, k, v1, v2)
					break
				}
			}
			// salted seeds: deterministic, pairwise distinct across salts and from the unsalted stream
			streams := map[string]string{"<none>": string(ba[:32])}
			for _, salt := range salts {
				salt := salt
				p1, e1 := tls.VerifNewPRNG(seed, &salt)
				p2, e2 := tls.VerifNewPRNG(seed, &salt)
				if e1 != nil || e2 != nil {
					r.Violate("C30|salt|error", "seed %d salt %q: %v %v", i, salt, e1, e2)
					continue
				}
				s1, s2 := make([]byte, 32), make([]byte, 32)
				p1.Read(s1)
				p2.Read(s2)
				if !bytes.Equal(s1, s2) {
					r.Violate("C30|salt|nondeterministic", "seed %d salt %q", i, salt)
				}
				for k, v := range streams {
					if v == string(s1) {
						r.Violate("C30|salt|collision", "seed %d: salt %q gives the same stream as %q", i, salt, k)
					}
				}
				streams[salt] = string(s1)
			}
			// deriving from a seed does not change the seed object the caller holds
			if i < 256 && *seed != *seedN(i) {
				r.Violate("C30|seed-object-mutated", "seed %d: the PRNGSeed passed to the constructors was modified", i)
			}
			if s2, err := tls.VerifSaltedSeed(seed, "ALPS"); err != nil || s2 == seed || (i < 256 && *seed != *seedN(i)) {
				r.Violate("C30|seed-object-mutated|salted", "seed %d: newSaltedPRNGSeed returned its argument or modified it (err %v)", i, err)
			}
			// the salted seed is a function of the seed's VALUE: one seed object refilled in place (a caller
			// re-randomising ClientHelloID.Seed between dials) gives what a fresh object with that value gives
			{
				reused := *seedN(i)
				before, e0 := tls.VerifSaltedSeed(&reused, "ALPS")
				reused = *seedN(i + 1)
				after, e1 := tls.VerifSaltedSeed(&reused, "ALPS")
				fresh, e2 := tls.VerifSaltedSeed(seedN(i+1), "ALPS")
				again, e3 := tls.VerifSaltedSeed(seedN(i), "ALPS")
				if e0 != nil || e1 != nil || e2 != nil || e3 != nil {
					r.Violate("C30|salt|error", "seed %d: %v %v %v %v", i, e0, e1, e2, e3)
				} else {
					if *after != *fresh {
						r.Violate("C30|salt|stale-after-refill", "seed %d: a seed object refilled in place with seed %d's value gives another salted seed than a fresh object with that value", i, i+1)
					}
					if *before != *again {
						r.Violate("C30|salt|nondeterministic", "seed %d: the salted seed differs between two objects with the same value", i)
					}
					p1, _ := tls.VerifNewPRNG(&reused, strp("ALPS"))
					p2, _ := tls.VerifNewPRNG(seedN(i+1), strp("ALPS"))
					a, b := make([]byte, 16), make([]byte, 16)
					p1.Read(a)
					p2.Read(b)
					if !bytes.Equal(a, b) {
						r.Violate("C30|salt|stale-after-refill|stream", "seed %d: salted stream of a refilled seed object differs from that of a fresh one", i)
					}
				}
			}
			// different seeds give different streams
			o, _ := tls.VerifNewPRNG(seedN(i+1), nil)
			bo := make([]byte, 32)
			o.Read(bo)
			if bytes.Equal(bo, ba[:32]) {
				r.Violate("C30|determinism|seed-ignored", "seeds %d and %d give the same stream", i, i+1)
			}
			r.Obs = fmt.Sprintf("viol=%d", len(r.Viol))
			r.Nontrivial = true
			r.Class = fmt.Sprintf("%x", ba[:8])
			if i == 7 {
				r.Sample = map[string]any{"seed_index": i, "stream_prefix": fmt.Sprintf("%x", ba[:16])}
			}
			return
		},
	}
}

func c30Ranges() *explore.Scenario {
	return &explore.Scenario{
		Name: "helper-ranges",
		Run: func(x *explore.X) (r explore.Result) {
			part := x.Choose("part", 4)
			seedIdx := x.Choose("seed", 8)
			p, _ := tls.VerifNewPRNG(seedN(1000+seedIdx), nil)
			n := 0
			var ns []int
			for v := -3; v <= 300; v++ {
				ns = append(ns, v)
			}
			for k := 9; k < 62; k += 3 {
				ns = append(ns, 1<<uint(k)-1, 1<<uint(k), 1<<uint(k)+1)
			}
			switch part {
			case 0:
				for _, m := range ns {
					for d := 0; d < 64; d++ {
						v := p.Intn(m)
						n++
						if (m <= 0 && v != 0) || (m > 0 && (v < 0 || v >= m)) {
							r.Violate("C30|range|Intn", "Intn(%d) = %d", m, v)
							d = 64
						}
					}
				}
			case 1:
				for _, m := range ns {
					for d := 0; d < 64; d++ {
						v := p.Int63n(int64(m))
						n++
						if (m <= 0 && v != 0) || (m > 0 && (v < 0 || v >= int64(m))) {
							r.Violate("C30|range|Int63n", "Int63n(%d) = %d", m, v)
							d = 64
						}
					}
				}
			case 2:
				for lo := -3; lo <= 40; lo++ {
					for hi := -3; hi <= 40; hi++ {
						clo := lo
						if clo < 0 {
							clo = 0
						}
						for d := 0; d < 16; d++ {
							v := p.Range(lo, hi)
							n++
							if hi < clo {
								if v != clo {
									r.Violate("C30|range|Range-empty", "Range(%d,%d) = %d, want clamped minimum %d", lo, hi, v, clo)
									d = 16
								}
							} else if v < clo || v > hi {
								r.Violate("C30|range|Range", "Range(%d,%d) = %d outside [%d,%d]", lo, hi, v, clo, hi)
								d = 16
							}
						}
					}
				}
				// the ends of the int range (span arithmetic must not overflow into a panic or out of range)
				ext := []int{math.MinInt, math.MinInt + 1, -1, 0, 1, 2, 40, math.MaxInt - 1, math.MaxInt}
				for _, lo := range ext {
					for _, hi := range ext {
						clo := lo
						if clo < 0 {
							clo = 0
						}
						for d := 0; d < 8; d++ {
							var v int
							if pm := catch(func() { v = p.Range(lo, hi) }); pm != "" {
								r.Violate("C30|range|Range-panic", "Range(%d,%d) panicked: %s", lo, hi, truncStr(pm, 120))
								break
							}
							n++
							if hi < clo {
								if v != clo {
									r.Violate("C30|range|Range-empty", "Range(%d,%d) = %d, want clamped minimum %d", lo, hi, v, clo)
									break
								}
							} else if v < clo || v > hi {
								r.Violate("C30|range|Range", "Range(%d,%d) = %d outside [%d,%d]", lo, hi, v, clo, hi)
								break
							}
						}
					}
				}
				for _, m := range []int{math.MinInt, math.MinInt + 1, math.MaxInt - 1, math.MaxInt} {
					for d := 0; d < 8; d++ {
						var v int
						var v64 int64
						if pm := catch(func() { v = p.Intn(m); v64 = p.Int63n(int64(m)) }); pm != "" {
							r.Violate("C30|range|Intn-panic", "Intn/Int63n(%d) panicked: %s", m, truncStr(pm, 120))
							break
						}
						n += 2
						if (m <= 0 && (v != 0 || v64 != 0)) || (m > 0 && (v < 0 || v >= m || v64 < 0 || v64 >= int64(m))) {
							r.Violate("C30|range|Intn-extreme", "Intn(%d) = %d, Int63n = %d", m, v, v64)
							break
						}
					}
				}
			case 3:
				seenT, seenF := false, false
				for _, w := range []float64{-1, 0, -1e-300, 1, 2, 1e300} {
					for d := 0; d < 256; d++ {
						v := p.FlipWeightedCoin(w)
						n++
						if w <= 0 && v {
							r.Violate("C30|coin|nonpositive-weight-true", "FlipWeightedCoin(%g) = true", w)
							d = 256
						}
						if w >= 1 && !v {
							r.Violate("C30|coin|weight-one-false", "FlipWeightedCoin(%g) = false (probability 2^-63 event on an enumerated seed)", w)
							d = 256
						}
					}
				}
				for d := 0; d < 256; d++ {
					if p.FlipWeightedCoin(0.5) {
						seenT = true
					} else {
						seenF = true
					}
					n++
				}
				if !seenT || !seenF {
					r.Violate("C30|coin|constant", "256 flips at weight 0.5 gave only one outcome")
				}
			}
			r.Count("function_evaluations", n)
			r.Obs = fmt.Sprintf("part%d|viol=%d", part, len(r.Viol))
			r.Nontrivial = true
			r.Class = fmt.Sprintf("%d|%d", part, seedIdx)
			return
		},
	}
}

// c30Concurrent: 3 threads x 2 draws on one prng, all schedules.
func c30Concurrent(preemptBound int) *explore.Scenario {
	type draw struct {
		kind string
		n    int
	}
	programs := [][]draw{
		{{"read", 8}, {"read", 3}},
		{{"read", 3}, {"intn", 1000}},
		{{"intn", 7}, {"read", 0}},
		{{"u64", 0}, {"read", 5}},
	}
	return &explore.Scenario{
		Name:    "concurrent-draws",
		Workers: 1,
		Dedup:   true,
		Budget:  map[string]int{"preempt": preemptBound},
		Run: func(x *explore.X) (r explore.Result) {
			progs := make([][]draw, 3)
			ctx := ""
			for i := range progs {
				k := x.Choose(fmt.Sprintf("prog.t%d", i), len(programs))
				progs[i] = programs[k]
				ctx += fmt.Sprint(k)
			}
			seed := seedN(77)
			p, _ := tls.VerifNewPRNG(seed, nil)
			var chunks [][]byte // byte chunks handed out by Read-based draws
			var hmu sync.Mutex  // harness bookkeeping only (never held across a hooked operation)
			add := func(b []byte) { hmu.Lock(); chunks = append(chunks, b); hmu.Unlock() }
			total := 0
			out := sched.Run(x, sched.Options{Context: ctx}, func() {
				for ti := 0; ti < 3; ti++ {
					ti := ti
					sched.GoNamed(fmt.Sprintf("T%d", ti), false, func() {
						for _, d := range progs[ti] {
							switch d.kind {
							case "read":
								b := make([]byte, d.n)
								p.Read(b)
								add(b)
							case "u64":
								v := p.Uint64()
								b := make([]byte, 8)
								for i := 0; i < 8; i++ {
									b[i] = byte(v >> (56 - 8*i))
								}
								add(b)
							case "intn":
								v := p.Intn(d.n)
								if v < 0 || v >= d.n {
									add([]byte("BAD-INTN"))
								}
							}
						}
					})
				}
			})
			x.Transitions += out.Steps
			if out.Deadlock || out.Horizon {
				r.Violate("C30|conc|deadlock", "deadlock/livelock: %v", out.Blocked)
			}
			for _, pn := range out.Panics {
				r.Violate("C30|conc|panic", "%s", pn)
			}
			for _, e := range out.InfraErrors {
				r.Violate("INFRA|sched", "%s", e)
			}
			// every chunk handed out by Read/Uint64 must be a contiguous piece of the
			// sequential stream, pieces pairwise disjoint (each draw atomic)
			for _, c := range chunks {
				total += len(c)
			}
			ref := make([]byte, total+64)
			sh := sha3.NewShake256()
			sh.Write(seed[:])
			sh.Read(ref)
			used := make([]bool, len(ref))
			okAll := true
			var lay []string
			for _, c := range chunks {
				if len(c) == 0 {
					continue
				}
				found := false
				for off := 0; off+len(c) <= len(ref); off++ {
					if bytes.Equal(ref[off:off+len(c)], c) {
						free := true
						for k := off; k < off+len(c); k++ {
							if used[k] {
								free = false
							}
						}
						if free {
							for k := off; k < off+len(c); k++ {
								used[k] = true
							}
							lay = append(lay, fmt.Sprintf("%d+%d", off, len(c)))
							found = true
							break
						}
					}
				}
				if !found {
					okAll = false
				}
			}
			if !okAll && len(r.Viol) == 0 {
				r.Violate("C30|conc|stream-not-partitioned", "programs %v: a concurrent draw returned bytes that are not an exclusive contiguous piece of the seeded stream (chunks %x)", progs, chunks)
			}
			sort.Strings(lay)
			r.Obs = fmt.Sprintf("%s|%v|ok=%v", ctx, lay, okAll)
			r.Nontrivial = out.Threads > 1
			r.Class = r.Obs
			if out.Preemptions > 0 {
				r.Sample = map[string]any{"programs": fmt.Sprint(progs), "layout(offset+len)": lay, "preemptions": out.Preemptions, "steps": out.Steps}
			}
			return
		},
	}
}

func c30Scenarios(thorough bool) []*explore.Scenario {
	b := 2
	if thorough {
		b = -1
	}
	return []*explore.Scenario{c30Determinism(), c30Ranges(), c30Concurrent(b)}
}

func init() {
	register(&Prop{ID: "C30", Level: "model_checking", Variant: "B", Scenarios: c30Scenarios,
		RaceScenarios: func(thorough bool) []*explore.Scenario { return []*explore.Scenario{c30Concurrent(0)} },
		Run: func(c *explore.Check, thorough bool) {
			c.Rule = "257 enumerated seeds (incl. all-zero) x {unsalted, 3 salts}: two instances, different chunking, equality with an independent SHAKE256(seed); Intn/Int63n on n in [-3,300] u {2^k,2^k+-1}, Range on [-3,40]^2 and on the 9x9 grid of int extremes {MinInt, MinInt+1, -1, 0, 1, 2, 40, MaxInt-1, MaxInt} (no panic, in range), Intn/Int63n at the int extremes, FlipWeightedCoin on weight corners, 8 seeds x 16-256 draws each; concurrency: every schedule (<=2 preemptions quick, unbounded with happens-before pruning thorough) of 3 threads x 2 draws (Read 8/3/0/5, Uint64, Intn) over a 4^3 program menu on one prng - the chunks handed out must be disjoint contiguous pieces of the sequential stream. distinct = (programs, stream layout)"
			c.Assumptions = []string{"scheduling points are the prng mutex operations; the SHAKE state itself is not interleaved below that (a draw that bypasses the mutex is observed as an overlapping/non-contiguous chunk only if a schedule point separates its parts; the free-running -race pass covers the rest)"}
			runAll(c, c30Scenarios(thorough), 0)
			attachRacePass(c)
			c.Extra["function_evaluations"] = c.Total.Counters["function_evaluations"]
		}})
}

func strp(s string) *string { return &s }
