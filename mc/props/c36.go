package props

import (
	"fmt"
	"sort"
	"strings"
	"sync"

	tls "github.com/refraction-networking/utls"
	"github.com/refraction-networking/utls/verifshim/sched"

	"verifmc/explore"
)

// C36 — the LRU client session cache behaves as a bounded LRU map.

type lruOp struct {
	kind string // "put", "del" (Put nil), "get"
	key  string
	val  int // index into lruVals for put
}

func (o lruOp) String() string {
	switch o.kind {
	case "put":
		return fmt.Sprintf("Put(%s,v%d)", o.key, o.val)
	case "del":
		return fmt.Sprintf("Put(%s,nil)", o.key)
	}
	return fmt.Sprintf("Get(%s)", o.key)
}

var lruKeys = []string{"a", "b", "c"}
var lruVals = []*tls.ClientSessionState{{}, {}}

func lruAlphabet() []lruOp {
	var ops []lruOp
	for _, k := range lruKeys {
		ops = append(ops, lruOp{"get", k, 0})
	}
	for _, k := range lruKeys {
		for v := range lruVals {
			ops = append(ops, lruOp{"put", k, v})
		}
	}
	for _, k := range lruKeys {
		ops = append(ops, lruOp{"del", k, 0})
	}
	return ops
}

// refLRU is the boring reference: a slice ordered most-recent first.
type refLRU struct {
	cap  int
	keys []string
	vals map[string]int
}

func newRefLRU(capacity int) *refLRU {
	if capacity < 1 {
		capacity = 64
	}
	return &refLRU{cap: capacity, vals: map[string]int{}}
}
func (r *refLRU) clone() *refLRU {
	c := &refLRU{cap: r.cap, keys: append([]string{}, r.keys...), vals: map[string]int{}}
	for k, v := range r.vals {
		c.vals[k] = v
	}
	return c
}
func (r *refLRU) touch(k string) {
	for i, x := range r.keys {
		if x == k {
			r.keys = append(r.keys[:i], r.keys[i+1:]...)
			break
		}
	}
	r.keys = append([]string{k}, r.keys...)
}
func (r *refLRU) remove(k string) {
	for i, x := range r.keys {
		if x == k {
			r.keys = append(r.keys[:i], r.keys[i+1:]...)
			break
		}
	}
	delete(r.vals, k)
}

// apply returns (value index or -1, found) for get; (-1,false) otherwise.
func (r *refLRU) apply(o lruOp) (int, bool) {
	switch o.kind {
	case "get":
		if v, ok := r.vals[o.key]; ok {
			r.touch(o.key)
			return v, true
		}
		return -1, false
	case "del":
		r.remove(o.key)
	case "put":
		if _, ok := r.vals[o.key]; !ok && len(r.keys) >= r.cap {
			r.remove(r.keys[len(r.keys)-1])
		}
		r.vals[o.key] = o.val
		r.touch(o.key)
	}
	return -1, false
}
func (r *refLRU) String() string {
	var p []string
	for _, k := range r.keys {
		p = append(p, fmt.Sprintf("%s=v%d", k, r.vals[k]))
	}
	return "[" + strings.Join(p, " ") + "]"
}

func applyReal(c tls.ClientSessionCache, o lruOp) (int, bool) {
	switch o.kind {
	case "get":
		s, ok := c.Get(o.key)
		if !ok {
			return -1, false
		}
		for i, v := range lruVals {
			if v == s {
				return i, true
			}
		}
		if s == nil {
			return -2, true // present with a nil state
		}
		return -3, true
	case "del":
		c.Put(o.key, nil)
	case "put":
		c.Put(o.key, lruVals[o.val])
	}
	return -1, false
}

func c36Sequential(depth int) *explore.Scenario {
	alpha := lruAlphabet()
	caps := []int{1, 2, 3, 0}
	return &explore.Scenario{
		Name:  "lru-sequential",
		Dedup: true,
		Run: func(x *explore.X) (r explore.Result) {
			capacity := caps[x.Choose("cap", len(caps))]
			real := tls.NewLRUClientSessionCache(capacity)
			ref := newRefLRU(capacity)
			var hist []string
			x.State(fmt.Sprintf("cap%d|%s", capacity, ref))
			for i := 0; i < depth; i++ {
				k := x.Choose("op", len(alpha)+1)
				if k == 0 {
					break // history ends here
				}
				o := alpha[k-1]
				hist = append(hist, o.String())
				x.Transitions++
				gv, gok := applyReal(real, o)
				wv, wok := ref.apply(o)
				order := tls.VerifLRUOrder(real)
				if gv != wv || gok != wok {
					r.Violate(fmt.Sprintf("C36|seq|%s-result|last=%s", o.kind, o.kind), "cap=%d history %v: %s returned (v%d,%v), reference LRU returns (v%d,%v); real order %v, reference %s",
						capacity, hist, o, gv, gok, wv, wok, order, ref)
					break
				}
				effCap := capacity
				if effCap < 1 {
					effCap = 64
				}
				if len(order) > effCap || tls.VerifLRUMapLen(real) != len(order) {
					r.Violate("C36|seq|size", "cap=%d history %v: cache holds %d entries (map %d)", capacity, hist, len(order), tls.VerifLRUMapLen(real))
					break
				}
				if strings.Join(order, ",") != strings.Join(ref.keys, ",") {
					r.Violate(fmt.Sprintf("C36|seq|order|last=%s", o.kind), "cap=%d history %v: recency order %v, reference %s", capacity, hist, order, ref)
					break
				}
				x.State(fmt.Sprintf("cap%d|%s", capacity, ref))
			}
			r.Obs = fmt.Sprintf("cap%d|%s|viol=%d", capacity, ref, len(r.Viol))
			r.Nontrivial = len(hist) > 0
			r.Class = fmt.Sprintf("cap%d|%s", capacity, ref)
			if len(hist) == depth {
				r.Sample = map[string]any{"cap": capacity, "history": hist, "final": ref.String()}
			}
			return
		},
	}
}

// ---- concurrent: 3 threads x 2 ops (or 2 x 3) under the controlled scheduler ----

type lruCall struct {
	thread   int
	op       lruOp
	call     int
	ret      int
	val      int
	ok       bool
	finished bool
}

var lruPrograms = [][]lruOp{
	{{"put", "a", 0}, {"get", "a", 0}},
	{{"put", "b", 1}, {"get", "a", 0}},
	{{"del", "a", 0}, {"get", "b", 0}},
	{{"get", "a", 0}, {"put", "a", 1}},
	{{"put", "c", 0}, {"del", "b", 0}},
}

func c36Concurrent(nThreads, preemptBound int, capsMenu []int, progMenu [][]lruOp) *explore.Scenario {
	budget := map[string]int{"preempt": preemptBound}
	return &explore.Scenario{
		Name:    fmt.Sprintf("lru-concurrent-%dthreads", nThreads),
		Dedup:   true,
		Budget:  budget,
		Workers: 1,
		Run: func(x *explore.X) (r explore.Result) {
			capacity := capsMenu[x.Choose("cap", len(capsMenu))]
			progs := make([][]lruOp, nThreads)
			var pdesc []string
			for i := range progs {
				progs[i] = progMenu[x.Choose(fmt.Sprintf("prog.t%d", i), len(progMenu))]
				pdesc = append(pdesc, fmt.Sprint(progs[i]))
			}
			ctx := fmt.Sprint(capacity) + strings.Join(pdesc, ";")
			real := tls.NewLRUClientSessionCache(capacity)
			// pre-populate so that deletes/evictions have something to act on
			real.Put("b", lruVals[0])
			clock := 0
			var calls []*lruCall
			var hmu sync.Mutex // harness bookkeeping only (never held across a hooked operation)
			out := sched.Run(x, sched.Options{Context: ctx}, func() {
				for ti := 0; ti < nThreads; ti++ {
					ti := ti
					sched.GoNamed(fmt.Sprintf("T%d", ti), false, func() {
						for _, o := range progs[ti] {
							c := &lruCall{thread: ti, op: o}
							hmu.Lock()
							clock++
							c.call = clock
							calls = append(calls, c)
							hmu.Unlock()
							v, ok := applyReal(real, o)
							hmu.Lock()
							c.val, c.ok = v, ok
							clock++
							c.ret = clock
							c.finished = true
							hmu.Unlock()
						}
					})
				}
			})
			x.Transitions += out.Steps
			if out.Deadlock || out.Horizon {
				r.Violate("C36|conc|deadlock", "deadlock/livelock: %v", out.Blocked)
			}
			for _, p := range out.Panics {
				r.Violate("C36|conc|panic", "panic: %s", p)
			}
			for _, e := range out.InfraErrors {
				r.Violate("INFRA|sched", "%s", e)
			}
			// linearizability by brute force
			init := newRefLRU(capacity)
			init.apply(lruOp{"put", "b", 0})
			finalOrder := tls.VerifLRUOrder(real)
			ok, lin := linearizable(init, calls, finalOrder)
			var hs []string
			for _, c := range calls {
				hs = append(hs, fmt.Sprintf("T%d:%s@[%d,%d]->(v%d,%v)", c.thread, c.op, c.call, c.ret, c.val, c.ok))
			}
			if !ok && len(r.Viol) == 0 {
				kinds := map[string]bool{}
				for _, c := range calls {
					kinds[c.op.kind] = true
				}
				r.Violate("C36|conc|not-linearizable|"+keysOf(kinds), "cap=%d history %v final order %v has no linearization against the reference LRU", capacity, hs, finalOrder)
			}
			effCap := capacity
			if effCap < 1 {
				effCap = 64
			}
			if len(finalOrder) > effCap {
				r.Violate("C36|conc|size", "cap=%d: %d entries", capacity, len(finalOrder))
			}
			var res []string
			for _, c := range calls {
				res = append(res, fmt.Sprintf("T%d:%s=(%d,%v)", c.thread, c.op, c.val, c.ok))
			}
			sort.Strings(res)
			r.Obs = fmt.Sprintf("cap%d|%s|final=%v|lin=%v", capacity, strings.Join(res, " "), finalOrder, ok)
			r.Class = r.Obs
			r.Nontrivial = out.Threads > 1
			if out.Preemptions > 0 {
				r.Sample = map[string]any{"cap": capacity, "programs": pdesc, "history": hs, "final": finalOrder, "linearization": lin, "preemptions": out.Preemptions}
			}
			return
		},
	}
}

func keysOf(m map[string]bool) string {
	var k []string
	for s := range m {
		k = append(k, s)
	}
	sort.Strings(k)
	return strings.Join(k, "+")
}

// linearizable searches a total order consistent with real time whose sequential execution on
// the reference gives every call's result and the final recency order.
func linearizable(init *refLRU, calls []*lruCall, finalOrder []string) (bool, []string) {
	n := len(calls)
	used := make([]bool, n)
	var order []string
	var rec func(ref *refLRU, done int) bool
	rec = func(ref *refLRU, done int) bool {
		if done == n {
			return strings.Join(ref.keys, ",") == strings.Join(finalOrder, ",")
		}
		for i, c := range calls {
			if used[i] {
				continue
			}
			// c may go next only if no unused call returned before c was called
			okNext := true
			for j, d := range calls {
				if !used[j] && j != i && d.finished && d.ret < c.call {
					okNext = false
					break
				}
			}
			if !okNext {
				continue
			}
			r2 := ref.clone()
			v, ok := r2.apply(c.op)
			if c.finished && c.op.kind == "get" && (v != c.val || ok != c.ok) {
				continue
			}
			used[i] = true
			order = append(order, fmt.Sprintf("T%d:%s", c.thread, c.op))
			if rec(r2, done+1) {
				return true
			}
			order = order[:len(order)-1]
			used[i] = false
		}
		return false
	}
	ok := rec(init.clone(), 0)
	return ok, append([]string{}, order...)
}

func c36Scenarios(thorough bool) []*explore.Scenario {
	if thorough {
		return []*explore.Scenario{
			c36Sequential(8),
			c36Concurrent(3, -1, []int{1, 2, 3}, lruPrograms),
			c36Concurrent(2, -1, []int{1, 2}, [][]lruOp{
				{{"put", "a", 0}, {"get", "b", 0}, {"del", "a", 0}},
				{{"put", "c", 1}, {"get", "a", 0}, {"put", "b", 1}},
				{{"get", "b", 0}, {"put", "a", 1}, {"get", "a", 0}},
			}),
		}
	}
	return []*explore.Scenario{
		c36Sequential(6),
		c36Concurrent(3, 2, []int{1, 2}, lruPrograms[:4]),
	}
}

func init() {
	register(&Prop{ID: "C36", Level: "model_checking", Variant: "B", Scenarios: c36Scenarios,
		RaceScenarios: func(thorough bool) []*explore.Scenario {
			return []*explore.Scenario{c36Concurrent(3, 0, []int{1, 2}, lruPrograms[:4])}
		},
		Run: func(c *explore.Check, thorough bool) {
			c.Rule = "sequential: every history of Put/Put-nil/Get over 3 keys x 2 values up to the depth bound, per capacity, deduplicated on the reference LRU state; " +
				"concurrent: every schedule (preemption-bounded in quick, unbounded with happens-before state pruning in thorough) of N threads x programs from a collision-forcing menu on the real cache under the controlled scheduler; " +
				"non-trivial = distinct (capacity, reached LRU state) or distinct (results, final order) outcome"
			c.Assumptions = []string{
				"scheduling points are the cache's mutex operations (sync redirected to the shim); unsynchronised accesses are covered only by the separate free-running -race pass",
				"reference model: slice-based LRU where Put(k,nil) deletes",
			}
			runAll(c, c36Scenarios(thorough), 0)
			attachRacePass(c)
		}})
}
