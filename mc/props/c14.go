package props

import (
	"errors"
	"fmt"

	tls "github.com/refraction-networking/utls"

	"verifmc/explore"
	"verifmc/peer"
)

// C14 — server certificates are verified exactly as the Config requests.

type certKind struct {
	name                     string
	cert                     func() tls.Certificate
	trusted, timeOK, namesOK bool
}

func c14Certs() []certKind {
	f := peer.Fix()
	return []certKind{
		{"valid", func() tls.Certificate { return f.ECDSA }, true, true, true},
		{"wrong-name", func() tls.Certificate { return f.WrongName }, true, true, false},
		{"untrusted", func() tls.Certificate { return f.Untrusted }, false, true, true},
		{"expired", func() tls.Certificate { return f.Expired }, true, false, true},
		{"not-yet-valid", func() tls.Certificate { return f.NotYet }, true, false, true},
	}
}

func c14Clients() []gridClient {
	pick := map[string]bool{"HelloChrome_Auto": true, "HelloFirefox_Auto": true, "HelloIOS_Auto": true, "HelloChrome_58": true, "HelloGolang": true}
	var out []gridClient
	for _, n := range AllIDs() {
		if pick[n.Name] {
			out = append(out, gridClient{Name: n.Name, ID: n.ID, PSK: specHasPSK(n.ID)})
		}
	}
	out = append(out, gridClient{Name: "custom:tls13-minimal", ID: tls.HelloCustom, Spec: func() (*tls.ClientHelloSpec, error) { return handshakeSpec("tls13-minimal"), nil }})
	return out
}

// the harness leafs cover these names
func leafCovers(name string, namesOK bool) bool {
	if !namesOK {
		return name == "other.invalid"
	}
	for _, n := range peer.Names {
		if n == name {
			return true
		}
	}
	return false
}

func c14Scenario(name string, clients []gridClient, withECH bool) *explore.Scenario {
	certs := c14Certs()
	return &explore.Scenario{
		Name: name,
		Run: func(x *explore.X) (r explore.Result) {
			g := clients[x.Choose("client", len(clients))]
			versions := []uint16{tls.VersionTLS13, tls.VersionTLS12}
			if withECH {
				versions = versions[:1]
			}
			vers := versions[x.Choose("version", len(versions))]
			ck := certs[x.Choose("cert", len(certs))]
			// (an IP literal is verified like a name but never sent as SNI: the hello's server name is empty)
			serverNames := []string{"example.com", "nomatch.example", "9.9.9.9"}
			if withECH {
				serverNames = serverNames[:2]
			}
			serverName := serverNames[x.Choose("servername", len(serverNames))]
			nameToVerify := []string{"", "*", "a.example", "nomatch.example"}[x.Choose("nametoverify", 4)]
			skipTime := x.Choose("skiptime", 2) == 1
			skipVerify := x.Choose("skipverify", 2) == 1
			resumeMode := x.Choose("resumed", 4) // 0 fresh, 1 after an unverified first connection, 2 after a first connection verified under lenient knobs, 3 after a first connection under the very same knobs
			resumed := resumeMode != 0
			h0, err := g.probeHello()
			if err != nil {
				r.Obs = "no-hello"
				return
			}
			o := offerOf(h0)
			if !has16(o.versions, vers) {
				r.Obs = "version-not-offered"
				return
			}
			var ech *peer.ECH
			if withECH {
				ech = peer.MakeECH(peer.ECHParams{ConfigID: 7, PublicName: "public.example", MaxNameLen: 32})
			}
			mkClient := func() *tls.Config {
				c := g.config(serverName)
				c.InsecureServerNameToVerify = nameToVerify
				c.InsecureSkipTimeVerify = skipTime
				c.InsecureSkipVerify = skipVerify
				if withECH {
					// ECH offered and accepted: the same knobs govern the inner name's certificate
					c.EncryptedClientHelloConfigList = ech.ConfigList
					c.MinVersion = tls.VersionTLS13
				}
				return c
			}
			scfg := peer.ServerConfig(ck.cert())
			scfg.MaxVersion = vers
			if withECH {
				scfg.EncryptedClientHelloKeys = []tls.EncryptedClientHelloKey{ech.Key}
			}
			what := fmt.Sprintf("%s vers=%04x cert=%s ServerName=%s NameToVerify=%q SkipTime=%v SkipVerify=%v resumed=%d ech=%v", g.Name, vers, ck.name, serverName, nameToVerify, skipTime, skipVerify, resumeMode, withECH)
			// reference predicate
			verifyName := serverName
			checkName := true
			if nameToVerify == "*" {
				checkName = false
			} else if nameToVerify != "" {
				verifyName = nameToVerify
			}
			want := skipVerify || (ck.trusted && (ck.timeOK || skipTime) && (!checkName || leafCovers(verifyName, ck.namesOK)))
			ccfg := mkClient()
			if resumed {
				// first connection with verification switched off fills the cache; the second one,
				// with the knobs under test, must not inherit that trust
				cache := tls.NewLRUClientSessionCache(8)
				first := mkClient()
				if resumeMode == 3 {
					// same knobs: nothing to relax
				} else if resumeMode == 1 {
					first.InsecureSkipVerify = true
				} else {
					first.InsecureSkipVerify = false
					first.InsecureServerNameToVerify = "*"
					first.InsecureSkipTimeVerify = true
				}
				first.ClientSessionCache = cache
				hs1 := peer.Run(first, g.ID, scfg, peer.Opts{Prepare: g.prepare(), Echo: true})
				if !hs1.OK() {
					r.Obs = "first-connection-failed"
					return
				}
				ccfg.ClientSessionCache = cache
			}
			// what this client does with a cached session when nothing is unusual about verification
			// (matching name, valid certificate, no knobs): the yardstick for resumeMode 3
			baselineResumes := false
			if resumeMode == 3 && !withECH {
				bc := g.config("example.com")
				bc.ClientSessionCache = tls.NewLRUClientSessionCache(8)
				bs := peer.ServerConfig(certs[0].cert())
				bs.MaxVersion = vers
				if b1 := peer.Run(bc, g.ID, bs, peer.Opts{Prepare: g.prepare(), Echo: true}); b1.OK() {
					if b2 := peer.Run(bc, g.ID, bs, peer.Opts{Prepare: g.prepare(), Echo: true}); b2.OK() {
						baselineResumes = b2.U.ConnectionState().DidResume
					}
				}
			}
			hs := peer.Run(ccfg, g.ID, scfg, peer.Opts{Prepare: g.prepare(), Echo: true})
			if hs.CPanic != "" {
				r.Violate("C14|panic", "%s: %s", what, truncStr(hs.CPanic, 300))
				return
			}
			got := hs.CErr == nil
			if withECH && got && !hs.U.ConnectionState().ECHAccepted {
				r.Violate("INFRA|c14-ech-not-accepted", "%s: the accepting server did not accept ECH", what)
			}
			r.Nontrivial = true
			r.Class = what
			didResume := got && hs.U.ConnectionState().DidResume
			if didResume {
				r.Count("resumed_connections", 1)
			}
			if resumeMode == 3 && got && want && baselineResumes && !didResume && !skipVerify {
				r.Violate(fmt.Sprintf("C14|verified-session-not-resumed|nametoverify=%q|servername=%s", nameToVerify, serverName), "%s: both connections verify and succeed under these knobs, and this client resumes in the plain configuration, yet the second connection offered no session", what)
			}
			if got != want {
				kind := "accepted-but-must-fail"
				if want {
					kind = "rejected-but-must-succeed"
				}
				echTag := ""
				if withECH {
					echTag = "|ech-accepted"
				}
				r.Violate(fmt.Sprintf("C14|%s|cert=%s|nametoverify=%q|skiptime=%v|resumed=%d|didresume=%v%s", kind, ck.name, nameToVerify, skipTime, resumeMode, didResume, echTag),
					"%s: handshake result %v (err %v), reference predicate says success=%v", what, got, hs.CErr, want)
			} else if !got {
				var cve *tls.CertificateVerificationError
				if !errors.As(hs.CErr, &cve) {
					r.Violate("C14|error-type|"+errClass(hs.CErr), "%s: failure is not a CertificateVerificationError: %v", what, hs.CErr)
				}
			}
			r.Obs = fmt.Sprintf("want=%v|got=%v|resume=%v", want, got, didResume)
			if ck.name == "expired" && skipTime && !skipVerify {
				r.Sample = map[string]any{"case": what, "expected_success": want, "observed_success": got}
			}
			return
		},
	}
}

// c14ECH: ECH accepted / rejected with the public-name certificate.
func c14ECHClients() []gridClient {
	var clients []gridClient
	for _, n := range AllIDs() {
		switch n.Name {
		case "HelloChrome_133", "HelloFirefox_120", "HelloGolang", "HelloChrome_120":
			clients = append(clients, gridClient{Name: n.Name, ID: n.ID, PSK: specHasPSK(n.ID)})
		}
	}
	return clients
}

func c14ECH() *explore.Scenario {
	clients := c14ECHClients()
	return &explore.Scenario{
		Name: "ech-accepted-and-rejected",
		Run: func(x *explore.X) (r explore.Result) {
			g := clients[x.Choose("client", len(clients))]
			mode := x.Choose("ech", 3)        // 0 accepted, 1 rejected with retry configs, 2 rejected without
			pubCert := x.Choose("pubcert", 3) // rejected: 0 good public-name cert, 1 untrusted, 2 cert for the SECRET name only
			nameToVerify := []string{"", "*"}[x.Choose("nametoverify", 2)]
			ech := peer.MakeECH(peer.ECHParams{ConfigID: 7, PublicName: "public.example", MaxNameLen: 32})
			other := peer.MakeECH(peer.ECHParams{ConfigID: 9, PublicName: "public.example", MaxNameLen: 32, KeyLabel: "other ech key"})
			f := peer.Fix()
			ccfg := g.config("secret.example")
			ccfg.EncryptedClientHelloConfigList = ech.ConfigList
			ccfg.MinVersion = tls.VersionTLS13
			ccfg.InsecureServerNameToVerify = nameToVerify
			scfg := peer.ServerConfig(f.Public, f.ECDSA)
			scfg.MinVersion = tls.VersionTLS13
			what := fmt.Sprintf("%s ech-mode=%d pubcert=%d nametoverify=%q", g.Name, mode, pubCert, nameToVerify)
			switch mode {
			case 0:
				if pubCert != 0 {
					r.Obs = "n/a"
					return
				}
				scfg.EncryptedClientHelloKeys = []tls.EncryptedClientHelloKey{ech.Key}
			case 1:
				scfg.EncryptedClientHelloKeys = []tls.EncryptedClientHelloKey{other.Key}
			}
			if mode != 0 {
				switch pubCert {
				case 1:
					u := f.Untrusted
					scfg.Certificates = []tls.Certificate{u}
				case 2:
					// only a certificate that is valid for the secret name but NOT for the public name
					scfg.Certificates = []tls.Certificate{f.ECDSA}
				}
			}
			if mode != 0 && x.Choose("hrr-before-rejecting", 2) == 1 {
				scfg.CurvePreferences = []tls.CurveID{tls.CurveP384} // the rejecting server sends a HelloRetryRequest first
				what += " hello-retry-request-first"
			}
			prep := g.prepare()
			// a caller that removed the SNI extension from the parrot: the public-name rule must not depend on it
			if rm := x.Choose("removesni", 3); rm != 0 { // 1 after an explicit BuildHandshakeState, 2 before any build
				if isGolang(g.ID) {
					r.Obs = "n/a"
					return
				}
				inner := prep
				prep = func(u *tls.UConn) error {
					if inner != nil {
						if err := inner(u); err != nil {
							return err
						}
					}
					if rm == 1 {
						if err := u.BuildHandshakeState(); err != nil {
							return err
						}
					}
					return u.RemoveSNIExtension()
				}
				what += fmt.Sprintf(" RemoveSNIExtension(%s)", []string{"", "after-build", "before-build"}[rm])
			}
			hs := peer.Run(ccfg, g.ID, scfg, peer.Opts{Prepare: prep, Echo: true})
			if hs.CPanic != "" {
				r.Violate("C14|ech|panic", "%s: %s", what, truncStr(hs.CPanic, 300))
				return
			}
			r.Nontrivial = true
			r.Class = what
			var rej *tls.ECHRejectionError
			var cve *tls.CertificateVerificationError
			switch {
			case mode == 0:
				if hs.CErr != nil {
					r.Violate("C14|ech|accepted-fails|"+errClass(hs.CErr), "%s: accepting server, client error %v (server %v)", what, hs.CErr, hs.SErr)
				}
			case pubCert == 0:
				// good public-name certificate: the caller must see ECHRejectionError (with retry configs in mode 1)
				if !errors.As(hs.CErr, &rej) {
					r.Violate("C14|ech|rejected-good-public-cert|"+errClass(hs.CErr), "%s: ECH rejected by a server presenting a valid certificate for the public name: want ECHRejectionError, got %v", what, hs.CErr)
				} else if mode == 1 && len(rej.RetryConfigList) == 0 {
					r.Violate("C14|ech|retry-configs-missing", "%s: ECHRejectionError without the server's retry configs", what)
				}
			case pubCert == 1:
				if nameToVerify == "" && !errors.As(hs.CErr, &cve) {
					r.Violate("C14|ech|rejected-untrusted-cert|"+errClass(hs.CErr), "%s: untrusted certificate on the rejection path: want CertificateVerificationError, got %v", what, hs.CErr)
				}
				if hs.CErr == nil {
					r.Violate("C14|ech|rejected-untrusted-accepted", "%s: handshake succeeded", what)
				}
			case pubCert == 2:
				// certificate matches the secret name only: the rejection path verifies against the
				// PUBLIC name, so this must be a verification error unless the name check is off
				if nameToVerify == "" && !errors.As(hs.CErr, &cve) {
					r.Violate("C14|ech|rejected-secret-name-cert|"+errClass(hs.CErr), "%s: server without a public-name certificate: want CertificateVerificationError, got %v", what, hs.CErr)
				}
				if hs.CErr == nil {
					r.Violate("C14|ech|rejected-but-completed", "%s: handshake succeeded although ECH was rejected", what)
				}
			}
			r.Obs = fmt.Sprintf("mode%d|cert%d|err=%s", mode, pubCert, errClass(hs.CErr))
			r.Sample = map[string]any{"case": what, "client_error": fmt.Sprint(hs.CErr)}
			return
		},
	}
}

func c14Scenarios(thorough bool) []*explore.Scenario {
	cl := c14Clients()
	if !thorough {
		cl = []gridClient{cl[0], cl[3], cl[4]}
		if len(c14Clients()) > 5 {
			cl = append(cl, c14Clients()[5])
		}
	}
	return []*explore.Scenario{c14Scenario("verification-knobs", cl, false), c14Scenario("verification-knobs-under-accepted-ech", c14ECHClients(), true), c14ECH()}
}

func init() {
	register(&Prop{ID: "C14", Level: "exploration", Variant: "A", Scenarios: c14Scenarios,
		Run: func(c *explore.Check, thorough bool) {
			c.Rule = "full product of {4 (6) clients} x version {1.3,1.2} x certificate {valid, wrong name, untrusted root, expired, not yet valid} x ServerName {matching, other, IP literal no leaf covers} x InsecureServerNameToVerify {'', '*', matching, other} x InsecureSkipTimeVerify x InsecureSkipVerify x {fresh, resumed from a session cached by an unverified / a leniently verified / an identically configured first connection (the last must resume whenever the client resumes at all)}, and the same product at TLS 1.3 with ECH offered and accepted (4 ECH-capable clients): success must equal a reference predicate and failures must be CertificateVerificationError; ECH: 4 clients x {accepted, rejected with / without retry configs, rejected after a HelloRetryRequest} x public-name certificate {good, untrusted, secret-name only} x name check on/off. distinct = configuration"
			c.Assumptions = []string{"reference predicate written from the Config field documentation", "fixture PKI with a fixed clock"}
			runAll(c, c14Scenarios(thorough), 0)
			c.Gate(c.Total.Counters["resumed_connections"] > 20, "non-vacuity: %d resumed connections", c.Total.Counters["resumed_connections"])
		}})
}
