package props

import (
	"strings"
	"encoding/base64"
	"encoding/json"
	"fmt"
	"reflect"
	"sync"

	tls "github.com/refraction-networking/utls"
	"github.com/refraction-networking/utls/dicttls"

	"verifmc/explore"
	"verifmc/peer"
	"verifmc/wire"
)

// C32 — JSON and dictionary imports map names to the intended code points.

func c32Dict() *explore.Scenario {
	return &explore.Scenario{
		Name: "dicttls-value-to-name-to-value",
		Run: func(x *explore.X) (r explore.Result) {
			pairs := dicttls.VerifDictPairs
			p := pairs[x.Choose("table", len(pairs))]
			vi := reflect.ValueOf(p.ValueIndexed)
			r.Nontrivial = true
			r.Class = p.Name
			if p.NameIndexed == nil {
				r.Obs = "no-name-indexed-sibling"
				r.Count("tables_without_sibling", 1)
				return
			}
			ni := reflect.ValueOf(p.NameIndexed)
			n := 0
			for _, k := range vi.MapKeys() {
				name := vi.MapIndex(k)
				back := ni.MapIndex(name)
				n++
				if !back.IsValid() {
					r.Violate(fmt.Sprintf("C32|dict|%s|value=%v|no-reverse-entry", p.Name, k.Interface()), "Dict%sValueIndexed[%v] = %q has no entry in Dict%sNameIndexed", p.Name, k.Interface(), name.String(), p.Name)
					continue
				}
				if back.Convert(k.Type()).Interface() != k.Interface() {
					r.Violate(fmt.Sprintf("C32|dict|%s|value=%v|reverse-differs", p.Name, k.Interface()), "Dict%sValueIndexed[%v] = %q but Dict%sNameIndexed[%q] = %v", p.Name, k.Interface(), name.String(), p.Name, name.String(), back.Interface())
				}
			}
			r.Count("dict_entries", n)
			r.Obs = fmt.Sprintf("%s|viol=%d", p.Name, len(r.Viol))
			if p.Name == "ExtType" {
				r.Sample = map[string]any{"table": p.Name, "entries": n}
			}
			return
		},
	}
}

// renderJSON renders a parsed ClientHello in the JSON format of u_clienthello_json.go using the
// VALUE-indexed dictionaries. ok=false if an element has no JSON representation.
func renderJSON(h *wire.Hello) (doc []byte, ok bool, why string) { return renderJSONSpelled(h, false) }

// jsonAltSpellings: the second spelling the JSON format accepts for an extension name, pinned here from
// the registries (extension 34 is "delegated_credentials" at IANA and "delegated_credential" in
// RFC 9345); the harness does not read it back from the table it is judging.
var jsonAltSpellings = map[uint16]string{34: "delegated_credential"}

func helloHasAltSpelling(h *wire.Hello) bool {
	for _, e := range h.Exts {
		if _, ok := jsonAltSpellings[e.Type]; ok {
			return true
		}
	}
	return false
}

func renderJSONSpelled(h *wire.Hello, alt bool) (doc []byte, ok bool, why string) {
	name16 := func(m map[uint16]string, v uint16) (string, bool) {
		if wire.IsGREASE(v) {
			return "GREASE", true
		}
		s, ok := m[v]
		return s, ok
	}
	var suites []string
	for _, s := range h.Suites {
		n, ok := name16(dicttls.DictCipherSuiteValueIndexed, s)
		if !ok {
			return nil, false, fmt.Sprintf("suite %04x has no name", s)
		}
		suites = append(suites, n)
	}
	var comp []string
	for _, c := range h.Compression {
		n, ok := dicttls.DictCompMethValueIndexed[c]
		if !ok {
			return nil, false, "compression method without name"
		}
		comp = append(comp, n)
	}
	list16 := func(body []byte, prefix int, m map[uint16]string) ([]string, bool) {
		var out []string
		for i := prefix; i+1 < len(body); i += 2 {
			n, ok := name16(m, uint16(body[i])<<8|uint16(body[i+1]))
			if !ok {
				return nil, false
			}
			out = append(out, n)
		}
		return out, true
	}
	protoList := func(body []byte) []string {
		var out []string
		if len(body) < 2 {
			return out
		}
		p := body[2:]
		for len(p) > 0 {
			l := int(p[0])
			if 1+l > len(p) {
				break
			}
			out = append(out, string(p[1:1+l]))
			p = p[1+l:]
		}
		return out
	}
	ints := func(b []byte) []int {
		out := make([]int, len(b))
		for i, c := range b {
			out[i] = int(c)
		}
		return out
	}
	exts := []map[string]any{}
	for _, e := range h.Exts {
		if wire.IsGREASE(e.Type) {
			g := map[string]any{"name": "GREASE"}
			if len(e.Body) > 0 {
				// a GREASE extension with a body: the body is a parameter of the fingerprint
				g["id"] = int(e.Type)
				g["data"] = base64.StdEncoding.EncodeToString(e.Body)
				g["keep_data"] = true
			}
			exts = append(exts, g)
			continue
		}
		nm, okn := dicttls.DictExtTypeValueIndexed[e.Type]
		if !okn {
			return nil, false, fmt.Sprintf("extension %d has no name", e.Type)
		}
		if a, ok := jsonAltSpellings[e.Type]; ok && alt {
			nm = a
		}
		m := map[string]any{"name": nm}
		switch e.Type {
		case 0, 5, 17, 18, 23, 35, 13172, 30031, 30032, 65281:
		case 10:
			l, ok := list16(e.Body, 2, dicttls.DictSupportedGroupsValueIndexed)
			if !ok {
				return nil, false, "group without name"
			}
			m["named_group_list"] = l
		case 11:
			var l []string
			for _, c := range e.Body[1:] {
				n, ok := dicttls.DictECPointFormatValueIndexed[c]
				if !ok {
					return nil, false, "point format without name"
				}
				l = append(l, n)
			}
			m["ec_point_format_list"] = l
		case 13, 50, 34:
			l, ok := list16(e.Body, 2, dicttls.DictSignatureSchemeValueIndexed)
			if !ok {
				return nil, false, "signature scheme without name"
			}
			m["supported_signature_algorithms"] = l
		case 16:
			m["protocol_name_list"] = protoList(e.Body)
		case 17513, 17613:
			m["supported_protocols"] = protoList(e.Body)
		case 21:
			m["len"] = len(e.Body)
		case 27:
			l, ok := list16(e.Body, 1, dicttls.DictCertificateCompressionAlgorithmValueIndexed)
			if !ok {
				return nil, false, "cert compression alg without name"
			}
			m["algorithms"] = l
		case 28:
			m["record_size_limit"] = int(e.Body[0])<<8 | int(e.Body[1])
		case 43:
			var l []string
			for i := 1; i+1 < len(e.Body); i += 2 {
				v := uint16(e.Body[i])<<8 | uint16(e.Body[i+1])
				switch {
				case wire.IsGREASE(v):
					l = append(l, "GREASE")
				case v >= 0x0301 && v <= 0x0304:
					l = append(l, fmt.Sprintf("TLS 1.%d", v-0x0301))
				default:
					return nil, false, "version without name"
				}
			}
			m["versions"] = l
		case 44:
			return nil, false, "cookie is not describable in the JSON format (ExtensionFromID has no cookie entry)"
		case 45:
			var l []string
			for _, c := range e.Body[1:] {
				n, ok := dicttls.DictPSKKeyExchangeModeValueIndexed[c]
				if !ok {
					return nil, false, "psk mode without name"
				}
				l = append(l, n)
			}
			m["ke_modes"] = l
		case 51:
			ks, err := wire.ParseKeyShares(e.Body)
			if err != nil {
				return nil, false, "key share unparsable"
			}
			var l []map[string]any
			for _, k := range ks {
				if wire.IsGREASE(k.Group) {
					l = append(l, map[string]any{"group": "GREASE", "key_exchange": ints(k.Data)})
					continue
				}
				n, ok := dicttls.DictSupportedGroupsValueIndexed[k.Group]
				if !ok {
					return nil, false, "share group without name"
				}
				l = append(l, map[string]any{"group": n})
			}
			m["client_shares"] = l
		case 24:
			var l []string
			for _, c := range e.Body[3:] {
				n, ok := map[byte]string{0: "rsa2048_pkcs1.5", 1: "rsa2048_pss", 2: "ecdsap256"}[c]
				if !ok {
					return nil, false, "token binding param without name"
				}
				l = append(l, n)
			}
			m["token_binding_version"] = map[string]int{"major": int(e.Body[0]), "minor": int(e.Body[1])}
			m["key_parameters_list"] = l
		case 41:
			p, err := wire.ParsePSK(e.Body)
			if err != nil {
				return nil, false, "psk unparsable"
			}
			var ids []map[string]any
			for i, id := range p.Identities {
				ids = append(ids, map[string]any{"identity": id, "obfuscated_ticket_age": p.Ages[i]})
			}
			m["identities"] = ids
			m["binders"] = p.Binders
		default:
			return nil, false, fmt.Sprintf("extension %d (%s) has no JSON rendering in the harness", e.Type, nm)
		}
		exts = append(exts, m)
	}
	doc, err := json.Marshal(map[string]any{"cipher_suites": suites, "compression_methods": comp, "extensions": exts})
	if err != nil {
		return nil, false, err.Error()
	}
	return doc, true, ""
}

var (
	c32Once sync.Once
	c32H    [][2]any
)

func c32JSON() *explore.Scenario {
	return &explore.Scenario{
		Name: "json-vs-raw-import",
		Run: func(x *explore.X) (r explore.Result) {
			c32Once.Do(func() {
				c31HOnce.Do(func() { c31H = c31Hellos() })
				c32H = c31H
			})
			hc := c32H[x.Choose("hello", len(c32H))]
			name, msg := hc[0].(string), hc[1].([]byte)
			h, err := wire.CheckAll(msg)
			if err != nil {
				r.Obs = "invalid-source"
				return
			}
			alt := false
			if helloHasAltSpelling(h) {
				alt = x.Choose("extension-name-spelling", 2) == 1
				if alt {
					name += " (RFC spelling of extension names)"
				}
			}
			doc, ok, why := renderJSONSpelled(h, alt)
			if !ok {
				r.Obs = "not-json-representable"
				r.Count("not_representable:"+why, 1)
				return
			}
			build := func(spec *tls.ClientHelloSpec) (*wire.Hello, error) {
				stream, _, perr, pm := firstFlight(peer.ClientConfig("example.com"), tls.HelloCustom, func(u *tls.UConn) error { return u.ApplyPreset(spec) })
				if pm != "" {
					return nil, fmt.Errorf("panic: %s", pm)
				}
				m, _, err := wire.FirstFlightHello(stream)
				if err != nil {
					return nil, fmt.Errorf("%v / %v", err, perr)
				}
				return wire.ParseClientHello(m)
			}
			var js tls.ClientHelloSpec
			pm := catch(func() { err = js.UnmarshalJSON(doc) })
			if pm != "" {
				r.Violate("C32|json|panic", "%s: UnmarshalJSON panicked: %s", name, pm)
				return
			}
			if err != nil {
				r.Violate("C32|json|import-error|"+errClass(err), "%s: JSON rendering rejected: %v\n%s", name, err, truncStr(string(doc), 400))
				return
			}
			var raw tls.ClientHelloSpec
			if err := raw.FromRaw(recordOf(msg), true, false); err != nil {
				r.Obs = "raw-import-error"
				return
			}
			hj, e1 := build(&js)
			hr, e2 := build(&raw)
			if e1 != nil || e2 != nil {
				if (e1 == nil) != (e2 == nil) {
					r.Violate("C32|json|one-side-unbuildable", "%s: JSON-imported spec builds: %v; raw-imported spec builds: %v", name, e1, e2)
				}
				r.Obs = "unbuildable"
				return
			}
			nj, nr := normHello(hj, normOpts{}), normHello(hr, normOpts{})
			if nj != nr {
				r.Violate("C32|json|differs-from-raw|"+truncStr(firstDiff(nj, nr), 60), "%s: hello from the JSON description differs from the hello of the raw import: %s", name, firstDiff(nj, nr))
			}
			r.Obs = fmt.Sprintf("compared|viol=%d", len(r.Viol))
			r.Nontrivial = true
			r.Class = name
			r.Count("json_compared", 1)
			if len(doc) < 900 {
				r.Sample = map[string]any{"hello": name, "json": string(doc)}
			}
			return
		},
	}
}

func c32Scenarios(thorough bool) []*explore.Scenario {
	return []*explore.Scenario{c32Dict(), c32JSON(), c32ReusedUnmarshaler(), c32UnknownEntry()}
}

func init() {
	register(&Prop{ID: "C32", Level: "exploration", Variant: "A", Scenarios: c32Scenarios,
		Run: func(c *explore.Check, thorough bool) {
			c.Rule = "every entry of every Dict*ValueIndexed table that has a Dict*NameIndexed sibling (pairs discovered from dicttls/*.go at check time): NameIndexed[ValueIndexed[v]] == v; every corpus ClientHello (all IDs, custom specs, spliced variants) that the documented JSON format can describe is rendered to JSON with the value-indexed tables, imported with UnmarshalJSON, applied and built, and compared (normalised: GREASE, per-connection parts masked) with the hello built from the raw-bytes import, once with the registry spelling of every extension name and, for hellos carrying extension 34, once with its RFC 9345 spelling (pinned in the harness, not read from the table); one caller-configured TLSExtensionsJSONUnmarshaler x 4 option sets x every sequence of <= 3 documents from a menu of 3 good and 3 refused ones: each step equals what a fresh unmarshaler with the same options makes of the document; every describable corpus extension list x 4 option sets with one entry of an unknown name inserted first / in the middle / last: refused, or accepted with every other entry keeping its parameters. distinct = table / hello"
			c.Assumptions = []string{"JSON renderer (mc/props/c32.go) written from the documented format; hellos with elements the format cannot describe (e.g. ECH GREASE) are counted as not representable, not judged"}
			runAll(c, c32Scenarios(thorough), 0)
			c.Gate(c.Total.Counters["dict_entries"] > 500, "non-vacuity: %d dict entries", c.Total.Counters["dict_entries"])
			c.Gate(c.Total.Counters["json_compared"] > 40, "non-vacuity: %d JSON comparisons", c.Total.Counters["json_compared"])
		}})
}

// c32ReusedUnmarshaler — a caller-configured TLSExtensionsJSONUnmarshaler is a long-lived object:
// what it makes of a document must not depend on the documents it saw (or refused) before. Every
// sequence of <= 3 documents from a menu of good and refused ones x the 4 option sets, each step
// compared with a fresh unmarshaler carrying the same options.
// c32UnknownEntry: an extension list that contains one entry with a name the dictionary does not know.
// Whatever the unmarshaler's options make of that entry — refuse the document, skip the entry, keep it
// as a placeholder — every OTHER entry must come out with the parameters the document gives it.
func c32UnknownEntry() *explore.Scenario {
	describe := func(e tls.TLSExtension) string { return fmt.Sprintf("%T%+v", e, e) }
	return &explore.Scenario{
		Name: "json-list-with-one-unknown-name",
		Run: func(x *explore.X) (r explore.Result) {
			c32Once.Do(func() {
				c31HOnce.Do(func() { c31H = c31Hellos() })
				c32H = c31H
			})
			hc := c32H[x.Choose("hello", len(c32H))]
			name, msg := hc[0].(string), hc[1].([]byte)
			opt := x.Choose("options", 4)
			where := x.Choose("position", 3) // first, middle, last
			h, err := wire.CheckAll(msg)
			if err != nil {
				r.Obs = "invalid-source"
				return
			}
			doc, ok, _ := renderJSON(h)
			if !ok {
				r.Obs = "not-json-representable"
				return
			}
			var top struct {
				Extensions []json.RawMessage `json:"extensions"`
			}
			if json.Unmarshal(doc, &top) != nil || len(top.Extensions) < 2 {
				r.Obs = "too-few-extensions"
				return
			}
			base, _ := json.Marshal(top.Extensions)
			pos := []int{0, len(top.Extensions) / 2, len(top.Extensions)}[where]
			var with []json.RawMessage
			with = append(with, top.Extensions[:pos]...)
			with = append(with, json.RawMessage(`{"name":"no_such_extension_name"}`))
			with = append(with, top.Extensions[pos:]...)
			edited, _ := json.Marshal(with)
			mk := func() *tls.TLSExtensionsJSONUnmarshaler {
				return &tls.TLSExtensionsJSONUnmarshaler{AllowUnknownExt: opt&1 != 0, UseRealPSK: opt&2 != 0}
			}
			u0, u1 := mk(), mk()
			var e0, e1 error
			if pm := catch(func() { e0 = u0.UnmarshalJSON(base); e1 = u1.UnmarshalJSON(edited) }); pm != "" {
				r.Violate("C32|unknown-entry|panic", "%s: %s", name, truncStr(pm, 200))
				return
			}
			if e0 != nil {
				r.Obs = "base-list-refused"
				return
			}
			r.Nontrivial = true
			r.Class = fmt.Sprintf("%s|%d|%d", name, opt, where)
			if e1 != nil {
				r.Obs = "refused"
				r.Count("unknown_entry_refused", 1)
				return
			}
			want := map[string]int{}
			var wantSeq []string
			for _, e := range u0.Extensions() {
				d := describe(e)
				want[d]++
				wantSeq = append(wantSeq, d)
			}
			var gotSeq []string
			for _, e := range u1.Extensions() {
				if d := describe(e); want[d] > 0 {
					gotSeq = append(gotSeq, d)
				}
			}
			if strings.Join(gotSeq, ";") != strings.Join(wantSeq, ";") {
				r.Violate("C32|unknown-entry|other-entries-changed", "%s, options{AllowUnknownExt=%v UseRealPSK=%v}, unknown name inserted at %d of %d: the document was accepted, but its other entries no longer carry their parameters: %s", name, opt&1 != 0, opt&2 != 0, pos, len(top.Extensions), firstDiff(strings.Join(gotSeq, ";"), strings.Join(wantSeq, ";")))
			}
			r.Count("unknown_entry_accepted", 1)
			r.Obs = "accepted"
			return
		},
	}
}

func c32ReusedUnmarshaler() *explore.Scenario {
	docs := []struct{ name, js string }{
		{"sni+psk", `[{"name":"server_name"},{"name":"pre_shared_key","identities":[{"identity":[1,2,3],"obfuscated_ticket_age":7}],"binders":[[4,5,6]]}]`},
		{"sni+encrypt_then_mac", `[{"name":"server_name"},{"name":"encrypt_then_mac"}]`},
		{"refused:unknown-name", `[{"name":"server_name"},{"name":"no_such_extension_name"}]`},
		{"refused:not-an-array", `{"name":"server_name"}`},
		{"refused:bad-field", `[{"name":"supported_groups","named_group_list":17}]`},
		{"plain", `[{"name":"server_name"},{"name":"supported_versions","versions":["TLS 1.3","TLS 1.2"]},{"name":"GREASE"}]`},
	}
	describe := func(u *tls.TLSExtensionsJSONUnmarshaler, err error) string {
		if err != nil {
			return "error"
		}
		var ts []string
		for _, e := range u.Extensions() {
			ts = append(ts, fmt.Sprintf("%T%+v", e, e))
		}
		return strings.Join(ts, ";")
	}
	return &explore.Scenario{
		Name: "one-json-unmarshaler-across-documents",
		Run: func(x *explore.X) (r explore.Result) {
			opt := x.Choose("options", 4)
			long := &tls.TLSExtensionsJSONUnmarshaler{AllowUnknownExt: opt&1 != 0, UseRealPSK: opt&2 != 0}
			var hist []string
			for step := 0; step < 3; step++ {
				k := x.Choose("doc", len(docs)+1)
				if k == 0 {
					break
				}
				d := docs[k-1]
				hist = append(hist, d.name)
				var e1, e2 error
				fresh := &tls.TLSExtensionsJSONUnmarshaler{AllowUnknownExt: opt&1 != 0, UseRealPSK: opt&2 != 0}
				if pm := catch(func() { e1 = long.UnmarshalJSON([]byte(d.js)); e2 = fresh.UnmarshalJSON([]byte(d.js)) }); pm != "" {
					r.Violate("C32|reused-unmarshaler|panic", "options=%d documents %v: %s", opt, hist, truncStr(pm, 200))
					return
				}
				x.Transitions++
				a, b := describe(long, e1), describe(fresh, e2)
				if e1 != nil && e2 == nil || e1 == nil && e2 != nil || (e1 == nil && a != b) {
					r.Violate("C32|reused-unmarshaler|differs-from-fresh", "options{AllowUnknownExt=%v UseRealPSK=%v} documents %v: the long-lived unmarshaler gives %s (err %v), a fresh one with the same options %s (err %v)", opt&1 != 0, opt&2 != 0, hist, truncStr(a, 200), e1, truncStr(b, 200), e2)
					return
				}
				if long.AllowUnknownExt != (opt&1 != 0) || long.UseRealPSK != (opt&2 != 0) {
					r.Violate("C32|reused-unmarshaler|options-changed", "documents %v: the caller's options were changed by an import", hist)
				}
			}
			r.Obs = fmt.Sprintf("len%d|viol=%d", len(hist), len(r.Viol))
			r.Nontrivial = len(hist) > 1
			r.Class = fmt.Sprint(opt, hist)
			return
		},
	}
}
