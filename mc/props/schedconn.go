package props

import (
	"crypto/ecdsa"
	stdtls "crypto/tls"
	"io"
	"net"
	"os"
	"sync"
	"time"

	"github.com/refraction-networking/utls/verifshim/sched"

	"verifmc/peer"
)

// schedLink is the transport of the scheduling scenarios. The client side is driven by managed
// threads (every Read / Write / Close is one scheduling point); the peer is the standard library's
// crypto/tls server running in an ordinary goroutine that is always run to quiescence while the
// client thread that wrote to it waits, so the peer adds no scheduling points. What the peer
// writes is queued and delivered chunk by chunk by a managed "network" daemon thread, so every
// relative order of "server bytes arrive" and client-side actions is enumerated.
type schedLink struct {
	obj sched.Obj // scheduling identity of the client endpoint

	// client side (touched only by the running managed thread or by effects in scheduler context)
	inbuf        []byte
	pending      [][]byte // peer output not yet delivered
	closed       bool     // client closed its end
	peerEOF      bool     // peer closed; delivered as the last "chunk"
	eofDelivered bool
	writes       [][]byte // everything the client wrote
	direct       bool     // peer output is delivered at once (no network thread)
	stalled      bool     // the peer stopped reading: client writes block until the client closes its end
	wdeadline    bool     // a write deadline is set (a blocked write may time out)

	// peer side (real synchronisation: the peer goroutine is not managed)
	mu       sync.Mutex
	cond     *sync.Cond
	toPeer   []byte
	peerIdle bool // peer blocked in Read with nothing to read
	peerDone bool // peer goroutine finished
	cliGone  bool // client closed: peer reads EOF
	out      [][]byte
	outEOF   bool
	allOut   []byte // everything the peer ever wrote
}

func newSchedLink() *schedLink {
	l := &schedLink{}
	l.cond = sync.NewCond(&l.mu)
	return l
}

// ---- peer end (net.Conn for the stdlib server) ----

type peerEnd struct{ l *schedLink }

func (p peerEnd) Read(b []byte) (int, error) {
	l := p.l
	l.mu.Lock()
	defer l.mu.Unlock()
	for len(l.toPeer) == 0 {
		if l.cliGone {
			return 0, io.EOF
		}
		l.peerIdle = true
		l.cond.Broadcast()
		l.cond.Wait()
	}
	l.peerIdle = false
	n := copy(b, l.toPeer)
	l.toPeer = l.toPeer[n:]
	return n, nil
}
func (p peerEnd) Write(b []byte) (int, error) {
	l := p.l
	l.mu.Lock()
	l.out = append(l.out, append([]byte(nil), b...))
	l.allOut = append(l.allOut, b...)
	l.mu.Unlock()
	return len(b), nil
}
func (p peerEnd) Close() error {
	l := p.l
	l.mu.Lock()
	l.outEOF = true
	l.mu.Unlock()
	return nil
}
func (p peerEnd) LocalAddr() net.Addr              { return memAddr("peer") }
func (p peerEnd) RemoteAddr() net.Addr             { return memAddr("client") }
func (p peerEnd) SetDeadline(time.Time) error      { return nil }
func (p peerEnd) SetReadDeadline(time.Time) error  { return nil }
func (p peerEnd) SetWriteDeadline(time.Time) error { return nil }

type memAddr string

func (a memAddr) Network() string { return "mem" }
func (a memAddr) String() string  { return string(a) }

// settle waits (really) until the peer goroutine is quiescent and moves its output to pending.
func (l *schedLink) settle() {
	l.mu.Lock()
	for !(l.peerDone || (l.peerIdle && len(l.toPeer) == 0)) {
		l.cond.Wait()
	}
	out, eof := l.out, l.outEOF
	l.out = nil
	l.mu.Unlock()
	if l.direct {
		for _, c := range out {
			l.inbuf = append(l.inbuf, c...)
		}
		if eof && !l.peerEOF {
			l.peerEOF, l.eofDelivered = true, true
		}
		return
	}
	l.pending = append(l.pending, out...)
	if eof && !l.peerEOF {
		l.peerEOF = true
		l.pending = append(l.pending, nil) // nil chunk = EOF marker
	}
}

// ---- client end (net.Conn for the UConn under test) ----

type clientEnd struct{ l *schedLink }

func (c clientEnd) Read(b []byte) (int, error) {
	l := c.l
	if t := sched.Current(); t != nil {
		t.Do(&l.obj, "conn.read", func() bool { return len(l.inbuf) > 0 || l.closed || l.eofSeen() }, nil)
	}
	if l.closed {
		return 0, net.ErrClosed
	}
	if len(l.inbuf) == 0 {
		if l.eofSeen() {
			return 0, io.EOF
		}
		return 0, io.ErrNoProgress
	}
	n := copy(b, l.inbuf)
	l.inbuf = l.inbuf[n:]
	return n, nil
}

// eofSeen: the EOF marker has been delivered.
func (l *schedLink) eofSeen() bool { return l.peerEOF && len(l.pending) == 0 && l.eofDelivered }

func (c clientEnd) Write(b []byte) (int, error) {
	l := c.l
	if t := sched.Current(); t != nil {
		// a stalled transport accepts nothing; a blocked write ends when the connection is closed
		// or, time being abstract here, as soon as a write deadline has been set
		t.Do(&l.obj, "conn.write", func() bool { return !l.stalled || l.closed || l.wdeadline }, nil)
	}
	if l.closed {
		return 0, net.ErrClosed
	}
	if l.stalled {
		return 0, os.ErrDeadlineExceeded
	}
	l.writes = append(l.writes, append([]byte(nil), b...))
	l.mu.Lock()
	l.toPeer = append(l.toPeer, b...)
	l.peerIdle = false
	l.cond.Broadcast()
	l.mu.Unlock()
	l.settle()
	return len(b), nil
}

func (c clientEnd) Close() error {
	l := c.l
	if t := sched.Current(); t != nil {
		t.Do(&l.obj, "conn.close", nil, func() string { l.closed = true; return "" })
	} else {
		l.closed = true
	}
	l.mu.Lock()
	l.cliGone = true
	l.cond.Broadcast()
	l.mu.Unlock()
	return nil
}
func (c clientEnd) LocalAddr() net.Addr                { return memAddr("client") }
func (c clientEnd) RemoteAddr() net.Addr               { return memAddr("peer") }
func (c clientEnd) SetDeadline(t time.Time) error      { c.l.wdeadline = !t.IsZero(); return nil }
func (c clientEnd) SetReadDeadline(time.Time) error    { return nil }
func (c clientEnd) SetWriteDeadline(t time.Time) error { c.l.wdeadline = !t.IsZero(); return nil }

// network is the body of the managed daemon thread that delivers pending peer output.
func (l *schedLink) network() {
	t := sched.Current()
	if t == nil {
		return
	}
	for {
		t.Do(&l.obj, "net.deliver", func() bool { return len(l.pending) > 0 }, func() string {
			c := l.pending[0]
			l.pending = l.pending[1:]
			if c == nil {
				l.eofDelivered = true
				return "eof"
			}
			l.inbuf = append(l.inbuf, c...)
			return "data"
		})
	}
}

// stdServer starts the standard library server on the peer end; after the handshake it echoes
// application data until the client goes away.
func (l *schedLink) stdServer(cfg *stdtls.Config) (errp *error) {
	var serr error
	errp = &serr
	srv := stdtls.Server(peerEnd{l}, cfg)
	go func() {
		defer func() {
			recover()
			l.mu.Lock()
			l.peerDone = true
			l.cond.Broadcast()
			l.mu.Unlock()
		}()
		serr = srv.Handshake()
		if serr != nil {
			srv.Close()
			return
		}
		buf := make([]byte, 4096)
		for {
			n, err := srv.Read(buf)
			if n > 0 {
				srv.Write(buf[:n])
			}
			if err != nil {
				srv.Close()
				return
			}
		}
	}()
	// wait until the server is parked in its first Read
	l.settle()
	return
}

// stdServerConfig is the standard-library server configuration with the harness certificate.
func stdServerConfig() *stdtls.Config {
	f := peer.Fix()
	return &stdtls.Config{
		Certificates: []stdtls.Certificate{{Certificate: f.ECDSA.Certificate, PrivateKey: f.ECDSA.PrivateKey.(*ecdsa.PrivateKey)}},
		Time:         peer.FixedTime,
		MinVersion:   stdtls.VersionTLS12,
	}
}

// testLink is what the scheduling scenarios use: under the controlled scheduler a schedLink,
// in the free-running -race pass an ordinary blocking in-memory pipe to the same server.
type testLink struct {
	stall   func() // from now on transport writes block until Close (nil when free-running)
	conn    net.Conn
	network func() // body of the network daemon (no-op when free-running)
	close   func()
	closed  func() bool
}

func newTestLink() *testLink {
	if sched.FreeRun {
		ce, se := peer.Pipe()
		srv := stdtls.Server(se, stdServerConfig())
		go func() {
			defer se.SetIdle()
			if err := srv.Handshake(); err != nil {
				se.Close()
				return
			}
			buf := make([]byte, 4096)
			for {
				n, err := srv.Read(buf)
				if n > 0 {
					srv.Write(buf[:n])
				}
				if err != nil {
					se.Close()
					return
				}
			}
		}()
		return &testLink{conn: ce, network: func() {}, close: func() { ce.Close() }, closed: ce.Closed}
	}
	l := newSchedLink()
	l.stdServer(stdServerConfig())
	return &testLink{conn: clientEnd{l}, network: l.network, close: func() { closeLink(l) }, closed: func() bool { return l.closed }, stall: func() { l.stalled = true }}
}
