package props

import (
	"golang.org/x/crypto/hkdf"
	"golang.org/x/crypto/chacha20poly1305"
	"io"
	"hash"
	"encoding/hex"
	"crypto/sha512"
	"crypto/sha256"
	"bytes"
	stdtls "crypto/tls"
	"crypto/cipher"
	"crypto/aes"
	"context"
	"errors"
	"fmt"
	"net"
	"os"
	"sort"
	"strings"
	"sync"

	tls "github.com/refraction-networking/utls"
	"github.com/refraction-networking/utls/verifshim/sched"

	"verifmc/explore"
	"verifmc/peer"
)

// C26 — concurrent use of a UConn is race-free, deadlock-free and consistent.

type c26Client struct {
	name string
	id   tls.ClientHelloID
}

func c26Clients() []c26Client {
	by := map[string]tls.ClientHelloID{}
	for _, n := range AllIDs() {
		by[n.Name] = n.ID
	}
	return []c26Client{{"HelloGolang", by["HelloGolang"]}, {"HelloChrome_Auto", by["HelloChrome_Auto"]}, {"HelloChrome_58", by["HelloChrome_58"]}}
}

// env is a scheduling object for environment actions (context cancellation).
type envObj struct{ obj sched.Obj }

func (e *envObj) do(kind string, f func()) {
	if t := sched.Current(); t != nil {
		t.Do(&e.obj, kind, nil, func() string { f(); return "" })
		return
	}
	f()
}

type callResult struct {
	who    string
	err    error
	ctxErr error // the caller's own context error at return time (nil for Background)
	hasCtx bool
}

func closeLink(l *schedLink) {
	l.mu.Lock()
	l.cliGone = true
	l.cond.Broadcast()
	l.mu.Unlock()
}

// c26HandshakeCancel — H-A: concurrent Handshake/HandshakeContext callers and cancellation.
func c26HandshakeCancel(preempt int, free bool) *explore.Scenario {
	clients := c26Clients()
	return &explore.Scenario{
		Name:   "handshake-callers-and-cancellation",
		Dedup:  !free,
		Budget: map[string]int{"preempt": preempt, "switch": preempt},
		Run: func(x *explore.X) (r explore.Result) {
			cl := clients[x.Choose("client", len(clients))]
			second := x.Choose("second-caller", 3) // 0 Handshake(), 1 HandshakeContext(ctx2) + cancel2, 2 none
			link := newTestLink()
			defer link.close()
			cfg := peer.ClientConfig("example.com")
			u := tls.UClient(link.conn, cfg, cl.id)
			ctx1, cancel1 := context.WithCancel(context.Background())
			ctx2, cancel2 := context.WithCancel(context.Background())
			defer cancel1()
			defer cancel2()
			env := &envObj{}
			var hmu sync.Mutex
			var results []callResult
			rec := func(cr callResult) { hmu.Lock(); results = append(results, cr); hmu.Unlock() }
			closedAtReturn := map[string]bool{}
			out := sched.Run(x, sched.Options{Context: fmt.Sprint(cl.name, second)}, func() {
				sched.GoNamed("net", true, link.network)
				sched.GoNamed("T1", false, func() {
					err := u.HandshakeContext(ctx1)
					hmu.Lock()
					closedAtReturn["T1"] = link.closed()
					hmu.Unlock()
					rec(callResult{"T1", err, ctx1.Err(), true})
				})
				switch second {
				case 0:
					sched.GoNamed("T2", false, func() { rec(callResult{"T2", u.Handshake(), nil, false}) })
				case 1:
					sched.GoNamed("T2", false, func() {
						err := u.HandshakeContext(ctx2)
						hmu.Lock()
						closedAtReturn["T2"] = link.closed()
						hmu.Unlock()
						rec(callResult{"T2", err, ctx2.Err(), true})
					})
					sched.GoNamed("C2", false, func() { env.do("cancel2", cancel2) })
				}
				sched.GoNamed("C1", false, func() { env.do("cancel1", cancel1) })
			})
			x.Transitions += out.Steps
			what := fmt.Sprintf("%s second=%d", cl.name, second)
			r.Nontrivial = out.Threads > 2
			if out.Deadlock || out.Horizon {
				r.Violate("C26|HA|deadlock", "%s: some call never returns: %v", what, out.Blocked)
			}
			for _, p := range out.Panics {
				r.Violate("C26|HA|panic|"+errClass(fmt.Errorf("%s", firstLineOf(p))), "%s: %s", what, truncStr(p, 500))
			}
			for _, e := range out.InfraErrors {
				r.Violate("INFRA|sched", "%s", e)
			}
			complete := u.ConnectionState().HandshakeComplete
			var shared []error
			var obs []string
			for _, cr := range results {
				kind := "shared"
				if cr.hasCtx && cr.err != nil && cr.ctxErr != nil && errors.Is(cr.err, cr.ctxErr) {
					kind = "own-ctx-error"
					if !closedAtReturn[cr.who] {
						r.Violate("C26|HA|ctx-error-without-close", "%s: %s returned its context's error but the connection had not been closed", what, cr.who)
					}
				} else {
					shared = append(shared, cr.err)
					if (cr.err == nil) != complete {
						r.Violate("C26|HA|outcome-vs-state", "%s: %s returned %v but HandshakeComplete=%v", what, cr.who, cr.err, complete)
					}
				}
				obs = append(obs, fmt.Sprintf("%s:%s:%v", cr.who, kind, cr.err == nil))
			}
			for i := 1; i < len(shared); i++ {
				if (shared[i] == nil) != (shared[0] == nil) {
					r.Violate("C26|HA|callers-disagree", "%s: callers returned different shared outcomes: %v vs %v", what, shared[0], shared[i])
				}
			}
			// epilogue: late cancellation is inert; data still flows
			allNil := len(results) > 0
			for _, cr := range results {
				if cr.err != nil {
					allNil = false // a caller got its context error: the connection was closed on purpose
				}
			}
			if complete && allNil && len(r.Viol) == 0 {
				cancel1()
				cancel2()
				ok := false
				var eerr error
				eout := sched.Run(noChoice{}, sched.Options{}, func() {
					sched.GoNamed("net", true, link.network)
					sched.GoNamed("E", false, func() {
						if _, eerr = u.Write([]byte("ping")); eerr != nil {
							return
						}
						b := make([]byte, 4)
						if _, eerr = ioReadFull(u, b); eerr == nil && string(b) == "ping" {
							ok = true
						}
					})
				})
				if !ok || eout.Deadlock {
					r.Violate("C26|HA|late-cancel-not-inert", "%s: after the handshake completed and both contexts were cancelled again, a write/read round trip fails: %v (deadlock=%v)", what, eerr, eout.Deadlock)
				}
			}
			sort.Strings(obs)
			r.Obs = fmt.Sprintf("complete=%v|%s|dl=%v", complete, strings.Join(obs, ","), out.Deadlock)
			r.Class = cl.name + "|" + r.Obs
			if out.Preemptions > 0 && len(x.Points) < 80 {
				r.Sample = map[string]any{"case": what, "outcome": r.Obs, "preemptions": out.Preemptions, "steps": out.Steps}
			}
			return
		},
	}
}

type noChoice struct{}

func (noChoice) Choose(string, int) int { return 0 }

func ioReadFull(u *tls.UConn, b []byte) (int, error) {
	n := 0
	for n < len(b) {
		k, err := u.Read(b[n:])
		n += k
		if err != nil {
			return n, err
		}
	}
	return n, nil
}

// c26DataPhase — H-B: one reader, one writer, Close/CloseWrite after an un-branched handshake.
func c26DataPhase(preempt int) *explore.Scenario {
	clients := c26Clients()
	return &explore.Scenario{
		Name:   "reader-writer-close",
		Dedup:  true,
		Budget: map[string]int{"preempt": preempt, "switch": preempt},
		Run: func(x *explore.X) (r explore.Result) {
			cl := clients[x.Choose("client", len(clients))]
			closer := x.Choose("closer", 4) // 0 Close, 1 CloseWrite, 2 none, 3 Close while the peer has stopped reading (transport writes block)
			stalled := closer == 3
			link := newTestLink()
			defer link.close()
			u := tls.UClient(link.conn, peer.ClientConfig("example.com"), cl.id)
			var hmu sync.Mutex
			var rdData []byte
			var rdErr, wrErr, clErr, hsErr error
			var wrN int
			out := sched.Run(x, sched.Options{Context: fmt.Sprint(cl.name, closer)}, func() {
				sched.GoNamed("net", true, link.network)
				sched.SetBranching(false)
				hsErr = u.Handshake()
				sched.SetBranching(true)
				if hsErr != nil {
					return
				}
				if stalled {
					if link.stall == nil {
						return // free-running pass: the in-memory pipe has no back-pressure
					}
					link.stall()
				}
				sched.GoNamed("W", false, func() {
					n, err := u.Write([]byte("hello-from-writer"))
					hmu.Lock()
					wrN, wrErr = n, err
					hmu.Unlock()
				})
				sched.GoNamed("R", false, func() {
					b := make([]byte, 64)
					n, err := u.Read(b)
					hmu.Lock()
					rdData, rdErr = append([]byte(nil), b[:n]...), err
					hmu.Unlock()
				})
				switch closer {
				case 0, 3:
					sched.GoNamed("C", false, func() { e := u.Close(); hmu.Lock(); clErr = e; hmu.Unlock() })
				case 1:
					sched.GoNamed("C", false, func() { e := u.CloseWrite(); hmu.Lock(); clErr = e; hmu.Unlock() })
				}
			})
			x.Transitions += out.Steps
			what := fmt.Sprintf("%s closer=%d", cl.name, closer)
			r.Nontrivial = true
			if hsErr != nil {
				r.Violate("INFRA|c26-handshake", "%s: %v", what, hsErr)
				return
			}
			if out.Deadlock || out.Horizon {
				// a reader blocked forever is a deadlock only if something could still arrive: with no
				// closer and the echo consumed, R may legitimately wait; the harness therefore always
				// gives R something to read (the echo of W) unless the connection was closed
				r.Violate("C26|HB|deadlock", "%s: %v", what, out.Blocked)
			}
			for _, p := range out.Panics {
				r.Violate("C26|HB|panic|"+errClass(fmt.Errorf("%s", firstLineOf(p))), "%s: %s", what, truncStr(p, 500))
			}
			for _, e := range out.InfraErrors {
				r.Violate("INFRA|sched", "%s", e)
			}
			if wrErr == nil && wrN != len("hello-from-writer") {
				r.Violate("C26|HB|short-write", "%s: Write returned (%d, nil)", what, wrN)
			}
			if len(rdData) > 0 && !strings.HasPrefix("hello-from-writer", string(rdData)) {
				r.Violate("C26|HB|read-garbage", "%s: Read returned %q", what, rdData)
			}
			isNetOrTLS := func(err error) bool {
				if err == nil {
					return true
				}
				var ne net.Error
				return errors.As(err, &ne) || errors.Is(err, net.ErrClosed) || strings.Contains(err.Error(), "tls:") || strings.Contains(err.Error(), "EOF") || strings.Contains(err.Error(), "closed")
			}
			for _, e := range []error{rdErr, wrErr, clErr} {
				if !isNetOrTLS(e) {
					r.Violate("C26|HB|unexpected-error|"+errClass(e), "%s: %v", what, e)
				}
			}
			// after everything returned: Write after Close must fail
			if stalled && wrErr == nil && !out.Deadlock {
				r.Violate("C26|HB|stalled-write-succeeded", "%s: the transport never accepted a byte but Write returned nil", what)
			}
			if closer == 0 || closer == 3 {
				if _, err := u.Write([]byte("x")); err == nil {
					r.Violate("C26|HB|write-after-close", "%s: Write after Close succeeded", what)
				}
			}
			r.Obs = fmt.Sprintf("r=%d/%v|w=%v|c=%v|dl=%v", len(rdData), rdErr != nil, wrErr != nil, clErr != nil, out.Deadlock)
			r.Class = what + "|" + r.Obs
			if out.Preemptions > 1 {
				r.Sample = map[string]any{"case": what, "outcome": r.Obs, "preemptions": out.Preemptions}
			}
			return
		},
	}
}

// c26WriteVsHandshake — H-C: Write (implicit handshake) vs Handshake vs Close.
func c26WriteVsHandshake(preempt int) *explore.Scenario {
	clients := c26Clients()
	return &explore.Scenario{
		Name:   "write-vs-handshake-vs-close",
		Dedup:  true,
		Budget: map[string]int{"preempt": preempt, "switch": preempt},
		Run: func(x *explore.X) (r explore.Result) {
			cl := clients[x.Choose("client", len(clients))]
			withClose := x.Choose("close", 2) == 1
			link := newTestLink()
			defer link.close()
			u := tls.UClient(link.conn, peer.ClientConfig("example.com"), cl.id)
			var hmu sync.Mutex
			var wrErr, hsErr, rdErr error
			var rd []byte
			out := sched.Run(x, sched.Options{Context: fmt.Sprint(cl.name, withClose)}, func() {
				sched.GoNamed("net", true, link.network)
				sched.GoNamed("W", false, func() { _, e := u.Write([]byte("early")); hmu.Lock(); wrErr = e; hmu.Unlock() })
				sched.GoNamed("H", false, func() { e := u.Handshake(); hmu.Lock(); hsErr = e; hmu.Unlock() })
				if withClose {
					sched.GoNamed("C", false, func() { u.Close() })
				} else {
					sched.GoNamed("R", false, func() {
						b := make([]byte, 16)
						n, e := u.Read(b)
						hmu.Lock()
						rd, rdErr = b[:n], e
						hmu.Unlock()
					})
				}
			})
			x.Transitions += out.Steps
			what := fmt.Sprintf("%s close=%v", cl.name, withClose)
			r.Nontrivial = true
			if out.Deadlock || out.Horizon {
				r.Violate("C26|HC|deadlock", "%s: %v", what, out.Blocked)
			}
			for _, p := range out.Panics {
				r.Violate("C26|HC|panic|"+errClass(fmt.Errorf("%s", firstLineOf(p))), "%s: %s", what, truncStr(p, 500))
			}
			for _, e := range out.InfraErrors {
				r.Violate("INFRA|sched", "%s", e)
			}
			complete := u.ConnectionState().HandshakeComplete
			if !withClose {
				if hsErr != nil || wrErr != nil || !complete {
					r.Violate("C26|HC|no-close-but-failure", "%s: without any Close, Handshake=%v Write=%v complete=%v", what, hsErr, wrErr, complete)
				}
				if rdErr == nil && string(rd) != "early"[:len(rd)] {
					r.Violate("C26|HC|read-garbage", "%s: Read %q", what, rd)
				}
			} else if hsErr == nil && !complete {
				r.Violate("C26|HC|nil-without-completion", "%s: Handshake returned nil but HandshakeComplete is false", what)
			}
			r.Obs = fmt.Sprintf("hs=%v|w=%v|complete=%v|dl=%v", hsErr == nil, wrErr == nil, complete, out.Deadlock)
			r.Class = what + "|" + r.Obs
			return
		},
	}
}

func c26Scenarios(thorough bool) []*explore.Scenario {
	// quick: every schedule with at most 1 preemption and 1 free switch (~13k executions);
	// thorough: at most 2 of each (~390k executions, ~4 min on 16 cores). C26_BOUND overrides.
	b := 1
	if thorough {
		b = 2
	}
	if os.Getenv("C26_BOUND") != "" {
		fmt.Sscan(os.Getenv("C26_BOUND"), &b)
	}
	return []*explore.Scenario{c26HandshakeCancel(b, false), c26DataPhase(b), c26WriteVsHandshake(b), c26Renegotiation(b), c26KeyUpdate(b)}
}

func init() {
	register(&Prop{ID: "C26", Level: "model_checking", Variant: "B", Scenarios: c26Scenarios, Sharded: true,
		RaceScenarios: func(thorough bool) []*explore.Scenario {
			return []*explore.Scenario{c26HandshakeCancel(0, true), c26DataPhase(0), c26WriteVsHandshake(0)}
		},
		Run: func(c *explore.Check, thorough bool) {
			c.Rule = "five harnesses (D, round 4: a HelloRequest handled inside Read at TLS 1.2 || Write || optional Close, 3 clients; E, round 5: a TLS 1.3 KeyUpdate(update_requested), sealed by the harness from the peer's key log, answered from inside Read || Write: the peer must receive the writer's bytes intact) on the real UConn under the controlled scheduler (sync, sync/atomic, channel, go and select of package tls redirected; conn Read/Write/Close and context cancellation are scheduling points; the standard library's crypto/tls server is the peer, run to quiescence; its output is delivered chunk by chunk by a scheduled network thread), clients {HelloGolang, HelloChrome_Auto, HelloChrome_58}: (A) HandshakeContext(ctx1) || {Handshake(), HandshakeContext(ctx2)+cancel2, -} || cancel1; (B) after an un-branched handshake Read || Write || {Close, CloseWrite, -, Close while the peer has stopped reading so that the transport write blocks}; (C) Write || Handshake || {Close, Read}. All schedules with <= 1 (2) preemptions and <= 1 (2) free switches, pruned by a happens-before state key. Oracle: no deadlock/livelock, no panic, every caller returns the shared outcome (nil iff HandshakeComplete) or its own context error with the connection closed, callers agree, late cancellation is inert (epilogue round trip), data read is a prefix of what was written, Write after Close fails. distinct = outcome class"
			c.Assumptions = []string{"scheduling points are the hooked synchronisation operations; unsynchronised accesses are only seen by the separate free-running -race pass", "the peer runs atomically between client writes (finer peer timing is represented by chunked delivery only)", "preemption-bounded: no violation with <= k preemptions is the claim"}
			runAll(c, c26Scenarios(thorough), 0)
			if c.ShardN == 0 {
				shimConformance(c) // the scheduler's model of the Go primitives vs the real ones (gate)
			}
			attachRacePass(c)
		}})
}

// tls12GCMRecord protects one record the way a TLS 1.2 AES-GCM sender does (RFC 5288): used to let
// the standard-library peer "send" a HelloRequest it would never send itself.
func tls12GCMRecord(key, iv []byte, seq uint64, typ byte, payload []byte) []byte {
	b, _ := aes.NewCipher(key)
	g, _ := cipher.NewGCM(b)
	explicit := seqBytes(seq)
	nonce := append(append([]byte{}, iv...), explicit...)
	aad := append(seqBytes(seq), typ, 3, 3, byte(len(payload)>>8), byte(len(payload)))
	body := append(append([]byte{}, explicit...), g.Seal(nil, nonce, payload, aad)...)
	return append([]byte{typ, 3, 3, byte(len(body) >> 8), byte(len(body))}, body...)
}

// c26Renegotiation — H-D: after a TLS 1.2 handshake the server sends a HelloRequest. The reader
// handles it inside Read (it rebuilds and sends a ClientHello while holding the input lock and
// the handshake mutex) while a writer, and optionally Close, run concurrently. Every call must
// return in every schedule (the standard-library peer refuses the renegotiation, so they return
// errors or data; which one is not judged).
func c26Renegotiation(preempt int) *explore.Scenario {
	clients := c26Clients()
	return &explore.Scenario{
		Name:   "hello-request-vs-writer-vs-close",
		Dedup:  true,
		Budget: map[string]int{"preempt": preempt, "switch": preempt},
		Run: func(x *explore.X) (r explore.Result) {
			if sched.FreeRun {
				r.Obs = "n/a-free-running"
				return
			}
			cl := clients[x.Choose("client", len(clients))]
			withClose := x.Choose("close", 2) == 1
			l := newSchedLink()
			defer closeLink(l)
			kl := &keyLog{}
			scfg := stdServerConfig()
			scfg.MaxVersion = stdtls.VersionTLS12
			scfg.CipherSuites = []uint16{stdtls.TLS_ECDHE_ECDSA_WITH_AES_128_GCM_SHA256}
			scfg.KeyLogWriter = kl
			scfg.SessionTicketsDisabled = true
			l.stdServer(scfg)
			ccfg := peer.ClientConfig("example.com")
			ccfg.Renegotiation = tls.RenegotiateOnceAsClient // (parrots with a renegotiation_info extension set this themselves)
			u := tls.UClient(clientEnd{l}, ccfg, cl.id)
			var hmu sync.Mutex
			var rdErr, wrErr, hsErr error
			returned := map[string]bool{}
			injected := false
			out := sched.Run(x, sched.Options{Context: fmt.Sprint(cl.name, withClose)}, func() {
				sched.GoNamed("net", true, l.network)
				sched.SetBranching(false)
				hsErr = u.Handshake()
				sched.SetBranching(true)
				if hsErr != nil {
					return
				}
				var cstream []byte
				for _, w := range l.writes {
					cstream = append(cstream, w...)
				}
				l.mu.Lock()
				sstream := append([]byte(nil), l.allOut...)
				l.mu.Unlock()
				cr, sr := helloRandom(cstream, 1), helloRandom(sstream, 2)
				_, master := kl.master()
				if cr == nil || sr == nil || master == nil || u.ConnectionState().Version != tls.VersionTLS12 {
					return
				}
				kb := refPRF(tls.VersionTLS12, false, master, "key expansion", append(append([]byte{}, sr...), cr...), 40)
				// the server's Finished was its record 0 under these keys: the HelloRequest is record 1
				l.pending = append(l.pending, tls12GCMRecord(kb[16:32], kb[36:40], 1, 22, []byte{0, 0, 0, 0}))
				injected = true
				sched.GoNamed("R", false, func() {
					b := make([]byte, 64)
					_, err := u.Read(b)
					hmu.Lock()
					rdErr, returned["R"] = err, true
					hmu.Unlock()
				})
				sched.GoNamed("W", false, func() {
					_, err := u.Write([]byte("hello-from-writer"))
					hmu.Lock()
					wrErr, returned["W"] = err, true
					hmu.Unlock()
				})
				if withClose {
					sched.GoNamed("C", false, func() { u.Close(); hmu.Lock(); returned["C"] = true; hmu.Unlock() })
				}
			})
			x.Transitions += out.Steps
			what := fmt.Sprintf("%s close=%v", cl.name, withClose)
			r.Nontrivial = true
			if hsErr != nil || !injected {
				r.Violate("INFRA|c26-renegotiation-setup", "%s: handshake %v, HelloRequest injected=%v", what, hsErr, injected)
				return
			}
			if out.Deadlock || out.Horizon {
				r.Violate("C26|HD|deadlock", "%s: a HelloRequest handled inside Read while other calls are in flight: %v (returned: %v)", what, out.Blocked, returned)
			}
			for _, p := range out.Panics {
				r.Violate("C26|HD|panic|"+errClass(fmt.Errorf("%s", firstLineOf(p))), "%s: %s", what, truncStr(p, 500))
			}
			for _, e := range out.InfraErrors {
				r.Violate("INFRA|sched", "%s", e)
			}
			if rdErr != nil && strings.Contains(rdErr.Error(), "no renegotiation") {
				r.Count("renegotiation_refused_by_client", 1)
			} else {
				r.Count("renegotiation_hello_sent", 1)
			}
			r.Obs = fmt.Sprintf("r=%s|w=%s|dl=%v", errClass(rdErr), errClass(wrErr), out.Deadlock)
			r.Class = what + "|" + r.Obs
			return
		},
	}
}

// ---- harness E: a TLS 1.3 KeyUpdate(update_requested) handled inside Read while Write runs ----

// tls13Label is HKDF-Expand-Label (RFC 8446 7.1) for SHA-256 / SHA-384 secrets.
func tls13Label(h func() hash.Hash, secret []byte, label string, n int) []byte {
	info := []byte{byte(n >> 8), byte(n), byte(6 + len(label))}
	info = append(info, "tls13 "+label...)
	info = append(info, 0)
	out := make([]byte, n)
	io.ReadFull(hkdf.Expand(h, secret, info), out)
	return out
}

// tls13Record protects one TLS 1.3 record (inner content type typ) under a traffic secret at sequence number seq.
func tls13Record(suite uint16, secret []byte, seq uint64, typ byte, msg []byte) []byte {
	h, keyLen := sha256.New, 16
	if suite == tls.TLS_AES_256_GCM_SHA384 {
		h, keyLen = sha512.New384, 32
	}
	if suite == tls.TLS_CHACHA20_POLY1305_SHA256 {
		keyLen = 32
	}
	key, iv := tls13Label(h, secret, "key", keyLen), tls13Label(h, secret, "iv", 12)
	var aead cipher.AEAD
	if suite == tls.TLS_CHACHA20_POLY1305_SHA256 {
		aead, _ = chacha20poly1305.New(key)
	} else {
		b, _ := aes.NewCipher(key)
		aead, _ = cipher.NewGCM(b)
	}
	nonce := append([]byte{}, iv...)
	sb := seqBytes(seq)
	for i := 0; i < 8; i++ {
		nonce[4+i] ^= sb[i]
	}
	inner := append(append([]byte{}, msg...), typ)
	hdr := []byte{23, 3, 3, byte((len(inner) + 16) >> 8), byte(len(inner) + 16)}
	return append(hdr, aead.Seal(nil, nonce, inner, hdr)...)
}

func (k *keyLog) secret(label string) []byte {
	for _, l := range strings.Split(k.String(), "\n") {
		f := strings.Fields(l)
		if len(f) == 3 && f[0] == label {
			b, _ := hex.DecodeString(f[2])
			return b
		}
	}
	return nil
}

// c26KeyUpdate — H-E: after a TLS 1.3 handshake the server's first application-phase record is a
// KeyUpdate requesting one back (sealed by the harness from the standard-library peer's key log:
// that server never sends one by itself). The reader answers it from inside Read — it sends a
// record and switches the write key — while a writer is sending data. In every schedule the peer
// must be able to read what the client put on the wire: the bytes the writer wrote arrive intact.
func c26KeyUpdate(preempt int) *explore.Scenario {
	clients := c26Clients()
	return &explore.Scenario{
		Name:   "key-update-answered-inside-read-vs-writer",
		Dedup:  true,
		Budget: map[string]int{"preempt": preempt, "switch": preempt},
		Run: func(x *explore.X) (r explore.Result) {
			if sched.FreeRun {
				r.Obs = "n/a-free-running"
				return
			}
			cl := clients[x.Choose("client", len(clients))]
			if cl.name == "HelloChrome_58" {
				r.Obs = "no-tls13"
				return
			}
			l := newSchedLink()
			kl := &keyLog{}
			scfg := stdServerConfig()
			scfg.KeyLogWriter = kl
			scfg.SessionTicketsDisabled = true
			var smu sync.Mutex
			var sink []byte
			var srvErr error
			srv := stdtls.Server(peerEnd{l}, scfg)
			go func() {
				defer func() {
					recover()
					l.mu.Lock()
					l.peerDone = true
					l.cond.Broadcast()
					l.mu.Unlock()
				}()
				if err := srv.Handshake(); err != nil {
					smu.Lock()
					srvErr = err
					smu.Unlock()
					return
				}
				buf := make([]byte, 4096)
				for {
					n, err := srv.Read(buf)
					smu.Lock()
					sink = append(sink, buf[:n]...)
					if err != nil {
						srvErr = err
					}
					smu.Unlock()
					if n > 0 {
						srv.Write(buf[:n])
					}
					if err != nil {
						return
					}
				}
			}()
			l.settle()
			u := tls.UClient(clientEnd{l}, peer.ClientConfig("example.com"), cl.id)
			var hmu sync.Mutex
			var rdErr, wrErr, hsErr error
			injected := false
			msg := []byte("hello-from-writer-across-a-key-update")
			out := sched.Run(x, sched.Options{Context: cl.name}, func() {
				sched.GoNamed("net", true, l.network)
				sched.SetBranching(false)
				hsErr = u.Handshake()
				sched.SetBranching(true)
				if hsErr != nil {
					return
				}
				cs := u.ConnectionState()
				sec := kl.secret("SERVER_TRAFFIC_SECRET_0")
				if cs.Version != tls.VersionTLS13 || sec == nil {
					return
				}
				l.pending = append(l.pending, tls13Record(cs.CipherSuite, sec, 0, 22, []byte{24, 0, 0, 1, 1}))
				injected = true
				sched.GoNamed("R", false, func() {
					b := make([]byte, 64)
					_, err := u.Read(b)
					hmu.Lock()
					rdErr = err
					hmu.Unlock()
				})
				sched.GoNamed("W", false, func() {
					_, err := u.Write(msg)
					hmu.Lock()
					wrErr = err
					hmu.Unlock()
				})
			})
			x.Transitions += out.Steps
			closeLink(l)
			l.mu.Lock()
			for !l.peerDone {
				l.cond.Wait()
			}
			l.mu.Unlock()
			what := cl.name
			r.Nontrivial = true
			if hsErr != nil || !injected {
				r.Violate("INFRA|c26-keyupdate-setup", "%s: handshake %v, KeyUpdate injected=%v", what, hsErr, injected)
				return
			}
			if out.Deadlock || out.Horizon {
				r.Violate("C26|HE|deadlock", "%s: %v", what, out.Blocked)
			}
			for _, p := range out.Panics {
				r.Violate("C26|HE|panic|"+errClass(fmt.Errorf("%s", firstLineOf(p))), "%s: %s", what, truncStr(p, 500))
			}
			for _, e := range out.InfraErrors {
				r.Violate("INFRA|sched", "%s", e)
			}
			smu.Lock()
			got, serr := append([]byte(nil), sink...), srvErr
			smu.Unlock()
			if wrErr == nil && !out.Deadlock && !bytes.Equal(got, msg) {
				r.Violate("C26|HE|peer-cannot-read-the-client", "%s: Write returned nil, but the peer received %d of %d bytes and ended with %v: the records the reader and the writer put on the wire do not form a valid stream", what, len(got), len(msg), serr)
			}
			r.Count("key_updates_answered", 1)
			if bytes.Equal(got, msg) {
				r.Count("key_update_peer_received_everything", 1)
			}
			if rdErr != nil && strings.Contains(rdErr.Error(), "bad record MAC") {
				r.Count("key_update_took_effect_on_the_read_side", 1) // the real server's echo is sealed with the key the forged KeyUpdate retired
			}
			r.Obs = fmt.Sprintf("r=%s|w=%s|peer=%d/%s", truncStr(errClass(rdErr), 40), errClass(wrErr), len(got), truncStr(errClass(serr), 40))
			r.Class = what + "|" + r.Obs
			return
		},
	}
}
