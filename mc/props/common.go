package props

import (
	"time"

	"verifmc/explore"
)

// Seed is VERIF_SEED (exploration is deterministic; only used for shard order / race pass).
var Seed int64

// VerifDir is the /verif directory.
var VerifDir = "/verif"

// runAll is the default Run implementation: explore every scenario and add it to the check.
func runAll(c *explore.Check, scs []*explore.Scenario, budget time.Duration) {
	for _, s := range scs {
		if budget > 0 && s.Deadline.IsZero() {
			s.Deadline = time.Now().Add(budget)
		}
		c.Add(s.Explore())
	}
}
