package props

import (
	"fmt"
	"os"
	"regexp"
	"strings"
	"time"

	"verifmc/explore"
)

// Seed is VERIF_SEED (exploration is deterministic; only used for shard order / race pass).
var Seed int64

// VerifDir is the /verif directory.
var VerifDir = "/verif"

// runAll is the default Run implementation: explore every scenario and add it to the check.
func runAll(c *explore.Check, scs []*explore.Scenario, budget time.Duration) {
	if c.Merged {
		return // the shard processes already explored everything; totals are merged
	}
	for _, s := range scs {
		if c.ShardN > 0 {
			s.ShardI, s.ShardN = c.ShardI, c.ShardN
			s.Workers = 1
		}
		if budget > 0 && s.Deadline.IsZero() {
			s.Deadline = time.Now().Add(budget)
		}
		st := s.Explore()
		c.Add(st)
		if st.Hung {
			break // the process still carries the hung execution's goroutine: report and stop
		}
	}
}

var raceExecRe = regexp.MustCompile(`RACEPASS executions=(\d+)`)

// attachRacePass folds the result of the separate free-running -race pass (run by bin/check
// before this process, log in $VERIF_RACELOG) into the check: every distinct data-race report
// becomes a violation whose signature names the first utls frames of both accesses.
func attachRacePass(c *explore.Check) {
	p := os.Getenv("VERIF_RACELOG")
	if p == "" {
		c.Extra["race_pass"] = "not run (invoke through bin/check)"
		return
	}
	b, err := os.ReadFile(p)
	if err != nil {
		c.Gate(false, "race pass log unreadable: %v", err)
		return
	}
	log := string(b)
	execs := 0
	for _, m := range raceExecRe.FindAllStringSubmatch(log, -1) {
		fmt.Sscan(m[1], &execs)
	}
	c.Extra["race_pass_iterations"] = execs
	c.Extra["race_pass_note"] = "sampled: free-running goroutines under the race detector with seeded yield injection; complements the exhaustive schedule enumeration, never replaces it"
	if !strings.Contains(log, "RACEPASS-EXIT 0") || execs == 0 {
		c.Gate(false, "race pass did not complete: %s", lastLines(log, 5))
	}
	for _, l := range strings.Split(log, "\n") {
		if strings.HasPrefix(l, "RACEPASS-INFRA") {
			c.Gate(false, "%s", l)
		}
	}
	blocks := strings.Split(log, "WARNING: DATA RACE")
	seen := map[string]bool{}
	for _, blk := range blocks[1:] {
		if i := strings.Index(blk, "=================="); i >= 0 {
			blk = blk[:i]
		}
		var frames []string
		for _, l := range strings.Split(blk, "\n") {
			l = strings.TrimSpace(l)
			if strings.HasPrefix(l, "github.com/refraction-networking/utls.") && !strings.Contains(l, "verifshim") {
				f := strings.TrimPrefix(l, "github.com/refraction-networking/utls.")
				if j := strings.LastIndex(f, "("); j > 0 {
					f = f[:j]
				}
				if len(frames) == 0 || frames[len(frames)-1] != f {
					frames = append(frames, f)
				}
			}
		}
		if len(frames) > 4 {
			frames = frames[:4]
		}
		if len(frames) == 0 {
			c.Gate(false, "race report without any utls frame (harness race): %s", trimTo(blk, 600))
			continue
		}
		sig := c.Property + "|race|" + strings.Join(frames, "<-")
		if seen[sig] {
			continue
		}
		seen[sig] = true
		c.Total.Violations = append(c.Total.Violations, explore.Found{Violation: explore.Violation{Sig: sig, Msg: "data race reported by the free-running -race pass:" + trimTo(blk, 1500)}, Scenario: "race-pass", Desc: "see " + p})
		c.Total.ViolCount++
	}
	c.Extra["race_reports_distinct"] = len(seen)
}

func lastLines(s string, n int) string {
	ls := strings.Split(strings.TrimSpace(s), "\n")
	if len(ls) > n {
		ls = ls[len(ls)-n:]
	}
	return strings.Join(ls, " | ")
}
func trimTo(s string, n int) string {
	if len(s) > n {
		return s[:n]
	}
	return s
}
