package props

import (
	"strings"
	"fmt"
	"runtime/debug"
	"time"

	tls "github.com/refraction-networking/utls"

	"verifmc/explore"
	"verifmc/peer"
	"verifmc/wire"
)

// C33, "the subsequent Read": after a completed TLS <= 1.2 handshake the server speaks out of
// turn. It sends a HelloRequest (which makes a client that allows renegotiation build and send a
// new ClientHello from inside Read) followed by one of a menu of answers, all protected with the
// connection's real keys (in-package helper VerifWriteRecord). Read must return — with data or an
// error — and never panic, whatever Config.Renegotiation says.

var hrrMagic = []byte{0xCF, 0x21, 0xAD, 0x74, 0xE5, 0x9A, 0x61, 0x11, 0xBE, 0x1D, 0x8C, 0x02, 0x1E, 0x65, 0xB8, 0x91, 0xC2, 0xA2, 0x11, 0x16, 0x7A, 0xBB, 0x8C, 0x5E, 0x07, 0x9E, 0x09, 0xE2, 0xC8, 0xA8, 0x33, 0x9C}

// c33OddRecords13 — after a TLS 1.3 handshake the server (which holds the keys) sends records that
// authenticate but are odd: the AEAD tag alone (empty inner plaintext), then real data.
func c33OddRecords13() *explore.Scenario {
	clients := c33Clients()
	return &explore.Scenario{
		Name:     "tls13-authenticated-but-odd-records",
		Watchdog: 60 * time.Second, HangSig: "C33|hang|odd-records",
		Run: func(x *explore.X) (r explore.Result) {
			g := clients[x.Choose("client", len(clients))]
			n := 1 + x.Choose("tag-only-records", 3)
			what := fmt.Sprintf("%s: %d record(s) consisting of the AEAD tag only, then 4 bytes of data", g.Name, n)
			scfg := peer.ServerConfig()
			hs := peer.Run(g.config("example.com"), g.ID, scfg, peer.Opts{KeepOpen: true, Prepare: g.prepare(),
				ServerAfter: func(s *tls.Conn) error {
					for i := 0; i < n; i++ {
						if err := tls.VerifWriteTLS13TagOnlyRecord(s); err != nil {
							return nil
						}
					}
					s.Write([]byte("ping"))
					return nil
				}})
			defer hs.Finish()
			if !hs.OK() || hs.U.ConnectionState().Version != tls.VersionTLS13 {
				r.Obs = "no-tls13-handshake"
				return
			}
			r.Nontrivial = true
			r.Class = what
			buf := make([]byte, 64)
			var obs []string
			for i := 0; i < 3; i++ {
				nn, err, pan := func() (nn int, err error, pan string) {
					defer func() {
						if e := recover(); e != nil {
							pan = fmt.Sprintf("%v\n%s", e, debug.Stack())
						}
					}()
					nn, err = hs.U.Read(buf)
					return
				}()
				if pan != "" {
					r.Violate("C33|client-panic|tls13-odd-record|"+errClass(fmt.Errorf("%s", firstLineOf(pan))), "%s: Read panicked: %s", what, truncStr(pan, 600))
					return
				}
				obs = append(obs, fmt.Sprintf("%d/%s", nn, errClass(err)))
				if err != nil || nn > 0 {
					break
				}
			}
			r.Count("odd_records_reads_returned", 1)
			if len(obs) > 0 && strings.HasPrefix(obs[len(obs)-1], "4/") {
				r.Count("odd_records_then_data_delivered", 1) // the tag-only records authenticated and were skipped
			}
			r.Obs = fmt.Sprint(obs)
			return
		},
	}
}

var c33RenegAnswers = []string{"nothing", "replayed-first-flight", "server-hello-selects-tls13", "server-hello-selects-tls13-suite-and-share", "hello-retry-request", "second-hello-request", "server-hello-tls11", "finished", "new-session-ticket", "certificate-first", "alert-no-renegotiation", "application-data", "full-flight-with-correct-renegotiation-info"}

func c33Renegotiation() *explore.Scenario {
	var clients []gridClient
	for _, n := range AllIDs() {
		switch n.Name {
		case "HelloGolang", "HelloChrome_Auto", "HelloChrome_58", "HelloFirefox_120", "HelloFirefox_55", "HelloIOS_14", "HelloSafari_16_0", "HelloEdge_85", "Hello360_11_0", "HelloQQ_11_1", "HelloRandomizedALPN", "HelloRandomizedNoALPN", "HelloChrome_100_PSK", "HelloChrome_112_PSK_Shuf":
			id := n.ID
			if isRandomized(id) {
				id = seededRandomized(id.Client, 1)
			}
			clients = append(clients, gridClient{Name: n.Name, ID: id, PSK: !isGolang(id) && !isRandomized(id) && specHasPSK(id)})
		}
	}
	for _, name := range []string{"tls12-only", "tls12-no-ems"} {
		name := name
		clients = append(clients, gridClient{Name: "custom:" + name, ID: tls.HelloCustom, Spec: func() (*tls.ClientHelloSpec, error) { return handshakeSpec(name), nil }})
	}
	versions := []uint16{tls.VersionTLS12, tls.VersionTLS11, tls.VersionTLS10}
	return &explore.Scenario{
		Name:     "tls12-hello-request-after-the-handshake",
		Watchdog: 60 * time.Second, HangSig: "C33|hang|post-handshake",
		Run: func(x *explore.X) (r explore.Result) {
			g := clients[x.Choose("client", len(clients))]
			vers := versions[x.Choose("version", len(versions))]
			reneg := x.Choose("renegotiation", 4) // 0 as the spec leaves it; 1 Never; 2 OnceAsClient; 3 FreelyAsClient
			answer := x.Choose("answer", len(c33RenegAnswers))
			rounds := 1 + x.Choose("rounds", 2) // HelloRequest (+answer) sent once or twice
			// what the client brought to this connection: 0 nothing; 1 a TLS 1.2 session from an earlier
			// connection in its cache (this handshake resumes it); 2 a TLS 1.3 session in its cache, offered
			// as a PSK to a server that now negotiates TLS 1.2; 3 a session injected with SetSessionState,
			// forged from ticket and master secret without certificates (as examples/old does)
			state := 0
			if vers == tls.VersionTLS12 {
				state = x.Choose("client-state", 4)
			}
			what := fmt.Sprintf("%s at %04x, Config.Renegotiation=%s, %d x (HelloRequest + %s), client-state=%s", g.Name, vers, []string{"unset", "Never", "OnceAsClient", "FreelyAsClient"}[reneg], rounds, c33RenegAnswers[answer],
				[]string{"fresh", "resumed-tls12-session", "tls13-psk-offered-to-a-tls12-server", "forged-session-without-certificates"}[state])
			ccfg := g.config("example.com")
			ccfg.MinVersion = tls.VersionTLS10
			var forged *tls.ClientSessionState
			var injectErr error
			if state != 0 {
				ccfg.ClientSessionCache = tls.NewLRUClientSessionCache(4)
				ccfg.OmitEmptyPsk = true
				wcfg := peer.ServerConfig()
				wcfg.MinVersion = tls.VersionTLS10
				wcfg.MaxVersion = vers
				if state == 2 {
					wcfg.MaxVersion = tls.VersionTLS13
				}
				w := peer.Run(ccfg, g.ID, wcfg, peer.Opts{Echo: true, Prepare: g.prepare()})
				if !(w.OK() && w.EchoOK) {
					r.Obs = "warm-connection-failed"
					return
				}
				css, ok := ccfg.ClientSessionCache.Get("example.com")
				if !ok || css == nil {
					r.Obs = "no-session-cached"
					return
				}
				if state == 2 && css.Vers() != tls.VersionTLS13 {
					r.Obs = "no-tls13-session-cached"
					return
				}
				if state == 3 {
					forged = tls.MakeClientSessionState(css.SessionTicket(), css.Vers(), css.CipherSuite(), css.MasterSecret(), nil, nil)
					forged.SetEMS(css.EMS())
					ccfg.ClientSessionCache = tls.NewLRUClientSessionCache(4) // sessions stay enabled, nothing cached
				}
			}
			switch reneg {
			case 1:
				ccfg.Renegotiation = tls.RenegotiateNever
			case 2:
				ccfg.Renegotiation = tls.RenegotiateOnceAsClient
			case 3:
				ccfg.Renegotiation = tls.RenegotiateFreelyAsClient
			}
			scfg := peer.ServerConfig()
			scfg.MinVersion = tls.VersionTLS10
			scfg.MaxVersion = vers
			var flightMsgs [][]byte
			hk := &connHooks{}
			hk.Out = func(n int, t uint8, d []byte) []byte {
				flightMsgs = append(flightMsgs, append([]byte(nil), d...))
				return d
			}
			var cleanup func()
			var theClient *tls.UConn
			prep := g.prepare()
			hs := peer.Run(ccfg, g.ID, scfg, peer.Opts{KeepOpen: true,
				Prepare: func(u *tls.UConn) error {
					if prep != nil {
						if err := prep(u); err != nil {
							return err
						}
					}
					if forged != nil {
						if err := u.SetSessionState(forged); err != nil {
							injectErr = err
							return nil // this spec takes no injected session: an ordinary connection
						}
					}
					if reneg != 0 { // a spec's renegotiation_info extension sets the Config field when applied: apply first, then override
						if err := u.BuildHandshakeState(); err != nil {
							return err
						}
						switch reneg {
						case 1:
							ccfg.Renegotiation = tls.RenegotiateNever
						case 2:
							ccfg.Renegotiation = tls.RenegotiateOnceAsClient
						case 3:
							ccfg.Renegotiation = tls.RenegotiateFreelyAsClient
						}
					}
					return nil
				},
				OnConns: func(u *tls.UConn, s *tls.Conn) { theClient = u; cleanup = installHooks(s, hk) },
				ServerAfter: func(s *tls.Conn) error {
					var sh []byte
					for _, m := range flightMsgs {
						if len(m) > 4 && m[0] == 2 {
							sh = m
							break
						}
					}
					for i := 0; i < rounds; i++ {
						if err := tls.VerifWriteRecord(s, 22, []byte{0, 0, 0, 0}); err != nil {
							return nil
						}
						var out []byte
						switch c33RenegAnswers[answer] {
						case "nothing":
						case "replayed-first-flight":
							for _, m := range flightMsgs {
								if len(m) > 0 && m[0] != 20 && m[0] != 4 {
									out = append(out, m...)
								}
							}
						case "server-hello-selects-tls13":
							if sp, ok := parseServerHello(sh); ok {
								sp.exts = append(sp.exts, shExt{43, []byte{3, 4}})
								out = sp.build()
							}
						case "server-hello-selects-tls13-suite-and-share":
							if sp, ok := parseServerHello(sh); ok {
								l := len(sp.head)
								sp.head[l-3], sp.head[l-2] = 0x13, 0x01
								sp.exts = []shExt{{43, []byte{3, 4}}, {51, append([]byte{0, 29, 0, 32}, rep(9, 32)...)}}
								out = sp.build()
							}
						case "hello-retry-request":
							if sp, ok := parseServerHello(sh); ok {
								copy(sp.head[6:38], hrrMagic)
								l := len(sp.head)
								sp.head[l-3], sp.head[l-2] = 0x13, 0x01
								sp.exts = []shExt{{43, []byte{3, 4}}, {51, []byte{0, 24}}}
								out = sp.build()
							}
						case "second-hello-request":
							out = []byte{0, 0, 0, 0}
						case "server-hello-tls11":
							if len(sh) > 6 {
								out = append([]byte(nil), sh...)
								out[4], out[5] = 3, 2
							}
						case "finished":
							out = hsMsg(20, rep(7, 12))
						case "new-session-ticket":
							out = hsMsg(4, append([]byte{0, 0, 1, 0, 0, 16}, rep(5, 16)...))
						case "certificate-first":
							for _, m := range flightMsgs {
								if len(m) > 0 && m[0] == 11 {
									out = m
								}
							}
						case "full-flight-with-correct-renegotiation-info":
							// a well-behaved renegotiating server: ServerHello with a fresh session id and
							// renegotiation_info = client verify_data || server verify_data, then its certificate
							if sp, ok := parseServerHello(sh); ok {
								// (read on the client's side: a server that resumed a session does not keep
								// the client's verify_data)
								cv, sv := tls.VerifFinishedVerifyData(theClient.Conn)
								body := append(append([]byte{byte(len(cv) + len(sv))}, cv...), sv...)
								var exts []shExt
								for _, e := range sp.exts {
									if e.typ != 0xff01 && e.typ != 35 {
										exts = append(exts, e)
									}
								}
								sp.exts = append(exts, shExt{0xff01, body})
								sp.setSessionID(rep(0x5d, 32))
								out = sp.build()
								var list []byte
								for _, der := range scfg.Certificates[0].Certificate {
									list = append(list, byte(len(der)>>16), byte(len(der)>>8), byte(len(der)))
									list = append(list, der...)
								}
								out = append(out, hsMsg(11, append([]byte{byte(len(list) >> 16), byte(len(list) >> 8), byte(len(list))}, list...))...)
								out = append(out, hsMsg(14, nil)...) // ServerHelloDone
							}
						case "alert-no-renegotiation":
							tls.VerifWriteRecord(s, 21, []byte{1, 100})
						case "application-data":
							tls.VerifWriteRecord(s, 23, []byte("hello"))
						}
						if len(out) > 0 {
							if err := tls.VerifWriteRecord(s, 22, out); err != nil {
								return nil
							}
						}
					}
					return nil
				}})
			defer func() {
				if cleanup != nil {
					cleanup()
				}
				hs.Finish()
			}()
			if !hs.OK() {
				if hs.CPanic != "" {
					r.Violate("C33|client-panic|post-handshake|during-handshake", "%s: %s", what, truncStr(hs.CPanic, 500))
				}
				r.Obs = "no-handshake"
				return
			}
			if hs.U.ConnectionState().Version != vers {
				r.Obs = "other-version"
				return
			}
			r.Nontrivial = true
			r.Class = what
			if injectErr != nil {
				r.Count("forged_session_refused:"+errClass(injectErr), 1)
			}
			if state != 0 && hs.U.ConnectionState().DidResume {
				r.Count(fmt.Sprintf("client_state_%d_resumed", state), 1)
			}
			writesBefore := hs.CE.WriteCount()
			var obs []string
			buf := make([]byte, 4096)
			for i := 0; i < 3; i++ {
				n, err, pan := func() (n int, err error, pan string) {
					defer func() {
						if e := recover(); e != nil {
							pan = fmt.Sprintf("%v\n%s", e, debug.Stack())
						}
					}()
					n, err = hs.U.Read(buf)
					return
				}()
				if pan != "" {
					r.Violate(fmt.Sprintf("C33|client-panic|post-handshake|%s|%s", map[bool]string{true: "golang", false: "utls-spec"}[isGolang(g.ID)], errClass(fmt.Errorf("%s", firstLineOf(pan)))), "%s: Read %d panicked: %s", what, i, truncStr(pan, 700))
					return
				}
				obs = append(obs, fmt.Sprintf("%d/%s", n, errClass(err)))
				if err != nil {
					break
				}
			}
			r.Count("post_handshake_reads_returned", 1)
			if hs.CE.WriteCount() > writesBefore+1 { // more than one alert record: a renegotiation ClientHello left the client
				r.Count("renegotiation_hellos_sent", 1)
			}
			r.Obs = fmt.Sprint(obs)
			if c33RenegAnswers[answer] == "full-flight-with-correct-renegotiation-info" {
				r.Obs = fmt.Sprintf("full-flight|state=%d|%v", state, obs)
				if state == 3 && rounds == 1 {
					r.Sample = map[string]any{"case": what, "reads": obs, "client_writes_after": hs.CE.WriteCount() - writesBefore}
				}
			}
			if x.Points[0].Pick == 1 && vers == tls.VersionTLS12 && rounds == 1 {
				r.Sample = map[string]any{"case": what, "reads": obs}
			}
			return
		},
	}
}

// c33PoisonedCache — a hostile server's NewSessionTicket must not be able to leave something in the
// ClientSessionCache that crashes the NEXT connection: connection 1 receives a mutated ticket
// message (consistently, before the server's transcript), connection 2 — same Config and cache,
// honest server — must again return without panic.
func c33PoisonedCache(thorough bool) *explore.Scenario {
	clients := c33Clients()
	for _, n := range AllIDs() {
		if n.Name == "HelloChrome_120" || n.Name == "HelloFirefox_105" || n.Name == "HelloSafari_16_0" {
			clients = append(clients, gridClient{Name: n.Name, ID: n.ID})
		}
	}
	shapes := []string{"ticket-empty", "ticket-1-byte", "lifetime-0", "lifetime-max", "nonce-empty", "nonce-255", "ticket-65535"}
	return &explore.Scenario{
		Name:     "mutated-session-ticket-then-a-second-connection",
		Watchdog: 60 * time.Second, HangSig: "C33|hang|second-connection",
		Run: func(x *explore.X) (r explore.Result) {
			g := clients[x.Choose("client", len(clients))]
			vers := []uint16{tls.VersionTLS12, tls.VersionTLS13}[x.Choose("version", 2)]
			kind := x.Choose("kind", 3) // 0 well-formed message of a degenerate shape, 1 one byte changed, 2 body truncated (length field fixed up)
			var mut func(d []byte) []byte
			desc := ""
			switch kind {
			case 0:
				sh := shapes[x.Choose("shape", len(shapes))]
				desc = sh
				mut = func(d []byte) []byte {
					body := d[4:]
					var life, rest []byte // rest: what follows the lifetime up to the ticket (TLS 1.3: age_add, nonce)
					var nonce []byte
					if len(body) < 6 {
						return d
					}
					life = append([]byte(nil), body[:4]...)
					ticket := []byte(nil)
					var exts []byte
					if vers == tls.VersionTLS13 {
						if len(body) < 9 {
							return d
						}
						rest = append([]byte(nil), body[4:8]...)
						nl := int(body[8])
						if len(body) < 9+nl+2 {
							return d
						}
						nonce = append([]byte(nil), body[9:9+nl]...)
						tl := int(body[9+nl])<<8 | int(body[10+nl])
						if len(body) < 11+nl+tl {
							return d
						}
						ticket = append([]byte(nil), body[11+nl:11+nl+tl]...)
						exts = append([]byte(nil), body[11+nl+tl:]...)
					} else {
						tl := int(body[4])<<8 | int(body[5])
						if len(body) < 6+tl {
							return d
						}
						ticket = append([]byte(nil), body[6:6+tl]...)
					}
					switch sh {
					case "ticket-empty":
						ticket = []byte{}
					case "ticket-1-byte":
						ticket = []byte{7}
					case "ticket-65535":
						ticket = rep(0x5a, 65535-64)
					case "lifetime-0":
						life = []byte{0, 0, 0, 0}
					case "lifetime-max":
						life = []byte{0xff, 0xff, 0xff, 0xff}
					case "nonce-empty":
						nonce = []byte{}
					case "nonce-255":
						nonce = rep(1, 255)
					}
					out := append([]byte{}, life...)
					if vers == tls.VersionTLS13 {
						out = append(out, rest...)
						out = append(out, byte(len(nonce)))
						out = append(out, nonce...)
					}
					out = append(out, byte(len(ticket)>>8), byte(len(ticket)))
					out = append(out, ticket...)
					out = append(out, exts...)
					return hsMsg(4, out)
				}
			case 1:
				pos := x.Choose("pos", 48)
				val := byteVals[x.Choose("val", 3)]
				desc = fmt.Sprintf("byte[%d]=%#02x", pos, val)
				mut = func(d []byte) []byte {
					if pos >= len(d) {
						return d
					}
					c := append([]byte(nil), d...)
					if val == 1 {
						c[pos] ^= 1
					} else {
						c[pos] = val
					}
					return c
				}
			case 2:
				l := x.Choose("pos", 48)
				desc = fmt.Sprintf("body-truncated-to-%d", l)
				mut = func(d []byte) []byte {
					if 4+l > len(d) {
						return d
					}
					return hsMsg(4, d[4:4+l])
				}
			}
			what := fmt.Sprintf("%s vers=%04x NewSessionTicket %s, then a second connection through the same cache", g.Name, vers, desc)
			ccfg := g.config("example.com")
			ccfg.ClientSessionCache = tls.NewLRUClientSessionCache(4)
			ccfg.PreferSkipResumptionOnNilExtension = true
			scfg := peer.ServerConfig()
			scfg.MaxVersion = vers
			mutated := 0
			hk := &connHooks{}
			hk.Out = func(n int, t uint8, d []byte) []byte {
				if t == 4 && len(d) > 4 {
					mutated++
					return mut(d)
				}
				return d
			}
			var cleanup func()
			hs1 := peer.Run(ccfg, g.ID, scfg, peer.Opts{Prepare: g.prepare(), Echo: true,
				OnConns: func(u *tls.UConn, s *tls.Conn) { cleanup = installHooks(s, hk) }})
			if cleanup != nil {
				cleanup()
			}
			if hs1.CPanic != "" {
				r.Violate("C33|client-panic|ticket-message|first-connection|"+errClass(fmt.Errorf("%s", firstLineOf(hs1.CPanic))), "%s: connection 1 panicked: %s", what, truncStr(hs1.CPanic, 500))
				return
			}
			if mutated == 0 {
				r.Obs = "no-ticket-message"
				return
			}
			hs2 := peer.Run(ccfg, g.ID, scfg, peer.Opts{Prepare: g.prepare(), Echo: true})
			r.Nontrivial = true
			r.Class = what
			if hs2.CPanic != "" {
				r.Violate(fmt.Sprintf("C33|client-panic|second-connection-after-mutated-ticket|vers=%04x|%s", vers, errClass(fmt.Errorf("%s", firstLineOf(hs2.CPanic)))), "%s: connection 2 panicked: %s", what, truncStr(hs2.CPanic, 500))
			}
			r.Count("second_connections", 1)
			if hs2.CErr == nil && hs2.U.ConnectionState().DidResume {
				r.Count("second_connections_resumed", 1)
			}
			r.Obs = fmt.Sprintf("c1=%s|c2=%s", errClass(hs1.CErr), errClass(hs2.CErr))
			return
		},
	}
}

// c33CookieSweep — the server chooses the LENGTH of the client's second ClientHello through the
// cookie it asks to have echoed: every cookie length 1..320 (the second hello of the older,
// padded parrots sweeps across the 512-byte padding boundary) and a few large ones.
func c33CookieSweep() *explore.Scenario {
	var clients []gridClient
	for _, n := range AllIDs() {
		switch n.Name {
		case "HelloChrome_83", "HelloFirefox_65", "HelloIOS_14", "HelloChrome_100", "HelloSafari_16_0", "HelloChrome_120":
			clients = append(clients, gridClient{Name: n.Name, ID: n.ID})
		}
	}
	var lens []int
	for l := 1; l <= 320; l++ {
		lens = append(lens, l)
	}
	lens = append(lens, 1000, 4000, 16000, 65000)
	return &explore.Scenario{
		Name:     "hello-retry-request-cookie-length-sweep",
		Watchdog: 60 * time.Second, HangSig: "C33|hang|cookie-sweep",
		Run: func(x *explore.X) (r explore.Result) {
			g := clients[x.Choose("client", len(clients))]
			l := lens[x.Choose("cookie-length", len(lens))]
			what := fmt.Sprintf("%s, HelloRetryRequest with a %d-byte cookie", g.Name, l)
			h0, err := g.probeHello()
			if err != nil {
				r.Obs = "no-hello"
				return
			}
			o := offerOf(h0)
			var grp uint16
			for _, c := range []uint16{24, 23, 25} {
				if has16(o.groups, c) && !has16(o.shares, c) {
					grp = c
					break
				}
			}
			if grp == 0 || !has16(o.versions, tls.VersionTLS13) {
				r.Obs = "no-hrr-possible"
				return
			}
			scfg := peer.ServerConfig()
			if !offersCert(o, "ecdsa") {
				scfg = peer.ServerConfig(peer.Fix().RSA)
			}
			scfg.CurvePreferences = []tls.CurveID{tls.CurveID(grp)}
			cookie := rep(0xC6, l)
			hk := &connHooks{AcceptCookie: true}
			hk.Out = func(n int, t uint8, d []byte) []byte {
				if t == 2 && isHRR(d) {
					if sp, ok := parseServerHello(d); ok {
						sp.exts = append(sp.exts, shExt{44, append([]byte{byte(l >> 8), byte(l)}, cookie...)})
						return sp.build()
					}
				}
				return d
			}
			var cleanup func()
			hs := peer.Run(g.config("example.com"), g.ID, scfg, peer.Opts{Prepare: g.prepare(), Echo: true,
				OnConns: func(u *tls.UConn, s *tls.Conn) { cleanup = installHooks(s, hk) }})
			if cleanup != nil {
				cleanup()
			}
			r.Nontrivial = true
			r.Class = what
			if hs.CPanic != "" {
				r.Violate("C33|client-panic|cookie-sweep|"+errClass(fmt.Errorf("%s", firstLineOf(hs.CPanic))), "%s: %s", what, truncStr(hs.CPanic, 500))
				return
			}
			r.Count("cookie_sweep_returned", 1)
			if hs.OK() {
				r.Count("cookie_sweep_completed", 1)
			}
			r.Obs = "c=" + errClass(hs.CErr)
			return
		},
	}
}

// c33TicketWithoutSession — the client offers a session ticket it has no session state for (a ticket set
// with SetSessionTicketExtension and nothing else), and a TLS 1.2 server answers with a ServerHello that
// echoes the client's legacy session id, i.e. claims to resume. Handshake must return, not panic.
func c33TicketWithoutSession() *explore.Scenario {
	var clients []gridClient
	for _, n := range AllIDs() {
		switch n.Name {
		case "HelloChrome_100", "HelloFirefox_105", "HelloChrome_133", "HelloIOS_14", "HelloChrome_58":
			clients = append(clients, gridClient{Name: n.Name, ID: n.ID})
		}
	}
	return &explore.Scenario{
		Name:     "ticket-without-session-and-a-server-claiming-to-resume",
		Watchdog: 60 * time.Second, HangSig: "C33|hang|ticket-only",
		Run: func(x *explore.X) (r explore.Result) {
			g := clients[x.Choose("client", len(clients))]
			inject := x.Choose("ticket", 2) // 0 none, 1 a ticket without session state
			vers := []uint16{tls.VersionTLS12, tls.VersionTLS11}[x.Choose("version", 2)]
			what := fmt.Sprintf("%s at %04x ticket-injection=%d, ServerHello echoes the client's session id", g.Name, vers, inject)
			ccfg := g.config("example.com")
			ccfg.MinVersion = tls.VersionTLS10
			ccfg.ClientSessionCache = tls.NewLRUClientSessionCache(2)
			scfg := peer.ServerConfig()
			scfg.MaxVersion = vers
			var ce *peer.Endpoint
			hs := peer.Run(ccfg, g.ID, scfg, peer.Opts{
				WrapClient: func(e *peer.Endpoint) { ce = e },
				WrapServer: func(e *peer.Endpoint) {
					e.Transform = func(n int, b []byte) []byte {
						if n != 0 || len(b) < 5+4+2+32+1 || b[0] != 22 || b[5] != 2 || ce == nil {
							return b
						}
						msgs := peer.ClientHelloMsgs(ce.AllWritten())
						if len(msgs) == 0 {
							return b
						}
						ch, err := wire.ParseClientHello(msgs[0])
						if err != nil || len(ch.SessionID) == 0 {
							return b
						}
						recLen := int(b[3])<<8 | int(b[4])
						sh, ok := parseServerHello(b[5 : 5+4+(int(b[6])<<16|int(b[7])<<8|int(b[8]))])
						if !ok {
							return b
						}
						shLen := 4 + (int(b[6])<<16 | int(b[7])<<8 | int(b[8]))
						sh.setSessionID(ch.SessionID)
						nsh := sh.build()
						rest := b[5+shLen : 5+recLen]
						body := append(append([]byte(nil), nsh...), rest...)
						out := append([]byte{22, b[1], b[2], byte(len(body) >> 8), byte(len(body))}, body...)
						return append(out, b[5+recLen:]...)
					}
				},
				Prepare: func(u *tls.UConn) error {
					if inject == 0 {
						return nil
					}
					u.SetSessionTicketExtension(&tls.SessionTicketExtension{Ticket: rep(0x7c, 120), Initialized: true})
					return nil
				}})
			r.Nontrivial = true
			r.Class = what
			if hs.CPanic != "" {
				r.Violate("C33|client-panic|ticket-without-session|"+errClass(fmt.Errorf("%s", firstLineOf(hs.CPanic))), "%s: %s", what, truncStr(hs.CPanic, 600))
			}
			r.Obs = fmt.Sprintf("inject=%d|err=%v", inject, hs.CErr != nil)
			return
		},
	}
}
