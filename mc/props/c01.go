package props

import (
	"bytes"
	"fmt"
	"strings"

	tls "github.com/refraction-networking/utls"

	"verifmc/explore"
	"verifmc/peer"
	"verifmc/wire"
)

// C01 — the ClientHello on the wire is exactly the hello the caller built and inspected.

type c01Edit struct {
	name  string
	apply func(u *tls.UConn) error
	// visible checks the edit in the parsed on-wire hello; returns "" if visible
	visible func(h *wire.Hello) string
}

func c01Edits() []c01Edit {
	rnd := rep(0xA7, 32)
	sid := rep(0x5D, 32)
	return []c01Edit{
		{"SetClientRandom", func(u *tls.UConn) error { return u.SetClientRandom(rnd) }, func(h *wire.Hello) string {
			if !bytes.Equal(h.Random, rnd) {
				return "client random on the wire is not the one set"
			}
			return ""
		}},
		{"SetSNI", func(u *tls.UConn) error { u.SetSNI("b.example"); return nil }, func(h *wire.Hello) string {
			e := h.Find(0)
			if e == nil {
				return "" // spec without SNI extension: nothing to show
			}
			if len(e.Body) < 5 || string(e.Body[5:]) != "b.example" {
				return fmt.Sprintf("SNI on the wire is %q", e.Body[5:])
			}
			return ""
		}},
		{"CipherSuites-drop-last", func(u *tls.UConn) error {
			cs := u.HandshakeState.Hello.CipherSuites
			if len(cs) < 2 {
				return fmt.Errorf("skip")
			}
			u.HandshakeState.Hello.CipherSuites = cs[:len(cs)-1]
			return nil
		}, nil},
		{"CipherSuites-append-00ff", func(u *tls.UConn) error {
			u.HandshakeState.Hello.CipherSuites = append(append([]uint16{}, u.HandshakeState.Hello.CipherSuites...), 0x00ff)
			return nil
		}, func(h *wire.Hello) string {
			if h.Suites[len(h.Suites)-1] != 0x00ff {
				return "appended suite 0x00ff is not last on the wire"
			}
			return ""
		}},
		{"SessionId-pattern", func(u *tls.UConn) error { u.HandshakeState.Hello.SessionId = sid; return nil }, func(h *wire.Hello) string {
			if !bytes.Equal(h.SessionID, sid) {
				return "session id on the wire is not the one set"
			}
			return ""
		}},
		{"SessionId-empty", func(u *tls.UConn) error { u.HandshakeState.Hello.SessionId = nil; return nil }, func(h *wire.Hello) string {
			if len(h.SessionID) != 0 {
				return "session id on the wire is not empty"
			}
			return ""
		}},
		{"Extensions-append-generic", func(u *tls.UConn) error {
			exts := u.Extensions
			g := &tls.GenericExtension{Id: 0x6f6f, Data: []byte{1, 2, 3}}
			if n := len(exts); n > 0 {
				if _, ok := exts[n-1].(tls.PreSharedKeyExtension); ok {
					u.Extensions = append(append(append([]tls.TLSExtension{}, exts[:n-1]...), g), exts[n-1])
					return nil
				}
			}
			u.Extensions = append(append([]tls.TLSExtension{}, exts...), g)
			return nil
		}, func(h *wire.Hello) string {
			e := h.Find(0x6f6f)
			if e == nil || !bytes.Equal(e.Body, []byte{1, 2, 3}) {
				return "appended extension 0x6f6f missing on the wire"
			}
			return ""
		}},
		{"Extensions-remove-ALPN", func(u *tls.UConn) error {
			var kept []tls.TLSExtension
			found := false
			for _, e := range u.Extensions {
				if _, ok := e.(*tls.ALPNExtension); ok {
					found = true
					continue
				}
				kept = append(kept, e)
			}
			if !found {
				return fmt.Errorf("skip")
			}
			u.Extensions = kept
			return nil
		}, func(h *wire.Hello) string {
			if h.Find(16) != nil {
				return "removed ALPN extension still on the wire"
			}
			return ""
		}},
		{"Extensions-edit-ALPN", func(u *tls.UConn) error {
			for _, e := range u.Extensions {
				if a, ok := e.(*tls.ALPNExtension); ok {
					a.AlpnProtocols = []string{"verif/1"}
					return nil
				}
			}
			return fmt.Errorf("skip")
		}, func(h *wire.Hello) string {
			e := h.Find(16)
			if e == nil || !bytes.Contains(e.Body, []byte("verif/1")) {
				return "edited ALPN list not on the wire"
			}
			return ""
		}},
		{"Extensions-edit-SNI", func(u *tls.UConn) error { // the extension object edited directly, Config.ServerName left alone
			for _, e := range u.Extensions {
				if a, ok := e.(*tls.SNIExtension); ok {
					a.ServerName = "c.example"
					return nil
				}
			}
			return fmt.Errorf("skip")
		}, func(h *wire.Hello) string {
			e := h.Find(0)
			if e == nil {
				return "" // the extension was removed by another edit of the sequence
			}
			if len(e.Body) < 5 || string(e.Body[5:]) != "c.example" {
				return "SNI written into the extension object is not the one on the wire"
			}
			return ""
		}},
		{"Extensions-edit-sigalgs", func(u *tls.UConn) error {
			for _, e := range u.Extensions {
				if a, ok := e.(*tls.SignatureAlgorithmsExtension); ok && len(a.SupportedSignatureAlgorithms) > 3 {
					a.SupportedSignatureAlgorithms = append([]tls.SignatureScheme{}, a.SupportedSignatureAlgorithms[:len(a.SupportedSignatureAlgorithms)-1]...)
					a.SupportedSignatureAlgorithms = append(a.SupportedSignatureAlgorithms, 0x0f0f)
					return nil
				}
			}
			return fmt.Errorf("skip")
		}, func(h *wire.Hello) string {
			e := h.Find(13)
			if e == nil || len(e.Body) < 4 || e.Body[len(e.Body)-2] != 0x0f || e.Body[len(e.Body)-1] != 0x0f {
				return "signature algorithm 0x0f0f written into the extension object is not last on the wire"
			}
			return ""
		}},
		{"Extensions-append-second-padding", func(u *tls.UConn) error {
			// an edit the marshaller must refuse (two padding extensions): the handshake has to fail
			// with that error and send nothing — in particular not the hello built before the edit
			u.Extensions = append(append([]tls.TLSExtension{}, u.Extensions...), &tls.UtlsPaddingExtension{GetPaddingLen: tls.BoringPaddingStyle}, &tls.UtlsPaddingExtension{WillPad: true, PaddingLen: 7})
			return nil
		}, func(h *wire.Hello) string {
			return "a ClientHello went out although the edited extension list cannot be marshalled"
		}},
		{"RemoveSNIExtension", func(u *tls.UConn) error { return u.RemoveSNIExtension() }, func(h *wire.Hello) string {
			if h.Find(0) != nil {
				return "RemoveSNIExtension returned nil, yet a server_name extension is on the wire"
			}
			return ""
		}},
		{"BuildHandshakeState-again", func(u *tls.UConn) error { return u.BuildHandshakeState() }, nil},
	}
}

func c01Scenario(clients []gridClient, depth int) *explore.Scenario {
	edits := c01Edits()
	return &explore.Scenario{
		Name: "mutators-between-build-and-handshake",
		Run: func(x *explore.X) (r explore.Result) {
			g := clients[x.Choose("client", len(clients))]
			if isGolang(g.ID) {
				r.Obs = "golang-excluded"
				return
			}
			hrr := x.Choose("srv.hrr", 2) == 1
			// the judged connection may be one that resumes: a PSK parrot with a TLS 1.3 session cached
			// by a first, unedited connection (the pre_shared_key binder is computed over the edited hello)
			resumedMode := x.Choose("resumed", 3) // 1: TLS 1.3 PSK; 2: a TLS 1.2 ticket cached by a first connection (session_ticket parrots)
			resumed := resumedMode != 0
			if resumedMode == 1 && (!g.PSK || hrr) {
				r.Obs = "n/a"
				return
			}
			if resumedMode == 2 && hrr {
				r.Obs = "n/a"
				return
			}
			var seq []c01Edit
			for i := 0; i < depth; i++ {
				k := x.Choose("edit", len(edits)+1)
				if k == 0 {
					break
				}
				seq = append(seq, edits[k-1])
			}
			var names []string
			for _, e := range seq {
				names = append(names, e.name)
			}
			h0, err := g.probeHello()
			if err != nil {
				r.Obs = "no-hello"
				return
			}
			o := offerOf(h0)
			if resumedMode == 2 && (h0.Find(35) == nil || !has16(o.versions, tls.VersionTLS12)) {
				r.Obs = "n/a"
				return
			}
			scfg := peer.ServerConfig()
			if !offersCert(o, "ecdsa") {
				scfg = peer.ServerConfig(peer.Fix().RSA)
			}
			if hrr {
				// a listed classical group without a share
				var grp uint16
				for _, c := range []uint16{24, 23, 25, 29} {
					if has16(o.groups, c) && !has16(o.shares, c) {
						grp = c
						break
					}
				}
				if grp == 0 || !has16(o.versions, tls.VersionTLS13) {
					r.Obs = "no-hrr-possible"
					return
				}
				scfg.CurvePreferences = []tls.CurveID{tls.CurveID(grp)}
			}
			// the application also asked for ECH (Config.EncryptedClientHelloConfigList; the server holds the
			// key): whether the spec has an ECH extension or not, what goes out is the hello that was built
			withECH := len(seq) == 0 && !resumed && x.Choose("ech-config", 2) == 1
			var echKey []tls.EncryptedClientHelloKey
			var echList []byte
			if withECH {
				e := peer.MakeECH(peer.ECHParams{ConfigID: 7, PublicName: "public.example", MaxNameLen: 32})
				echKey, echList = []tls.EncryptedClientHelloKey{e.Key}, e.ConfigList
				scfg.EncryptedClientHelloKeys = echKey
			}
			// how the handshake is started after the edits: Handshake(), or implicitly by the first Read / Write
			start := []string{"", "read", "write"}[x.Choose("start", 3)]
			what := fmt.Sprintf("%s edits=%v hrr=%v resumed=%d", g.Name, names, hrr, resumedMode)
			if start != "" {
				what += " handshake-started-by=" + start
			}
			var rawAtStart []byte
			var u *tls.UConn
			skip := false
			prep := g.prepare()
			ccfg := g.config("example.com")
			if withECH {
				ccfg.EncryptedClientHelloConfigList = echList
				ccfg.MinVersion = tls.VersionTLS13
				what += " ech-config-set"
			}
			// Config fields that leave the hello alone must leave the edits alone too (for edit sequences of at
			// most one call, to keep the product small)
			knob := 0
			if len(seq) <= 1 && !resumed && !withECH {
				knob = x.Choose("cli.config", len(clientKnobNames))
				switch clientKnobNames[knob] {
				case "SessionTicketsDisabled":
					ccfg.SessionTicketsDisabled = true
				case "ClientSessionCache":
					ccfg.ClientSessionCache = tls.NewLRUClientSessionCache(4)
				case "DynamicRecordSizingDisabled":
					ccfg.DynamicRecordSizingDisabled = true
				case "RenegotiateFreelyAsClient":
					ccfg.Renegotiation = tls.RenegotiateFreelyAsClient
				case "PreferSkipResumptionOnNilExtension":
					ccfg.PreferSkipResumptionOnNilExtension = true
				}
				if knob != 0 {
					what += " Config." + clientKnobNames[knob]
				}
			}
			if resumed {
				ccfg.ClientSessionCache = tls.NewLRUClientSessionCache(4)
				ccfg.PreferSkipResumptionOnNilExtension = true // the documented knob for specs without the needed session extension (e.g. fingerprinted copies)
				if resumedMode == 1 {
					scfg.MinVersion = tls.VersionTLS13
				} else {
					scfg.MaxVersion = tls.VersionTLS12
				}
				c0 := *ccfg
				if w := peer.Run(&c0, g.ID, scfg, peer.Opts{Prepare: g.prepare(), Echo: true}); !w.OK() {
					r.Obs = "first-connection-failed"
					return
				}
			}
			hs := peer.Run(ccfg, g.ID, scfg, peer.Opts{Start: start, Echo: start != "",
				WrapClient: func(e *peer.Endpoint) {
					e.OnWrite = func(n int, b []byte) {
						if n == 0 && u != nil && u.HandshakeState.Hello != nil {
							rawAtStart = append([]byte(nil), u.HandshakeState.Hello.Raw...)
						}
					}
				},
				Prepare: func(uc *tls.UConn) error {
					u = uc
					if prep != nil {
						if err := prep(uc); err != nil {
							return err
						}
					}
					if err := uc.BuildHandshakeState(); err != nil {
						return err
					}
					for _, e := range seq {
						x.Transitions++
						defer func() {
							if uc.HandshakeState.Hello != nil {
								var ts []string
								for _, ex := range uc.Extensions {
									ts = append(ts, fmt.Sprintf("%T", ex))
								}
								x.State(fmt.Sprintf("%s|%v|%d|%d|%d|%x|%v", g.Name, resumedMode, knob, len(uc.HandshakeState.Hello.CipherSuites), len(uc.HandshakeState.Hello.SessionId), uc.HandshakeState.Hello.Random[:2], ts))
							}
						}()
						if err := e.apply(uc); err != nil {
							if err.Error() == "skip" {
								skip = true
								return err
							}
							return err
						}
					}
					return nil
				}})
			if skip {
				r.Obs = "edit-not-applicable"
				return
			}
			if hs.CPanic != "" {
				r.Violate("C01|panic|"+strings.Join(names, "+"), "%s: %s", what, truncStr(hs.CPanic, 300))
				return
			}
			msgs := peer.ClientHelloMsgs(hs.CE.AllWritten())
			if len(msgs) == 0 {
				r.Obs = "nothing-sent:" + errClass(hs.CErr)
				r.Count("nothing_sent", 1)
				return
			}
			r.Nontrivial = true
			r.Class = fmt.Sprintf("%s|%v|%v|%d|%s|%v", g.Name, names, hrr, len(msgs), start, withECH)
			// (1) first record carries exactly Hello.Raw as rebuilt at handshake start
			if !bytes.Equal(msgs[0], rawAtStart) {
				r.Violate("C01|wire-differs-from-raw-at-start|"+strings.Join(names, "+"), "%s: first ClientHello on the wire (%d bytes) differs from HandshakeState.Hello.Raw at the first write (%d bytes)", what, len(msgs[0]), len(rawAtStart))
			}
			// (2) every edit is visible in those bytes (later edits of the same field win)
			if h, err := wire.ParseClientHello(msgs[0]); err == nil {
				last := map[string]int{}
				for i, e := range seq {
					k := strings.SplitN(e.name, "-", 2)[0]
					if k == "Extensions" {
						k = e.name
					}
					if e.name == "SetSNI" || e.name == "Extensions-edit-SNI" {
						k = "SNI"
					}
					last[k] = i
				}
				for i, e := range seq {
					k := strings.SplitN(e.name, "-", 2)[0]
					if k == "Extensions" {
						k = e.name
					}
					if e.name == "SetSNI" || e.name == "Extensions-edit-SNI" {
						k = "SNI"
					}
					if e.visible == nil || last[k] != i {
						continue
					}
					if e.name == "Extensions-edit-ALPN" && last["Extensions-remove-ALPN"] > i {
						continue
					}
					if why := e.visible(h); why != "" {
						r.Violate("C01|edit-not-visible|"+e.name+"|after="+strings.Join(names[i+1:], "+"), "%s: %s", what, why)
					}
				}
			}
			// (3) after the handshake Hello.Raw is the last ClientHello actually sent
			if hs.CErr == nil || len(msgs) > 1 {
				rawAfter := u.HandshakeState.Hello.Raw
				lastMsg := msgs[len(msgs)-1]
				if !bytes.Equal(rawAfter, lastMsg) {
					which := "the only"
					if len(msgs) > 1 {
						which = "the second (post-HRR)"
						if bytes.Equal(rawAfter, msgs[0]) {
							which += " — it still equals the FIRST"
						}
					}
					r.Violate(fmt.Sprintf("C01|raw-after-handshake|hellos=%d", len(msgs)), "%s: after Handshake, Hello.Raw (%d bytes) is not %s ClientHello sent (%d bytes)", what, len(rawAfter), which, len(lastMsg))
				}
			}
			if hrr && hs.CErr == nil {
				r.Count("hrr_completed", 1)
				if len(msgs) != 2 {
					r.Violate("INFRA|c01-hrr-expected", "%s: HRR server but %d hellos", what, len(msgs))
				}
			}
			if resumed {
				r.Count("resumed_runs", 1)
				if hs.CErr == nil && hs.U.ConnectionState().DidResume {
					r.Count("resumed_and_did_resume", 1)
				}
			}
			r.Obs = fmt.Sprintf("hellos=%d|done=%v|viol=%d", len(msgs), hs.CErr == nil, len(r.Viol))
			if len(seq) == depth && hrr {
				r.Sample = map[string]any{"client": g.Name, "edits": names, "hrr": hrr, "hellos_on_wire": len(msgs), "handshake_error": fmt.Sprint(hs.CErr)}
			}
			return
		},
	}
}

func c01Scenarios(thorough bool) []*explore.Scenario {
	if thorough {
		return []*explore.Scenario{c01Scenario(gridClients(3, true), 3)}
	}
	return []*explore.Scenario{c01Scenario(gridClients(1, false), 2)}
}

func init() {
	register(&Prop{ID: "C01", Level: "model_checking", Variant: "A", Scenarios: c01Scenarios,
		Run: func(c *explore.Check, thorough bool) {
			c.Rule = "every non-Golang ID, randomized seeds and custom specs (+ fingerprinted copies in thorough) x every sequence of <=2 (3) documented mutators (SetClientRandom, SetSNI, CipherSuites drop/append, SessionId pattern/empty, Extensions append/remove/edit (ALPN, server_name and signature_algorithms objects edited directly), RemoveSNIExtension, an edit the marshaller must refuse, a second BuildHandshakeState) applied between BuildHandshakeState and the start of the handshake {Handshake(), first Read, first Write} x server {plain, HRR-forcing} x {fresh connection, PSK parrot resuming a cached TLS 1.3 session, session_ticket parrot offering a cached TLS 1.2 ticket} x (unedited hellos) {no ECH config, Config.EncryptedClientHelloConfigList set whether or not the spec has an ECH extension}: (1) first ClientHello on the wire == Hello.Raw read at the first write, (2) the last edit of each field is visible to the strict parser, (3) after Handshake Hello.Raw == the last ClientHello sent. distinct = (client, edit sequence, server, hellos sent)"
			c.Assumptions = []string{"Hello.Raw 'as rebuilt at handshake start' is read by the transport's first-write callback on the handshaking goroutine"}
			runAll(c, c01Scenarios(thorough), 0)
			c.Gate(c.Total.Counters["hrr_completed"] > 100, "non-vacuity: %d completed HRR handshakes", c.Total.Counters["hrr_completed"])
		}})
}
