package props

import (
	"fmt"

	tls "github.com/refraction-networking/utls"

	"verifmc/explore"
	"verifmc/peer"
	"verifmc/wire"
)

// C13 — the client never settles on a protocol version it did not advertise.

func c13Scenario(clients []gridClient) *explore.Scenario {
	maxes := []uint16{tls.VersionTLS13, tls.VersionTLS12, tls.VersionTLS11, tls.VersionTLS10}
	return &explore.Scenario{
		Name:   "server-version-behaviours",
		Budget: map[string]int{"cli": 1},
		Run: func(x *explore.X) (r explore.Result) {
			g := clients[x.Choose("client", len(clients))]
			smax := maxes[x.Choose("srv.max", len(maxes))]
			legacy := x.Choose("srv.legacy", 2) == 1 // negotiate from legacy_version only
			canary := x.Choose("srv.canary", 4)      // 0 honest, 1 stripped, 2 / 3 forged: RFC 8446 sentinel DOWNGRD\x01 / DOWNGRD\x00
			cliCfg := x.Choose("cli.versions", 3)    // 0 untouched Config, 1 Config.MinVersion = TLS 1.0, 2 Config.MaxVersion = TLS 1.2
			resumed := x.Choose("resumed", 2) == 1   // the judged connection resumes a session cached by an honest first one
			h0, err := g.probeHello()
			if err != nil {
				r.Obs = "no-hello"
				return
			}
			o := offerOf(h0)
			advOf := func(h0 *wire.Hello) map[uint16]bool {
				o := offerOf(h0)
				adv := map[uint16]bool{}
				for _, v := range o.versions {
					adv[v] = true
				}
				if h0.Find(43) == nil {
					// no supported_versions: [spec minimum .. legacy_version]; the spec minimum of a
					// hello without the extension is TLS 1.0 unless the spec says otherwise
					min := uint16(tls.VersionTLS10)
					if g.Spec == nil {
						if sp, err := tls.UTLSIdToSpec(g.ID); err == nil && sp.TLSVersMin != 0 {
							min = sp.TLSVersMin
						}
					}
					adv = map[uint16]bool{}
					for v := min; v <= h0.LegacyVersion; v++ {
						adv[v] = true
					}
				}
				return adv
			}
			adv := advOf(h0)
			certKind := "ecdsa"
			if !offersCert(o, "ecdsa") {
				certKind = "rsa"
			}
			f := peer.Fix()
			cert := f.ECDSA
			if certKind == "rsa" {
				cert = f.RSA
			}
			scfg := peer.ServerConfig(cert)
			scfg.MaxVersion = smax
			// old versions need suites the hello offers; let the server use its whole table
			var all []uint16
			for id := range suite12Auth {
				all = append(all, id)
			}
			scfg.CipherSuites = all
			hk := &connHooks{}
			if legacy {
				hk.Versions = func(lv uint16, v []uint16) []uint16 {
					var out []uint16
					for x := lv; x >= tls.VersionTLS10; x-- {
						out = append(out, x)
					}
					return out
				}
			}
			sentinelForced := false
			hk.Random12 = func(rnd []byte) {
				switch canary {
				case 1:
					copy(rnd[24:], []byte{1, 2, 3, 4, 5, 6, 7, 8})
				case 2:
					copy(rnd[24:], []byte("DOWNGRD\x01"))
					sentinelForced = true
				case 3:
					copy(rnd[24:], []byte("DOWNGRD\x00"))
					sentinelForced = true
				}
			}
			// srv.echo: a TLS <= 1.2 ServerHello that additionally states its version in a
			// supported_versions extension (what it says there is what the client ends up at)
			echo := x.Choose("srv.echo", 2) == 1
			if echo {
				hk.Out = func(n int, t uint8, d []byte) []byte {
					if t == 2 && !isHRR(d) {
						if sp, ok := parseServerHello(d); ok && sp.find(43) == nil && len(sp.head) > 6 && (sp.head[4] == 3 && sp.head[5] <= 3) {
							sp.exts = append(sp.exts, shExt{43, []byte{sp.head[4], sp.head[5]}})
							return sp.build()
						}
					}
					return d
				}
			}
			what := fmt.Sprintf("%s client-config=%d server{max=%04x legacy=%v canary=%d echo-version-in-supported_versions=%v}", g.Name, cliCfg, smax, legacy, canary, echo)
			var cleanup func()
			ccfg := g.config("example.com")
			switch cliCfg {
			case 1:
				ccfg.MinVersion = tls.VersionTLS10
			case 2:
				ccfg.MaxVersion = tls.VersionTLS12
			}
			if resumed {
				// first connection: same server behaviour, but the canary as the server sets it
				cache := tls.NewLRUClientSessionCache(4)
				ccfg.ClientSessionCache = cache
				ccfg.OmitEmptyPsk = true
				ccfg.PreferSkipResumptionOnNilExtension = true // specs without the needed session extension simply do not resume
				hk0 := &connHooks{Versions: hk.Versions}
				var cl0 func()
				c0 := *ccfg
				w := peer.Run(&c0, g.ID, scfg, peer.Opts{Prepare: g.prepare(), Echo: true,
					OnConns: func(u *tls.UConn, s *tls.Conn) { cl0 = installHooks(s, hk0) }})
				if cl0 != nil {
					cl0()
				}
				if !w.OK() {
					r.Obs = "first-connection-failed"
					return
				}
				what += " resumed"
			}
			hs := peer.Run(ccfg, g.ID, scfg, peer.Opts{Prepare: g.prepare(), Echo: true,
				OnConns: func(u *tls.UConn, s *tls.Conn) { cleanup = installHooks(s, hk) }})
			if cleanup != nil {
				cleanup()
			}
			// the advertised set is what THIS connection put on the wire
			if msgs := peer.ClientHelloMsgs(hs.CE.AllWritten()); len(msgs) > 0 {
				if hw, err := wire.ParseClientHello(msgs[0]); err == nil {
					adv = advOf(hw)
					h0 = hw
				}
			}
			r.Nontrivial = true
			r.Class = what
			if hs.CPanic != "" {
				r.Violate("C13|panic", "%s: %s", what, truncStr(hs.CPanic, 300))
				return
			}
			cs := hs.U.ConnectionState()
			done := hs.CErr == nil
			var advList []uint16
			for _, v := range []uint16{0x0304, 0x0303, 0x0302, 0x0301} {
				if adv[v] {
					advList = append(advList, v)
				}
			}
			if done {
				r.Count("completed", 1)
				if !adv[cs.Version] {
					r.Violate(fmt.Sprintf("C13|unadvertised-version|client=%s|negotiated=%04x", g.Name, cs.Version), "%s: handshake completed at version %04x, but the ClientHello advertised only %04x (supported_versions present: %v)", what, cs.Version, advList, h0.Find(43) != nil)
				}
				if sentinelForced && adv[tls.VersionTLS13] && cs.Version < tls.VersionTLS13 {
					r.Violate(fmt.Sprintf("C13|downgrade-sentinel-accepted|sentinel=%d|negotiated=%04x", canary, cs.Version), "%s: the client offered TLS 1.3 and accepted a %04x ServerHello carrying the RFC 8446 downgrade sentinel", what, cs.Version)
				}
			}
			r.Obs = fmt.Sprintf("done=%v|vers=%04x|err=%s", done, cs.Version, errClass(hs.CErr))
			if legacy && canary >= 2 {
				r.Sample = map[string]any{"case": what, "advertised": fmt.Sprintf("%04x", advList), "completed": done, "version": fmt.Sprintf("%04x", cs.Version), "client_error": fmt.Sprint(hs.CErr)}
			}
			return
		},
	}
}

func c13Scenarios(thorough bool) []*explore.Scenario {
	n := 2
	if thorough {
		n = 64
	}
	return []*explore.Scenario{c13Scenario(append(gridClients(n, thorough), c13TrimmedVersionClients()...))}
}

func init() {
	register(&Prop{ID: "C13", Level: "exploration", Variant: "A", Scenarios: c13Scenarios,
		Run: func(c *explore.Check, thorough bool) {
			c.Rule = "every discovered ID, randomized seeds, custom specs incl. parrot specs whose supported_versions list is cut to its first k entries, loses its highest entry, or keeps only its first and last entry (a gap) while TLSVersMin..TLSVersMax stays wider (+ fingerprinted copies in thorough) x server MaxVersion {1.3,1.2,1.1,1.0} x {honours supported_versions, negotiates from legacy_version only (verif hook)} x {fresh connection, resumption of a session cached by an honest first connection} x downgrade canary {as the server sets it, stripped, each of the two RFC 8446 sentinels DOWNGRD\\x01 / DOWNGRD\\x00 forced}: a completed handshake must be at a version in the advertised set parsed from the wire (supported_versions if present, else [spec minimum .. legacy_version]); with TLS 1.3 advertised a <=1.2 ServerHello carrying either sentinel must be refused (RFC 8446 4.1.3: a TLS 1.3 client checks both values). distinct = (client, server behaviour)"
			c.Assumptions = []string{"the server is the utls Server with hooks H3/H4; canary edits go through the ServerHello random hook, so the server stays self-consistent"}
			runAll(c, c13Scenarios(thorough), 0)
			c.Gate(c.Total.Counters["completed"] > 200, "non-vacuity: %d completed handshakes", c.Total.Counters["completed"])
		}})
}

// c13TrimmedVersionClients — custom specs whose TLSVersMin/TLSVersMax span more than their
// supported_versions extension lists: the spec of a parrot with the list cut down to its first k
// entries (GREASE aside). Only what is listed on the wire may be accepted.
func c13TrimmedVersionClients() []gridClient {
	var out []gridClient
	for _, n := range ParrotIDs() {
		switch n.Name {
		case "HelloFirefox_120", "HelloChrome_120", "HelloIOS_14", "HelloFirefox_102":
		default:
			continue
		}
		sp0, err := tls.UTLSIdToSpec(n.ID)
		if err != nil {
			continue
		}
		nv := 0
		for _, e := range sp0.Extensions {
			if sv, ok := e.(*tls.SupportedVersionsExtension); ok {
				for _, v := range sv.Versions {
					if v&0x0f0f != 0x0a0a {
						nv++
					}
				}
			}
		}
		for k := 1; k < nv; k++ {
			n, k := n, k
			out = append(out, gridClient{Name: fmt.Sprintf("custom:%s-versions-cut-to-%d", n.Name, k), ID: tls.HelloCustom, Spec: func() (*tls.ClientHelloSpec, error) {
				sp, err := tls.UTLSIdToSpec(n.ID)
				if err != nil {
					return nil, err
				}
				for _, e := range sp.Extensions {
					if sv, ok := e.(*tls.SupportedVersionsExtension); ok {
						var kept []uint16
						real := 0
						for _, v := range sv.Versions {
							if v&0x0f0f == 0x0a0a {
								kept = append(kept, v)
								continue
							}
							if real < k {
								kept = append(kept, v)
								real++
							}
						}
						sv.Versions = kept
					}
				}
				if sp.TLSVersMin == 0 {
					sp.TLSVersMin = tls.VersionTLS10
				}
				if sp.TLSVersMax == 0 {
					sp.TLSVersMax = tls.VersionTLS13
				}
				return &sp, nil
			}})
		}
		// lists that are not a top segment: the highest version dropped (TLSVersMax stays), and — for
		// lists of three or more — only the first and the last kept (a gap)
		for _, shape := range []string{"without-the-highest", "first-and-last-only"} {
			if shape == "first-and-last-only" && nv < 3 {
				continue
			}
			n, shape := n, shape
			out = append(out, gridClient{Name: fmt.Sprintf("custom:%s-versions-%s", n.Name, shape), ID: tls.HelloCustom, Spec: func() (*tls.ClientHelloSpec, error) {
				sp, err := tls.UTLSIdToSpec(n.ID)
				if err != nil {
					return nil, err
				}
				for _, e := range sp.Extensions {
					if sv, ok := e.(*tls.SupportedVersionsExtension); ok {
						var real []uint16
						for _, v := range sv.Versions {
							if v&0x0f0f != 0x0a0a {
								real = append(real, v)
							}
						}
						keep := map[uint16]bool{}
						if shape == "without-the-highest" {
							for _, v := range real[1:] {
								keep[v] = true
							}
						} else {
							keep[real[0]], keep[real[len(real)-1]] = true, true
						}
						var kept []uint16
						for _, v := range sv.Versions {
							if v&0x0f0f == 0x0a0a || keep[v] {
								kept = append(kept, v)
							}
						}
						sv.Versions = kept
					}
				}
				if sp.TLSVersMin == 0 {
					sp.TLSVersMin = tls.VersionTLS10
				}
				if sp.TLSVersMax == 0 {
					sp.TLSVersMax = tls.VersionTLS13
				}
				return &sp, nil
			}})
		}
	}
	return out
}
