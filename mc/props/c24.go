package props

import (
	"bytes"
	"crypto/rand"
	"fmt"

	tls "github.com/refraction-networking/utls"

	"verifmc/explore"
	"verifmc/wire"
)

// C24 — QUIC transport parameters and varints encode losslessly.

// refVarint is the independent RFC 9000 §16 encoder.
func refVarint(x uint64) []byte {
	switch {
	case x < 1<<6:
		return []byte{byte(x)}
	case x < 1<<14:
		return []byte{0x40 | byte(x>>8), byte(x)}
	case x < 1<<30:
		return []byte{0x80 | byte(x>>24), byte(x >> 16), byte(x >> 8), byte(x)}
	case x < 1<<62:
		return []byte{0xc0 | byte(x>>56), byte(x >> 48), byte(x >> 40), byte(x >> 32), byte(x >> 24), byte(x >> 16), byte(x >> 8), byte(x)}
	}
	return nil
}

func refVarintWidth(x uint64, w int) []byte {
	var tag byte
	switch w {
	case 1:
		tag = 0
	case 2:
		tag = 0x40
	case 4:
		tag = 0x80
	case 8:
		tag = 0xc0
	default:
		return nil
	}
	if w < 8 && x >= 1<<(uint(8*w)-2) {
		return nil
	}
	if x >= 1<<62 {
		return nil
	}
	b := make([]byte, w)
	for i := 0; i < w; i++ {
		b[w-1-i] = byte(x >> (8 * i))
	}
	b[0] |= tag
	return b
}

func catch(f func()) (p string) {
	defer func() {
		if e := recover(); e != nil {
			p = fmt.Sprint(e)
		}
	}()
	f()
	return ""
}

func varintValues(part, parts int, thorough bool) []uint64 {
	var vs []uint64
	lim := uint64(1 << 20)
	chunk := lim / uint64(parts)
	for x := uint64(part) * chunk; x < uint64(part+1)*chunk; x++ {
		vs = append(vs, x)
	}
	if part == 0 {
		vs = append(vs, lim)
		for k := 0; k <= 64; k++ {
			var base uint64
			if k < 64 {
				base = 1 << uint(k)
			} else {
				base = 0 // 2^64 wraps: covers max uint64 neighbourhood via -1,-2
			}
			for d := -2; d <= 2; d++ {
				vs = append(vs, base+uint64(d))
			}
		}
		for p := 0; p < 8; p++ {
			for b := 1; b < 256; b++ {
				v := uint64(b) << uint(8*p)
				vs = append(vs, v)
				if thorough {
					for p2 := p + 1; p2 < 8; p2++ {
						for _, b2 := range []uint64{1, 0x3f, 0x40, 0x7f, 0x80, 0xff} {
							vs = append(vs, v|b2<<uint(8*p2))
						}
					}
				}
			}
		}
	}
	return vs
}

func c24Varint(thorough bool) *explore.Scenario {
	const parts = 16
	return &explore.Scenario{
		Name: "varint",
		Run: func(x *explore.X) (r explore.Result) {
			part := x.Choose("part", parts)
			n := 0
			viol := func(sig, f string, a ...any) bool {
				if len(r.Viol) < 3 {
					r.Violate("C24|varint|"+sig, f, a...)
				}
				return len(r.Viol) >= 3
			}
			for _, v := range varintValues(part, parts, thorough) {
				want := refVarint(v)
				var got []byte
				p := catch(func() { got = tls.VerifVarintAppend([]byte{0xEE}, v) })
				n++
				if want == nil {
					if p == "" {
						if viol("append-no-panic", "Append(%#x) returned % x instead of refusing a value >= 2^62", v, got) {
							break
						}
					}
				} else {
					if p != "" || len(got) < 1 || got[0] != 0xEE || !bytes.Equal(got[1:], want) {
						if viol("append", "Append(%#x) = % x (panic %q), reference % x", v, got, p, want) {
							break
						}
						continue
					}
					if l := tls.VerifVarintLen(v); l != len(want) {
						if viol("len", "Len(%#x) = %d, minimal encoding has %d bytes", v, l, len(want)) {
							break
						}
					}
					back, used, err := tls.VerifVarintRead(append(append([]byte{}, want...), 0x55))
					if err != nil || back != v || used != len(want) {
						if viol("read", "Read(% x) = (%#x, used %d, %v), want %#x", want, back, used, err, v) {
							break
						}
					}
				}
				for _, w := range []int{1, 2, 4, 8, 0, 3, 16} {
					wantW := refVarintWidth(v, w)
					var gotW []byte
					pw := catch(func() { gotW = tls.VerifVarintAppendWithLen(nil, v, w) })
					n++
					if wantW == nil {
						if pw == "" {
							if viol("appendwithlen-no-panic", "AppendWithLen(%#x, %d) returned % x instead of panicking", v, w, gotW) {
								break
							}
						}
						continue
					}
					if pw != "" || !bytes.Equal(gotW, wantW) {
						if viol("appendwithlen", "AppendWithLen(%#x, %d) = % x (panic %q), reference % x", v, w, gotW, pw, wantW) {
							break
						}
						continue
					}
					back, used, err := tls.VerifVarintRead(gotW)
					if err != nil || back != v || used != w {
						if viol("appendwithlen-read", "Read(AppendWithLen(%#x,%d)) = (%#x,%d,%v)", v, w, back, used, err) {
							break
						}
					}
				}
			}
			r.Count("function_evaluations", n)
			r.Obs = fmt.Sprintf("part%d|viol=%d", part, len(r.Viol))
			r.Nontrivial = true
			r.Class = r.Obs
			r.Sample = map[string]any{"part": part, "evaluations": n}
			return
		},
	}
}

type tpGen struct {
	name string
	mk   func() tls.TransportParameter
	id   uint64 // expected id, 0 = GREASE (27+31N)
	val  func() []byte
}

func tpMenu() []tpGen {
	vi := func(x uint64) func() []byte { return func() []byte { return refVarint(x) } }
	var m []tpGen
	for _, x := range []uint64{0, 1, 63, 64, 16383, 16384, 1 << 30, 1<<62 - 1} {
		x := x
		m = append(m, tpGen{fmt.Sprintf("max_idle_timeout=%d", x), func() tls.TransportParameter { return tls.MaxIdleTimeout(x) }, 0x01, vi(x)})
	}
	m = append(m,
		tpGen{"max_udp_payload_size=1472", func() tls.TransportParameter { return tls.MaxUDPPayloadSize(1472) }, 0x03, vi(1472)},
		tpGen{"initial_max_data=2^20", func() tls.TransportParameter { return tls.InitialMaxData(1 << 20) }, 0x04, vi(1 << 20)},
		tpGen{"initial_max_stream_data_bidi_local=64", func() tls.TransportParameter { return tls.InitialMaxStreamDataBidiLocal(64) }, 0x05, vi(64)},
		tpGen{"initial_max_stream_data_bidi_remote=63", func() tls.TransportParameter { return tls.InitialMaxStreamDataBidiRemote(63) }, 0x06, vi(63)},
		tpGen{"initial_max_stream_data_uni=16384", func() tls.TransportParameter { return tls.InitialMaxStreamDataUni(16384) }, 0x07, vi(16384)},
		tpGen{"initial_max_streams_bidi=100", func() tls.TransportParameter { return tls.InitialMaxStreamsBidi(100) }, 0x08, vi(100)},
		tpGen{"initial_max_streams_uni=3", func() tls.TransportParameter { return tls.InitialMaxStreamsUni(3) }, 0x09, vi(3)},
		tpGen{"max_ack_delay=25", func() tls.TransportParameter { return tls.MaxAckDelay(25) }, 0x0b, vi(25)},
		tpGen{"disable_active_migration", func() tls.TransportParameter { return &tls.DisableActiveMigration{} }, 0x0c, func() []byte { return nil }},
		tpGen{"active_connection_id_limit=8", func() tls.TransportParameter { return tls.ActiveConnectionIDLimit(8) }, 0x0e, vi(8)},
		tpGen{"initial_source_connection_id=empty", func() tls.TransportParameter { return tls.InitialSourceConnectionID(nil) }, 0x0f, func() []byte { return nil }},
		tpGen{"initial_source_connection_id=20B", func() tls.TransportParameter { return tls.InitialSourceConnectionID(rep(7, 20)) }, 0x0f, func() []byte { return rep(7, 20) }},
		tpGen{"version_information", func() tls.TransportParameter {
			return &tls.VersionInformation{ChoosenVersion: tls.VERSION_1, AvailableVersions: []uint32{tls.VERSION_2, tls.VERSION_1}}
		}, 0x11, func() []byte { return []byte{0, 0, 0, 1, 0x6b, 0x33, 0x43, 0xcf, 0, 0, 0, 1} }},
		tpGen{"version_information_legacy", func() tls.TransportParameter {
			return &tls.VersionInformation{ChoosenVersion: tls.VERSION_1, LegacyID: true}
		}, 0xff73db, func() []byte { return []byte{0, 0, 0, 1} }},
		tpGen{"padding=1", func() tls.TransportParameter { return tls.PaddingTransportParameter([]byte{0}) }, 0x15, func() []byte { return []byte{0} }},
		tpGen{"max_datagram_frame_size=65535", func() tls.TransportParameter { return tls.MaxDatagramFrameSize(65535) }, 0x20, vi(65535)},
		tpGen{"grease_quic_bit", func() tls.TransportParameter { return &tls.GREASEQUICBit{} }, 0x2ab2, func() []byte { return nil }},
		tpGen{"grease(len 0)", func() tls.TransportParameter { return &tls.GREASETransportParameter{} }, 0, func() []byte { return nil }},
		tpGen{"grease(len 5)", func() tls.TransportParameter { return &tls.GREASETransportParameter{Length: 5} }, 0, nil},
		tpGen{"grease(override that is not a GREASE id)", func() tls.TransportParameter { return &tls.GREASETransportParameter{IdOverride: 0x1234, Length: 5} }, 0, nil},
		tpGen{"grease(override)", func() tls.TransportParameter {
			return &tls.GREASETransportParameter{IdOverride: 27 + 31*1000, ValueOverride: []byte{1, 2, 3}}
		}, 27 + 31*1000, func() []byte { return []byte{1, 2, 3} }},
	)
	for _, id := range []uint64{1, 0x0c, 0x2ab2, 63, 64, 16384, 1<<62 - 1} { // (0x0c and 0x2ab2: ids of the two presence-only parameters, here with a value)
		id := id
		m = append(m, tpGen{fmt.Sprintf("fake(id=%d)", id), func() tls.TransportParameter { return &tls.FakeQUICTransportParameter{Id: id, Val: []byte{0xaa, 0xbb}} }, id, func() []byte { return []byte{0xaa, 0xbb} }})
	}
	for _, n := range []int{63, 16383, 16384, 20000} { // value lengths around the 1/2/4-byte varint boundaries of the length prefix
		n := n
		m = append(m, tpGen{fmt.Sprintf("fake(%dB value)", n), func() tls.TransportParameter { return &tls.FakeQUICTransportParameter{Id: 0x9a, Val: rep(3, n)} }, 0x9a, func() []byte { return rep(3, n) }})
	}
	m = append(m, tpGen{"padding=16384", func() tls.TransportParameter { return tls.PaddingTransportParameter(rep(0, 16384)) }, 0x15, func() []byte { return rep(0, 16384) }},
		tpGen{"grease(len 16384)", func() tls.TransportParameter { return &tls.GREASETransportParameter{Length: 16384} }, 0, nil})
	m = append(m, tpGen{"fake(64B value)", func() tls.TransportParameter { return &tls.FakeQUICTransportParameter{Id: 0x99, Val: rep(9, 64)} }, 0x99, func() []byte { return rep(9, 64) }})
	return m
}

func c24Params(maxLen int) *explore.Scenario {
	menu := tpMenu()
	return &explore.Scenario{
		Name:    "transport-parameter-lists",
		Workers: 1, // crypto/rand.Reader is scripted (process-global)
		Run: func(x *explore.X) (r explore.Result) {
			saved := rand.Reader
			rand.Reader = &seqReader{seq: []byte{0, 0, 0, 0, 0, 0, 1, 7, 9, 9, 9, 9, 9}}
			defer func() { rand.Reader = saved }()
			var list tls.TransportParameters
			var gens []tpGen
			for i := 0; i < maxLen; i++ {
				k := x.Choose("param", len(menu)+1)
				if k == 0 {
					break
				}
				gens = append(gens, menu[k-1])
				list = append(list, menu[k-1].mk())
			}
			var names []string
			for _, g := range gens {
				names = append(names, g.name)
			}
			ext := &tls.QUICTransportParametersExtension{TransportParameters: list}
			var buf []byte
			var rn int
			var rerr error
			if p := catch(func() {
				buf = make([]byte, ext.Len())
				rn, rerr = ext.Read(buf)
			}); p != "" {
				r.Violate("C24|params|panic", "list %v: %s", names, p)
				return
			}
			_ = rerr
			if rn != len(buf) || len(buf) < 4 || int(buf[2])<<8|int(buf[3]) != len(buf)-4 || buf[0] != 0 || buf[1] != 57 {
				r.Violate("C24|params|header", "list %v: extension bytes % x (read %d)", names, trunc(buf, 16), rn)
				return
			}
			tps, err := wire.ParseTransportParams(buf[4:])
			if err != nil {
				r.Violate("C24|params|unparsable", "list %v: body % x does not parse as (varint id, varint len, value)*: %v", names, trunc(buf[4:], 40), err)
				return
			}
			if len(tps) != len(gens) {
				r.Violate("C24|params|count", "list %v: %d entries on the wire", names, len(tps))
				return
			}
			// what was parsed equals the list: each element, asked again, names the id that went out
			for i := range list {
				var again uint64
				if p := catch(func() { again = list[i].ID() }); p != "" {
					r.Violate("C24|params|panic", "list %v: ID() of entry %d after marshalling: %s", names, i, p)
					return
				}
				if again != tps[i].ID {
					r.Violate("C24|params|id-not-the-elements", "list %v: entry %d went out with id %#x, the element now says %#x", names, i, tps[i].ID, again)
				}
			}
			// ids must be minimally encoded too: re-encode with the reference and compare
			var ref []byte
			for i, g := range gens {
				tp := tps[i]
				if g.id == 0 {
					if tp.ID < 27 || (tp.ID-27)%31 != 0 {
						r.Violate("C24|params|grease-id", "list %v: entry %d id %d is not 27+31N", names, i, tp.ID)
					}
				} else if tp.ID != g.id {
					r.Violate("C24|params|id", "list %v: entry %d id %#x, want %#x", names, i, tp.ID, g.id)
				}
				if g.val != nil && !bytes.Equal(tp.Value, g.val()) {
					r.Violate("C24|params|value", "list %v: entry %d (%s) value % x, want % x", names, i, g.name, tp.Value, g.val())
				}
				wantLen := 5
				if g.name == "grease(len 16384)" {
					wantLen = 16384
				}
				if g.val == nil && len(tp.Value) != wantLen {
					r.Violate("C24|params|grease-len", "list %v: entry %d GREASE value of %d bytes, want %d", names, i, len(tp.Value), wantLen)
				}
				ref = append(ref, refVarint(tp.ID)...)
				ref = append(ref, refVarint(uint64(len(tp.Value)))...)
				ref = append(ref, tp.Value...)
			}
			if !bytes.Equal(ref, buf[4:]) {
				r.Violate("C24|params|non-minimal", "list %v: body % x is not the minimal encoding % x", names, trunc(buf[4:], 40), trunc(ref, 40))
			}
			// results stay valid while other lists are marshaled: the bytes returned for this list by
			// Marshal, and what this extension object reads after its Len(), must not change when a
			// second list (fixed, different) goes through Marshal / Len / Read in between
			if len(list) > 0 {
				saved := list.Marshal()
				snapshot := append([]byte(nil), saved...)
				extA := &tls.QUICTransportParametersExtension{TransportParameters: list}
				lenA := extA.Len()
				other := tls.TransportParameters{tls.MaxIdleTimeout(12345), tls.InitialMaxData(77), &tls.FakeQUICTransportParameter{Id: 0x77, Val: rep(0x5e, 40)}}
				ob := other.Marshal()
				extB := &tls.QUICTransportParametersExtension{TransportParameters: other}
				bb := make([]byte, extB.Len())
				extB.Read(bb)
				_ = ob
				if !bytes.Equal(saved, snapshot) {
					r.Violate("C24|params|marshal-result-changed-by-a-later-marshal", "list %v: the slice returned by Marshal changed after another list was marshaled", names)
				}
				ba := make([]byte, lenA)
				if n, _ := extA.Read(ba); n != lenA || !bytes.Equal(ba, buf) {
					r.Violate("C24|params|extension-changed-by-a-later-marshal", "list %v: Len() then (another extension's Len/Read) then Read() gives %d bytes differing from the first encoding", names, n)
				}
			}
			x.Transitions += len(gens)
			r.Obs = fmt.Sprintf("len%d|viol=%d", len(gens), len(r.Viol))
			r.Nontrivial = len(gens) > 0
			r.Class = fmt.Sprint(names)
			if len(gens) == maxLen && len(x.Points) > 1 && x.Points[0].Pick == x.Points[1].Pick+3 {
				r.Sample = map[string]any{"list": names, "body": fmt.Sprintf("%x", trunc(buf[4:], 48))}
			}
			return
		},
	}
}

func c24Scenarios(thorough bool) []*explore.Scenario {
	if thorough {
		return []*explore.Scenario{c24Varint(true), c24Params(3)}
	}
	return []*explore.Scenario{c24Varint(false), c24Params(2)}
}

func init() {
	register(&Prop{ID: "C24", Level: "exploration", Variant: "A", Scenarios: c24Scenarios,
		Run: func(c *explore.Check, thorough bool) {
			c.Rule = "varints: every x in [0,2^20], 2^k+d (k<=64,|d|<=2), every single non-zero byte pattern (thorough: pairs of byte patterns) x widths {1,2,4,8 and invalid 0,3,16} against an independent RFC 9000 codec (minimal Append, Len, Read inverse, AppendWithLen exact width, panic instead of truncation); parameter lists: every ordered list of length <=2 (3 thorough) over a menu of every parameter type with boundary values (integer values and ids at every varint width; value lengths 0..64, 16383, 16384, 20000), parsed by an independent parser and compared entry by entry and byte by byte with the minimal reference encoding, and still equal after a second list went through Marshal/Len/Read in between. distinct = parameter list"
			c.Assumptions = []string{"62-bit value space is covered at [0,2^20], all powers of two +-2 and byte patterns, not symbolically", "GREASE parameter entropy scripted through crypto/rand.Reader"}
			runAll(c, c24Scenarios(thorough), 0)
			c.Extra["function_evaluations"] = c.Total.Counters["function_evaluations"]
		}})
}
