package props

import (
	"io"
	"crypto/rsa"
	"fmt"
	"os"
	"strings"
	"sync"
	"time"

	tls "github.com/refraction-networking/utls"

	"verifmc/explore"
	"verifmc/peer"
	"verifmc/wire"
)

// C34 — arbitrary client input never crashes or hangs the server.

var (
	c34Once sync.Once
	c34H    []srcHello
	c34ECH  *peer.ECH
)

func c34Corpus() []srcHello {
	c34Once.Do(func() {
		c34ECH = peer.MakeECH(peer.ECHParams{ConfigID: 7, PublicName: "public.example", MaxNameLen: 32})
		add := func(name string, cfg *tls.Config, id tls.ClientHelloID, prep func(u *tls.UConn) error) {
			stream, _, _, _ := firstFlight(cfg, id, prep)
			if msg, _, err := wire.FirstFlightHello(stream); err == nil {
				c34H = append(c34H, srcHello{name, msg, cfg.ServerName})
			}
		}
		for _, n := range AllIDs() {
			if isCustom(n.ID) {
				continue
			}
			id := n.ID
			if isRandomized(id) {
				id = seededRandomized(id.Client, 2)
			}
			cfg := peer.ClientConfig("example.com")
			cfg.OmitEmptyPsk = true
			add(n.Name, cfg, id, nil)
		}
		for _, name := range handshakeSpecNames {
			name := name
			add("custom:"+name, peer.ClientConfig("example.com"), tls.HelloCustom, func(u *tls.UConn) error { return u.ApplyPreset(handshakeSpec(name)) })
		}
		// real ECH outer hellos (the server holds the matching key)
		for _, g := range echClients() {
			cfg := g.config("secret.example")
			cfg.EncryptedClientHelloConfigList = c34ECH.ConfigList
			cfg.MinVersion = tls.VersionTLS13
			add("ech:"+g.Name, cfg, g.ID, nil)
		}
		// a hello with a PSK (resumption shape)
		add("fake-psk", peer.ClientConfig("example.com"), tls.HelloCustom, func(u *tls.UConn) error {
			sp := handshakeSpec("tls13-minimal")
			sp.Extensions = append(sp.Extensions, &tls.FakePreSharedKeyExtension{Identities: []tls.PskIdentity{{Label: rep(0x41, 64), ObfuscatedTicketAge: 3}}, Binders: [][]byte{rep(0x42, 32)}})
			return u.ApplyPreset(sp)
		})
		// spliced variants of a Chrome hello: more GREASE extensions than BoringSSL ever sends (legal:
		// RFC 8701 allows any number), and a GREASE ECH extension with a 65-byte encapsulated key
		for _, b := range c34H {
			if b.name != "HelloChrome_120" {
				continue
			}
			h, err := wire.ParseClientHello(b.msg)
			if err != nil {
				break
			}
			for n := 3; n <= 4; n++ {
				h2 := *h
				exts := append([]wire.Ext(nil), h.Exts...)
				have := 0
				for _, e := range exts {
					if wire.IsGREASE(e.Type) {
						have++
					}
				}
				last := exts[len(exts)-1]
				exts = exts[:len(exts)-1]
				for k := have; k < n; k++ {
					exts = append(exts, wire.Ext{Type: []uint16{0x3a3a, 0x4a4a, 0x5a5a, 0x6a6a}[k], Body: []byte{}})
				}
				h2.Exts = append(exts, last)
				c34H = append(c34H, srcHello{fmt.Sprintf("HelloChrome_120+%d-grease-extensions", n), rebuildHello(&h2, nil), b.sni})
			}
			if e := h.Find(0xfe0d); e != nil {
				if o, inner, err := wire.ParseECH(e.Body); err == nil && !inner {
					body := []byte{0, byte(o.KDF >> 8), byte(o.KDF), byte(o.AEAD >> 8), byte(o.AEAD), o.ConfigID, 0, 65}
					body = append(body, rep(0x04, 65)...)
					body = append(body, byte(len(o.Payload)>>8), byte(len(o.Payload)))
					body = append(body, o.Payload...)
					c34H = append(c34H, srcHello{"HelloChrome_120+ech-65-byte-key", rebuildHello(h, map[uint16][]byte{0xfe0d: body}), b.sni})
				}
			}
			break
		}
	})
	return c34H
}

// serveBytes feeds a raw client byte stream to a fresh server and reports how its Handshake ended.
func serveBytes(stream []byte, withECH bool) (err error, panicMsg string) {
	ce, se := peer.Pipe()
	scfg := peer.ServerConfig(peer.Fix().ECDSA, peer.Fix().Public)
	if withECH {
		scfg.EncryptedClientHelloKeys = []tls.EncryptedClientHelloKey{c34ECH.Key}
	}
	scfg.NextProtos = []string{"h2", "http/1.1"}
	s := tls.Server(se, scfg)
	se.Inject(stream)
	ce.SetIdle()
	func() {
		defer func() {
			if e := recover(); e != nil {
				panicMsg = fmt.Sprint(e)
			}
		}()
		err = s.Handshake()
		if err == nil {
			_, err = s.Read(make([]byte, 16))
		}
	}()
	return
}

func c34Hellos(thorough bool) *explore.Scenario {
	nvals := 3
	if thorough {
		nvals = 5
	}
	return &explore.Scenario{
		Name:     "mutated-clienthellos",
		Watchdog: 60 * time.Second, HangSig: "C34|hang",
		Run: func(x *explore.X) (r explore.Result) {
			hellos := c34Corpus()
			if len(hellos) < 40 {
				r.Violate("INFRA|c34-corpus", "only %d hellos", len(hellos))
				return
			}
			src := hellos[x.Choose("hello", len(hellos))]
			withECH := x.Choose("srv.echkeys", 2) == 1
			kind := x.Choose("kind", 4) // 0 byte value, 1 message truncated (record rebuilt), 2 extension body truncated (prefixes fixed), 3 key-share data truncated consistently
			msg := src.msg
			var mutated []byte
			desc := ""
			switch kind {
			case 0:
				ps := positionsFor(len(msg), thorough)
				pos := ps[x.Choose("pos", len(ps))]
				val := byteVals[x.Choose("val", nvals)]
				c := append([]byte(nil), msg...)
				if val == 0x01 {
					c[pos] ^= 1
				} else {
					c[pos] = val
				}
				mutated = recordOf(c)
				desc = fmt.Sprintf("byte[%d]=%#02x", pos, val)
			case 1:
				ps := positionsFor(len(msg), thorough)
				l := ps[x.Choose("pos", len(ps))]
				mutated = recordOf(msg[:l])
				desc = fmt.Sprintf("truncated-to-%d", l)
			case 2:
				h, err := wire.ParseClientHello(msg)
				if err != nil || len(h.Exts) == 0 {
					r.Obs = "n/a"
					return
				}
				ei := x.Choose("ext", len(h.Exts))
				body := h.Exts[ei].Body
				ls := positionsFor(len(body)+1, thorough)
				l := ls[x.Choose("pos", len(ls))]
				if l > len(body) {
					l = len(body)
				}
				mutated = recordOf(rebuildHello(h, map[uint16][]byte{h.Exts[ei].Type: body[:l]}))
				desc = fmt.Sprintf("extension-%d-body-truncated-to-%d/%d", h.Exts[ei].Type, l, len(body))
			case 3:
				h, err := wire.ParseClientHello(msg)
				if err != nil || h.Find(51) == nil {
					r.Obs = "n/a"
					return
				}
				ks, err := wire.ParseKeyShares(h.Find(51).Body)
				if err != nil || len(ks) == 0 {
					r.Obs = "n/a"
					return
				}
				si := x.Choose("share", len(ks))
				lens := []int{0, 1, 31, 32, 33, 64, 65, 100, 600, 1183, 1184, 1185, 1215, 1217}
				nl := lens[x.Choose("pos", len(lens))]
				var list []byte
				for i, k := range ks {
					d := k.Data
					if i == si {
						if nl <= len(d) {
							d = d[len(d)-nl:] // keep the tail (for hybrids the X25519 half sits at the end)
						} else {
							d = append(append([]byte(nil), d...), make([]byte, nl-len(d))...)
						}
					}
					list = append(list, byte(k.Group>>8), byte(k.Group), byte(len(d)>>8), byte(len(d)))
					list = append(list, d...)
				}
				body := append([]byte{byte(len(list) >> 8), byte(len(list))}, list...)
				mutated = recordOf(rebuildHello(h, map[uint16][]byte{51: body}))
				desc = fmt.Sprintf("key-share[%d](group %d)-resized-to-%d", si, ks[si].Group, nl)
			}
			what := fmt.Sprintf("%s ech-keys=%v %s", src.name, withECH, desc)
			err, pm := serveBytes(mutated, withECH)
			r.Nontrivial = true
			r.Class = what
			if pm != "" {
				r.Violate(fmt.Sprintf("C34|server-panic|kind=%d|%s", kind, errClass(fmt.Errorf("%s", pm))), "%s: the server panicked: %s", what, truncStr(pm, 400))
			}
			r.Count("server_returned", 1)
			r.Obs = fmt.Sprintf("kind%d|ech=%v|err=%s", kind, withECH, truncStr(errClass(err), 40))
			if kind == 3 {
				r.Sample = map[string]any{"case": what, "server_result": fmt.Sprint(err)}
			}
			return
		},
	}
}

// c34Flights: complete handshakes in which the CLIENT sends extra / unexpected handshake messages
// (uTLS-specific types 8 and 25, unknown types) at every position of its flight.
func c34Flights() *explore.Scenario {
	clients := c33Clients()
	extra := []uint8{8, 25, 99, 4, 24, 1, 11, 20}
	return &explore.Scenario{
		Name:     "unexpected-client-messages",
		Watchdog: 60 * time.Second, HangSig: "C34|hang",
		Run: func(x *explore.X) (r explore.Result) {
			g := clients[x.Choose("client", len(clients))]
			vers := []uint16{tls.VersionTLS13, tls.VersionTLS12}[x.Choose("version", 2)]
			clientAuth := x.Choose("srv.clientauth", 2) == 1
			et := extra[x.Choose("type", len(extra))]
			target := x.Choose("message", 5)
			before := x.Choose("before", 2) == 1
			bodyLen := []int{0, 2, 300}[x.Choose("bodylen", 3)]
			scfg := peer.ServerConfig()
			scfg.MaxVersion = vers
			if clientAuth {
				scfg.ClientAuth = tls.RequestClientCert
			}
			hk := &connHooks{}
			hit := false
			hk.Out = func(n int, t uint8, d []byte) []byte {
				if n != target {
					return d
				}
				hit = true
				e := hsMsg(et, make([]byte, bodyLen))
				if before {
					return append(e, d...)
				}
				return append(append([]byte(nil), d...), e...)
			}
			var cleanup func()
			hs := peer.Run(g.config("example.com"), g.ID, scfg, peer.Opts{Prepare: g.prepare(), Echo: true,
				OnConns: func(u *tls.UConn, s *tls.Conn) { cleanup = installHooks(u.Conn, hk) }})
			if cleanup != nil {
				cleanup()
			}
			if !hit {
				r.Obs = "no-such-client-message"
				return
			}
			what := fmt.Sprintf("%s vers=%04x clientauth=%v extra type %d (%d B) %s client message #%d", g.Name, vers, clientAuth, et, bodyLen, map[bool]string{true: "before", false: "after"}[before], target)
			r.Nontrivial = true
			r.Class = what
			if hs.SPanic != "" {
				r.Violate(fmt.Sprintf("C34|server-panic|extra-type=%d|%s", et, errClass(fmt.Errorf("%s", firstLineOf(hs.SPanic)))), "%s: the server panicked: %s", what, truncStr(hs.SPanic, 500))
			}
			r.Count("server_returned", 1)
			r.Obs = fmt.Sprintf("type%d|serr=%s", et, truncStr(errClass(hs.SErr), 40))
			return
		},
	}
}

// c34TwoHellos — the server's HelloRetryRequest state machine under crafted second hellos: the
// first ClientHello carries no usable key share (so the server answers with a HelloRetryRequest),
// the second one a fresh share, and each of the two carries one of the ECH extension shapes of a
// small menu (absent, inner marker, outer with all-zero parameters, outer GREASE-like, a real
// outer extension lifted from another hello) — every pair, with and without ECH keys on the
// server, plus the other fields a second hello may not change.
func c34TwoHellos() *explore.Scenario {
	echShapes := func() [][]byte {
		zeroOuter := append([]byte{0, 0, 0, 0, 0, 0, 0, 0}, append([]byte{0, 16}, make([]byte, 16)...)...)
		grease := append([]byte{0, 0, 1, 0, 1, 7, 0, 32}, append(rep(0x5a, 32), append([]byte{0, 144}, rep(0xa5, 144)...)...)...)
		var real []byte
		for _, h := range c34Corpus() {
			if strings.HasPrefix(h.name, "ech:") {
				if ph, err := wire.ParseClientHello(h.msg); err == nil {
					if e := ph.Find(0xfe0d); e != nil {
						real = e.Body
						break
					}
				}
			}
		}
		return [][]byte{nil, {1}, zeroOuter, grease, real}
	}
	names := []string{"absent", "inner", "outer-all-zero", "outer-grease", "outer-real"}
	return &explore.Scenario{
		Name:     "second-hello-after-retry-request",
		Watchdog: 60 * time.Second, HangSig: "C34|hang",
		Run: func(x *explore.X) (r explore.Result) {
			shapes := echShapes()
			e1 := x.Choose("ech1", len(shapes))
			e2 := x.Choose("ech2", len(shapes))
			withECH := x.Choose("srv.ech", 2) == 1
			other := x.Choose("second", 7) // 0 faithful copy, 1 other random, 2 other suites, 3 share for an unrequested group, 4/5/6 ALPN list longer / appearing / shorter in the second hello
			var base *wire.Hello
			for _, h := range c34Corpus() {
				if h.name == "custom:tls13-minimal" {
					base, _ = wire.ParseClientHello(h.msg)
				}
			}
			if base == nil || base.Find(51) == nil {
				r.Violate("INFRA|c34-base-hello", "no base hello")
				return
			}
			withExt := func(h *wire.Hello, typ uint16, body []byte) *wire.Hello {
				c := *h
				c.Exts = nil
				for _, e := range h.Exts {
					if e.Type != typ {
						c.Exts = append(c.Exts, e)
					}
				}
				if body != nil {
					c.Exts = append(c.Exts, wire.Ext{Type: typ, Body: body})
				}
				return &c
			}
			share := func(group uint16, n int) []byte {
				b := []byte{byte((4 + n) >> 8), byte(4 + n), byte(group >> 8), byte(group), byte(n >> 8), byte(n)}
				return append(b, rep(9, n)...)
			}
			h1 := withExt(withExt(base, 51, []byte{0, 0}), 0xfe0d, shapes[e1])
			h2 := withExt(withExt(base, 51, share(29, 32)), 0xfe0d, shapes[e2])
			switch other {
			case 1:
				c := *h2
				c.Random = rep(0x77, 32)
				h2 = &c
			case 2:
				c := *h2
				c.Suites = []uint16{tls.TLS_CHACHA20_POLY1305_SHA256}
				h2 = &c
			case 3:
				h2 = withExt(h2, 51, share(23, 65))
			case 4:
				h1 = withExt(h1, 16, alpnListBody("h2"))
				h2 = withExt(h2, 16, alpnListBody("h2", "http/1.1", "spdy/3"))
			case 5:
				h1 = withExt(h1, 16, nil)
				h2 = withExt(h2, 16, alpnListBody("h2"))
			case 6:
				h1 = withExt(h1, 16, alpnListBody("h2", "http/1.1"))
				h2 = withExt(h2, 16, alpnListBody("h2"))
			}
			stream := append(recordOf(rebuildHello(h1, nil)), []byte{20, 3, 3, 0, 1, 1}...)
			rec2 := recordOf(rebuildHello(h2, nil))
			rec2[2] = 3 // the second flight travels in TLS 1.2-versioned records
			stream = append(stream, rec2...)
			what := fmt.Sprintf("hello1 ech=%s, hello2 ech=%s variation=%d, server ech keys=%v", names[e1], names[e2], other, withECH)
			err, pm := serveBytes(stream, withECH)
			r.Nontrivial = true
			if pm != "" {
				r.Violate(fmt.Sprintf("C34|server-panic|two-hellos|ech1=%s|ech2=%s|%s", names[e1], names[e2], errClass(fmt.Errorf("%s", firstLineOf(pm)))), "%s: the server panicked: %s", what, truncStr(pm, 400))
			}
			r.Count("server_returned", 1)
			r.Obs = "serr=" + truncStr(errClass(err), 70)
			r.Class = what + "|" + r.Obs
			if e1 == e2 || e1 == 1 {
				r.Sample = map[string]any{"case": what, "server_error": fmt.Sprint(err)}
			}
			return
		},
	}
}

// c34SealedInner — correctly sealed ECH payloads around hostile inner hellos. A byte edit of a
// recorded ECH hello breaks the HPKE tag and the server falls back to the outer hello; to reach
// the code that decodes an accepted inner hello the harness seals its own: the inner ClientHello
// is assembled here (ech_outer_extensions references, padding, inner marker drawn from small
// menus), encoded as EncodedClientHelloInner, and encrypted for the server's key with the outer
// hello as associated data, exactly as a client would.
func c34SealedInner() *explore.Scenario {
	refMenu := []struct {
		name string
		refs []uint16
		raw  []byte // if set, the literal ech_outer_extensions body
	}{
		{"none", nil, nil},
		{"valid[10,13]", []uint16{10, 13}, nil},
		{"absent-type", []uint16{10, 0x1234}, nil},
		{"out-of-order[13,10]", []uint16{13, 10}, nil},
		{"duplicate[10,10]", []uint16{10, 10}, nil},
		{"the-ech-extension-itself", []uint16{0xfe0d}, nil},
		{"every-outer-type", []uint16{0xffff}, nil}, // expanded below
		{"empty-list", nil, []byte{0}},
		{"odd-length-list", nil, []byte{3, 0, 10, 0}},
		{"length-beyond-body", nil, []byte{200, 0, 10}},
	}
	return &explore.Scenario{
		Name:     "sealed-ech-with-hostile-inner-hello",
		Watchdog: 60 * time.Second, HangSig: "C34|hang",
		Run: func(x *explore.X) (r explore.Result) {
			var base *wire.Hello
			for _, h := range c34Corpus() {
				if h.name == "custom:tls13-minimal" {
					base, _ = wire.ParseClientHello(h.msg)
				}
			}
			if base == nil {
				r.Violate("INFRA|c34-base-hello", "no base hello")
				return
			}
			rm := refMenu[x.Choose("outer-refs", len(refMenu))]
			pad := x.Choose("padding", 3)      // 0 none, 1 31 zero bytes, 2 a non-zero padding byte
			marker := x.Choose("inner-ech", 3) // 0 inner marker, 1 absent, 2 an outer-type extension inside the inner hello
			trunc := x.Choose("truncate", 3)   // 0 intact, 1 encoded inner cut in the middle, 2 cut to 10 bytes
			twice := x.Choose("refs-twice", 2) == 1
			what := fmt.Sprintf("outer-refs=%s padding=%d inner-ech=%d truncate=%d refs-twice=%v", rm.name, pad, marker, trunc, twice)
			sealer, err := tls.VerifNewECHSealer(c34ECH.ConfigList)
			if err != nil {
				r.Violate("INFRA|c34-sealer", "%v", err)
				return
			}
			sni := func(name string) []byte {
				b := []byte{0, byte(len(name) + 3), 0, 0, byte(len(name))}
				return append(b, name...)
			}
			// outer hello: the base with the public name and an outer ECH extension
			outer := *base
			outer.Exts = nil
			for _, e := range base.Exts {
				if e.Type == 0 {
					e = wire.Ext{Type: 0, Body: sni("public.example")}
				}
				outer.Exts = append(outer.Exts, e)
			}
			refs := rm.refs
			if len(refs) == 1 && refs[0] == 0xffff {
				refs = nil
				for _, e := range outer.Exts {
					refs = append(refs, e.Type)
				}
			}
			// inner hello
			inner := *base
			inner.SessionID = nil
			inner.Exts = nil
			refBody := rm.raw
			if refBody == nil && refs != nil {
				refBody = []byte{byte(2 * len(refs))}
				for _, t := range refs {
					refBody = append(refBody, byte(t>>8), byte(t))
				}
			}
			inserted := false
			isRef := func(t uint16) bool {
				for _, x := range refs {
					if x == t {
						return true
					}
				}
				return false
			}
			for _, e := range base.Exts {
				if e.Type == 0 {
					e = wire.Ext{Type: 0, Body: sni("secret.example")}
				}
				if e.Type == 43 {
					e = wire.Ext{Type: 43, Body: []byte{2, 3, 4}} // an inner hello offers TLS 1.3 only
				}
				if refBody != nil && (isRef(e.Type) || (rm.raw != nil && e.Type == 10)) {
					if !inserted {
						inserted = true
						inner.Exts = append(inner.Exts, wire.Ext{Type: 0xfd00, Body: refBody})
					}
					continue
				}
				inner.Exts = append(inner.Exts, e)
			}
			if refBody != nil && !inserted {
				inner.Exts = append(inner.Exts, wire.Ext{Type: 0xfd00, Body: refBody})
			}
			if twice && refBody != nil {
				inner.Exts = append(inner.Exts, wire.Ext{Type: 0xfd00, Body: refBody})
			}
			switch marker {
			case 0:
				inner.Exts = append(inner.Exts, wire.Ext{Type: 0xfe0d, Body: []byte{1}})
			case 2:
				inner.Exts = append(inner.Exts, wire.Ext{Type: 0xfe0d, Body: append([]byte{0, 0, 1, 0, 1, 7, 0, 0}, 0, 0)})
			}
			encoded := rebuildHello(&inner, nil)[4:]
			switch pad {
			case 1:
				encoded = append(encoded, make([]byte, 31)...)
			case 2:
				encoded = append(encoded, 0, 0, 7, 0)
			}
			switch trunc {
			case 1:
				encoded = encoded[:len(encoded)/2]
			case 2:
				encoded = encoded[:10]
			}
			echBody := func(payload []byte) []byte {
				b := []byte{0, byte(sealer.KDF >> 8), byte(sealer.KDF), byte(sealer.AEAD >> 8), byte(sealer.AEAD), sealer.ConfigID, byte(len(sealer.Enc) >> 8), byte(len(sealer.Enc))}
				b = append(b, sealer.Enc...)
				b = append(b, byte(len(payload)>>8), byte(len(payload)))
				return append(b, payload...)
			}
			withECH := func(payload []byte) []byte {
				o := outer
				o.Exts = append(append([]wire.Ext(nil), outer.Exts...), wire.Ext{Type: 0xfe0d, Body: echBody(payload)})
				return rebuildHello(&o, nil)
			}
			aad := withECH(make([]byte, len(encoded)+16))[4:]
			ct, err := sealer.Seal(aad, encoded)
			if err != nil {
				r.Violate("INFRA|c34-seal", "%v", err)
				return
			}
			serr, pm := serveBytes(recordOf(withECH(ct)), true)
			r.Nontrivial = true
			if pm != "" {
				r.Violate(fmt.Sprintf("C34|server-panic|sealed-inner|refs=%s|%s", rm.name, errClass(fmt.Errorf("%s", firstLineOf(pm)))), "%s: the server panicked on a correctly sealed ECH payload: %s", what, truncStr(pm, 400))
			}
			r.Count("server_returned", 1)
			if serr != nil && strings.Contains(serr.Error(), "stalled") {
				r.Count("sealed_inner_accepted", 1) // the server went on with the inner hello and waits for the client
			}
			r.Obs = "serr=" + truncStr(errClass(serr), 70)
			r.Class = what + "|" + r.Obs
			if os.Getenv("C34_DEBUG") != "" && trunc == 0 && !twice && marker == 0 {
				fmt.Fprintf(os.Stderr, "C34DEBUG %s => %v\n", what, serr)
			}
			return
		},
	}
}

func c34Scenarios(thorough bool) []*explore.Scenario {
	return []*explore.Scenario{c34Hellos(thorough), c34Flights(), c34TwoHellos(), c34SealedInner(), c34ShortProtectedRecords(), c34PSKShapes(), c34KeyUpdateReplyFails(), c34OversizedInnerPlaintext()}
}

func init() {
	register(&Prop{ID: "C34", Level: "exploration", Variant: "A", Scenarios: c34Scenarios,
		Run: func(c *explore.Check, thorough bool) {
			c.Rule = "ClientHello of every discovered ID, custom specs, real-ECH outer hellos (server holding the matching key) and a PSK hello x server {with, without ECH keys} x mutation {every byte position (all for <= 300 B, else head/stride/tail) x values {00, ff, ^01 (+7f, 80)}, truncation to every such length, every extension body truncated to every length with all outer prefixes fixed, every key share resized to {0,1,31,32,33,64,65,100,600,1183,1184,1185,1215,1217} bytes with consistent prefixes}; complete flights of 6 clients x {1.3,1.2} x client auth in which the client inserts an extra handshake message of type {8,25,99,4,24,1,11,20} with 0/2/300-byte body before/after each of its own messages (client-side verif hook); two-hello inputs: a first hello without a usable share (forcing a HelloRetryRequest) and a second hello, each carrying one of 5 ECH extension shapes {absent, inner marker, outer all-zero, outer GREASE-like, real outer} x 4 second-hello variations x server with/without ECH keys; correctly HPKE-sealed ECH payloads around inner hellos assembled by the harness: 10 ech_outer_extensions shapes x 3 paddings x 3 inner ECH markers x 3 truncations x {once, twice}; every TLS <= 1.2 suite of the server's table (stream, CBC, AEAD; RSA and ECDHE key exchange) x every version it exists in x record type {handshake, application data, alert} x every record length 0..80 sent right after a scripted ClientHello, ClientKeyExchange and ChangeCipherSpec; a returning client's second ClientHello (genuine ticket of this server) with 6 identity-list shapes (junk before / after / around the ticket) x 0..3 binders x 2 binder lengths; an established TLS 1.3 connection on which 3 clients send KeyUpdate {plain, update_requested} followed by data while the server transport {works, fails every write}: the server Read and a following Close return; one correctly protected TLS 1.3 record whose inner plaintext is {16385 (legal), 16386 … 16624} bytes of content and padding: delivered, respectively refused with an error. Oracle: server Handshake/Read return without panic (watchdog 60 s). distinct = case"
			c.Assumptions = []string{"small-scope: one mutation per execution from a fixed menu", "QUIC server input is not covered"}
			runAll(c, c34Scenarios(thorough), 0)
			c.Gate(c.Total.Counters["server_returned"] > 50000, "non-vacuity: %d server runs", c.Total.Counters["server_returned"])
		}})
}

// c34ShortProtectedRecords — the first records a client sends under the new keys, for every
// TLS <= 1.2 suite of the server's table (stream, CBC and AEAD families, RSA and ECDHE key
// exchange) at every version the suite exists in: after a scripted ClientHello, ClientKeyExchange
// and ChangeCipherSpec the client sends one "protected" record of every small length (0..80: below,
// at and above MAC, block, explicit-IV and tag sizes). The server must answer with an error
// (bad_record_mac or similar), never with a panic.
func c34ShortProtectedRecords() *explore.Scenario {
	type suiteT struct {
		id   uint16
		name string
		vers []uint16
	}
	var suites []suiteT
	for _, cs := range append(tls.CipherSuites(), tls.InsecureCipherSuites()...) {
		var vs []uint16
		for _, v := range cs.SupportedVersions {
			if v != tls.VersionTLS13 {
				vs = append(vs, v)
			}
		}
		if len(vs) > 0 {
			suites = append(suites, suiteT{cs.ID, cs.Name, vs})
		}
	}
	rsaLen := 256
	if k, ok := peer.Fix().RSA.Leaf.PublicKey.(*rsa.PublicKey); ok {
		rsaLen = (k.N.BitLen() + 7) / 8
	}
	ext := func(t uint16, b []byte) []byte {
		return append([]byte{byte(t >> 8), byte(t), byte(len(b) >> 8), byte(len(b))}, b...)
	}
	return &explore.Scenario{
		Name:     "short-records-after-change-cipher-spec",
		Watchdog: 60 * time.Second, HangSig: "C34|hang",
		Run: func(x *explore.X) (r explore.Result) {
			s := suites[x.Choose("suite", len(suites))]
			versions := []uint16{tls.VersionTLS12, tls.VersionTLS11, tls.VersionTLS10}
			vers := versions[x.Choose("version", 3)]
			ok := false
			for _, v := range s.vers {
				if v == vers {
					ok = true
				}
			}
			if !ok {
				r.Obs = "suite-not-in-version"
				return
			}
			typ := []byte{22, 23, 21}[x.Choose("type", 3)]
			// hello
			var exts []byte
			exts = append(exts, ext(10, []byte{0, 4, 0, 29, 0, 23})...)
			exts = append(exts, ext(11, []byte{1, 0})...)
			exts = append(exts, ext(13, []byte{0, 10, 4, 3, 8, 4, 4, 1, 2, 3, 2, 1})...)
			exts = append(exts, ext(0xff01, []byte{0})...)
			body := []byte{byte(vers >> 8), byte(vers)}
			body = append(body, rep(0x11, 32)...)
			body = append(body, 0)
			body = append(body, 0, 2, byte(s.id>>8), byte(s.id))
			body = append(body, 1, 0)
			body = append(body, byte(len(exts)>>8), byte(len(exts)))
			body = append(body, exts...)
			rec := func(t byte, p []byte) []byte {
				return append([]byte{t, byte(vers >> 8), byte(vers), byte(len(p) >> 8), byte(len(p))}, p...)
			}
			var cke []byte
			if strings.HasPrefix(s.name, "TLS_RSA_") {
				cke = append([]byte{byte(rsaLen >> 8), byte(rsaLen)}, rep(0x42, rsaLen)...)
				cke[2] = 0 // a value below the modulus
			} else {
				cke = append([]byte{32}, append([]byte{9}, make([]byte, 31)...)...) // X25519 base point
			}
			base := append(recordOf(hsMsg(1, body)), rec(22, hsMsg(16, cke))...)
			base[1], base[2] = 3, 1
			base = append(base, rec(20, []byte{1})...)
			viol := 0
			var seen []string
			for l := 0; l <= 80; l++ {
				stream := append(append([]byte{}, base...), rec(typ, rep(byte(0xa0+l%7), l))...)
				ce, se := peer.Pipe()
				scfg := peer.ServerConfig(peer.Fix().ECDSA, peer.Fix().RSA)
				scfg.MinVersion = tls.VersionTLS10
				scfg.MaxVersion = vers
				scfg.CipherSuites = []uint16{s.id}
				srv := tls.Server(se, scfg)
				se.Inject(stream)
				ce.SetIdle()
				var err error
				pm := catch(func() {
					err = srv.Handshake()
					if err == nil {
						_, err = srv.Read(make([]byte, 16))
					}
				})
				x.Transitions++
				if pm != "" {
					viol++
					if viol <= 2 {
						r.Violate(fmt.Sprintf("C34|server-panic|short-protected-record|%s|%s", map[bool]string{true: "stream-or-cbc", false: "aead"}[!strings.Contains(s.name, "GCM") && !strings.Contains(s.name, "CHACHA")], errClass(fmt.Errorf("%s", firstLineOf(pm)))),
							"suite %s vers %04x: a type-%d record of %d bytes right after ChangeCipherSpec makes the server panic: %s", s.name, vers, typ, l, truncStr(pm, 300))
					}
				}
				if err == nil {
					r.Violate("C34|short-protected-record-accepted", "suite %s vers %04x: a %d-byte garbage record was accepted", s.name, vers, l)
				}
				e := truncStr(errClass(err), 40)
				if len(seen) == 0 || seen[len(seen)-1] != e {
					seen = append(seen, e)
				}
				r.Count("short_records_served", 1)
				if err != nil && strings.Contains(err.Error(), "bad record MAC") {
					r.Count("short_records_reached_the_cipher", 1)
				}
			}
			r.Nontrivial = true
			r.Class = fmt.Sprintf("%s|%04x|%d", s.name, vers, typ)
			r.Obs = strings.Join(seen, ">")
			return
		},
	}
}

// c34PSKShapes — a returning client: after an honest first TLS 1.3 connection the client holds a
// genuine ticket of this very server. Its second ClientHello is re-assembled with every shape of
// the pre_shared_key extension from a small menu: identity lists that put junk before / after /
// around the genuine ticket x binder lists of 0..3 entries (32 or 48 bytes). The server may refuse
// or fall back to a full handshake, it may not panic.
func c34PSKShapes() *explore.Scenario {
	var (
		once  sync.Once
		base  *wire.Hello
		ident []byte
		gate  string
	)
	prepare := func() {
		cfg := peer.ClientConfig("example.com")
		cfg.ClientSessionCache = tls.NewLRUClientSessionCache(4)
		scfg := peer.ServerConfig(peer.Fix().ECDSA, peer.Fix().Public)
		scfg.NextProtos = []string{"h2", "http/1.1"}
		if w := peer.Run(cfg, tls.HelloGolang, scfg, peer.Opts{Echo: true}); !(w.OK() && w.EchoOK) {
			gate = fmt.Sprintf("first connection failed: %v / %v", w.CErr, w.SErr)
			return
		}
		stream, _, _, _ := firstFlight(cfg, tls.HelloGolang, nil)
		msg, _, err := wire.FirstFlightHello(stream)
		if err != nil {
			gate = "no second hello: " + err.Error()
			return
		}
		h, err := wire.ParseClientHello(msg)
		if err != nil || h.Find(41) == nil {
			gate = "the second hello carries no pre_shared_key extension"
			return
		}
		p, err := wire.ParsePSK(h.Find(41).Body)
		if err != nil || len(p.Identities) != 1 {
			gate = "unexpected pre_shared_key shape"
			return
		}
		base, ident = h, p.Identities[0]
	}
	idShapes := []string{"real", "junk,real", "real,junk", "junk,junk,real", "junk", "real,real"}
	return &explore.Scenario{
		Name:     "returning-client-pre-shared-key-shapes",
		Watchdog: 60 * time.Second, HangSig: "C34|hang",
		Run: func(x *explore.X) (r explore.Result) {
			once.Do(prepare)
			if gate != "" {
				r.Violate("INFRA|c34-psk-material", "%s", gate)
				return
			}
			ids := idShapes[x.Choose("identities", len(idShapes))]
			nb := x.Choose("binders", 4)
			blen := []int{32, 48}[x.Choose("binder-length", 2)]
			var idv, bv []byte
			for _, k := range strings.Split(ids, ",") {
				id := ident
				if k == "junk" {
					id = rep(0x6a, 40)
				}
				idv = append(idv, byte(len(id)>>8), byte(len(id)))
				idv = append(idv, id...)
				idv = append(idv, 0, 0, 0, 9)
			}
			for i := 0; i < nb; i++ {
				bv = append(bv, byte(blen))
				bv = append(bv, rep(byte(0xb0+i), blen)...)
			}
			body := append([]byte{byte(len(idv) >> 8), byte(len(idv))}, idv...)
			body = append(body, byte(len(bv)>>8), byte(len(bv)))
			body = append(body, bv...)
			what := fmt.Sprintf("identities [%s], %d binder(s) of %d bytes", ids, nb, blen)
			stream := recordOf(rebuildHello(base, map[uint16][]byte{41: body}))
			err, pm := serveBytes(stream, false)
			r.Nontrivial = true
			r.Class = what
			if pm != "" {
				r.Violate("C34|server-panic|psk-shape|"+errClass(fmt.Errorf("%s", firstLineOf(pm))), "%s: the server panicked: %s", what, truncStr(pm, 400))
			}
			r.Count("psk_shapes_served", 1)
			r.Obs = "serr=" + truncStr(errClass(err), 60)
			return
		},
	}
}

func alpnListBody(protos ...string) []byte {
	var l []byte
	for _, p := range protos {
		l = append(l, byte(len(p)))
		l = append(l, p...)
	}
	return append([]byte{byte(len(l) >> 8), byte(len(l))}, l...)
}

// c34KeyUpdateReplyFails — an established TLS 1.3 connection; the client sends KeyUpdate(update_requested)
// and then data, while the server's transport has started to fail writes (the client reset the connection
// or stopped reading). The server's Read must return — the data, or an error — and a later Close must return.
func c34KeyUpdateReplyFails() *explore.Scenario {
	ids := []tls.ClientHelloID{tls.HelloGolang, tls.HelloChrome_Auto, tls.HelloFirefox_Auto}
	return &explore.Scenario{
		Name:     "key-update-reply-cannot-be-written",
		Watchdog: 30 * time.Second, HangSig: "C34|hang|key-update-reply-write-fails",
		Run: func(x *explore.X) (r explore.Result) {
			id := ids[x.Choose("client", len(ids))]
			requested := x.Choose("update-requested", 2) == 1
			failing := x.Choose("server-writes-fail", 2) == 1
			what := fmt.Sprintf("%s: client KeyUpdate(update_requested=%v) then 5 bytes; server transport writes fail=%v", id.Client, requested, failing)
			ready, finished := make(chan struct{}), make(chan struct{})
			buf := make([]byte, 16)
			var n int
			var err, cerr error
			var spanic string
			hs := peer.Run(peer.ClientConfig("example.com"), id, peer.ServerConfig(), peer.Opts{KeepOpen: true,
				ServerAfter: func(s *tls.Conn) error {
					defer close(finished)
					<-ready
					spanic = catch(func() {
						n, err = s.Read(buf)
						cerr = s.Close()
					})
					return nil
				}})
			defer hs.Finish()
			if !hs.OK() || hs.S.ConnectionState().Version != tls.VersionTLS13 {
				close(ready)
				r.Obs = "no-tls13-handshake"
				return
			}
			r.Nontrivial = true
			r.Class = what
			hs.SE.FailWrites = failing
			if e := tls.VerifSendKeyUpdate(hs.U.Conn, requested); e != nil {
				close(ready)
				r.Violate("INFRA|c34-keyupdate", "%s: %v", what, e)
				return
			}
			if _, e := hs.U.Write([]byte("hello")); e != nil {
				close(ready)
				r.Violate("INFRA|c34-write", "%s: %v", what, e)
				return
			}
			close(ready)
			<-finished // a server call that never returns is reported by the scenario's watchdog
			if spanic != "" {
				r.Violate("C34|server-panic|key-update", "%s: %s", what, truncStr(spanic, 300))
				return
			}
			if err == nil && string(buf[:n]) != "hello" {
				r.Violate("C34|key-update|data-differs", "%s: server read %q", what, buf[:n])
			}
			r.Obs = fmt.Sprintf("read=%d/%s|close=%s", n, errClass(err), errClass(cerr))
			return
		},
	}
}

// c34OversizedInnerPlaintext — a client holding the record keys sends ONE correctly protected TLS 1.3
// record whose inner plaintext exceeds 2^14+1 bytes while the outer record still passes the ciphertext
// limit (content of 16385..16623 bytes, or shorter content plus padding). The server's Read must return
// an error (record_overflow), not panic.
func c34OversizedInnerPlaintext() *explore.Scenario {
	ids := []tls.ClientHelloID{tls.HelloGolang, tls.HelloChrome_Auto}
	shapes := [][2]int{{16384, 0}, {16385, 0}, {16386, 0}, {16500, 0}, {16623, 0}, {100, 16300}, {16000, 500}}
	return &explore.Scenario{
		Name:     "oversized-inner-plaintext-under-real-keys",
		Watchdog: 30 * time.Second, HangSig: "C34|hang|oversized-inner-plaintext",
		Run: func(x *explore.X) (r explore.Result) {
			id := ids[x.Choose("client", len(ids))]
			sh := shapes[x.Choose("shape", len(shapes))]
			what := fmt.Sprintf("%s: one protected record with %d content bytes and %d padding bytes", id.Client, sh[0], sh[1])
			ready, finished := make(chan struct{}), make(chan struct{})
			buf := make([]byte, 20000)
			var n int
			var err error
			var spanic string
			hs := peer.Run(peer.ClientConfig("example.com"), id, peer.ServerConfig(), peer.Opts{KeepOpen: true,
				ServerAfter: func(s *tls.Conn) error {
					defer close(finished)
					<-ready
					spanic = catch(func() { n, err = io.ReadFull(s, buf[:sh[0]]) })
					return nil
				}})
			defer hs.Finish()
			if !hs.OK() || hs.S.ConnectionState().Version != tls.VersionTLS13 {
				close(ready)
				r.Obs = "no-tls13-handshake"
				return
			}
			r.Nontrivial = true
			r.Class = what
			werr := tls.VerifWriteTLS13PaddedRecord(hs.U.Conn, payload(sh[0], 0x11), sh[1])
			hs.CE.Close() // nothing more will come: a server that waits for more data sees EOF
			close(ready)
			<-finished
			if werr != nil {
				r.Violate("INFRA|c34-oversized-write", "%s: %v", what, werr)
				return
			}
			if spanic != "" {
				r.Violate("C34|server-panic|oversized-inner-plaintext|"+errClass(fmt.Errorf("%s", firstLineOf(spanic))), "%s: %s", what, truncStr(spanic, 400))
				return
			}
			legal := sh[0]+1+sh[1] <= 16385
			if legal && (err != nil || n != sh[0]) {
				r.Violate("C34|legal-full-record-refused", "%s: read %d bytes, %v", what, n, err)
			}
			if !legal && err == nil {
				r.Violate("C34|oversized-inner-plaintext-accepted", "%s: the server delivered %d bytes", what, n)
			}
			r.Obs = fmt.Sprintf("legal=%v|err=%s", legal, errClass(err))
			return
		},
	}
}
