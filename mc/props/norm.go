package props

import (
	"fmt"
	"strings"

	"verifmc/wire"
)

// normHello renders a parsed hello with GREASE values replaced by a placeholder and every
// per-connection part (random, session id, key-share keys, SNI value, ticket, PSK identities and
// binders, ECH-GREASE bytes, padding length) masked, keeping sizes where the properties say so.
type normOpts struct {
	keepSizes bool // keep sizes of masked parts (C06 "per-connection parts of equal size")
}

func norm16(b []byte, prefix int) string {
	var p []string
	for i := prefix; i+1 < len(b); i += 2 {
		v := uint16(b[i])<<8 | uint16(b[i+1])
		if wire.IsGREASE(v) {
			p = append(p, "G")
		} else {
			p = append(p, fmt.Sprintf("%04x", v))
		}
	}
	return strings.Join(p, ",")
}

func normExt(e wire.Ext, o normOpts) string {
	t := fmt.Sprintf("%d", e.Type)
	if wire.IsGREASE(e.Type) {
		return fmt.Sprintf("G[%x]", e.Body)
	}
	size := func(n int) string {
		if o.keepSizes {
			return fmt.Sprint(n)
		}
		return "*"
	}
	switch e.Type {
	case 0:
		return t + "[sni:" + size(len(e.Body)) + "]"
	case 10, 13, 50, 34:
		return t + "[" + norm16(e.Body, 2) + "]"
	case 43, 27:
		return t + "[" + norm16(e.Body, 1) + "]"
	case 21:
		return t + "[padding]"
	case 35:
		return t + "[ticket:" + size(len(e.Body)) + "]"
	case 41:
		return t + "[psk:" + size(len(e.Body)) + "]"
	case 51:
		ks, err := wire.ParseKeyShares(e.Body)
		if err != nil {
			return t + fmt.Sprintf("[unparsable %x]", e.Body)
		}
		var p []string
		for _, k := range ks {
			if wire.IsGREASE(k.Group) {
				p = append(p, fmt.Sprintf("G:%d", len(k.Data)))
			} else {
				p = append(p, fmt.Sprintf("%d:%d", k.Group, len(k.Data)))
			}
		}
		return t + "[" + strings.Join(p, ",") + "]"
	case 0xfe0d:
		oe, inner, err := wire.ParseECH(e.Body)
		if err != nil || inner || oe == nil {
			return t + fmt.Sprintf("[%x]", e.Body)
		}
		return t + fmt.Sprintf("[ech kdf=%d aead=%d enc=%d payload=%s]", oe.KDF, oe.AEAD, len(oe.Enc), size(len(oe.Payload)))
	}
	return t + fmt.Sprintf("[%x]", e.Body)
}

func normHello(h *wire.Hello, o normOpts) string {
	var b strings.Builder
	fmt.Fprintf(&b, "v=%04x sid=%d suites=", h.LegacyVersion, len(h.SessionID))
	for _, s := range h.Suites {
		if wire.IsGREASE(s) {
			b.WriteString("G,")
		} else {
			fmt.Fprintf(&b, "%04x,", s)
		}
	}
	fmt.Fprintf(&b, " comp=%x exts=", h.Compression)
	for _, e := range h.Exts {
		b.WriteString(normExt(e, o))
		b.WriteByte(' ')
	}
	return b.String()
}

// firstDiff points at the first differing token of two normalised hellos.
func firstDiff(a, b string) string {
	ta, tb := strings.Fields(a), strings.Fields(b)
	for i := 0; i < len(ta) && i < len(tb); i++ {
		if ta[i] != tb[i] {
			return fmt.Sprintf("token %d: %s vs %s", i, truncStr(ta[i], 120), truncStr(tb[i], 120))
		}
	}
	return fmt.Sprintf("token count %d vs %d", len(ta), len(tb))
}
