package props

import (
	"bytes"
	"fmt"
	"strings"
	"sync"
	"time"

	tls "github.com/refraction-networking/utls"

	"verifmc/explore"
	"verifmc/peer"
	"verifmc/wire"
)

// C19 — session resumption works and never breaks the next handshake.

// recCache wraps the LRU cache and records which tickets were stored under which key.
type recCache struct {
	inner   tls.ClientSessionCache
	mu      sync.Mutex
	tickets map[string][][]byte
}

func newRecCache() *recCache {
	return &recCache{inner: tls.NewLRUClientSessionCache(16), tickets: map[string][][]byte{}}
}
func (c *recCache) Get(k string) (*tls.ClientSessionState, bool) { return c.inner.Get(k) }
func (c *recCache) Put(k string, s *tls.ClientSessionState) {
	if s != nil {
		if t, _, err := s.ResumptionState(); err == nil && len(t) > 0 {
			c.mu.Lock()
			c.tickets[k] = append(c.tickets[k], append([]byte(nil), t...))
			c.mu.Unlock()
		}
	}
	c.inner.Put(k, s)
}

type c19Parrot struct {
	name   string
	client gridClient
	tkt12  bool // spec carries session_ticket
	psk13  bool // spec carries pre_shared_key (or is Golang)
	ems    bool
}

func c19Parrots() []c19Parrot {
	byName := map[string]tls.ClientHelloID{}
	for _, n := range AllIDs() {
		byName[n.Name] = n.ID
	}
	mk := func(name string) c19Parrot {
		id := byName[name]
		p := c19Parrot{name: name, client: gridClient{Name: name, ID: id, PSK: !isGolang(id) && specHasPSK(id)}, ems: true}
		if isGolang(id) {
			p.tkt12, p.psk13 = true, true
			return p
		}
		sp, _ := tls.UTLSIdToSpec(id)
		p.ems = false
		for _, e := range sp.Extensions {
			switch e.(type) {
			case tls.ISessionTicketExtension:
				p.tkt12 = true
			case tls.PreSharedKeyExtension:
				p.psk13 = true
			case *tls.ExtendedMasterSecretExtension:
				p.ems = true
			}
		}
		return p
	}
	custom := func(name, base string, ems bool) c19Parrot {
		return c19Parrot{name: name, tkt12: true, ems: ems, client: gridClient{Name: name, ID: tls.HelloCustom, Spec: func() (*tls.ClientHelloSpec, error) {
			sp := handshakeSpec(base)
			sp.Extensions = append(sp.Extensions, &tls.SessionTicketExtension{})
			return sp, nil
		}}}
	}
	return []c19Parrot{mk("HelloChrome_100"), mk("HelloChrome_100_PSK"), mk("HelloChrome_112_PSK_Shuf"), mk("HelloFirefox_120"), mk("HelloGolang"),
		custom("custom-tls12-ems", "tls12-only", true), custom("custom-tls12-no-ems", "tls12-no-ems", false)}
}

type c19Step struct {
	parrot int
	server int // 0 TLS 1.2, 1 TLS 1.3, 2 TLS 1.3 answering with an HRR
	name   int
	late   bool // the clock has advanced past the ticket lifetime before this step
}

type cachedRef struct {
	parrot  int
	vers    uint16
	created time.Time
	ems     bool
}

func c19Scenario(name string, depth int, howAxis bool) *explore.Scenario {
	parrots := c19Parrots()
	names := []string{"a.example", "b.example"}
	nServers := 3
	if howAxis {
		nServers = 4 // + a TLS 1.3 server forced (verif hook) to another suite of the same hash
	}
	return &explore.Scenario{
		Name: name,
		// steps after the second may deviate from "repeat the previous step" in at most 2 axes
		Budget: map[string]int{"later": 2},
		Run: func(x *explore.X) (r explore.Result) {
			cache := newRecCache()
			now := peer.Now
			clock := func() time.Time { return now }
			ref := map[string]*cachedRef{}
			var hist []string
			var failedOffers [][]byte
			var prev c19Step
			for k := 0; k < depth; k++ {
				var st c19Step
				if k < 2 {
					st.parrot = x.Choose("step.parrot", len(parrots))
					st.server = x.Choose("step.server", nServers)
					st.name = x.Choose("step.name", 2)
					st.late = k > 0 && x.Choose("step.late", 2) == 1
				} else {
					// default: same as the previous step; deviations are budgeted
					st = prev
					st.late = false
					if d := x.Choose("later.parrot", len(parrots)); d != 0 {
						st.parrot = (prev.parrot + d) % len(parrots)
					}
					if d := x.Choose("later.server", 3); d != 0 {
						st.server = (prev.server + d) % 3
					}
					if x.Choose("later.name", 2) == 1 {
						st.name = 1 - prev.name
					}
					st.late = x.Choose("later.late", 2) == 1
				}
				prev = st
				p := parrots[st.parrot]
				name := names[st.name]
				if st.late {
					now = now.Add(8 * 24 * time.Hour)
				} else {
					now = now.Add(time.Minute)
				}
				vers := uint16(tls.VersionTLS12)
				if st.server > 0 {
					vers = tls.VersionTLS13
				}
				hist = append(hist, fmt.Sprintf("%s->%s@%s%s", p.name, []string{"tls12", "tls13", "tls13-hrr", "tls13-chacha-forced"}[st.server], name, map[bool]string{true: "+8d", false: ""}[st.late]))
				x.Transitions++
				ccfg := p.client.config(name)
				ccfg.ClientSessionCache = cache
				ccfg.Time = clock
				ccfg.OmitEmptyPsk = true
				// which versions does this client offer at all
				h0, err := p.client.probeHello()
				if err != nil {
					r.Obs = "no-hello"
					return
				}
				o := offerOf(h0)
				if !has16(o.versions, vers) {
					r.Obs = "version-not-offered:" + strings.Join(hist, " ")
					return
				}
				scfg := peer.ServerConfig()
				scfg.MaxVersion = vers
				scfg.Time = clock
				if !offersCert(o, "ecdsa") {
					scfg = peer.ServerConfig(peer.Fix().RSA)
					scfg.MaxVersion, scfg.Time = vers, clock
				}
				var suiteHook *connHooks
				if st.server == 3 {
					// the server's TLS 1.3 suite choice changed since the session was issued (same hash:
					// the PSK stays usable, RFC 8446 4.2.11)
					if !has16(offerSuites(h0), tls.TLS_CHACHA20_POLY1305_SHA256) {
						r.Obs = "chacha-not-offered"
						return
					}
					suiteHook = &connHooks{Suite13: tls.TLS_CHACHA20_POLY1305_SHA256}
				}
				if st.server == 2 {
					var grp uint16
					for _, c := range []uint16{24, 23, 25, 29} {
						if has16(o.groups, c) && !has16(o.shares, c) {
							grp = c
							break
						}
					}
					if grp == 0 {
						r.Obs = "no-hrr-possible"
						return
					}
					scfg.CurvePreferences = []tls.CurveID{tls.CurveID(grp)}
				}
				prep := p.client.prepare()
				renamedTo := ""
				if howAxis && k == depth-1 {
					// how the caller reaches the handshake of the last connection: the documented
					// inspect / edit / connect orders must offer the cached session in a valid form too
					how := x.Choose("how", 7)
					if how != 0 {
						inner := prep
						prep = func(u *tls.UConn) error {
							if inner != nil {
								if err := inner(u); err != nil {
									return err
								}
							}
							if how >= 4 {
								// the hello was first built for inspection without a session
								if err := u.BuildHandshakeStateWithoutSession(); err != nil {
									return err
								}
								if how == 4 {
									return nil // Handshake builds again, this time loading the session
								}
							}
							if err := u.BuildHandshakeState(); err != nil {
								return err
							}
							switch how {
							case 2:
								return u.SetClientRandom(rep(0x5c, 32))
							case 3:
								return u.BuildHandshakeState()
							case 6:
								// the caller redirects the built hello to the other server name
								u.SetSNI(names[1-st.name])
							}
							return nil
						}
						if how == 6 {
							renamedTo = names[1-st.name]
						}
						hist[len(hist)-1] += []string{"", "[prebuilt]", "[prebuilt+SetClientRandom]", "[built twice]", "[built without session, then Handshake]", "[built without session, then BuildHandshakeState]", "[prebuilt, then SetSNI(the other name)]"}[how]
					}
				}
				var unhook func()
				hs := peer.Run(ccfg, p.client.ID, scfg, peer.Opts{Prepare: prep, Echo: true, OnConns: func(u *tls.UConn, sconn *tls.Conn) {
					if suiteHook != nil {
						unhook = installHooks(sconn, suiteHook)
					}
				}})
				if unhook != nil {
					unhook()
				}
				what := strings.Join(hist, " ; ")
				if hs.CPanic != "" {
					r.Violate("C19|panic|"+errClass(fmt.Errorf("%s", firstLineOf(hs.CPanic))), "history %s: client panicked: %s", what, truncStr(hs.CPanic, 400))
					return
				}
				// what was offered on the wire
				msgs := peer.ClientHelloMsgs(hs.CE.AllWritten())
				offeredTicket, offeredPSK := []byte(nil), []byte(nil)
				if len(msgs) > 0 {
					if h, err := wire.ParseClientHello(msgs[0]); err == nil {
						if e := h.Find(35); e != nil && len(e.Body) > 0 {
							offeredTicket = e.Body
						}
						if e := h.Find(41); e != nil {
							if ps, err := wire.ParsePSK(e.Body); err == nil {
								offeredPSK = ps.Identities[0]
							} else {
								r.Violate("C19|psk-malformed", "history %s: %v", what, err)
							}
							if h.Exts[len(h.Exts)-1].Type != 41 {
								r.Violate("C19|psk-not-last", "history %s", what)
							}
						}
					}
				}
				if renamedTo != "" {
					name = renamedTo // the name this hello goes out under
				}
				// never offer a ticket that was issued for another server name
				for _, off := range [][]byte{offeredTicket, offeredPSK} {
					if off == nil {
						continue
					}
					cache.mu.Lock()
					okName := false
					for _, t := range cache.tickets[name] {
						if bytes.Equal(t, off) {
							okName = true
						}
					}
					var other string
					for n2, ts := range cache.tickets {
						for _, t := range ts {
							if n2 != name && bytes.Equal(t, off) {
								other = n2
							}
						}
					}
					cache.mu.Unlock()
					if !okName && other != "" {
						sig := "C19|ticket-for-other-name"
						if renamedTo != "" {
							sig += "|after-SetSNI-on-a-built-hello"
						}
						r.Violate(sig, "history %s: the connection to %s offers a session issued for %s", what, name, other)
					}
				}
				if renamedTo != "" {
					// only the cross-name clause is judged for a hello renamed after it was built
					r.Nontrivial = true
					r.Class = what
					r.Obs = "renamed-after-build"
					return
				}
				offered := offeredTicket != nil || offeredPSK != nil
				// a session whose resumption attempt failed is thrown away (RFC 5077 3.2, and the only
				// way out of a corrupted or unusable PSK): it must not be offered again, or one failure
				// repeats for the ticket's lifetime
				for _, off := range [][]byte{offeredTicket, offeredPSK} {
					for _, f := range failedOffers {
						if off != nil && bytes.Equal(off, f) {
							r.Violate(fmt.Sprintf("C19|failed-session-offered-again|vers=%04x", vers), "history %s: connection %d offers the very session whose resumption attempt failed on an earlier connection (handshake result now: client %v)", what, k, hs.CErr)
						}
					}
				}
				c := ref[name]
				if !hs.OK() || !hs.EchoOK {
					who := whoFailed(hs)
					cause := "fresh"
					if offered {
						cause = "while-offering-a-session"
					}
					emsMismatch := c != nil && c.ems != p.ems
					r.Violate(fmt.Sprintf("C19|handshake-fails|%s|%s-abort|hrr=%v|ems-mismatch=%v|%s", cause, who, st.server == 2, emsMismatch && offered, truncStr(errClass(pickErr(hs)), 70)),
						"history %s: handshake %d failed (%s side): client %v / server %v", what, k, who, hs.CErr, hs.SErr)
					if offered && k+1 < depth {
						// go on: the following connection must not be wedged by this failure
						for _, off := range [][]byte{offeredTicket, offeredPSK} {
							if off != nil {
								failedOffers = append(failedOffers, off)
							}
						}
						delete(ref, name)
						continue
					}
					return
				}
				cs, ss := hs.U.ConnectionState(), hs.S.ConnectionState()
				if cs.DidResume != ss.DidResume {
					r.Violate("C19|didresume-disagree", "history %s: client DidResume=%v server=%v", what, cs.DidResume, ss.DidResume)
				}
				// reference table
				canResume := c != nil && c.parrot == st.parrot && c.vers == vers && now.Sub(c.created) < 7*24*time.Hour &&
					((vers == tls.VersionTLS12 && p.tkt12) || (vers == tls.VersionTLS13 && p.psk13))
				if canResume && !cs.DidResume {
					r.Violate(fmt.Sprintf("C19|must-resume|vers=%04x|hrr=%v|parrot=%s", vers, st.server == 2, p.name), "history %s: connection %d follows a successful one to the same name, server version and parrot but did not resume (offered a session: %v)", what, k, offered)
				}
				if cs.DidResume {
					r.Count("resumed", 1)
					if c == nil {
						r.Violate("C19|resumed-from-nothing", "history %s: resumed although the reference cache holds no session for %s", what, name)
					}
				}
				if cs.DidResume && st.server == 2 {
					r.Count("resumed_after_hrr", 1)
				}
				// the connection leaves a (new) session in the cache if the server issued a ticket
				if (vers == tls.VersionTLS12 && p.tkt12) || (vers == tls.VersionTLS13 && (p.psk13 || p.tkt12)) {
					if !(cs.DidResume && vers == tls.VersionTLS12) || c == nil {
						ref[name] = &cachedRef{st.parrot, vers, now, p.ems}
					}
					if cs.DidResume && vers == tls.VersionTLS13 {
						ref[name] = &cachedRef{st.parrot, vers, now, p.ems}
					}
				}
				var keys []string
				for n2, v := range ref {
					keys = append(keys, fmt.Sprintf("%s:%d:%04x", n2, v.parrot, v.vers))
				}
				x.State(fmt.Sprintf("%d|%v", k, keys))
			}
			r.Obs = fmt.Sprintf("ok|viol=%d", len(r.Viol))
			r.Nontrivial = true
			r.Class = strings.Join(hist, ";")
			if len(hist) == depth && strings.Contains(r.Class, "hrr") && strings.Contains(r.Class, "PSK") {
				r.Sample = map[string]any{"history": hist}
			}
			return
		},
	}
}

func pickErr(hs *peer.HS) error {
	if hs.CErr != nil && !strings.Contains(hs.CErr.Error(), "remote error") {
		return hs.CErr
	}
	if hs.SErr != nil {
		return hs.SErr
	}
	if hs.CErr != nil {
		return hs.CErr
	}
	return hs.EchoErr
}

// c19VerificationKnobs: two identical connections under each of the certificate-verification knobs. The
// knobs change how the certificate is checked, not whether a cached session may be offered: whenever
// this client resumes at this version in the plain configuration it must resume under the knob too.
func c19VerificationKnobs() *explore.Scenario {
	parrots := c19Parrots()
	knobs := []string{"plain", "InsecureServerNameToVerify=*", "InsecureServerNameToVerify=*, a ServerName no certificate covers", "InsecureServerNameToVerify=<the name>", "InsecureServerNameToVerify=<the name>, another ServerName", "InsecureSkipTimeVerify", "InsecureSkipVerify", "ServerName written as an absolute name (trailing dot)"}
	return &explore.Scenario{
		Name: "two-connections-under-verification-knobs",
		Run: func(x *explore.X) (r explore.Result) {
			p := parrots[x.Choose("parrot", len(parrots))]
			vers := []uint16{tls.VersionTLS12, tls.VersionTLS13}[x.Choose("version", 2)]
			knob := 1 + x.Choose("knob", len(knobs)-1)
			h0, err := p.client.probeHello()
			if err != nil {
				r.Obs = "no-hello"
				return
			}
			o := offerOf(h0)
			if !has16(o.versions, vers) {
				r.Obs = "version-not-offered"
				return
			}
			pair := func(knob int) (second *peer.HS, ok bool) {
				ccfg := p.client.config("a.example")
				ccfg.ClientSessionCache = tls.NewLRUClientSessionCache(8)
				ccfg.OmitEmptyPsk = true
				switch knob {
				case 1:
					ccfg.InsecureServerNameToVerify = "*"
				case 2:
					ccfg.ServerName = "front.invalid"
					ccfg.InsecureServerNameToVerify = "*"
				case 3:
					ccfg.InsecureServerNameToVerify = "a.example"
				case 4:
					ccfg.ServerName = "front.invalid"
					ccfg.InsecureServerNameToVerify = "a.example"
				case 5:
					ccfg.InsecureSkipTimeVerify = true
				case 6:
					ccfg.InsecureSkipVerify = true
				case 7:
					// accepted by crypto/tls: the dot is dropped for SNI and for certificate verification
					ccfg.ServerName = "a.example."
				}
				scfg := peer.ServerConfig()
				if !offersCert(o, "ecdsa") {
					scfg = peer.ServerConfig(peer.Fix().RSA)
				}
				scfg.MaxVersion = vers
				for i := 0; i < 2; i++ {
					hs := peer.Run(ccfg, p.client.ID, scfg, peer.Opts{Prepare: p.client.prepare(), Echo: true})
					if hs.CPanic != "" {
						r.Violate("C19|panic", "%s %04x %s: %s", p.name, vers, knobs[knob], truncStr(hs.CPanic, 300))
						return nil, false
					}
					if !(hs.OK() && hs.EchoOK) {
						r.Violate(fmt.Sprintf("C19|knob-connection-fails|%s|conn=%d", knobs[knob], i+1), "%s %04x %s: connection %d: client %v / server %v", p.name, vers, knobs[knob], i+1, hs.CErr, hs.SErr)
						return nil, false
					}
					second = hs
				}
				return second, true
			}
			base, ok := pair(0)
			if !ok {
				return
			}
			got, ok := pair(knob)
			if !ok {
				return
			}
			r.Nontrivial = true
			r.Class = fmt.Sprintf("%s|%04x|%s", p.name, vers, knobs[knob])
			b, g := base.U.ConnectionState().DidResume, got.U.ConnectionState().DidResume
			if b {
				r.Count("resumed", 1)
			}
			if b && !g {
				r.Violate(fmt.Sprintf("C19|not-resumed-under-knob|%s", knobs[knob]), "%s at %04x: the second of two identical connections resumes in the plain configuration but not with %s", p.name, vers, knobs[knob])
			}
			r.Obs = fmt.Sprintf("plain=%v|knob=%v", b, g)
			return
		},
	}
}

func c19Scenarios(thorough bool) []*explore.Scenario {
	if thorough {
		return []*explore.Scenario{c19Scenario("connection-histories", 4, false), c19Scenario("two-connections-explicit-build-orders", 2, true), c19VerificationKnobs()}
	}
	return []*explore.Scenario{c19Scenario("connection-histories", 3, false), c19Scenario("two-connections-explicit-build-orders", 2, true), c19VerificationKnobs()}
}

func init() {
	register(&Prop{ID: "C19", Level: "model_checking", Variant: "A", Scenarios: c19Scenarios,
		Run: func(c *explore.Check, thorough bool) {
			c.Rule = "histories of 3 (4) connections sharing one ClientSessionCache and one server ticket key: the first two steps range over the full product of 7 clients (Chrome_100, Chrome_100_PSK, Chrome_112_PSK_Shuf, Firefox_120, Golang, custom TLS 1.2 with and without extended_master_secret) x server {TLS 1.2, TLS 1.3, TLS 1.3 answering with an HRR} x server name {a, b} x clock {+1 min, +8 days}; later steps repeat the previous step with <=2 deviations; every step handshakes, echoes (absorbing NewSessionTicket) and closes; plus all 2-connection histories (servers additionally: TLS 1.3 forced to TLS_CHACHA20_POLY1305_SHA256) with the second connection reached by {Handshake, BuildHandshakeState+Handshake, BuildHandshakeState+SetClientRandom+Handshake, BuildHandshakeState twice+Handshake, BuildHandshakeStateWithoutSession+Handshake, BuildHandshakeStateWithoutSession+BuildHandshakeState+Handshake, BuildHandshakeState+SetSNI(the other name)+Handshake (cross-name clause only)}. Oracle per step against a reference cache: must resume iff an unexpired session of the same parrot/name/version exists and the spec carries the needed extension (also through an HRR); DidResume agrees on both ends; pre_shared_key last and well-formed; no handshake failure at all; no ticket issued for one name offered to another; after a failed resumption attempt the history goes on and the session that failed is never offered again; 7 clients x {1.2, 1.3} x 7 Config variations (InsecureServerNameToVerify * / * with a ServerName no certificate covers / the name / the name with another ServerName, InsecureSkipTimeVerify, InsecureSkipVerify, ServerName with a trailing dot): the second of two identical connections resumes whenever it does in the plain configuration. distinct = history"
			c.Assumptions = []string{"reference resumption table (mc/props/c19.go) written from the property statement; ticket lifetime 7 days", "OmitEmptyPsk is on for every client"}
			runAll(c, c19Scenarios(thorough), 0)
			c.Gate(c.Total.Counters["resumed"] > 500, "non-vacuity: %d resumed connections", c.Total.Counters["resumed"])
		}})
}

func offerSuites(h *wire.Hello) []uint16 { return h.Suites }
