package props

import (
	"strings"
	"context"
	"fmt"

	tls "github.com/refraction-networking/utls"

	"verifmc/explore"
	"verifmc/peer"
)

// C12 — the client rejects any server choice it did not offer on the wire.

// editEE adds/replaces an extension in an EncryptedExtensions message.
func editEE(msg []byte, typ uint16, body []byte) []byte {
	if len(msg) < 6 || msg[0] != 8 {
		return msg
	}
	exts := msg[6:]
	var out []byte
	for len(exts) >= 4 {
		t := uint16(exts[0])<<8 | uint16(exts[1])
		l := int(exts[2])<<8 | int(exts[3])
		if 4+l > len(exts) {
			break
		}
		if t != typ {
			out = append(out, exts[:4+l]...)
		}
		exts = exts[4+l:]
	}
	out = append(out, byte(typ>>8), byte(typ), byte(len(body)>>8), byte(len(body)))
	out = append(out, body...)
	b := append([]byte{byte(len(out) >> 8), byte(len(out))}, out...)
	return hsMsg(8, b)
}

// editEEFront is editEE with the extension placed first (extension order in EncryptedExtensions is free).
func editEEFront(msg []byte, typ uint16, body []byte) []byte {
	if len(msg) < 6 || msg[0] != 8 {
		return msg
	}
	stripped := editEE(msg, typ, body) // the extension is last now
	all := stripped[6:]
	n := 4 + len(body)
	rest, last := all[:len(all)-n], all[len(all)-n:]
	out := append(append([]byte{}, last...), rest...)
	return hsMsg(8, append([]byte{byte(len(out) >> 8), byte(len(out))}, out...))
}

func alpnBody(p string) []byte {
	return append([]byte{0, byte(1 + len(p)), byte(len(p))}, p...)
}

type c12Kind struct {
	name string
	// setup returns false if the kind does not apply to this offer
	setup func(o offer, hk *connHooks, sc *serverChoice, x *explore.X) (value string, ok bool)
	// leaked checks whether the client's ConnectionState reports the unoffered value
	leaked func(cs tls.ConnectionState, value string) bool
}

func c12Kinds() []c12Kind {
	return []c12Kind{
		{"tls13-suite", func(o offer, hk *connHooks, sc *serverChoice, x *explore.X) (string, bool) {
			if !has16(o.versions, tls.VersionTLS13) {
				return "", false
			}
			var un []uint16
			for _, s := range []uint16{0x1301, 0x1302, 0x1303} {
				if !has16(o.suites, s) {
					un = append(un, s)
				}
			}
			if len(un) == 0 {
				return "", false
			}
			s := un[x.Choose("value", len(un))]
			sc.Vers = tls.VersionTLS13
			hk.Suite13 = s
			return fmt.Sprintf("%04x", s), true
		}, func(cs tls.ConnectionState, v string) bool { return fmt.Sprintf("%04x", cs.CipherSuite) == v }},
		{"tls12-suite", func(o offer, hk *connHooks, sc *serverChoice, x *explore.X) (string, bool) {
			if !has16(o.versions, tls.VersionTLS12) {
				return "", false
			}
			var un []uint16
			for _, s := range []uint16{tls.TLS_ECDHE_ECDSA_WITH_AES_128_GCM_SHA256, tls.TLS_ECDHE_ECDSA_WITH_AES_256_GCM_SHA384, tls.TLS_ECDHE_ECDSA_WITH_CHACHA20_POLY1305, tls.TLS_ECDHE_ECDSA_WITH_AES_128_CBC_SHA, tls.TLS_ECDHE_ECDSA_WITH_AES_256_CBC_SHA, tls.TLS_ECDHE_ECDSA_WITH_AES_128_CBC_SHA256} {
				if !has16(o.suites, s) {
					un = append(un, s)
				}
			}
			if len(un) == 0 || !offersCert(o, "ecdsa") {
				return "", false
			}
			s := un[x.Choose("value", len(un))]
			sc.Vers = tls.VersionTLS12
			sc.Cert = "ecdsa"
			hk.Suite12 = s
			return fmt.Sprintf("%04x", s), true
		}, func(cs tls.ConnectionState, v string) bool { return fmt.Sprintf("%04x", cs.CipherSuite) == v }},
		{"tls12-suite-grease-or-13id", func(o offer, hk *connHooks, sc *serverChoice, x *explore.X) (string, bool) {
			if !has16(o.versions, tls.VersionTLS12) {
				return "", false
			}
			vals := []uint16{0x3a3a, 0x1301}
			s := vals[x.Choose("value", 2)]
			sc.Vers = tls.VersionTLS12
			hk.Out = func(n int, t uint8, d []byte) []byte {
				if t == 2 {
					if sp, ok := parseServerHello(d); ok {
						l := len(sp.head)
						sp.head[l-3], sp.head[l-2] = byte(s>>8), byte(s)
						return sp.build()
					}
				}
				return d
			}
			return fmt.Sprintf("%04x", s), true
		}, func(cs tls.ConnectionState, v string) bool { return fmt.Sprintf("%04x", cs.CipherSuite) == v }},
		{"serverhello-keyshare-group-not-sent", func(o offer, hk *connHooks, sc *serverChoice, x *explore.X) (string, bool) {
			if !has16(o.versions, tls.VersionTLS13) || len(o.shares) == 0 {
				return "", false
			}
			var un []uint16
			for _, g := range []uint16{29, 23, 24} {
				if !has16(o.shares, g) {
					un = append(un, g)
				}
			}
			if len(un) == 0 {
				return "", false
			}
			g := un[x.Choose("value", len(un))]
			sc.Vers = tls.VersionTLS13
			hk.Out = func(n int, t uint8, d []byte) []byte {
				if t == 2 && !isHRR(d) {
					if sp, ok := parseServerHello(d); ok {
						if e := sp.find(51); e != nil && len(e.body) >= 4 {
							size := map[uint16]int{29: 32, 23: 65, 24: 97}[g]
							nb := []byte{byte(g >> 8), byte(g), byte(size >> 8), byte(size)}
							nb = append(nb, rep(4, size)...)
							e.body = nb
							return sp.build()
						}
					}
				}
				return d
			}
			return fmt.Sprint(g), true
		}, func(cs tls.ConnectionState, v string) bool { return false }},
		{"serverhello-keyshare-group-is-the-clients-grease-value", func(o offer, hk *connHooks, sc *serverChoice, x *explore.X) (string, bool) {
			// RFC 8701: a GREASE value in key_share is not an offer; a server "selecting" it must be refused
			grease := o.greaseShare
			if grease == 0 || !has16(o.versions, tls.VersionTLS13) || !has16(o.shares, 29) {
				return "", false
			}
			sc.Vers = tls.VersionTLS13
			sc.Group = 29
			hk.Out = func(n int, t uint8, d []byte) []byte {
				if t == 2 && !isHRR(d) {
					if sp, ok := parseServerHello(d); ok {
						if e := sp.find(51); e != nil && len(e.body) >= 4 {
							e.body = append([]byte{byte(grease >> 8), byte(grease)}, e.body[2:]...)
							return sp.build()
						}
					}
				}
				return d
			}
			return fmt.Sprint(grease), true
		}, func(cs tls.ConnectionState, v string) bool { return false }},
		{"hello-retry-request-group-not-listed", func(o offer, hk *connHooks, sc *serverChoice, x *explore.X) (string, bool) {
			if !has16(o.versions, tls.VersionTLS13) || len(o.shares) == 0 {
				return "", false
			}
			var un []uint16
			for _, g := range []uint16{29, 23, 24, 25} {
				if !has16(o.groups, g) {
					un = append(un, g)
				}
			}
			if len(un) == 0 {
				return "", false
			}
			g := un[x.Choose("value", len(un))]
			sc.Vers = tls.VersionTLS13
			hk.Groups13 = func(cg, pref []tls.CurveID) []tls.CurveID { return []tls.CurveID{tls.CurveID(g)} }
			return fmt.Sprint(g), true
		}, func(cs tls.ConnectionState, v string) bool { return false }},
		{"alpn-not-offered", func(o offer, hk *connHooks, sc *serverChoice, x *explore.X) (string, bool) {
			vers := []uint16{tls.VersionTLS13, tls.VersionTLS12}[x.Choose("version", 2)]
			if !has16(o.versions, vers) {
				return "", false
			}
			sc.Vers = vers
			proto := "verif-unoffered"
			for _, p := range o.protos {
				if p == proto {
					proto = "verif-unoffered-2" // (a client that puts Config.NextProtos on the wire did offer the first one)
				}
			}
			if len(o.protos) > 0 {
				sc.Proto = o.protos[0] // the server config negotiates an offered one; the wire says another
			}
			hk.Out = func(n int, t uint8, d []byte) []byte {
				if vers == tls.VersionTLS13 && t == 8 {
					return editEE(d, 16, alpnBody(proto))
				}
				if vers == tls.VersionTLS12 && t == 2 {
					if sp, ok := parseServerHello(d); ok {
						var kept []shExt
						for _, e := range sp.exts {
							if e.typ != 16 {
								kept = append(kept, e)
							}
						}
						sp.exts = append(kept, shExt{16, alpnBody(proto)})
						return sp.build()
					}
				}
				return d
			}
			return proto, true
		}, func(cs tls.ConnectionState, v string) bool { return cs.NegotiatedProtocol == v }},
		{"compression-method", func(o offer, hk *connHooks, sc *serverChoice, x *explore.X) (string, bool) {
			vers := []uint16{tls.VersionTLS13, tls.VersionTLS12}[x.Choose("version", 2)]
			if !has16(o.versions, vers) {
				return "", false
			}
			sc.Vers = vers
			label := "1"
			if vers == tls.VersionTLS13 && x.Choose("after-hello-retry-request", 2) == 1 {
				// the offending ServerHello is the one that follows a well-formed HelloRetryRequest
				grp := hrrGroupFor(o)
				if grp == 0 {
					return "", false
				}
				sc.Group, sc.HRR = grp, true
				label = "1 (in the ServerHello after a HelloRetryRequest)"
			}
			hk.Out = func(n int, t uint8, d []byte) []byte {
				if t == 2 && !isHRR(d) {
					if sp, ok := parseServerHello(d); ok {
						sp.head[len(sp.head)-1] = 1
						return sp.build()
					}
				}
				return d
			}
			return label, true
		}, func(cs tls.ConnectionState, v string) bool { return false }},
		{"psk-selected-without-offer", func(o offer, hk *connHooks, sc *serverChoice, x *explore.X) (string, bool) {
			if !has16(o.versions, tls.VersionTLS13) {
				return "", false
			}
			id := []uint16{0, 1, 7}[x.Choose("value", 3)]
			sc.Vers = tls.VersionTLS13
			hk.Out = func(n int, t uint8, d []byte) []byte {
				if t == 2 && !isHRR(d) {
					if sp, ok := parseServerHello(d); ok {
						if e := sp.find(41); e != nil {
							// the hello did offer an identity (a resuming connection) and the server accepted
							// it: the index is moved to one that was not offered (0 is the offered one)
							if id == 0 {
								hk.NoChoiceMade = true
								return d
							}
							e.body = []byte{byte(id >> 8), byte(id)}
							return sp.build()
						}
						sp.exts = append(sp.exts, shExt{41, []byte{byte(id >> 8), byte(id)}})
						return sp.build()
					}
				}
				return d
			}
			return fmt.Sprint(id), true
		}, func(cs tls.ConnectionState, v string) bool { return cs.DidResume }},
		{"session-id-not-echoed", func(o offer, hk *connHooks, sc *serverChoice, x *explore.X) (string, bool) {
			if !has16(o.versions, tls.VersionTLS13) {
				return "", false
			}
			mode := x.Choose("value", 2) // 0 one byte changed, 1 emptied
			sc.Vers = tls.VersionTLS13
			afterHRR := x.Choose("after-hello-retry-request", 2) == 1
			if afterHRR {
				// the HelloRetryRequest echoes the id correctly; only the ServerHello that follows does not
				grp := hrrGroupFor(o)
				if grp == 0 {
					return "", false
				}
				sc.Group, sc.HRR = grp, true
			}
			hk.Out = func(n int, t uint8, d []byte) []byte {
				if t != 2 || len(d) < 39 {
					return d
				}
				if afterHRR && isHRR(d) {
					return d
				}
				sl := int(d[38])
				if sl == 0 {
					return d
				}
				if mode == 0 {
					c := append([]byte(nil), d...)
					c[39+sl-1] ^= 0xff
					return c
				}
				body := append(append([]byte(nil), d[4:38]...), 0)
				body = append(body, d[39+sl:]...)
				return hsMsg(2, body)
			}
			if afterHRR {
				return fmt.Sprintf("%d (in the ServerHello after a HelloRetryRequest)", mode), true
			}
			return fmt.Sprint(mode), true
		}, func(cs tls.ConnectionState, v string) bool { return false }},
	}
}

// hrrGroupFor: a classical group the hello lists without sending a share for it (0 if none).
func hrrGroupFor(o offer) uint16 {
	if !has16(o.versions, tls.VersionTLS13) {
		return 0
	}
	for _, c := range []uint16{24, 23, 25, 29} {
		if has16(o.groups, c) && !has16(o.shares, c) {
			return c
		}
	}
	return 0
}

func c12Clients(nSeeds int) []gridClient {
	out := gridClients(nSeeds, false)
	// narrow offers, so that implemented-but-unoffered values exist
	for _, s := range c28Suites[:5] {
		s := s
		out = append(out, gridClient{Name: fmt.Sprintf("custom:only-%04x", s.id), ID: tls.HelloCustom, Spec: func() (*tls.ClientHelloSpec, error) { return singleSuiteSpec(s), nil }})
	}
	return out
}

// c12NPNClient — a spec whose (never sent) NPN list names protocols its ALPN extension does not:
// only the ALPN extension on the wire is an offer.
func c12NPNClient() gridClient {
	return gridClient{Name: "custom:alpn[h2,http/1.1]+npn[verif-unoffered,spdy/3.1]", ID: tls.HelloCustom, Spec: func() (*tls.ClientHelloSpec, error) {
		sp := handshakeSpec("tls13-minimal")
		sp.Extensions = append(sp.Extensions, &tls.NPNExtension{NextProtos: []string{"h2", "verif-unoffered", "spdy/3.1"}})
		return sp, nil
	}}
}

func c12Scenario(clients []gridClient) *explore.Scenario {
	clients = append(append([]gridClient{}, clients...), c12NPNClient())
	kinds := c12Kinds()
	return &explore.Scenario{
		Name: "unoffered-server-choices",
		Run: func(x *explore.X) (r explore.Result) {
			g := clients[x.Choose("client", len(clients))]
			k := kinds[x.Choose("kind", len(kinds))]
			// the application's Config.NextProtos may name protocols the spec's ALPN extension does not
			// (or the spec may have no ALPN extension at all): only the wire counts as an offer
			if x.Choose("cli.nextprotos", 2) == 1 {
				g.NextProtos = []string{"verif-unoffered", "h2"}
			}
			h0, err := g.probeHello()
			if err != nil {
				r.Obs = "no-hello"
				return
			}
			o := offerOf(h0)
			hk := &connHooks{}
			sc := serverChoice{Cert: "ecdsa"}
			if !offersCert(o, "ecdsa") {
				sc.Cert = "rsa"
			}
			val, ok := k.setup(o, hk, &sc, x)
			if !ok {
				r.Obs = "kind-not-applicable"
				return
			}
			what := fmt.Sprintf("%s kind=%s value=%s", g.Name, k.name, val)
			// environment: 0 the connection has its Config to itself; 1/2 the *Config is shared (UClient
			// does not clone it) with a second connection — another parrot family / a custom spec that
			// offers nearly everything — which builds its own hello while this one awaits the server's
			// answer. What THIS connection's hello offered is still what counts.
			env := x.Choose("env", 3)
			ccfg := g.config("example.com")
			if env != 0 {
				what += fmt.Sprintf(" shared-config-env=%d", env)
				inner := hk.Out
				built := false
				hk.Out = func(n int, t uint8, data []byte) []byte {
					if !built {
						built = true
						pe, pse := peer.Pipe()
						pse.SetIdle()
						var b *tls.UConn
						if env == 1 {
							other := tls.HelloFirefox_120
							if strings.Contains(g.Name, "Firefox") {
								other = tls.HelloChrome_120
							}
							b = tls.UClient(pe, ccfg, other)
						} else {
							b = tls.UClient(pe, ccfg, tls.HelloCustom)
							func() {
								defer func() { recover() }()
								b.ApplyPreset(handshakeSpec("tls13-minimal"))
							}()
						}
						func() {
							defer func() { recover() }()
							b.BuildHandshakeState()
						}()
						pe.Close()
					}
					if inner != nil {
						return inner(n, t, data)
					}
					return data
				}
			}
			// resumed: an honest first connection through the same Config and session cache; the
			// unoffered choice is then made on the connection that offers the cached session
			scfg := sc.config()
			if x.Choose("resumed", 2) == 1 {
				what += " on-a-resuming-connection"
				ccfg.ClientSessionCache = tls.NewLRUClientSessionCache(4)
				ccfg.PreferSkipResumptionOnNilExtension = true
				if w := peer.Run(ccfg, g.ID, scfg, peer.Opts{Prepare: g.prepare(), Echo: true}); !(w.OK() && w.EchoOK) {
					r.Obs = "first-connection-failed"
					return
				}
				r.Count("with_cached_session", 1)
			}
			var cleanup func()
			hs := peer.Run(ccfg, g.ID, scfg, peer.Opts{Prepare: g.prepare(), Echo: true,
				OnConns: func(u *tls.UConn, s *tls.Conn) { cleanup = installHooks(s, hk) }})
			if cleanup != nil {
				cleanup()
			}
			if hk.NoChoiceMade {
				r.Obs = "value-was-offered-after-all"
				r.Count("choice_not_made", 1)
				return
			}
			if k.name == "tls13-suite" || k.name == "tls12-suite" {
				// the suite is forced through the server's selection hook; a server that resumes a
				// TLS <= 1.2 session answers with the SESSION's suite instead: then no unoffered choice
				// was made and there is nothing to judge
				if got := serverHelloSuite(hs.SE.AllWritten()); fmt.Sprintf("%04x", got) != val {
					r.Obs = "forced-suite-not-on-the-wire"
					r.Count("choice_not_made", 1)
					return
				}
			}
			r.Nontrivial = true
			r.Class = what
			r.Count("kind_"+k.name, 1)
			if hs.CPanic != "" {
				r.Violate("C12|panic|"+k.name, "%s: %s", what, truncStr(hs.CPanic, 300))
				return
			}
			cs := hs.U.ConnectionState()
			if hs.CErr == nil {
				r.Violate("C12|accepted|"+k.name, "%s: the client completed the handshake (server err %v, echo ok=%v)", what, hs.SErr, hs.EchoOK)
			}
			if cs.HandshakeComplete {
				r.Violate("C12|handshake-complete-flag|"+k.name, "%s: ConnectionState.HandshakeComplete is true", what)
			}
			if k.leaked(cs, val) {
				r.Violate("C12|value-reported|"+k.name, "%s: ConnectionState reports the unoffered value", what)
			}
			if hs.EchoOK {
				r.Violate("C12|application-data-exchanged|"+k.name, "%s: application data was exchanged", what)
			}
			r.Obs = fmt.Sprintf("%s|rejected=%v|%s", k.name, hs.CErr != nil, errClass(hs.CErr))
			if g.ID.Client == "Chrome" {
				r.Sample = map[string]any{"case": what, "client_error": fmt.Sprint(hs.CErr)}
			}
			return
		},
	}
}

// c12QUIC — the session-id echo rule over QUIC: a uTLS QUIC client sends an empty legacy session
// id; a ServerHello carrying a non-empty one (which the server keeps in its own transcript, so it
// stays self-consistent) selects a value the client did not offer and must be refused.
func c12QUIC() *explore.Scenario {
	specs := c23Specs()
	return &explore.Scenario{
		Name:    "quic-unoffered-session-id",
		Workers: 1,
		Run: func(x *explore.X) (r explore.Result) {
			sp := specs[x.Choose("spec", len(specs))]
			sidLen := []int{0, 1, 32}[x.Choose("session-id", 3)] // 0 = honest control
			what := fmt.Sprintf("quic spec=%s server session id echo of %d bytes", sp.name, sidLen)
			hookFallbackMu.Lock()
			defer hookFallbackMu.Unlock()
			hk := &connHooks{}
			hk.Out = func(n int, t uint8, d []byte) []byte {
				if t != 2 || len(d) < 39 || sidLen == 0 || d[38] != 0 {
					return d
				}
				body := append(append([]byte(nil), d[4:38]...), byte(sidLen))
				body = append(body, rep(0x5d, sidLen)...)
				body = append(body, d[39:]...)
				return hsMsg(2, body)
			}
			hookFallback = hk
			defer func() { hookFallback = nil }()

			ccfg := peer.ClientConfig("example.com")
			ccfg.MinVersion = tls.VersionTLS13
			ccfg.NextProtos = []string{"h3"}
			scfg := peer.ServerConfig()
			scfg.MinVersion = tls.VersionTLS13
			scfg.NextProtos = []string{"h3"}
			srv := tls.QUICServer(&tls.QUICConfig{TLSConfig: scfg})
			srv.SetTransportParameters([]byte{0x04, 0x04, 0x80, 0x10, 0x00, 0x00})
			defer srv.Close()
			q := tls.UQUICClient(&tls.QUICConfig{TLSConfig: ccfg}, tls.HelloCustom)
			defer q.Close()
			var cerr, serr error
			done := false
			if pm := catch(func() {
				if cerr = q.ApplyPreset(sp.mk()); cerr != nil {
					return
				}
				if serr = srv.Start(context.Background()); serr != nil {
					return
				}
				if cerr = q.Start(context.Background()); cerr != nil {
					return
				}
				for round := 0; round < 8 && cerr == nil && serr == nil; round++ {
					progress := false
					for {
						e := q.NextEvent()
						if e.Kind == tls.QUICNoEvent {
							break
						}
						switch e.Kind {
						case tls.QUICWriteData:
							progress = true
							if serr = srv.HandleData(e.Level, append([]byte(nil), e.Data...)); serr != nil {
								break
							}
						case tls.QUICHandshakeDone:
							done = true
						case tls.QUICTransportParametersRequired:
							q.SetTransportParameters([]byte{})
						}
					}
					for serr == nil {
						e := srv.NextEvent()
						if e.Kind == tls.QUICNoEvent {
							break
						}
						if e.Kind == tls.QUICWriteData {
							progress = true
							if cerr = q.HandleData(e.Level, append([]byte(nil), e.Data...)); cerr != nil {
								break
							}
						}
					}
					if !progress {
						break
					}
				}
			}); pm != "" {
				r.Violate("C12|quic|panic", "%s: %s", what, truncStr(pm, 300))
				return
			}
			r.Nontrivial = true
			r.Count("kind_quic-session-id", 1)
			complete := done || q.ConnectionState().HandshakeComplete
			if sidLen == 0 {
				if !complete {
					r.Violate("INFRA|c12-quic-control", "%s: the unmodified QUIC handshake does not complete: client %v server %v", what, cerr, serr)
				}
			} else if complete || cerr == nil {
				r.Violate(fmt.Sprintf("C12|quic|unoffered-session-id-accepted|len=%d", sidLen), "%s: the client offered an empty legacy_session_id, the ServerHello carried %d bytes, and the client went on (complete=%v, error=%v)", what, sidLen, complete, cerr)
			}
			r.Obs = fmt.Sprintf("sid=%d|complete=%v|cerr=%s", sidLen, complete, errClass(cerr))
			r.Class = what + "|" + r.Obs
			return
		},
	}
}

func c12Scenarios(thorough bool) []*explore.Scenario {
	n := 1
	if thorough {
		n = 64
	}
	// certificate-compression algorithms: the unadvertised-algorithm and extension-removed-after-build
	// rows of C21's scenario (a CompressedCertificate the on-wire hello did not invite)
	return []*explore.Scenario{c12Scenario(c12Clients(n)), c21Lengths(), c12QUIC()}
}

func init() {
	register(&Prop{ID: "C12", Level: "exploration", Variant: "A", Scenarios: c12Scenarios,
		Run: func(c *explore.Check, thorough bool) {
			c.Rule = "every discovered ID, randomized seeds, custom specs incl. single-suite specs x environment {own Config, *Config shared with a second connection (other parrot family / custom spec) that builds its hello while this one awaits the server} x {first connection, connection offering a session cached by an honest first connection} x unoffered-choice kind {TLS 1.3 suite (forced through the suite hook, self-consistent), TLS 1.2 suite (forced, self-consistent), GREASE / TLS 1.3 suite id in a TLS 1.2 ServerHello, HelloRetryRequest naming a group the hello does not list, ServerHello key_share labelled with the client's GREASE group, ServerHello key_share group without a sent share, ALPN not offered (1.3 EncryptedExtensions / 1.2 ServerHello), compression method 1, selected PSK identity without a PSK offer, legacy session id altered / emptied; over QUIC (UQUICClient vs the package's QUICServer): a non-empty session id echoed to a client that sent none} x every value of the kind's complement menu: Handshake must fail, HandshakeComplete must stay false, no application data, and ConnectionState must not report the value. Certificate-compression: a CompressedCertificate in an algorithm the hello did not list, or after the extension was removed and the hello rebuilt, must be refused (scenario shared with C21). distinct = (client, kind, value)"
			c.Assumptions = []string{"forced suites/ALPN keep the hooked server self-consistent (a client lacking the check would complete); ServerHello byte edits (group, compression, session id, PSK) make the server's own transcript diverge, so those rows rely on the client rejecting before Finished"}
			runAll(c, c12Scenarios(thorough), 0)
			for _, k := range c12Kinds() {
				c.Gate(c.Total.Counters["kind_"+k.name] > 5, "non-vacuity: kind %s exercised %d times", k.name, c.Total.Counters["kind_"+k.name])
			}
		}})
}

// serverHelloSuite returns the cipher suite of the first ServerHello in a server's plaintext flight (0 if none).
func serverHelloSuite(stream []byte) uint16 {
	if len(stream) < 5+4+2+32+1 || stream[0] != 22 || stream[5] != 2 {
		return 0
	}
	p := 5 + 4 + 2 + 32
	p += 1 + int(stream[p])
	if p+2 > len(stream) {
		return 0
	}
	return uint16(stream[p])<<8 | uint16(stream[p+1])
}
