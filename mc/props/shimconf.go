package props

import (
	"fmt"
	"runtime"
	"sort"
	"strings"
	"sync"

	"github.com/refraction-networking/utls/verifshim/sched"
	"github.com/refraction-networking/utls/verifshim/vatomic"
	"github.com/refraction-networking/utls/verifshim/vsync"

	"verifmc/explore"
)

// Shim conformance: the controlled scheduler re-implements the blocking semantics of Go's
// mutexes, channels, select, WaitGroup, Once and atomics. To keep that model bound to the real
// primitives, a set of small terminating concurrent programs is written once against the shim
// API and run twice: (a) under the scheduler, enumerating EVERY schedule (no bound), which yields
// the set of outcomes the model allows; (b) with plain goroutines on the real primitives (outside
// a controlled run every shim operation delegates to the real one), a few thousand times. Every
// outcome the real primitives produce must be one the model allows, the model must never
// deadlock or panic where the real program cannot, and for deterministic programs both sets
// must be the same singleton. A failure is an infrastructure error (the checker is wrong), not
// a violation of a property.

type confCtx struct {
	spawn func(name string, fn func())
	slots []string
	mu    sync.Mutex // real mutex: protects slots (harness bookkeeping, not under test)
}

func (c *confCtx) set(i int, format string, a ...any) {
	c.mu.Lock()
	for len(c.slots) <= i {
		c.slots = append(c.slots, "")
	}
	c.slots[i] += fmt.Sprintf(format, a...)
	c.mu.Unlock()
}

type confProg struct {
	name string
	det  bool // exactly one outcome in every schedule
	run  func(c *confCtx)
}

func recoverTo(c *confCtx, i int) {
	if e := recover(); e != nil {
		c.set(i, "panic(%v)", e)
	}
}

func confPrograms() []confProg {
	return []confProg{
		{"mutex-counter", true, func(c *confCtx) {
			var m vsync.Mutex
			n := 0
			var wg vsync.WaitGroup
			wg.Add(3)
			for i := 0; i < 3; i++ {
				c.spawn(fmt.Sprint("t", i), func() { defer wg.Done(); m.Lock(); n++; m.Unlock() })
			}
			c.spawn("w", func() { wg.Wait(); m.Lock(); c.set(0, "n=%d", n); m.Unlock() })
		}},
		{"trylock", false, func(c *confCtx) {
			var m vsync.Mutex
			for i := 0; i < 2; i++ {
				i := i
				c.spawn(fmt.Sprint("t", i), func() {
					if m.TryLock() {
						c.set(i, "got")
						m.Unlock()
					} else {
						c.set(i, "busy")
					}
				})
			}
		}},
		{"rwmutex", false, func(c *confCtx) {
			var m vsync.RWMutex
			x := 0
			c.spawn("w", func() { m.Lock(); x = 1; x = 2; m.Unlock() })
			for i := 0; i < 2; i++ {
				i := i
				c.spawn(fmt.Sprint("r", i), func() { m.RLock(); c.set(i, "x=%d", x); m.RUnlock() })
			}
		}},
		{"once", true, func(c *confCtx) {
			var o vsync.Once
			var who vatomic.Int32
			for i := 0; i < 3; i++ {
				i := i
				c.spawn(fmt.Sprint("t", i), func() {
					o.Do(func() { who.Store(int32(i + 1)) })
					c.set(i, "sees=%v", who.Load() != 0) // Do returns only after the winner finished
				})
			}
		}},
		{"atomic-cas", false, func(c *confCtx) {
			var v vatomic.Int32
			for i := 0; i < 3; i++ {
				i := i
				c.spawn(fmt.Sprint("t", i), func() {
					if v.CompareAndSwap(0, int32(i+1)) {
						c.set(i, "won")
					} else {
						c.set(i, "lost")
					}
				})
			}
		}},
		{"atomic-add", true, func(c *confCtx) {
			var v vatomic.Int64
			var wg vsync.WaitGroup
			wg.Add(3)
			for i := 0; i < 3; i++ {
				c.spawn(fmt.Sprint("t", i), func() { defer wg.Done(); v.Add(2) })
			}
			c.spawn("w", func() { wg.Wait(); c.set(0, "v=%d", v.Load()) })
		}},
		{"chan-rendezvous", true, func(c *confCtx) {
			ch := make(chan int)
			c.spawn("s", func() { vsync.Send(ch, 1); vsync.Send(ch, 2); vsync.Close(ch) })
			c.spawn("r", func() {
				for {
					v, ok := vsync.Recv2(ch)
					c.set(0, "(%d,%v)", v, ok)
					if !ok {
						return
					}
				}
			})
		}},
		{"chan-buffered-two-senders", false, func(c *confCtx) {
			ch := make(chan int, 1)
			c.spawn("s1", func() { vsync.Send(ch, 1) })
			c.spawn("s2", func() { vsync.Send(ch, 2) })
			c.spawn("r", func() { a := vsync.Recv(ch); b := vsync.Recv(ch); c.set(0, "%d%d", a, b) })
		}},
		{"chan-close-wakes-all", true, func(c *confCtx) {
			ch := make(chan struct{})
			for i := 0; i < 2; i++ {
				i := i
				c.spawn(fmt.Sprint("r", i), func() { _, ok := vsync.Recv2(ch); c.set(i, "ok=%v", ok) })
			}
			c.spawn("c", func() { vsync.Close(ch) })
		}},
		{"send-on-closed-panics", false, func(c *confCtx) {
			ch := make(chan int, 1)
			c.spawn("c", func() { vsync.Close(ch) })
			c.spawn("s", func() { defer recoverTo(c, 0); vsync.Send(ch, 1); c.set(0, "sent") })
		}},
		{"select-two-ready", false, func(c *confCtx) {
			a, b := make(chan int, 1), make(chan int, 1)
			vsync.Send(a, 1)
			vsync.Send(b, 2)
			c.spawn("sel", func() {
				i, _, ok := vsync.Select([]vsync.Case{vsync.RecvCase(a), vsync.RecvCase(b)}, false) // the rewriter never uses the value
				c.set(0, "case%d,%v", i, ok)
			})
		}},
		{"select-default", false, func(c *confCtx) {
			a := make(chan int)
			c.spawn("s", func() {
				i, _, _ := vsync.Select([]vsync.Case{vsync.SendCase(a, 7)}, true)
				c.set(0, "s=%d", i)
			})
			c.spawn("r", func() {
				i, _, _ := vsync.Select([]vsync.Case{vsync.RecvCase(a)}, true)
				c.set(1, "r=%d", i)
			})
		}},
		{"select-send-or-cancel", false, func(c *confCtx) {
			// the shape of quicWaitForSignal: offer on one channel unless a done channel is closed
			blocked, done := make(chan struct{}), make(chan struct{})
			c.spawn("h", func() {
				i, _, _ := vsync.Select([]vsync.Case{vsync.SendCase(blocked, struct{}{}), vsync.RecvCase(done)}, false)
				c.set(0, "h=%d", i)
			})
			c.spawn("u", func() {
				i, _, ok := vsync.Select([]vsync.Case{vsync.RecvCase(blocked), vsync.RecvCase(done)}, false)
				c.set(1, "u=%d,%v", i, ok)
			})
			c.spawn("c", func() { vsync.Close(done) })
		}},
		{"range-until-close", true, func(c *confCtx) {
			ch := make(chan int, 2)
			c.spawn("p", func() { vsync.Send(ch, 1); vsync.Send(ch, 2); vsync.Send(ch, 3); vsync.Close(ch) })
			c.spawn("q", func() {
				sum := 0
				for {
					v, ok := vsync.Recv2(ch)
					if !ok {
						break
					}
					sum = sum*10 + v
				}
				c.set(0, "sum=%d", sum)
			})
		}},
		{"interrupter", false, func(c *confCtx) {
			// the shape of handshakeContext's interrupter goroutine
			done, cancelled := make(chan struct{}), make(chan struct{})
			res := make(chan error, 1)
			c.spawn("i", func() {
				i, _, _ := vsync.Select([]vsync.Case{vsync.RecvCase(cancelled), vsync.RecvCase(done)}, false)
				if i == 0 {
					vsync.Send(res, fmt.Errorf("ctx"))
				} else {
					vsync.Send(res, error(nil))
				}
			})
			c.spawn("m", func() { vsync.Close(done); e := vsync.Recv(res); c.set(0, "e=%v", e != nil) })
			c.spawn("c", func() { vsync.Close(cancelled) })
		}},
	}
}

func confOutcome(c *confCtx) string { return strings.Join(c.slots, "|") }

// shimConformance runs the comparison and records gates on c.
func shimConformance(c *explore.Check) {
	realRuns := 3000
	for _, p := range confPrograms() {
		p := p
		// (a) the model: every schedule
		model := map[string]int{}
		var mmu sync.Mutex
		bad := ""
		sc := &explore.Scenario{Name: "shimconf-" + p.name, Workers: 1, Dedup: false,
			Run: func(x *explore.X) (r explore.Result) {
				ctx := &confCtx{}
				ctx.spawn = func(name string, fn func()) { sched.GoNamed(name, false, fn) }
				out := sched.Run(x, sched.Options{}, func() { p.run(ctx) })
				o := confOutcome(ctx)
				mmu.Lock()
				model[o]++
				if out.Deadlock || out.Horizon || len(out.Panics) > 0 || len(out.InfraErrors) > 0 {
					bad = fmt.Sprintf("deadlock=%v horizon=%v panics=%v infra=%v blocked=%v", out.Deadlock, out.Horizon, out.Panics, out.InfraErrors, out.Blocked)
				}
				mmu.Unlock()
				r.Obs = o
				return
			}}
		st := sc.Explore()
		// (b) the real primitives
		real := map[string]int{}
		for i := 0; i < realRuns; i++ {
			ctx := &confCtx{}
			var wg sync.WaitGroup
			ctx.spawn = func(name string, fn func()) {
				wg.Add(1)
				go func() {
					defer wg.Done()
					if i%3 == 0 {
						runtime.Gosched()
					}
					fn()
				}()
			}
			p.run(ctx)
			wg.Wait()
			real[confOutcome(ctx)]++
		}
		var missing []string
		for o := range real {
			if model[o] == 0 {
				missing = append(missing, o)
			}
		}
		sort.Strings(missing)
		c.Gate(bad == "", "shim conformance %s: the model deadlocks/panics where the real program terminates: %s", p.name, bad)
		c.Gate(len(missing) == 0, "shim conformance %s: real primitives produced outcomes the scheduler model does not allow: %v (model allows %v)", p.name, missing, keysOfInt(model))
		if p.det {
			c.Gate(len(model) == 1 && len(real) == 1, "shim conformance %s: deterministic program has %d model / %d real outcomes: model %v real %v", p.name, len(model), len(real), keysOfInt(model), keysOfInt(real))
		} else {
			c.Gate(len(model) >= 2, "shim conformance %s: the model found only %d outcome(s) for a racy program", p.name, len(model))
		}
		c.Extra["shimconf_"+p.name] = fmt.Sprintf("schedules=%d model_outcomes=%d real_outcomes=%d (of %d runs)", st.Execs, len(model), len(real), realRuns)
	}
}

func keysOfInt(m map[string]int) []string {
	var ks []string
	for k := range m {
		ks = append(ks, k)
	}
	sort.Strings(ks)
	return ks
}
