package props

import (
	"bytes"
	"fmt"
	"strings"

	tls "github.com/refraction-networking/utls"

	"verifmc/explore"
	"verifmc/peer"
	"verifmc/wire"
)

// C11 — client and server agree on every negotiated parameter and exported key.

type ekmCase struct {
	label string
	ctx   []byte
	n     int
}

var ekmCases = func() []ekmCase {
	var out []ekmCase
	for _, l := range []string{"EXPORTER-verif", "", strings.Repeat("L", 240)} {
		for ci, c := range [][]byte{nil, {}, rep(0x5c, 32)} {
			for _, n := range []int{1, 32, 255} {
				_ = ci
				out = append(out, ekmCase{l, c, n})
			}
		}
	}
	return out
}()

func c11Scenario(name string, clients []gridClient, srvBudget int) *explore.Scenario {
	return &explore.Scenario{
		Name:   name,
		Budget: map[string]int{"srv": srvBudget, "cli": 1},
		Run: func(x *explore.X) (r explore.Result) {
			sniMode := x.Choose("cli.sni", 5) // 0 name, 1 RemoveSNIExtension, 2 IP literal, 3 empty name + skip verify, 4 another name set with SetSNI after an explicit BuildHandshakeState
			clientAuth := x.Choose("srv.clientauth", 2) == 1
			g := clients[x.Choose("client", len(clients))]
			if (sniMode == 1 || sniMode == 4) && isGolang(g.ID) {
				r.Obs = "skip"
				return
			}
			h0, err := g.probeHello()
			if err != nil {
				r.Obs = "no-hello"
				return
			}
			o := offerOf(h0)
			sc := chooseServer(x, o)
			if !sc.Usable {
				r.Obs = "no-compatible-server-choice"
				return
			}
			ccfg := g.config("example.com")
			switch sniMode {
			case 2:
				ccfg.ServerName = "1.2.3.4"
			case 3:
				ccfg.ServerName = ""
				ccfg.InsecureSkipVerify = true
			}
			scfg := sc.config()
			if clientAuth {
				scfg.ClientAuth = tls.RequestClientCert
			}
			prep := g.prepare()
			// resumed: a first connection through the same Config and session cache, then the compared one
			resumedMode := x.Choose("cli.resumed", 3) // 1 a second connection; 2 a second connection for which the server's TLS 1.3 suite choice has changed (same hash: the PSK stays usable)
			resumed := resumedMode != 0
			suiteChanged := false
			if resumedMode == 2 {
				if sc.Vers != tls.VersionTLS13 || !has16(h0.Suites, tls.TLS_CHACHA20_POLY1305_SHA256) || !has16(h0.Suites, tls.TLS_AES_128_GCM_SHA256) {
					r.Obs = "n/a"
					return
				}
				suiteChanged = true
			}
			if resumed {
				ccfg.ClientSessionCache = tls.NewLRUClientSessionCache(4)
				ccfg.PreferSkipResumptionOnNilExtension = true
				w := peer.Run(ccfg, g.ID, scfg, peer.Opts{Echo: true, Prepare: func(u *tls.UConn) error {
					if prep != nil {
						if err := prep(u); err != nil {
							return err
						}
					}
					if sniMode == 1 {
						return u.RemoveSNIExtension()
					}
					if sniMode == 4 {
						if err := u.BuildHandshakeState(); err != nil {
							return err
						}
						u.SetSNI("b.example")
					}
					return nil
				}})
				if !(w.OK() && w.EchoOK) {
					r.Obs = "first-connection-failed"
					return
				}
			}
			var unhook func()
			defer func() {
				if unhook != nil {
					unhook()
				}
			}()
			hs := peer.Run(ccfg, g.ID, scfg, peer.Opts{KeepOpen: true, Echo: true, OnConns: func(_ *tls.UConn, s *tls.Conn) {
				if suiteChanged {
					unhook = installHooks(s, &connHooks{Suite13: tls.TLS_CHACHA20_POLY1305_SHA256})
				}
			}, Prepare: func(u *tls.UConn) error {
				if prep != nil {
					if err := prep(u); err != nil {
						return err
					}
				}
				if sniMode == 1 {
					return u.RemoveSNIExtension()
				}
				if sniMode == 4 {
					if err := u.BuildHandshakeState(); err != nil {
						return err
					}
					u.SetSNI("b.example")
				}
				return nil
			}})
			defer hs.Finish()
			what := fmt.Sprintf("%s sni-mode=%d vs server{%s clientauth=%v}", g.Name, sniMode, sc.desc, clientAuth)
			if resumed {
				what += " second connection through one session cache"
			}
			if suiteChanged {
				what += ", the server now selecting TLS_CHACHA20_POLY1305_SHA256"
			}
			if !(hs.OK() && hs.EchoOK) {
				r.Obs = "handshake-failed:" + whoFailed(hs) // C10's business
				r.Count("handshake_failed", 1)
				return
			}
			// the SNI actually sent
			sent := ""
			if msgs := peer.ClientHelloMsgs(hs.CE.AllWritten()); len(msgs) > 0 {
				if h, err := wire.ParseClientHello(msgs[len(msgs)-1]); err == nil {
					if e := h.Find(0); e != nil && len(e.Body) > 5 {
						sent = string(e.Body[5:])
					}
				}
			}
			cs, ss := hs.U.ConnectionState(), hs.S.ConnectionState()
			r.Nontrivial = true
			r.Class = fmt.Sprintf("%s|%d|%s|%v|%v|%v", g.Name, sniMode, sc.desc, clientAuth, resumed, suiteChanged)
			if cs.DidResume {
				r.Count("resumed_compared", 1)
			}
			diff := func(field string, a, b any) {
				if fmt.Sprint(a) != fmt.Sprint(b) {
					r.Violate("C11|disagree|"+field, "%s: %s: client reports %v, server reports %v", what, field, a, b)
				}
			}
			diff("Version", cs.Version, ss.Version)
			diff("CipherSuite", cs.CipherSuite, ss.CipherSuite)
			diff("NegotiatedProtocol", cs.NegotiatedProtocol, ss.NegotiatedProtocol)
			diff("DidResume", cs.DidResume, ss.DidResume)
			diff("ECHAccepted", cs.ECHAccepted, ss.ECHAccepted)
			diff("CurveID", tls.VerifCurveID(hs.U), tls.VerifConnCurveID(hs.S))
			if cs.ServerName != sent {
				r.Violate(fmt.Sprintf("C11|client-servername|snimode=%d", sniMode), "%s: client ConnectionState.ServerName = %q but the SNI sent was %q", what, cs.ServerName, sent)
			}
			if ss.ServerName != sent {
				r.Violate(fmt.Sprintf("C11|server-servername|snimode=%d", sniMode), "%s: server ConnectionState.ServerName = %q but the SNI sent was %q", what, ss.ServerName, sent)
			}
			// exporters
			both := 0
			for _, e := range ekmCases {
				a, ea := cs.ExportKeyingMaterial(e.label, e.ctx, e.n)
				b, eb := ss.ExportKeyingMaterial(e.label, e.ctx, e.n)
				switch {
				case ea == nil && eb == nil:
					both++
					if !bytes.Equal(a, b) {
						r.Violate(fmt.Sprintf("C11|ekm-mismatch|vers=%04x|clientauth=%v", cs.Version, clientAuth), "%s: ExportKeyingMaterial(label %d bytes, ctx %d bytes, %d) differs between client and server", what, len(e.label), len(e.ctx), e.n)
					}
					if len(a) != e.n {
						r.Violate("C11|ekm-length", "%s: exporter returned %d bytes, want %d", what, len(a), e.n)
					}
				case ea != nil && eb == nil:
					// documented refusals on the client: renegotiation enabled, or TLS<=1.2 without EMS
					if !strings.Contains(ea.Error(), "renegotiation") && !strings.Contains(ea.Error(), "extended master secret") && !strings.Contains(ea.Error(), "ExtendedMasterSecret") {
						r.Violate("C11|ekm-client-error|"+errClass(ea), "%s: client exporter fails: %v", what, ea)
					}
					r.Count("ekm_client_refused", 1)
				case ea == nil && eb != nil:
					if !strings.Contains(eb.Error(), "renegotiation") && !strings.Contains(eb.Error(), "extended master secret") && !strings.Contains(eb.Error(), "ExtendedMasterSecret") {
						r.Violate("C11|ekm-server-error|"+errClass(eb), "%s: server exporter fails: %v", what, eb)
					}
				}
			}
			r.Count("ekm_both_succeed", both)
			r.Count("compared_connections", 1)
			r.Obs = fmt.Sprintf("compared|ekm=%v|viol=%d", both > 0, len(r.Viol))
			if both > 0 && clientAuth {
				r.Sample = map[string]any{"client": g.Name, "server": sc.desc, "client_auth_requested": true, "ekm_cases_compared": both, "sni_sent": sent}
			}
			return
		},
	}
}

func c11Scenarios(thorough bool) []*explore.Scenario {
	if thorough {
		return []*explore.Scenario{c11Scenario("grid-agreement", append(gridClients(32, true), c11OddClients()...), 3)}
	}
	return []*explore.Scenario{c11Scenario("grid-agreement", append(gridClients(2, false), c11OddClients()...), 1)}
}

func init() {
	register(&Prop{ID: "C11", Level: "exploration", Variant: "A", Scenarios: c11Scenarios,
		Run: func(c *explore.Check, thorough bool) {
			c.Rule = "successful handshakes of the C10 grid (client, plus custom specs with an ECH inner-marker-only / GREASE-only extension, x offered server choices, <=1 (2) server-axis deviations) x SNI mode {name, RemoveSNIExtension, IP literal, empty, another name through SetSNI after an explicit BuildHandshakeState} x server {no client auth, RequestClientCert} x {first connection, second connection through the same Config and session cache (resumed where the parrot can), the same with the server's TLS 1.3 suite choice changed to another suite of the same hash in between}: both ConnectionStates compared field by field (version, suite, ALPN, curve, DidResume, ECHAccepted, ServerName == SNI parsed from the wire) and ExportKeyingMaterial compared for 27 (label, context, length) triples. distinct = (client, sni mode, server choice, client auth). ECH handshakes are compared by the same oracle inside C15."
			c.Assumptions = []string{"EKM bytes are compared when both sides return bytes; a one-sided refusal is accepted only for the two documented reasons (renegotiation enabled, TLS<=1.2 without EMS)"}
			runAll(c, c11Scenarios(thorough), 0)
			c.Gate(c.Total.Counters["ekm_both_succeed"] >= 1000, "non-vacuity: %d both-succeed EKM comparisons", c.Total.Counters["ekm_both_succeed"])
			c.Gate(c.Total.Counters["resumed_compared"] >= 100, "non-vacuity: %d resumed connections compared", c.Total.Counters["resumed_compared"])
			c.Gate(c.Total.Counters["compared_connections"] >= 500, "non-vacuity: %d compared connections", c.Total.Counters["compared_connections"])
		}})
}

// c11OddClients — custom specs carrying extensions a server may misread as a negotiation: an
// encrypted_client_hello extension that is only the one-byte "inner" marker (no ECH is on offer),
// and a GREASE ECH extension in a spec that is otherwise plain.
func c11OddClients() []gridClient {
	mk := func(name string, ext func() tls.TLSExtension) gridClient {
		return gridClient{Name: "custom:" + name, ID: tls.HelloCustom, Spec: func() (*tls.ClientHelloSpec, error) {
			sp := handshakeSpec("tls13-minimal")
			sp.Extensions = append(sp.Extensions, ext())
			return sp, nil
		}}
	}
	return []gridClient{
		mk("ech-inner-marker-only", func() tls.TLSExtension { return &tls.GenericExtension{Id: 0xfe0d, Data: []byte{1}} }),
		mk("ech-grease-only", func() tls.TLSExtension { return tls.BoringGREASEECH() }),
	}
}
