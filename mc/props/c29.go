package props

import (
	"crypto/sha256"
	stdtls "crypto/tls"
	"crypto/x509"
	"encoding/pem"
	"errors"
	"fmt"
	"net"
	"os"
	"path/filepath"
	"runtime"
	"sort"
	"strings"
	"sync"
	"time"

	tls "github.com/refraction-networking/utls"
	"github.com/refraction-networking/utls/verifshim/sched"
	"github.com/refraction-networking/utls/verifshim/vnet"

	"verifmc/explore"
	"verifmc/peer"
)

// C29 — Roller prefers the last working fingerprint and tries each at most once.
//
// net.DialTimeout in u_roller.go is redirected (variant B) to a hook that hands out in-memory
// connections to a standard-library TLS server; the server recognises the fingerprint of every
// ClientHello it receives and accepts only a chosen subset. The Roller passes a nil Config, so
// trust comes from SSL_CERT_FILE (the harness CA, written under build/) and the real clock; the
// server certificate used here is valid for the CA's whole lifetime.

type rollerID struct {
	name string
	id   tls.ClientHelloID
}

func c29IDName(id tls.ClientHelloID) string {
	s := id.Client + "-" + id.Version
	if id.Seed != nil {
		s += fmt.Sprintf("-seed%02x", id.Seed[0])
	}
	return s
}

var c29RandSeed = func() *tls.PRNGSeed { s := tls.PRNGSeed{7, 1, 2, 3}; return &s }()
var c29RandSeed2 = func() *tls.PRNGSeed { s := tls.PRNGSeed{9, 4, 5, 6}; return &s }()

func c29Menu() []rollerID {
	by := map[string]tls.ClientHelloID{}
	for _, n := range AllIDs() {
		by[n.Name] = n.ID
	}
	mk := func(n string) rollerID { return rollerID{c29IDName(by[n]), by[n]} }
	rnd := tls.ClientHelloID{Client: tls.HelloRandomizedALPN.Client, Version: tls.HelloRandomizedALPN.Version, Seed: c29RandSeed}
	// a second pinned randomized fingerprint: same client/version, other seed
	rnd2 := tls.ClientHelloID{Client: rnd.Client, Version: rnd.Version, Seed: c29RandSeed2}
	// (HelloGolang: the one id whose hello is built from the Config the attempt is given, not from a spec)
	return []rollerID{mk("HelloChrome_100"), mk("HelloChrome_120"), mk("HelloFirefox_120"), mk("HelloIOS_14"), {c29IDName(rnd), rnd}, {c29IDName(rnd2), rnd2}, mk("HelloGolang")}
}

// lists of configured IDs (indices into the menu). Two entries share the client name "Chrome".
var c29Lists = [][]int{{0, 1, 2}, {1, 2, 3, 4}, {2, 4, 5}, {0, 6, 2}}

type rollerAttempt struct {
	caller string
	id     string // recognised fingerprint; "?<hash>" for one that is not in the menu (unseeded randomized)
	sni    string
	accept bool
}

type rollerEnv struct {
	mu       sync.Mutex
	sigs     map[string]string // fingerprint signature → id name
	accept   map[string]bool
	failAt   map[string]int // caller → 1-based dial number that fails (0 = none)
	dials    map[string]int
	attempts []rollerAttempt
	closers  []func()
	useSched bool
	// acceptUnknown decides for fingerprints outside the menu (nil: refuse)
	acceptUnknown func(id string) bool
	// stall: fingerprints the server reads and then never answers (nothing is sent, not even an
	// alert, and the connection stays open). Time is abstract: a read that can never be satisfied
	// on a connection with a deadline returns a timeout and moves the virtual clock vnow to that
	// deadline; a deadline that is not after vnow has expired.
	stall map[string]bool
	vnow  time.Time
}

// deadlineConn gives the in-memory endpoint the deadline behaviour described at rollerEnv.stall.
type deadlineConn struct {
	*peer.Endpoint
	e  *rollerEnv
	dl time.Time
}

type timeoutErr struct{}

func (timeoutErr) Error() string   { return "i/o timeout (virtual clock)" }
func (timeoutErr) Timeout() bool   { return true }
func (timeoutErr) Temporary() bool { return true }

func (d *deadlineConn) expired() bool {
	d.e.mu.Lock()
	defer d.e.mu.Unlock()
	return !d.dl.IsZero() && !d.dl.After(d.e.vnow)
}
func (d *deadlineConn) SetDeadline(t time.Time) error      { d.dl = t; return nil }
func (d *deadlineConn) SetReadDeadline(t time.Time) error  { d.dl = t; return nil }
func (d *deadlineConn) SetWriteDeadline(t time.Time) error { return nil }
func (d *deadlineConn) Write(b []byte) (int, error) {
	if d.expired() {
		return 0, timeoutErr{}
	}
	return d.Endpoint.Write(b)
}
func (d *deadlineConn) Read(b []byte) (int, error) {
	if d.expired() {
		return 0, timeoutErr{}
	}
	n, err := d.Endpoint.Read(b)
	if err == peer.ErrStalled && !d.dl.IsZero() {
		d.e.mu.Lock()
		if d.dl.After(d.e.vnow) {
			d.e.vnow = d.dl
		}
		d.e.mu.Unlock()
		return 0, timeoutErr{}
	}
	return n, err
}

var errInjectedDial = errors.New("verif: injected dial failure")

func helloSig(chi *stdtls.ClientHelloInfo) string {
	var parts []string
	add := func(tag string, vs []uint16, sorted bool) {
		var keep []int
		for _, v := range vs {
			if v&0x0f0f == 0x0a0a && v>>8 == v&0xff {
				continue
			}
			if tag == "ext" && v == 21 {
				continue // padding comes and goes with the hello's length (i.e. with the server name), not with the fingerprint
			}
			keep = append(keep, int(v))
		}
		if sorted {
			sort.Ints(keep)
		}
		parts = append(parts, fmt.Sprint(tag, keep))
	}
	add("cs", chi.CipherSuites, false)
	add("ext", chi.Extensions, true)
	var g []uint16
	for _, c := range chi.SupportedCurves {
		g = append(g, uint16(c))
	}
	add("grp", g, false)
	add("ver", chi.SupportedVersions, false)
	parts = append(parts, fmt.Sprint("alpn", chi.SupportedProtos))
	return strings.Join(parts, "|")
}

func callerName() string {
	if t := sched.Current(); t != nil {
		return t.Name
	}
	var b [64]byte
	n := runtime.Stack(b[:], false)
	f := strings.Fields(string(b[:n]))
	if len(f) > 1 {
		return "g" + f[1]
	}
	return "g?"
}

func (e *rollerEnv) serverConfig(caller string, onStall func()) *stdtls.Config {
	f := peer.Fix()
	cfg := &stdtls.Config{
		Certificates: []stdtls.Certificate{{Certificate: f.LongLived.Certificate, PrivateKey: f.LongLived.PrivateKey}, {Certificate: f.LongLivedRSA.Certificate, PrivateKey: f.LongLivedRSA.PrivateKey}},
		MinVersion:   stdtls.VersionTLS10,
		NextProtos:   []string{"h2", "http/1.1"},
	}
	for _, cs := range stdtls.CipherSuites() {
		cfg.CipherSuites = append(cfg.CipherSuites, cs.ID)
	}
	for _, cs := range stdtls.InsecureCipherSuites() {
		cfg.CipherSuites = append(cfg.CipherSuites, cs.ID)
	}
	cfg.GetConfigForClient = func(chi *stdtls.ClientHelloInfo) (*stdtls.Config, error) {
		sig := helloSig(chi)
		e.mu.Lock()
		defer e.mu.Unlock()
		name, ok := e.sigs[sig]
		if !ok {
			h := sha256.Sum256([]byte(sig))
			name = fmt.Sprintf("?%x", h[:4])
			if e.sigs == nil { // learning pass
				name = sig
			}
		}
		acc := e.accept == nil || e.accept[name]
		if !ok && e.sigs != nil {
			acc = e.acceptUnknown != nil && e.acceptUnknown(name)
		}
		e.attempts = append(e.attempts, rollerAttempt{caller, name, chi.ServerName, acc && !e.stall[name]})
		if e.stall[name] {
			if onStall != nil {
				onStall()
			}
			return nil, errStalledServer
		}
		if !acc {
			return nil, errors.New("fingerprint not accepted")
		}
		return nil, nil
	}
	return cfg
}

var errStalledServer = errors.New("verif: this server never answers")

func (e *rollerEnv) dial(network, addr string, _ time.Duration) (net.Conn, error) {
	caller := callerName()
	e.mu.Lock()
	e.dials[caller]++
	n, fail := e.dials[caller], e.failAt[caller]
	e.mu.Unlock()
	if fail != 0 && n == fail {
		return nil, errInjectedDial
	}
	stalled := false
	cfg := e.serverConfig(caller, func() { stalled = true })
	if e.useSched && sched.Current() != nil {
		l := newSchedLink()
		l.direct = true
		l.stdServer(cfg)
		e.mu.Lock()
		e.closers = append(e.closers, func() { closeLink(l) })
		e.mu.Unlock()
		return clientEnd{l}, nil
	}
	ce, se := peer.Pipe()
	se.Transform = func(n int, b []byte) []byte {
		if stalled {
			return nil // a stalled server says nothing at all
		}
		return b
	}
	srv := stdtls.Server(se, cfg)
	go func() {
		defer se.SetIdle()
		if err := srv.Handshake(); err != nil {
			if stalled {
				return // keeps the connection open and silent
			}
			se.Close()
			return
		}
		buf := make([]byte, 1024)
		for {
			if _, err := srv.Read(buf); err != nil {
				se.Close()
				return
			}
		}
	}()
	e.mu.Lock()
	e.closers = append(e.closers, func() { ce.Close() })
	e.mu.Unlock()
	if e.stall != nil {
		return &deadlineConn{Endpoint: ce, e: e}, nil
	}
	return ce, nil
}

func (e *rollerEnv) closeAll() {
	e.mu.Lock()
	cs := e.closers
	e.closers = nil
	e.mu.Unlock()
	for _, c := range cs {
		c()
	}
}

func newRollerEnv(sigs map[string]string) *rollerEnv {
	return &rollerEnv{sigs: sigs, failAt: map[string]int{}, dials: map[string]int{}}
}

// c29Trust makes the harness CA the process's system root pool (the Roller passes a nil Config).
// The fixture PKI differs from process to process (Go's key generation is deliberately not a
// function of its reader), so the file is per process; it is removed as soon as the pool is loaded.
func c29Trust(verifDir string) {
	dir := filepath.Join(verifDir, "build", "roots")
	os.MkdirAll(dir, 0o755)
	p := filepath.Join(dir, fmt.Sprintf("harness-ca-%d.pem", os.Getpid()))
	b := pem.EncodeToMemory(&pem.Block{Type: "CERTIFICATE", Bytes: peer.Fix().CACert.Raw})
	if err := os.WriteFile(p, b, 0o644); err != nil {
		c29Gate = "cannot write the root file: " + err.Error()
		return
	}
	os.Setenv("SSL_CERT_FILE", p)
	os.Setenv("SSL_CERT_DIR", filepath.Join(dir, "none"))
	pool, err := x509.SystemCertPool() // loads the system roots once, now
	os.Remove(p)
	if err != nil || pool == nil {
		c29Gate = fmt.Sprintf("cannot load the root pool: %v", err)
	}
}

var (
	c29Once  sync.Once
	c29Sigs  map[string]string
	c29Seeds map[int]map[string]tls.PRNGSeed // list index → attempt order → a seed that produces it
	c29Gate  string
)

// c29Learn records the fingerprint signature of every menu entry (each must complete a handshake
// on its own) and finds, per list, one prng seed for every attempt order the shuffle can produce.
func c29Learn() {
	c29Once.Do(func() {
		if c29Gate != "" {
			return
		}
		menu := c29Menu()
		sigs := map[string]string{}
		for _, m := range menu {
			e := newRollerEnv(nil)
			conn, _ := e.dial("tcp", "x", 0)
			u := tls.UClient(conn, nil, m.id)
			u.SetSNI("example.com")
			err := u.Handshake()
			e.closeAll()
			if err != nil || len(e.attempts) != 1 {
				c29Gate = fmt.Sprintf("menu id %s cannot complete a handshake on its own: %v", m.name, err)
				return
			}
			if prev, dup := sigs[e.attempts[0].id]; dup {
				c29Gate = fmt.Sprintf("menu ids %s and %s have the same fingerprint signature", prev, m.name)
				return
			}
			sigs[e.attempts[0].id] = m.name
		}
		c29Sigs = sigs
		c29Seeds = map[int]map[string]tls.PRNGSeed{}
		for li, list := range c29Lists {
			want := 1
			for i := 2; i <= len(list); i++ {
				want *= i
			}
			found := map[string]tls.PRNGSeed{}
			for ctr := 0; ctr < 4000 && len(found) < want; ctr++ {
				seed := tls.PRNGSeed{byte(ctr), byte(ctr >> 8), 0x29}
				e := newRollerEnv(sigs)
				e.accept = map[string]bool{}
				vnet.SetDial(e.dial)
				r := c29Roller(menu, list)
				tls.VerifRollerSeed(r, seed)
				r.Dial("tcp", "x", "example.com")
				vnet.SetDial(nil)
				e.closeAll()
				var order []string
				for _, a := range e.attempts {
					order = append(order, a.id)
				}
				k := strings.Join(order, ",")
				if _, ok := found[k]; !ok {
					found[k] = seed
				}
			}
			c29Seeds[li] = found
		}
	})
}

func c29Roller(menu []rollerID, list []int) *tls.Roller {
	r, err := tls.NewRoller()
	if err != nil {
		panic(err)
	}
	r.HelloIDs = nil
	for _, i := range list {
		r.HelloIDs = append(r.HelloIDs, menu[i].id)
	}
	return r
}

func sortedOrders(m map[string]tls.PRNGSeed) []string {
	var ks []string
	for k := range m {
		ks = append(ks, k)
	}
	sort.Strings(ks)
	return ks
}

// checkCall judges one Dial call against the reference Roller.
//
//	cfg: configured id names; workingOpts: the values WorkingHelloID may have had when the call
//	read it ("" = nil); accept: accepted names; failAt: injected dial failure (0 none).
func c29CheckCall(r *explore.Result, what string, cfg []string, workingOpts []string, accept map[string]bool, failAt int, att []rollerAttempt, conn *tls.UConn, err error, serverName string) (succeeded string) {
	inCfg := map[string]bool{}
	for _, c := range cfg {
		inCfg[c] = true
	}
	seen := map[string]bool{}
	var order []string
	for i, a := range att {
		order = append(order, a.id)
		if a.sni != serverName {
			r.Violate("C29|wrong-sni", "%s: attempt %d (%s) carried SNI %q, want %q", what, i+1, a.id, a.sni, serverName)
		}
		if seen[a.id] {
			r.Violate("C29|id-tried-twice", "%s: %s attempted twice in one Dial: %v", what, a.id, order)
		}
		seen[a.id] = true
	}
	// which working value explains the first attempt?
	explained := false
	var expectLen int
	for _, w := range workingOpts {
		ok := true
		if w != "" && len(att) > 0 && att[0].id != w {
			ok = false
		}
		for _, a := range att {
			if !inCfg[a.id] && a.id != w {
				ok = false
			}
		}
		if ok {
			explained = true
			expectLen = len(cfg)
			if w != "" && !inCfg[w] {
				expectLen++
			}
			break
		}
	}
	if !explained {
		r.Violate("C29|order-not-starting-with-working-id", "%s: attempts %v cannot be explained by working id in %q and configured ids %v", what, order, workingOpts, cfg)
		return
	}
	// expected stop position
	stop := -1 // index of the first accepted attempt
	for i, a := range att {
		if a.accept {
			stop = i
			break
		}
	}
	switch {
	case stop >= 0 && (failAt == 0 || stop+1 < failAt):
		if stop != len(att)-1 {
			r.Violate("C29|continues-after-success", "%s: attempt %d (%s) was accepted but %d more followed: %v", what, stop+1, att[stop].id, len(att)-1-stop, order)
		}
		if conn == nil || err != nil {
			r.Violate("C29|success-not-returned", "%s: %s was accepted but Dial returned conn=%v err=%v", what, att[stop].id, conn != nil, err)
		} else {
			got := c29IDName(conn.ClientHelloID)
			if got != att[stop].id {
				r.Violate("C29|returned-conn-has-other-id", "%s: returned connection has id %s, the accepted attempt was %s", what, got, att[stop].id)
			}
			if !conn.ConnectionState().HandshakeComplete {
				r.Violate("C29|returned-conn-not-complete", "%s: returned connection has not completed the handshake", what)
			}
			// the connection that is returned is a usable one (only meaningful outside the scheduler:
			// there the transport write is a scheduling point of its own scenario)
			if sched.Current() == nil {
				if _, werr := conn.Write([]byte("ping")); werr != nil {
					r.Violate("C29|returned-conn-unusable", "%s: a Write on the connection Dial returned fails: %v (attempts %v)", what, werr, order)
				}
			}
			succeeded = att[stop].id
		}
	case failAt > 0 && failAt <= expectLen:
		// the failAt-th dial failed before any accepted attempt
		if len(att) != failAt-1 {
			r.Violate("C29|continues-after-dial-error", "%s: dial #%d failed but %d attempts reached the server: %v", what, failAt, len(att), order)
		}
		if conn != nil || !errors.Is(err, errInjectedDial) {
			r.Violate("C29|dial-error-not-returned", "%s: dial #%d failed but Dial returned conn=%v err=%v after attempts %v", what, failAt, conn != nil, err, order)
		}
	default:
		if len(att) != expectLen {
			r.Violate("C29|not-every-id-tried", "%s: no attempt accepted; %d attempts %v, want %d", what, len(att), order, expectLen)
		}
		if conn != nil || err == nil {
			r.Violate("C29|failure-not-returned", "%s: no attempt accepted but Dial returned conn=%v err=%v", what, conn != nil, err)
		}
	}
	return
}

func workingName(r *tls.Roller) string {
	r.HelloIDMu.Lock()
	defer r.HelloIDMu.Unlock()
	if r.WorkingHelloID == nil {
		return ""
	}
	return c29IDName(*r.WorkingHelloID)
}

// c29Sequential — every (list, working state, acceptance set, shuffle order, dial failure).
func c29Sequential(thorough bool) *explore.Scenario {
	menu := c29Menu()
	return &explore.Scenario{
		Name:    "dial-histories",
		Workers: 1,
		Run: func(x *explore.X) (r explore.Result) {
			c29Learn()
			if c29Gate != "" {
				r.Violate("INFRA|c29-learn", "%s", c29Gate)
				return
			}
			li := x.Choose("list", len(c29Lists))
			list := c29Lists[li]
			var cfg []string
			for _, i := range list {
				cfg = append(cfg, menu[i].name)
			}
			// working state before the Dial under test: 0 none, 1..n the i-th configured id, n+1 an id
			// that is no longer configured
			// n+2..2n+1: the caller itself set the exported field, to a pointer to the (i-n-1)-th element of the list
			ws := x.Choose("working", 2*len(list)+2)
			nSub := 1 << len(list)
			sub := x.Choose("accept", nSub)
			orders := sortedOrders(c29Seeds[li])
			if !thorough && len(orders) > 6 {
				// quick: 6 of the 24 orders of the 4-id list (every id first at least once)
				var pick []string
				first := map[string]bool{}
				for _, o := range orders {
					f := strings.SplitN(o, ",", 2)[0]
					if !first[f] {
						first[f] = true
						pick = append(pick, o)
					}
				}
				for _, o := range orders {
					if len(pick) >= 6 {
						break
					}
					dup := false
					for _, p := range pick {
						dup = dup || p == o
					}
					if !dup {
						pick = append(pick, o)
					}
				}
				orders = pick
			}
			oi := x.Choose("shuffle", len(orders))
			failAt := x.Choose("dialfail", len(list)+2) // 0 none, k: the k-th dial of the call fails
			accept := map[string]bool{}
			for b, i := range list {
				if sub&(1<<b) != 0 {
					accept[menu[i].name] = true
				}
			}
			what := fmt.Sprintf("ids=%v working=%d accept=%v shuffle=%s dialfail=%d", cfg, ws, boolKeys(accept), orders[oi], failAt)

			e := newRollerEnv(c29Sigs)
			vnet.SetDial(e.dial)
			defer vnet.SetDial(nil)
			defer e.closeAll()
			caller := callerName()
			var roller *tls.Roller
			working := ""
			// ---- prefix: reach the working state through the public API ----
			switch {
			case ws == 0:
				roller = c29Roller(menu, list)
			case ws <= len(list):
				roller = c29Roller(menu, list)
				working = menu[list[ws-1]].name
				e.accept = map[string]bool{working: true}
				c, err := roller.Dial("tcp", "x", "a.example")
				if c == nil || err != nil || workingName(roller) != working {
					r.Violate("C29|prefix|working-id-not-recorded", "%s: after a Dial that only %s can complete: conn=%v err=%v WorkingHelloID=%q", what, working, c != nil, err, workingName(roller))
					return
				}
			case ws > len(list)+1:
				roller = c29Roller(menu, list)
				k := ws - len(list) - 2
				working = menu[list[k]].name
				roller.WorkingHelloID = &roller.HelloIDs[k]
			default:
				// an id outside the list: configure it, succeed with it, then reconfigure
				var out rollerID
				for mi, m := range menu {
					in := false
					for _, i := range list {
						in = in || i == mi
					}
					if !in {
						out = m
						break
					}
				}
				roller = c29Roller(menu, list)
				roller.HelloIDs = append(roller.HelloIDs, out.id)
				working = out.name
				e.accept = map[string]bool{working: true}
				c, err := roller.Dial("tcp", "x", "a.example")
				if c == nil || err != nil || workingName(roller) != working {
					r.Violate("C29|prefix|working-id-not-recorded", "%s: after a Dial that only %s can complete: conn=%v err=%v WorkingHelloID=%q", what, working, c != nil, err, workingName(roller))
					return
				}
				roller.HelloIDs = roller.HelloIDs[:len(list)]
				if sub&1 != 0 {
					accept[working] = true // the stale id shares the fate of the first configured id
				}
			}
			// ---- the Dial under test ----
			e.mu.Lock()
			e.attempts, e.accept = nil, accept
			e.dials[caller], e.failAt[caller] = 0, failAt
			e.mu.Unlock()
			tls.VerifRollerSeed(roller, c29Seeds[li][orders[oi]])
			conn, err := roller.Dial("tcp", "x", "example.com")
			att := append([]rollerAttempt(nil), e.attempts...)
			succ := c29CheckCall(&r, what, cfg, []string{working}, accept, failAt, att, conn, err, "example.com")
			after := workingName(roller)
			if succ != "" && after != succ {
				r.Violate("C29|working-id-not-recorded", "%s: %s succeeded but WorkingHelloID is %q", what, succ, after)
			}
			if succ == "" && after != working {
				r.Violate("C29|working-id-changed-by-failed-dial", "%s: Dial failed but WorkingHelloID went from %q to %q", what, working, after)
			}
			// ---- follow-up from the reached state: the recorded id must lead ----
			if len(r.Viol) == 0 && after != "" {
				e.mu.Lock()
				e.attempts, e.accept = nil, nil
				e.dials[caller], e.failAt[caller] = 0, 0
				e.mu.Unlock()
				c2, err2 := roller.Dial("tcp", "x", "b.example")
				if len(e.attempts) != 1 || e.attempts[0].id != after || c2 == nil || err2 != nil {
					var o []string
					for _, a := range e.attempts {
						o = append(o, a.id)
					}
					r.Violate("C29|follow-up-does-not-start-with-working-id", "%s: next Dial against an accept-all server tried %v (conn=%v err=%v), WorkingHelloID was %s", what, o, c2 != nil, err2, after)
				}
			}
			// the configured list belongs to the caller: no Dial may change it
			var now []string
			for _, id := range roller.HelloIDs {
				now = append(now, c29IDName(id))
			}
			if fmt.Sprint(now) != fmt.Sprint(cfg) {
				r.Violate("C29|configured-list-changed", "%s: Roller.HelloIDs was %v and is now %v", what, cfg, now)
			}
			var o []string
			for _, a := range att {
				o = append(o, a.id)
			}
			r.Nontrivial = len(att) > 1
			r.Obs = fmt.Sprintf("n=%d|ok=%v|succ=%s|after=%s", len(att), err == nil, succ, after)
			r.Class = fmt.Sprintf("list=%d|ws=%d|%s", li, ws, r.Obs)
			return
		},
	}
}

func boolKeys(m map[string]bool) []string {
	var ks []string
	for k, v := range m {
		if v {
			ks = append(ks, k)
		}
	}
	sort.Strings(ks)
	return ks
}

// c29Concurrent — two Dials on one Roller in parallel, every schedule up to the bound.
func c29Concurrent(bound int, free bool) *explore.Scenario {
	menu := c29Menu()
	list := c29Lists[0]
	var cfg []string
	for _, i := range list {
		cfg = append(cfg, menu[i].name)
	}
	type accSet struct{ a, b map[string]bool }
	return &explore.Scenario{
		Name:    "concurrent-dials",
		Workers: 1, // the dial hook is process-wide; parallelism comes from process sharding
		Dedup:   !free,
		Budget:  map[string]int{"preempt": bound, "switch": bound, "select": bound},
		Run: func(x *explore.X) (r explore.Result) {
			c29Learn()
			if c29Gate != "" {
				r.Violate("INFRA|c29-learn", "%s", c29Gate)
				return
			}
			// acceptance: who can succeed for each thread's Dial (same server for both)
			accMenu := []map[string]bool{
				{cfg[0]: true, cfg[1]: true, cfg[2]: true},
				{cfg[1]: true},
				{cfg[0]: true, cfg[2]: true},
				{},
			}
			accept := accMenu[x.Choose("accept", len(accMenu))]
			startWorking := x.Choose("working", 2) // 0 none, 1 cfg[2]
			what := fmt.Sprintf("accept=%v working=%d", boolKeys(accept), startWorking)
			e := newRollerEnv(c29Sigs)
			e.useSched = true
			vnet.SetDial(e.dial)
			defer vnet.SetDial(nil)
			defer e.closeAll()
			roller := c29Roller(menu, list)
			tls.VerifRollerSeed(roller, tls.PRNGSeed{1, 2, 3})
			working := ""
			if startWorking == 1 {
				working = cfg[2]
				e.accept = map[string]bool{working: true}
				if c, err := roller.Dial("tcp", "x", "a.example"); c == nil || err != nil {
					r.Violate("C29|prefix|working-id-not-recorded", "%s: prefix Dial failed: %v", what, err)
					return
				}
				e.closeAll()
			}
			e.mu.Lock()
			e.attempts, e.accept = nil, accept
			e.dials = map[string]int{}
			e.mu.Unlock()
			type res struct {
				conn *tls.UConn
				err  error
				who  string
			}
			var rmu sync.Mutex
			var results []res
			body := func(name string) func() {
				return func() {
					who := callerName()
					c, err := roller.Dial("tcp", "x", "example.com")
					rmu.Lock()
					results = append(results, res{c, err, who})
					rmu.Unlock()
				}
			}
			out := sched.Run(x, sched.Options{Context: what}, func() {
				sched.GoNamed("D1", false, body("D1"))
				sched.GoNamed("D2", false, body("D2"))
			})
			x.Transitions += out.Steps
			r.Nontrivial = out.Threads > 2
			if out.Deadlock || out.Horizon {
				r.Violate("C29|conc|deadlock", "%s: a Dial never returns: %v", what, out.Blocked)
			}
			for _, p := range out.Panics {
				r.Violate("C29|conc|panic|"+errClass(fmt.Errorf("%s", firstLineOf(p))), "%s: %s", what, truncStr(p, 500))
			}
			for _, ie := range out.InfraErrors {
				r.Violate("INFRA|sched", "%s", ie)
			}
			if len(results) != 2 {
				if len(r.Viol) == 0 {
					r.Violate("C29|conc|missing-result", "%s: %d of 2 Dials returned", what, len(results))
				}
				return
			}
			// per-call check; the working id a call saw is the initial one or the other call's success
			var succ []string
			byCaller := map[string][]rollerAttempt{}
			e.mu.Lock()
			for _, a := range e.attempts {
				byCaller[a.caller] = append(byCaller[a.caller], a)
			}
			e.mu.Unlock()
			otherSucc := func(i int) string {
				o := results[1-i]
				if o.conn != nil && o.err == nil {
					return c29IDName(o.conn.ClientHelloID)
				}
				return ""
			}
			for i, rs := range results {
				opts := []string{working}
				if s := otherSucc(i); s != "" && s != working {
					opts = append(opts, s)
				}
				s := c29CheckCall(&r, fmt.Sprintf("%s caller=%s", what, rs.who), cfg, opts, accept, 0, byCaller[rs.who], rs.conn, rs.err, "example.com")
				if s != "" {
					succ = append(succ, s)
				}
			}
			after := workingName(roller)
			if len(succ) == 0 && after != working {
				r.Violate("C29|conc|working-id-changed-by-failed-dials", "%s: both Dials failed but WorkingHelloID went from %q to %q", what, working, after)
			}
			if len(succ) > 0 {
				ok := false
				for _, s := range succ {
					ok = ok || s == after
				}
				if !ok {
					r.Violate("C29|conc|working-id-not-a-success", "%s: Dials succeeded with %v but WorkingHelloID is %q", what, succ, after)
				}
			}
			sort.Strings(succ)
			r.Obs = fmt.Sprintf("succ=%v|after=%s|attempts=%d", succ, after, len(e.attempts))
			r.Class = what + "|" + r.Obs
			return
		},
	}
}

// c29Unseeded — an unseeded randomized id draws a fresh fingerprint for every connection; once
// one of them worked, "the most recently working ClientHelloID" is THAT fingerprint (the id with
// the seed it was generated from): the next Dial must lead with it, byte-for-byte the same shape.
func c29Unseeded() *explore.Scenario {
	menu := c29Menu()
	kinds := []tls.ClientHelloID{tls.HelloRandomized, tls.HelloRandomizedALPN, tls.HelloRandomizedNoALPN}
	return &explore.Scenario{
		Name:    "unseeded-randomized-working-fingerprint",
		Workers: 1,
		Run: func(x *explore.X) (r explore.Result) {
			c29Learn()
			if c29Gate != "" {
				r.Violate("INFRA|c29-learn", "%s", c29Gate)
				return
			}
			kind := kinds[x.Choose("kind", len(kinds))]
			second := x.Choose("second", 3) // 0 accept-all server, 1 only the pinned fingerprint that worked, 2 only Chrome-120
			seedN := x.Choose("shuffle", 6)
			what := fmt.Sprintf("ids=[Chrome-120 Firefox-120 %s(unseeded)] second=%d shuffle-seed=%d", kind.Client, second, seedN)
			e := newRollerEnv(c29Sigs)
			vnet.SetDial(e.dial)
			defer vnet.SetDial(nil)
			defer e.closeAll()
			roller := c29Roller(menu, []int{1, 2})
			roller.HelloIDs = append(roller.HelloIDs, kind)
			tls.VerifRollerSeed(roller, tls.PRNGSeed{byte(seedN), 0x29, 0x55})
			// first Dial: only fingerprints outside the menu are accepted
			e.accept = map[string]bool{}
			e.acceptUnknown = func(string) bool { return true }
			c1, err1 := roller.Dial("tcp", "x", "a.example")
			var worked string
			for _, a := range e.attempts {
				if a.accept {
					worked = a.id
				}
			}
			if c1 == nil || err1 != nil || worked == "" {
				// a randomized spec the server cannot complete is not this property's subject
				r.Count("first_dial_failed", 1)
				r.Obs = "first-dial-failed"
				return
			}
			r.Count("first_dial_ok", 1)
			roller.HelloIDMu.Lock()
			w := roller.WorkingHelloID
			roller.HelloIDMu.Unlock()
			if w == nil || w.Client != kind.Client || w.Seed == nil {
				r.Violate("C29|unseeded|working-id-without-seed", "%s: %s worked but WorkingHelloID = %+v (the fingerprint that worked cannot be reproduced without its seed)", what, worked, w)
				return
			}
			e.mu.Lock()
			e.attempts = nil
			e.dials = map[string]int{}
			switch second {
			case 0:
				e.accept, e.acceptUnknown = nil, func(string) bool { return true }
			case 1:
				e.accept, e.acceptUnknown = map[string]bool{}, func(id string) bool { return id == worked }
			case 2:
				e.accept, e.acceptUnknown = map[string]bool{menu[1].name: true}, nil
			}
			e.mu.Unlock()
			c2, err2 := roller.Dial("tcp", "x", "b.example")
			att := append([]rollerAttempt(nil), e.attempts...)
			var order []string
			seen := map[string]bool{}
			for _, a := range att {
				order = append(order, a.id)
				if seen[a.id] {
					r.Violate("C29|unseeded|fingerprint-tried-twice", "%s: %v", what, order)
				}
				seen[a.id] = true
			}
			if len(att) == 0 || att[0].id != worked {
				r.Violate("C29|unseeded|next-dial-does-not-lead-with-working-fingerprint", "%s: the fingerprint that worked was %s, the next Dial tried %v", what, worked, order)
			}
			switch second {
			case 0, 1:
				if c2 == nil || err2 != nil || len(att) != 1 {
					r.Violate("C29|unseeded|pinned-fingerprint-not-reused", "%s: a server accepting the fingerprint that worked (%s): attempts %v conn=%v err=%v", what, worked, order, c2 != nil, err2)
				}
			case 2:
				if c2 == nil || err2 != nil || att[len(att)-1].id != menu[1].name {
					r.Violate("C29|unseeded|fallback-fails", "%s: only Chrome-120 accepted: attempts %v conn=%v err=%v", what, order, c2 != nil, err2)
				}
			}
			r.Nontrivial = true
			r.Obs = fmt.Sprintf("second=%d|attempts=%d|ok=%v", second, len(att), err2 == nil)
			r.Class = kind.Client + "|" + r.Obs
			return
		},
	}
}

// c29SeededAndUnseeded — a list holding a pinned (seeded) randomized id AND the unseeded id of the
// same client: they are different entries (one reproducible fingerprint, one fresh per attempt).
// After the pinned one worked and is then refused, a Dial leads with it once, and still tries the
// unseeded entry (a fingerprint the menu does not know) and every other id exactly once.
func c29SeededAndUnseeded() *explore.Scenario {
	menu := c29Menu()
	return &explore.Scenario{
		Name:    "seeded-and-unseeded-randomized-entries",
		Workers: 1,
		Run: func(x *explore.X) (r explore.Result) {
			c29Learn()
			if c29Gate != "" {
				r.Violate("INFRA|c29-learn", "%s", c29Gate)
				return
			}
			seedN := x.Choose("shuffle", 12)
			pinned := menu[4] // Randomized-ALPN, seeded
			what := fmt.Sprintf("ids=[Firefox-120 %s %s(unseeded)] shuffle-seed=%d", pinned.name, pinned.id.Client, seedN)
			e := newRollerEnv(c29Sigs)
			vnet.SetDial(e.dial)
			defer vnet.SetDial(nil)
			defer e.closeAll()
			roller := c29Roller(menu, []int{2, 4})
			roller.HelloIDs = append(roller.HelloIDs, tls.ClientHelloID{Client: pinned.id.Client, Version: pinned.id.Version})
			tls.VerifRollerSeed(roller, tls.PRNGSeed{byte(seedN), 0x29, 0x66})
			e.accept = map[string]bool{pinned.name: true}
			if c, err := roller.Dial("tcp", "x", "a.example"); c == nil || err != nil || workingName(roller) != pinned.name {
				r.Violate("C29|prefix|working-id-not-recorded", "%s: after a Dial that only %s can complete: conn=%v err=%v WorkingHelloID=%q", what, pinned.name, c != nil, err, workingName(roller))
				return
			}
			// now nothing is accepted: the Dial must try the working id once, then every other entry once
			e.mu.Lock()
			e.attempts, e.accept, e.acceptUnknown = nil, map[string]bool{}, nil
			e.dials = map[string]int{}
			e.mu.Unlock()
			c2, err2 := roller.Dial("tcp", "x", "example.com")
			var order []string
			count := map[string]int{}
			unknown := 0
			for _, a := range e.attempts {
				order = append(order, a.id)
				count[a.id]++
				if strings.HasPrefix(a.id, "?") {
					unknown++
				}
			}
			if c2 != nil || err2 == nil {
				r.Violate("C29|mixed|failure-not-returned", "%s: nothing accepted but Dial returned conn=%v err=%v", what, c2 != nil, err2)
			}
			if len(order) == 0 || order[0] != pinned.name {
				r.Violate("C29|mixed|does-not-lead-with-working-id", "%s: attempts %v", what, order)
			}
			if count[pinned.name] != 1 {
				r.Violate("C29|mixed|working-fingerprint-tried-more-than-once", "%s: %s attempted %d times: %v", what, pinned.name, count[pinned.name], order)
			}
			if unknown != 1 || count[menu[2].name] != 1 || len(order) != 3 {
				r.Violate("C29|mixed|configured-entry-not-tried", "%s: attempts %v: want the working id, Firefox-120 and one fresh fingerprint of the unseeded entry, each once", what, order)
			}
			r.Nontrivial = true
			r.Obs = fmt.Sprintf("attempts=%d|unknown=%d", len(order), unknown)
			r.Class = r.Obs
			return
		},
	}
}

// c29Stalled — one configured fingerprint meets a server that reads the ClientHello and then says
// nothing until the handshake timeout; the others are refused or accepted at once. Every ordered
// choice of (list, stalled id, accepted set, shuffle seed): the Dial still tries every id once in
// its order until one is accepted, each attempt with its own handshake timeout, and records it.
func c29Stalled() *explore.Scenario {
	menu := c29Menu()
	return &explore.Scenario{
		Name:    "one-fingerprint-stalls-until-the-handshake-timeout",
		Workers: 1,
		Run: func(x *explore.X) (r explore.Result) {
			c29Learn()
			if c29Gate != "" {
				r.Violate("INFRA|c29-learn", "%s", c29Gate)
				return
			}
			list := c29Lists[x.Choose("list", len(c29Lists))]
			stallIdx := list[x.Choose("stalled", len(list))]
			mask := x.Choose("accepted", 1<<len(list))
			seedN := x.Choose("shuffle", 4)
			e := newRollerEnv(c29Sigs)
			e.stall = map[string]bool{menu[stallIdx].name: true}
			e.accept = map[string]bool{}
			var cfg []string
			for i, mi := range list {
				cfg = append(cfg, menu[mi].name)
				if mask>>i&1 == 1 {
					e.accept[menu[mi].name] = true
				}
			}
			what := fmt.Sprintf("ids=%v stalled=%s accepted=%v shuffle-seed=%d", cfg, menu[stallIdx].name, keysOfBool(e.accept), seedN)
			vnet.SetDial(e.dial)
			defer vnet.SetDial(nil)
			defer e.closeAll()
			roller := c29Roller(menu, list)
			tls.VerifRollerSeed(roller, tls.PRNGSeed{byte(seedN), 0x29, 0x77})
			conn, err := roller.Dial("tcp", "x", "a.example")
			att := append([]rollerAttempt(nil), e.attempts...)
			var order []string
			seen := map[string]bool{}
			wantOK := ""
			for _, a := range att {
				order = append(order, a.id)
				if seen[a.id] {
					r.Violate("C29|stall|fingerprint-tried-twice", "%s: attempts %v", what, order)
				}
				seen[a.id] = true
			}
			for _, n := range cfg {
				if e.accept[n] && !e.stall[n] {
					wantOK = "some"
				}
			}
			r.Nontrivial = true
			r.Class = what
			if wantOK != "" {
				last := ""
				if len(att) > 0 {
					last = att[len(att)-1].id
				}
				if conn == nil || err != nil {
					r.Violate("C29|stall|dial-fails-although-a-fingerprint-is-accepted", "%s: attempts %v, Dial returned conn=%v err=%v (a stalled attempt may cost its own timeout, not the later attempts')", what, order, conn != nil, err)
				} else if !e.accept[last] || e.stall[last] || workingName(roller) != last {
					r.Violate("C29|stall|wrong-fingerprint-recorded", "%s: attempts %v, WorkingHelloID=%q", what, order, workingName(roller))
				}
				for _, a := range att[:max(len(att)-1, 0)] {
					if e.accept[a.id] && !e.stall[a.id] {
						r.Violate("C29|stall|went-on-after-success", "%s: attempts %v", what, order)
					}
				}
				r.Count("stall_dials_succeeded", 1)
				if seen[menu[stallIdx].name] {
					r.Count("stall_timeout_then_success", 1)
				}
			} else {
				if conn != nil || err == nil {
					r.Violate("C29|stall|dial-succeeds-without-accepting-server", "%s: attempts %v", what, order)
				}
				if len(att) != len(cfg) {
					r.Violate("C29|stall|not-every-id-tried", "%s: attempts %v", what, order)
				}
			}
			r.Obs = fmt.Sprintf("attempts=%d|ok=%v", len(att), err == nil)
			return
		},
	}
}

func keysOfBool(m map[string]bool) []string {
	var ks []string
	for k, v := range m {
		if v {
			ks = append(ks, k)
		}
	}
	sort.Strings(ks)
	return ks
}

func c29Scenarios(thorough bool) []*explore.Scenario {
	b := 1
	if thorough {
		b = 2
	}
	if os.Getenv("C29_BOUND") != "" {
		fmt.Sscan(os.Getenv("C29_BOUND"), &b)
	}
	return []*explore.Scenario{c29Sequential(thorough), c29Unseeded(), c29SeededAndUnseeded(), c29Stalled(), c29Concurrent(b, false)}
}

func init() {
	register(&Prop{ID: "C29", Level: "model_checking", Variant: "B", Scenarios: c29Scenarios, Sharded: true,
		Init:          func(verifDir string) { c29Trust(verifDir) },
		RaceScenarios: func(thorough bool) []*explore.Scenario { return []*explore.Scenario{c29Concurrent(0, true)} },
		Run: func(c *explore.Check, thorough bool) {
			c.Rule = "real Roller; net.DialTimeout redirected to in-memory connections to a standard-library TLS server that recognises each fingerprint and accepts a chosen subset. (1) explicit-state: the Roller's only state is WorkingHelloID, so every state {none, each configured id, an id no longer configured} — reached through the public API by a prefix Dial, or (each configured id) set by the caller as a pointer into its own list — x id lists {3 ids two of which share the client name, 4 ids incl. a seeded randomized one, 3 ids two of which are randomized ids differing only in their seed, 3 ids one of which is HelloGolang (built from the attempt's own Config)} x every acceptance subset x every attempt order the shuffle can produce (quick: 6 of 24 for the 4-id list) x dial failure at every position is executed, followed by one more Dial from the reached state; unseeded randomized ids (3 kinds x 6 shuffle seeds x 3 second servers): after one of their fresh fingerprints worked, WorkingHelloID carries its seed and the next Dial leads with exactly that fingerprint; a list holding a pinned and the unseeded id of one client (12 shuffle seeds): both stay separate entries, each tried once; one fingerprint stalled (its server reads the ClientHello and then stays silent; deadlines and a virtual clock are modelled in the in-memory transport: the attempt ends at its deadline) x each id of each list x every acceptance subset x 4 shuffle seeds: the other ids are still tried, each with its own handshake timeout; (2) two concurrent Dials on one Roller under the controlled scheduler, all schedules with <= 1 (2) preemptions/free switches, x 4 acceptance sets x {no working id, one}. Oracle (reference Roller): first attempt is the working id if any, no id twice, only configured ids (plus the working one), stops at the first accepted attempt and returns that connection (complete, same id, a Write on it succeeds, SNI = server name on every attempt), records it; a dial error is returned at once; failure leaves WorkingHelloID alone and tries every id; Roller.HelloIDs is never changed; concurrent: no deadlock/panic, each call explainable by the initial or the other call's working id, final WorkingHelloID is one of the successes. distinct = outcome class"
			c.Assumptions = []string{"shuffle decisions are driven by replacing the Roller's private prng with seeded ones (in-package helper); one seed per reachable attempt order", "fingerprints are recognised from the server's ClientHelloInfo (suites, extension set, groups, versions, ALPN; GREASE ignored); the menu's signatures are checked to be pairwise distinct", "trust via SSL_CERT_FILE and the real clock (certificate valid 2021-2036)"}
			runAll(c, c29Scenarios(thorough), 0)
			attachRacePass(c)
		}})
}
