package props

import (
	"encoding/json"
	"fmt"
	"io"
	"log"
	"os"
	"path/filepath"
	"reflect"
	"sort"
	"strings"
	"time"

	tls "github.com/refraction-networking/utls"

	"verifmc/explore"
	"verifmc/peer"
	"verifmc/wire"
)

// C07 — spec importers never panic and valid captures always yield usable specs.

func init() { log.SetOutput(io.Discard) }

// useSpec applies and builds a spec; returns a panic message if any.
func useSpec(spec *tls.ClientHelloSpec) string {
	return catch(func() {
		u := tls.UClient(nil, peer.ClientConfig("example.com"), tls.HelloCustom)
		if err := u.ApplyPreset(spec); err != nil {
			return
		}
		u.BuildHandshakeState()
	})
}

func c07Raw(thorough bool) *explore.Scenario {
	nvals := 3
	if thorough {
		nvals = 5
	}
	return &explore.Scenario{
		Name:     "raw-hello-importers",
		Watchdog: 60 * time.Second, HangSig: "C07|hang",
		Run: func(x *explore.X) (r explore.Result) {
			hellos := c34Corpus()
			src := hellos[x.Choose("hello", len(hellos))]
			kind := x.Choose("kind", 6)   // 0 intact, 1 byte value, 2 truncation, 3 extension body truncated with fixed prefixes, 4 16-bit word set to 0000/ffff, 5 record-layer version x legacy_version from the TLS version menu
			flags := x.Choose("flags", 8) // AllowBluntMimicry, RealPSKResumption, AlwaysAddPadding
			msg := src.msg
			var in []byte
			desc := "intact"
			switch kind {
			case 0:
				in = recordOf(msg)
			case 1:
				ps := positionsFor(len(msg), thorough)
				pos := ps[x.Choose("pos", len(ps))]
				val := byteVals[x.Choose("val", nvals)]
				c := append([]byte(nil), msg...)
				if val == 1 {
					c[pos] ^= 1
				} else {
					c[pos] = val
				}
				in = recordOf(c)
				desc = fmt.Sprintf("byte[%d]=%#02x", pos, val)
			case 5:
				vs := []uint16{0x0300, 0x0301, 0x0302, 0x0303, 0x0304}
				rv, hv := vs[x.Choose("pos", 5)], vs[x.Choose("val", 5)]
				c := append([]byte(nil), msg...)
				c[4], c[5] = byte(hv>>8), byte(hv)
				in = recordOf(c)
				in[1], in[2] = byte(rv>>8), byte(rv)
				desc = fmt.Sprintf("record-version=%04x,legacy_version=%04x", rv, hv)
			case 4:
				ps := positionsFor(len(msg)-1, thorough)
				pos := ps[x.Choose("pos", len(ps))]
				val := []byte{0x00, 0xff}[x.Choose("val", 2)]
				c := append([]byte(nil), msg...)
				c[pos], c[pos+1] = val, val
				in = recordOf(c)
				desc = fmt.Sprintf("word[%d]=%#02x%02x", pos, val, val)
			case 2:
				full := recordOf(msg)
				ps := positionsFor(len(full), thorough)
				l := ps[x.Choose("pos", len(ps))]
				in = full[:l]
				desc = fmt.Sprintf("record-truncated-to-%d", l)
			case 3:
				h, err := wire.ParseClientHello(msg)
				if err != nil || len(h.Exts) == 0 {
					r.Obs = "n/a"
					return
				}
				ei := x.Choose("ext", len(h.Exts))
				body := h.Exts[ei].Body
				ls := positionsFor(len(body)+1, thorough)
				l := ls[x.Choose("pos", len(ls))]
				if l > len(body) {
					l = len(body)
				}
				in = recordOf(rebuildHello(h, map[uint16][]byte{h.Exts[ei].Type: body[:l]}))
				desc = fmt.Sprintf("extension-%d-truncated-to-%d/%d", h.Exts[ei].Type, l, len(body))
			}
			what := fmt.Sprintf("%s %s flags=%d", src.name, desc, flags)
			var spec *tls.ClientHelloSpec
			var err error
			f := tls.Fingerprinter{AllowBluntMimicry: flags&1 != 0, RealPSKResumption: flags&2 != 0, AlwaysAddPadding: flags&4 != 0}
			if pm := catch(func() { spec, err = f.FingerprintClientHello(in) }); pm != "" {
				r.Violate(fmt.Sprintf("C07|raw|panic|kind=%d|%s", kind, errClass(fmt.Errorf("%s", pm))), "%s: FingerprintClientHello panicked: %s", what, truncStr(pm, 300))
				return
			}
			var s2 tls.ClientHelloSpec
			if pm := catch(func() { s2.FromRaw(in, flags&1 != 0, flags&2 != 0) }); pm != "" {
				r.Violate(fmt.Sprintf("C07|fromraw|panic|kind=%d|%s", kind, errClass(fmt.Errorf("%s", pm))), "%s: FromRaw panicked: %s", what, truncStr(pm, 300))
			}
			r.Nontrivial = true
			r.Class = what
			valid := false
			if len(in) > 5 {
				if _, e := wire.CheckAll(in[5:]); e == nil {
					valid = true
				}
			}
			if err == nil && spec != nil && valid && kind == 0 {
				// the application's server name is not the capture's: a spec imported from a capture with a
				// padding extension must be usable under every name length (the padding that reproduces the
				// captured length shrinks to nothing and below as the name grows)
				if h, e := wire.ParseClientHello(in[5:]); e == nil && h.Find(21) != nil {
					for l := 1; l <= 253; l++ {
						var sp *tls.ClientHelloSpec
						if catch(func() { sp, _ = f.FingerprintClientHello(in) }) != "" || sp == nil {
							break
						}
						pm := catch(func() {
							u := tls.UClient(nil, peer.ClientConfig(nameOfLen(l)), tls.HelloCustom)
							if err := u.ApplyPreset(sp); err != nil {
								return
							}
							u.BuildHandshakeState()
						})
						if pm != "" {
							r.Violate("C07|raw|valid-capture-spec-panics|under-another-name-length|"+errClass(fmt.Errorf("%s", pm)), "%s (input strictly valid), applied with a %d-byte server name: %s", what, l, truncStr(pm, 300))
							break
						}
						r.Count("padded_capture_name_lengths_tried", 1)
					}
				}
			}
			if err == nil && spec != nil {
				if pm := useSpec(spec); pm != "" {
					if valid {
						r.Violate("C07|raw|valid-capture-spec-panics|"+errClass(fmt.Errorf("%s", pm)), "%s (input strictly valid): applying/building the returned spec panicked: %s", what, truncStr(pm, 300))
					} else {
						// the property promises a usable spec for syntactically valid hellos only; a spec
						// imported from a malformed hello (e.g. a duplicated extension type) may trip
						// ApplyPreset's own assertions
						r.Count("invalid_input_spec_rejected_by_assertion", 1)
					}
				}
				r.Count("specs_returned", 1)
			} else {
				r.Count("errors_returned", 1)
			}
			r.Obs = fmt.Sprintf("kind%d|valid=%v|err=%v", kind, valid, err != nil)
			return
		},
	}
}

func c07ExtWrite() *explore.Scenario {
	vals := c08Values()
	return &explore.Scenario{
		Name:     "extension-Write-on-every-prefix-and-byte-edit",
		Watchdog: 60 * time.Second, HangSig: "C07|hang",
		Run: func(x *explore.X) (r explore.Result) {
			v := vals[x.Choose("value", len(vals))]
			e := v.Mk()
			if _, ok := e.(tls.TLSExtensionWriter); !ok {
				r.Obs = "not-a-writer"
				return
			}
			n := e.Len()
			if n < 4 {
				r.Obs = "zero-length"
				return
			}
			buf := make([]byte, n)
			e.Read(buf)
			body := buf[4:]
			typ := reflect.TypeOf(e).Elem()
			cnt := 0
			try := func(b []byte, d string) {
				fresh := reflect.New(typ).Interface().(tls.TLSExtensionWriter)
				cnt++
				if pm := catch(func() { fresh.Write(b) }); pm != "" && len(r.Viol) < 3 {
					r.Violate(fmt.Sprintf("C07|extwrite|panic|%s|%s", typ.Name(), errClass(fmt.Errorf("%s", pm))), "%s.Write(%s of the body of %s) panicked: %s", typ.Name(), d, v.Name, truncStr(pm, 300))
				}
			}
			for l := 0; l <= len(body); l++ {
				try(body[:l], fmt.Sprintf("prefix %d/%d", l, len(body)))
			}
			lim := len(body)
			if lim > 400 {
				lim = 400
			}
			for i := 0; i < lim; i++ {
				for _, val := range []byte{0x00, 0xff, 0x7f, 0x80} {
					c := append([]byte(nil), body...)
					c[i] = val
					try(c, fmt.Sprintf("byte[%d]=%#02x", i, val))
				}
			}
			for i := 0; i+1 < lim; i++ { // 16-bit fields (identifiers, lengths) set to their extremes
				for _, val := range []byte{0x00, 0xff} {
					c := append([]byte(nil), body...)
					c[i], c[i+1] = val, val
					try(c, fmt.Sprintf("word[%d]=%#02x%02x", i, val, val))
				}
			}
			r.Count("extension_writes", cnt)
			x.Transitions += cnt
			r.Obs = fmt.Sprintf("%s|viol=%d", typ.Name(), len(r.Viol))
			r.Nontrivial = true
			r.Class = v.Name
			return
		},
	}
}

// jsonDocs: the repository's JSON examples plus renderings of corpus hellos.
func c07JSONDocs() [][2]string {
	var out [][2]string
	files, _ := filepath.Glob("/repo/testdata/*.json")
	sort.Strings(files)
	for _, f := range files {
		if b, err := os.ReadFile(f); err == nil {
			out = append(out, [2]string{filepath.Base(f), string(b)})
		}
	}
	for i, h := range c34Corpus() {
		if i%5 != 0 {
			continue
		}
		if ph, err := wire.ParseClientHello(h.msg); err == nil {
			if doc, ok, _ := renderJSON(ph); ok {
				out = append(out, [2]string{"rendered:" + h.name, string(doc)})
			}
		}
	}
	return out
}

func c07JSON() *explore.Scenario {
	retype := []any{nil, 7, "str", []any{}, map[string]any{}, []any{1, "x", nil}, true}
	return &explore.Scenario{
		Name:     "json-key-lattice-and-retyping",
		Watchdog: 60 * time.Second, HangSig: "C07|hang",
		Run: func(x *explore.X) (r explore.Result) {
			docs := c07JSONDocs()
			if len(docs) < 5 {
				r.Violate("INFRA|c07-json-docs", "only %d JSON documents", len(docs))
				return
			}
			d := docs[x.Choose("doc", len(docs))]
			var top map[string]any
			if err := json.Unmarshal([]byte(d[1]), &top); err != nil {
				r.Obs = "source-not-json"
				return
			}
			mode := x.Choose("mode", 3) // 0 top-level key subset / retype, 1 extension-object field edit, 2 raw text truncation
			desc := ""
			var doc []byte
			switch mode {
			case 0:
				keys := []string{"cipher_suites", "compression_methods", "extensions"}
				mask := x.Choose("subset", 8)
				rt := x.Choose("retype", len(retype)+1)
				m := map[string]any{}
				for i, k := range keys {
					if mask&(1<<i) != 0 {
						m[k] = top[k]
						if rt > 0 {
							m[k] = retype[rt-1]
						}
					}
				}
				doc, _ = json.Marshal(m)
				desc = fmt.Sprintf("keys-mask=%03b retype=%d", mask, rt)
			case 1:
				exts, _ := top["extensions"].([]any)
				if len(exts) == 0 {
					r.Obs = "no-extensions"
					return
				}
				ei := x.Choose("ext", len(exts))
				obj, _ := exts[ei].(map[string]any)
				var fields []string
				for k := range obj {
					fields = append(fields, k)
				}
				sort.Strings(fields)
				if len(fields) == 0 {
					r.Obs = "empty-ext"
					return
				}
				fi := x.Choose("field", len(fields))
				rt := x.Choose("retype", len(retype)+1) // 0 = removed
				no := map[string]any{}
				for k, v := range obj {
					no[k] = v
				}
				if rt == 0 {
					delete(no, fields[fi])
				} else {
					no[fields[fi]] = retype[rt-1]
				}
				ne := append([]any{}, exts...)
				ne[ei] = no
				m := map[string]any{"cipher_suites": top["cipher_suites"], "compression_methods": top["compression_methods"], "extensions": ne}
				doc, _ = json.Marshal(m)
				desc = fmt.Sprintf("extension[%d](%v).%s retype=%d", ei, obj["name"], fields[fi], rt)
			case 2:
				compact, _ := json.Marshal(top)
				ps := positionsFor(len(compact), false)
				l := ps[x.Choose("pos", len(ps))]
				doc = compact[:l]
				desc = fmt.Sprintf("text-truncated-to-%d", l)
			}
			what := fmt.Sprintf("%s %s", d[0], desc)
			var spec tls.ClientHelloSpec
			var err error
			if pm := catch(func() { err = spec.UnmarshalJSON(doc) }); pm != "" {
				r.Violate("C07|json|panic|"+fmt.Sprintf("mode=%d|", mode)+errClass(fmt.Errorf("%s", pm)), "%s: UnmarshalJSON panicked: %s\n  document: %s", what, truncStr(pm, 200), truncStr(string(doc), 300))
				return
			}
			if pm := catch(func() { (&tls.Fingerprinter{}).UnmarshalJSONClientHello(doc) }); pm != "" {
				r.Violate("C07|json-fingerprinter|panic|"+errClass(fmt.Errorf("%s", pm)), "%s: UnmarshalJSONClientHello panicked: %s", what, truncStr(pm, 200))
			}
			if err == nil {
				if pm := useSpec(&spec); pm != "" {
					// usable specs are promised for valid descriptions: the unedited document
					if mode == 0 && strings.HasPrefix(desc, "keys-mask=111 retype=0") {
						r.Violate("C07|json|valid-document-spec-panics|"+errClass(fmt.Errorf("%s", pm)), "%s: applying/building the imported spec panicked: %s", what, truncStr(pm, 300))
					} else {
						r.Count("invalid_input_spec_rejected_by_assertion", 1)
					}
				}
				r.Count("specs_returned", 1)
			} else {
				r.Count("errors_returned", 1)
			}
			r.Obs = fmt.Sprintf("mode%d|err=%v", mode, err != nil)
			r.Nontrivial = true
			r.Class = what
			if mode == 0 {
				r.Sample = map[string]any{"case": what, "document": truncStr(string(doc), 200), "error": fmt.Sprint(err)}
			}
			return
		},
	}
}

// importMap derives a tlsfingerprint.io-style map from a parsed hello.
func importMap(h *wire.Hello) map[string][]byte {
	m := map[string][]byte{}
	var cs []byte
	for _, s := range h.Suites {
		cs = append(cs, byte(s>>8), byte(s))
	}
	m["cipher_suites"] = cs
	m["compression_methods"] = h.Compression
	var et []byte
	for _, e := range h.Exts {
		et = append(et, byte(e.Type>>8), byte(e.Type))
		switch e.Type {
		case 11:
			m["pt_fmts"] = e.Body
		case 13:
			m["sig_algs"] = e.Body
		case 43:
			if len(e.Body) > 0 {
				m["supported_versions"] = e.Body[1:]
			}
		case 10:
			m["curves"] = e.Body
		case 16:
			m["alpn"] = e.Body
		case 51:
			if ks, err := wire.ParseKeyShares(e.Body); err == nil {
				var b []byte
				for _, k := range ks {
					b = append(b, byte(k.Group>>8), byte(k.Group), byte(len(k.Data)>>8), byte(len(k.Data)))
				}
				m["key_share"] = b
			}
		case 45:
			if len(e.Body) > 0 {
				m["psk_key_exchange_modes"] = e.Body[1:]
			}
		case 27:
			if len(e.Body) > 0 {
				m["cert_compression_algs"] = e.Body[1:]
			}
		case 28:
			m["record_size_limit"] = e.Body
		}
	}
	m["extensions"] = et
	return m
}

func c07ImportMap() *explore.Scenario {
	return &explore.Scenario{
		Name:     "tlsfingerprint-import-maps",
		Watchdog: 60 * time.Second, HangSig: "C07|hang",
		Run: func(x *explore.X) (r explore.Result) {
			hellos := c34Corpus()
			src := hellos[x.Choose("hello", len(hellos))]
			h, err := wire.ParseClientHello(src.msg)
			if err != nil {
				r.Obs = "n/a"
				return
			}
			m := importMap(h)
			var keys []string
			for k := range m {
				keys = append(keys, k)
			}
			sort.Strings(keys)
			mode := x.Choose("mode", 4) // 0 intact, 1 key removed, 2 value truncated to 0..8, 3 value extended by 1..3 bytes
			desc := "intact"
			if mode > 0 {
				k := keys[x.Choose("key", len(keys))]
				switch mode {
				case 1:
					delete(m, k)
					desc = "without " + k
				case 2:
					l := x.Choose("len", 9)
					if l > len(m[k]) {
						l = len(m[k])
					}
					m[k] = m[k][:l]
					desc = fmt.Sprintf("%s truncated to %d", k, l)
				case 3:
					n := 1 + x.Choose("len", 3)
					m[k] = append(append([]byte(nil), m[k]...), rep(1, n)...)
					desc = fmt.Sprintf("%s extended by %d", k, n)
				}
			}
			what := src.name + " " + desc
			var spec tls.ClientHelloSpec
			if pm := catch(func() { err = spec.ImportTLSClientHello(m) }); pm != "" {
				r.Violate(fmt.Sprintf("C07|importmap|panic|mode=%d|%s", mode, errClass(fmt.Errorf("%s", pm))), "%s: ImportTLSClientHello panicked: %s", what, truncStr(pm, 300))
				return
			}
			jb, _ := json.Marshal(m)
			var s2 tls.ClientHelloSpec
			if pm := catch(func() { s2.ImportTLSClientHelloFromJSON(jb) }); pm != "" {
				r.Violate("C07|importmap-json|panic|"+errClass(fmt.Errorf("%s", pm)), "%s: ImportTLSClientHelloFromJSON panicked: %s", what, truncStr(pm, 300))
			}
			if err == nil {
				if pm := useSpec(&spec); pm != "" {
					if mode == 0 {
						r.Violate("C07|importmap|valid-map-spec-panics|"+errClass(fmt.Errorf("%s", pm)), "%s: applying/building the imported spec panicked: %s", what, truncStr(pm, 300))
					} else {
						r.Count("invalid_input_spec_rejected_by_assertion", 1)
					}
				}
				r.Count("specs_returned", 1)
			} else {
				r.Count("errors_returned", 1)
				// a map taken from a valid ClientHello is a valid capture: refusing it is allowed only
				// because the format has no way to carry one of its extensions, not because a value in
				// it was misread
				if mode == 0 && !strings.Contains(err.Error(), "unsupported extension") && !strings.Contains(err.Error(), "is required") {
					r.Violate("C07|importmap|valid-capture-refused|"+errClass(err), "%s: ImportTLSClientHello refuses the map of a valid ClientHello: %v", what, err)
				}
			}
			r.Obs = fmt.Sprintf("mode%d|err=%v", mode, err != nil)
			r.Nontrivial = true
			r.Class = what
			return
		},
	}
}

func c07Scenarios(thorough bool) []*explore.Scenario {
	return []*explore.Scenario{c07Raw(thorough), c07ExtWrite(), c07JSON(), c07ImportMap()}
}

func init() {
	register(&Prop{ID: "C07", Level: "exploration", Variant: "A", Scenarios: c07Scenarios,
		Run: func(c *explore.Check, thorough bool) {
			c.Rule = "small-scope exhaustive edits of seed inputs. Raw: every corpus ClientHello (all IDs, custom, ECH outer, PSK) x {intact, every byte position x value menu, every 16-bit word set to 0000/ffff, record-layer version x legacy_version over {0300..0304}^2, record truncated to every length, every extension body truncated with fixed prefixes} x all 8 Fingerprinter flag sets through FingerprintClientHello (and FromRaw); extension Write on every body prefix and every byte x 4 values and every 16-bit word x {0000, ffff} for every extension value of the C08 table; JSON: the repository's 4 documents + renderings of corpus hellos x {every subset of the 3 top-level keys x 7 retypings, every extension-object field removed / retyped, text truncated}; tlsfingerprint maps derived from every corpus hello x {intact, each key removed, each value truncated to 0..8 bytes, extended by 1..3 bytes}. Oracle: the importers never panic (watchdog 60 s); for strictly valid inputs (unedited hellos / documents / maps) the returned spec must ApplyPreset + BuildHandshakeState without panicking, and for captures with a padding extension under every server-name length 1..253 (for malformed inputs a spec tripping ApplyPreset's assertions is counted, not flagged). distinct = case"
			c.Assumptions = []string{"model checking cannot quantify over arbitrary bytes: the claim is the small-scope one (single edits from fixed menus on valid seeds)"}
			runAll(c, c07Scenarios(thorough), 0)
			c.Gate(c.Total.Counters["specs_returned"] > 5000, "non-vacuity: %d specs returned", c.Total.Counters["specs_returned"])
			c.Gate(c.Total.Counters["errors_returned"] > 5000, "non-vacuity: %d errors returned", c.Total.Counters["errors_returned"])
		}})
}
