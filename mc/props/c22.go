package props

import (
	"bytes"
	"errors"
	"fmt"

	tls "github.com/refraction-networking/utls"

	"verifmc/explore"
	"verifmc/peer"
)

// C22 — application settings (ALPS) are exchanged consistently.

func alpsClients() []gridClient {
	var out []gridClient
	for _, g := range gridClients(0, false) {
		if g.Spec != nil || isGolang(g.ID) {
			continue
		}
		sp, err := tls.UTLSIdToSpec(g.ID)
		if err != nil {
			continue
		}
		for _, e := range sp.Extensions {
			switch e.(type) {
			case *tls.ApplicationSettingsExtension, *tls.ApplicationSettingsExtensionNew:
				out = append(out, g)
			}
		}
	}
	mk := func(name string, exts ...func() tls.TLSExtension) gridClient {
		return gridClient{Name: "custom:" + name, ID: tls.HelloCustom, Spec: func() (*tls.ClientHelloSpec, error) {
			sp := handshakeSpec("tls13-minimal")
			for _, e := range exts {
				sp.Extensions = append(sp.Extensions, e())
			}
			return sp, nil
		}}
	}
	old := func() tls.TLSExtension { return &tls.ApplicationSettingsExtension{SupportedProtocols: []string{"h2"}} }
	nw := func() tls.TLSExtension {
		return &tls.ApplicationSettingsExtensionNew{SupportedProtocols: []string{"h2", "http/1.1"}}
	}
	out = append(out, mk("alps-old", old), mk("alps-new", nw), mk("alps-both", old, nw))
	return out
}

func c22Scenario() *explore.Scenario {
	clients := alpsClients()
	settingsMenu := [][]byte{{}, {0x42}, rep(0x5e, 300)}
	return &explore.Scenario{
		Name: "alps-exchange",
		Run: func(x *explore.X) (r explore.Result) {
			if len(clients) < 4 {
				r.Violate("INFRA|c22-clients", "only %d ALPS-capable clients", len(clients))
				return
			}
			g := clients[x.Choose("client", len(clients))]
			vers := []uint16{tls.VersionTLS13, tls.VersionTLS12}[x.Choose("version", 2)]
			proto := []string{"h2", "http/1.1", ""}[x.Choose("alpn", 3)]
			cp := []uint16{17513, 17613}[x.Choose("codepoint", 2)]
			srvSettings := settingsMenu[x.Choose("server-settings", 3)]
			cliMode := x.Choose("client-settings", 3)      // 0 has the selected proto, 1 lacks it, 2 nil map
			alpsFirst := x.Choose("alps-position", 2) == 1 // the server lists ALPS before / after ALPN
			// the server also acknowledges server_name (empty extension, RFC 6066) after everything else
			sniAck := x.Choose("alps-followed-by-sni-ack", 2) == 1
			// the hooked server can read the client's EncryptedExtensions only when it requests a client
			// certificate (otherwise it rolls its transcript forward past the predicted client Finished
			// while sending its own flight), so ALPS negotiation always runs with RequestClientCert
			clientAuth := true
			h0, err := g.probeHello()
			if err != nil {
				r.Obs = "no-hello"
				return
			}
			o := offerOf(h0)
			if !has16(o.versions, vers) {
				r.Obs = "version-not-offered"
				return
			}
			offered := h0.Find(cp) != nil
			if !offered {
				r.Obs = "codepoint-not-offered" // outside the property (see C12 for unoffered choices)
				return
			}
			if proto != "" {
				found := false
				for _, p := range o.protos {
					if p == proto {
						found = true
					}
				}
				if !found {
					r.Obs = "proto-not-offered"
					return
				}
			}
			mine := []byte("client-settings-for-" + proto)
			ccfg := g.config("example.com")
			switch cliMode {
			case 0:
				ccfg.ApplicationSettings = map[string][]byte{proto: mine, "other": []byte("x")}
			case 1:
				ccfg.ApplicationSettings = map[string][]byte{"other": []byte("x")}
			}
			certKind := "ecdsa"
			if !offersCert(o, "ecdsa") {
				certKind = "rsa"
			}
			sc := serverChoice{Vers: vers, Cert: certKind, Proto: proto}
			scfg := sc.config()
			if clientAuth {
				scfg.ClientAuth = tls.RequestClientCert
			}
			hk := &connHooks{WantEE: vers == tls.VersionTLS13 && proto != ""}
			hk.Out = func(n int, t uint8, d []byte) []byte {
				if vers == tls.VersionTLS13 && t == 8 {
					if alpsFirst {
						d = editEEFront(d, cp, srvSettings)
					} else {
						d = editEE(d, cp, srvSettings)
					}
					if sniAck {
						d = editEE(d, 0, []byte{})
					}
					return d
				}
				if vers == tls.VersionTLS12 && t == 2 {
					if sp, ok := parseServerHello(d); ok {
						if alpsFirst {
							sp.exts = append([]shExt{{cp, srvSettings}}, sp.exts...)
						} else {
							sp.exts = append(sp.exts, shExt{cp, srvSettings})
						}
						if sniAck {
							sp.exts = append(sp.exts, shExt{0, []byte{}})
						}
						return sp.build()
					}
				}
				return d
			}
			what := fmt.Sprintf("%s vers=%04x alpn=%q codepoint=%d server-settings=%dB client-settings-mode=%d clientauth=%v alps-first=%v sni-ack-last=%v", g.Name, vers, proto, cp, len(srvSettings), cliMode, clientAuth, alpsFirst, sniAck)
			var cleanup func()
			hs := peer.Run(ccfg, g.ID, scfg, peer.Opts{Prepare: g.prepare(), Echo: true,
				OnConns: func(u *tls.UConn, s *tls.Conn) { cleanup = installHooks(s, hk) }})
			if cleanup != nil {
				cleanup()
			}
			r.Nontrivial = true
			r.Class = what
			if hs.CPanic != "" {
				r.Violate("C22|panic", "%s: %s", what, truncStr(hs.CPanic, 300))
				return
			}
			cs := hs.U.ConnectionState()
			switch {
			case vers == tls.VersionTLS12:
				// below 1.3 the settings must not be accepted: an error, or ignored and never exposed
				if hs.CErr == nil && len(cs.PeerApplicationSettings) > 0 {
					r.Violate("C22|tls12-settings-exposed", "%s: PeerApplicationSettings exposed under TLS 1.2", what)
				}
				r.Count("tls12_cases", 1)
			case proto == "":
				if hs.CErr == nil {
					r.Violate("C22|accepted-without-alpn", "%s: application settings without a negotiated ALPN protocol were accepted", what)
				}
				r.Count("no_alpn_cases", 1)
			default:
				if !(hs.OK() && hs.EchoOK) {
					r.Violate(fmt.Sprintf("C22|negotiation-fails|clientauth=%v|%s", clientAuth, errClass(hs.SErr)), "%s: client %v / server %v", what, hs.CErr, hs.SErr)
					break
				}
				if !bytes.Equal(cs.PeerApplicationSettings, srvSettings) {
					r.Violate("C22|peer-settings-differ", "%s: PeerApplicationSettings = %d bytes, server sent %d", what, len(cs.PeerApplicationSettings), len(srvSettings))
				}
				if !hk.GotEE {
					r.Violate("C22|no-client-encrypted-extensions", "%s: the server received no client EncryptedExtensions", what)
					break
				}
				// client EE: exactly one extension, the negotiated codepoint, body = configured settings
				ee := hk.ClientEE
				wantBody := []byte{}
				if cliMode == 0 {
					wantBody = mine
				}
				okShape := len(ee) >= 10 && ee[0] == 8
				var gotCP uint16
				var gotBody []byte
				if okShape {
					ext := ee[6:]
					gotCP = uint16(ext[0])<<8 | uint16(ext[1])
					l := int(ext[2])<<8 | int(ext[3])
					okShape = 4+l == len(ext)
					if okShape {
						gotBody = ext[4:]
					}
				}
				if !okShape {
					r.Violate("C22|client-ee-shape", "%s: client EncryptedExtensions % x", what, trunc(ee, 40))
				} else {
					if gotCP != cp {
						r.Violate("C22|client-ee-codepoint", "%s: client used codepoint %d, server negotiated %d", what, gotCP, cp)
					}
					if cliMode == 0 && !bytes.Equal(gotBody, wantBody) {
						r.Violate(fmt.Sprintf("C22|client-settings-not-sent|vers=%04x", vers), "%s: the client sent %q as its settings, Config.ApplicationSettings[%q] = %q", what, gotBody, proto, wantBody)
					}
					if cliMode != 0 && len(gotBody) != 0 {
						r.Violate("C22|client-settings-invented", "%s: the client sent %d bytes of settings without a configured entry", what, len(gotBody))
					}
				}
				r.Count("alps_negotiated", 1)
			}
			r.Obs = fmt.Sprintf("%04x|alpn=%v|done=%v|viol=%d", vers, proto != "", hs.CErr == nil, len(r.Viol))
			if cliMode == 0 && len(srvSettings) == 1 && vers == tls.VersionTLS13 {
				r.Sample = map[string]any{"case": what, "peer_settings": fmt.Sprintf("%x", cs.PeerApplicationSettings), "client_ee": fmt.Sprintf("%x", trunc(hk.ClientEE, 48))}
			}
			return
		},
	}
}

// c22Resumed: application settings are negotiated anew on every connection (a ticket does not carry
// them), so on a PSK-resumed TLS 1.3 connection whose server again sends application_settings the
// client must expose them and still send its own settings in a client EncryptedExtensions message.
// The hooked server cannot verify the client Finished on a resumed connection (no client certificate is
// requested, so the stock server has already rolled its transcript past the predicted Finished); what is
// judged is the message the server reads right after its own flight, and what the client exposes.
func c22Resumed() *explore.Scenario {
	var clients []gridClient
	for _, g := range alpsClients() {
		if g.PSK {
			clients = append(clients, g)
		}
	}
	return &explore.Scenario{
		Name: "alps-on-resumed-connection",
		Run: func(x *explore.X) (r explore.Result) {
			if len(clients) < 2 {
				r.Violate("INFRA|c22-psk-clients", "only %d ALPS- and PSK-capable clients", len(clients))
				return
			}
			g := clients[x.Choose("client", len(clients))]
			cp := []uint16{17513, 17613}[x.Choose("codepoint", 2)]
			firstALPS := x.Choose("first-connection-negotiates-alps", 2) == 1
			cliMode := x.Choose("client-settings", 2) // 0 has the selected proto, 1 nil map
			srvSettings := [][]byte{{0x42}, rep(0x5e, 300)}[x.Choose("server-settings", 2)]
			h0, err := g.probeHello()
			if err != nil || h0.Find(cp) == nil {
				r.Obs = "codepoint-not-offered"
				return
			}
			o := offerOf(h0)
			proto := "h2"
			mine := []byte("client-settings-for-" + proto)
			ccfg := g.config("example.com")
			ccfg.ClientSessionCache = tls.NewLRUClientSessionCache(8)
			if cliMode == 0 {
				ccfg.ApplicationSettings = map[string][]byte{proto: mine}
			}
			certKind := "ecdsa"
			if !offersCert(o, "ecdsa") {
				certKind = "rsa"
			}
			sc := serverChoice{Vers: tls.VersionTLS13, Cert: certKind, Proto: proto}
			scfg := sc.config()
			scfg.ClientAuth = tls.RequestClientCert
			what := fmt.Sprintf("%s codepoint=%d first-connection-alps=%v client-settings-mode=%d server-settings=%dB", g.Name, cp, firstALPS, cliMode, len(srvSettings))
			connect := func(alps bool) (*peer.HS, *connHooks) {
				hk := &connHooks{WantEE: alps}
				if alps {
					hk.Out = func(n int, t uint8, d []byte) []byte {
						if t == 8 {
							return editEE(d, cp, srvSettings)
						}
						return d
					}
				}
				var cleanup func()
				hs := peer.Run(ccfg, g.ID, scfg, peer.Opts{Prepare: g.prepare(), Echo: true,
					OnConns: func(u *tls.UConn, s *tls.Conn) { cleanup = installHooks(s, hk) }})
				if cleanup != nil {
					cleanup()
				}
				return hs, hk
			}
			h1, _ := connect(firstALPS)
			if h1.CPanic != "" {
				r.Violate("C22|panic", "%s: first connection: %s", what, truncStr(h1.CPanic, 300))
				return
			}
			if !(h1.OK() && h1.EchoOK) {
				r.Violate("C22|negotiation-fails|first-of-two|"+errClass(h1.SErr), "%s: first connection: client %v / server %v", what, h1.CErr, h1.SErr)
				return
			}
			h2, hk := connect(true)
			r.Nontrivial = true
			r.Class = what
			if h2.CPanic != "" {
				r.Violate("C22|panic", "%s: second connection: %s", what, truncStr(h2.CPanic, 300))
				return
			}
			if h2.U.HandshakeState.State13.UsingPSK {
				r.Count("resumed_alps_connections", 1)
			} else {
				r.Count("second_connection_not_resumed", 1)
			}
			if !hk.GotEE {
				r.Violate(fmt.Sprintf("C22|no-client-encrypted-extensions|psk=%v", h2.U.HandshakeState.State13.UsingPSK), "%s: the server negotiated application settings on the second connection and read no client EncryptedExtensions after its flight (server: %v)", what, h2.SErr)
				return
			}
			ee := hk.ClientEE
			if !(len(ee) >= 10 && ee[0] == 8) || uint16(ee[6])<<8|uint16(ee[7]) != cp {
				r.Violate("C22|client-ee-shape", "%s: client EncryptedExtensions % x", what, trunc(ee, 40))
			} else if body := ee[10:]; cliMode == 0 && !bytes.Equal(body, mine) {
				r.Violate("C22|client-settings-not-sent|resumed", "%s: the client sent %q as its settings", what, body)
			} else if cliMode != 0 && len(body) != 0 {
				r.Violate("C22|client-settings-invented", "%s: the client sent %d bytes of settings without a configured entry", what, len(body))
			}
			r.Obs = fmt.Sprintf("psk=%v|ee=%d", h2.U.HandshakeState.State13.UsingPSK, len(ee))
			return
		},
	}
}

// c22RejectedECH: a client that offered ECH to a server which does not hold the key goes through the
// handshake on its outer hello (to authenticate the rejection). A server that negotiates application
// settings on that handshake still has to receive the client's EncryptedExtensions where it expects it.
func c22RejectedECH() *explore.Scenario {
	var clients []gridClient
	for _, g := range alpsClients() {
		if g.Spec != nil {
			continue
		}
		if sp, err := tls.UTLSIdToSpec(g.ID); err == nil {
			for _, e := range sp.Extensions {
				if _, ok := e.(*tls.GREASEEncryptedClientHelloExtension); ok {
					clients = append(clients, g)
					break
				}
			}
		}
	}
	return &explore.Scenario{
		Name: "alps-while-ech-is-rejected",
		Run: func(x *explore.X) (r explore.Result) {
			if len(clients) < 1 {
				r.Violate("INFRA|c22-ech-clients", "no parrot carries both ALPS and ECH")
				return
			}
			g := clients[x.Choose("client", len(clients))]
			cp := []uint16{17513, 17613}[x.Choose("codepoint", 2)]
			withECH := x.Choose("ech-config-set", 2) == 1 // 0 = control: the same handshake without ECH
			h0, err := g.probeHello()
			if err != nil || h0.Find(cp) == nil {
				r.Obs = "codepoint-not-offered"
				return
			}
			o := offerOf(h0)
			proto := "h2"
			mine := []byte("client-settings-for-" + proto)
			ccfg := g.config("example.com")
			ccfg.ApplicationSettings = map[string][]byte{proto: mine}
			if withECH {
				e := peer.MakeECH(peer.ECHParams{ConfigID: 9, PublicName: "example.com", MaxNameLen: 32})
				ccfg.EncryptedClientHelloConfigList = e.ConfigList
				ccfg.MinVersion = tls.VersionTLS13
			}
			certKind := "ecdsa"
			if !offersCert(o, "ecdsa") {
				certKind = "rsa"
			}
			sc := serverChoice{Vers: tls.VersionTLS13, Cert: certKind, Proto: proto}
			scfg := sc.config()
			scfg.ClientAuth = tls.RequestClientCert
			srvSettings := []byte{0x42, 0x43}
			hk := &connHooks{WantEE: true}
			hk.Out = func(n int, t uint8, d []byte) []byte {
				if t == 8 {
					return editEE(d, cp, srvSettings)
				}
				return d
			}
			what := fmt.Sprintf("%s codepoint=%d ech-offered-and-rejected=%v", g.Name, cp, withECH)
			var cleanup func()
			hs := peer.Run(ccfg, g.ID, scfg, peer.Opts{Prepare: g.prepare(), Echo: !withECH,
				OnConns: func(u *tls.UConn, s *tls.Conn) { cleanup = installHooks(s, hk) }})
			if cleanup != nil {
				cleanup()
			}
			r.Nontrivial = true
			r.Class = what
			if hs.CPanic != "" {
				r.Violate("C22|panic", "%s: %s", what, truncStr(hs.CPanic, 300))
				return
			}
			if !hk.GotEE {
				r.Violate(fmt.Sprintf("C22|no-client-encrypted-extensions|ech-rejected=%v", withECH), "%s: the server negotiated application settings and read no client EncryptedExtensions after its flight (client: %v, server: %v)", what, hs.CErr, hs.SErr)
				return
			}
			ee := hk.ClientEE
			if !(len(ee) >= 10 && ee[0] == 8) || uint16(ee[6])<<8|uint16(ee[7]) != cp {
				r.Violate("C22|client-ee-shape", "%s: client EncryptedExtensions % x", what, trunc(ee, 40))
			} else if body := ee[10:]; !bytes.Equal(body, mine) {
				r.Violate("C22|client-settings-not-sent|ech-rejected", "%s: the client sent %q as its settings", what, body)
			}
			if withECH {
				var rej *tls.ECHRejectionError
				if !errors.As(hs.CErr, &rej) {
					r.Count("rejection_not_reported:"+errClass(hs.CErr), 1) // C15's subject
				}
				if hs.SErr != nil {
					r.Violate("C22|server-fails-under-rejected-ech|"+truncStr(errClass(hs.SErr), 60), "%s: the server's handshake failed: %v", what, hs.SErr)
				}
			} else if !(hs.OK() && hs.EchoOK) {
				r.Violate("C22|negotiation-fails|control", "%s: client %v / server %v", what, hs.CErr, hs.SErr)
			}
			r.Count("alps_under_ech_cases", 1)
			r.Obs = fmt.Sprintf("ech=%v|ee=%d|cerr=%s", withECH, len(ee), errClass(hs.CErr))
			return
		},
	}
}

func c22Scenarios(thorough bool) []*explore.Scenario {
	return []*explore.Scenario{c22Scenario(), c22Resumed(), c22RejectedECH()}
}

func init() {
	register(&Prop{ID: "C22", Level: "exploration", Variant: "A", Scenarios: c22Scenarios,
		Run: func(c *explore.Check, thorough bool) {
			c.Rule = "every parrot carrying an ALPS extension + custom specs with the old, the new and both codepoints x version {1.3, 1.2} x ALPN selected {h2, http/1.1, none} x offered server codepoint {17513, 17613} x server settings {empty, 1 B, 300 B} x ALPS listed {after, before} ALPN in the server's message x {nothing after it, an (RFC 6066) empty server_name acknowledgement as the last extension} x Config.ApplicationSettings {has the protocol, lacks it, nil} x server {no client auth, RequestClientCert}: the server (verif hooks) adds ALPS to EncryptedExtensions / ServerHello and reads the client's EncryptedExtensions into its transcript; TLS 1.3 + ALPN => handshake completes (server Finished check passed), PeerApplicationSettings == server bytes, one client EncryptedExtensions with the negotiated codepoint and the configured settings; no ALPN => client error; TLS 1.2 => settings never exposed; every ALPS- and PSK-capable parrot x codepoint x first connection {without, with} ALPS x client settings {configured, nil} x server settings {1 B, 300 B}: on the PSK-resumed second connection whose server negotiates ALPS again, the message the server reads right after its flight is a client EncryptedExtensions with the negotiated codepoint and the configured settings. distinct = case"
			c.Assumptions = []string{"'rejects under TLS < 1.3' is read as 'does not accept': an error or silently ignoring both satisfy the oracle", "a server codepoint the hello did not offer is outside this property"}
			runAll(c, c22Scenarios(thorough), 0)
			c.Gate(c.Total.Counters["alps_negotiated"] > 100, "non-vacuity: %d negotiated ALPS handshakes", c.Total.Counters["alps_negotiated"])
		}})
}
