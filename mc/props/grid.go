package props

import (
	"fmt"
	"strings"

	tls "github.com/refraction-networking/utls"

	"verifmc/explore"
	"verifmc/peer"
	"verifmc/wire"
)

// ---- client corpus for handshake grids ----

type gridClient struct {
	Name string
	ID   tls.ClientHelloID
	// Spec, if set, is applied to a HelloCustom connection.
	Spec func() (*tls.ClientHelloSpec, error)
	PSK  bool // spec carries a pre_shared_key extension: run with OmitEmptyPsk
	// NextProtos is the application's Config.NextProtos for this run.
	NextProtos []string
	// Cache: the Config gets a ClientSessionCache (session features enabled).
	Cache bool
	// Prep runs after the spec (if any) was applied, before the handshake.
	Prep func(u *tls.UConn) error
}

func specHasPSK(id tls.ClientHelloID) bool {
	sp, err := tls.UTLSIdToSpec(id)
	if err != nil {
		return false
	}
	for _, e := range sp.Extensions {
		if _, ok := e.(tls.PreSharedKeyExtension); ok {
			return true
		}
	}
	return false
}

// gridClients: every discovered ID (n seeds per randomized kind), handshake-capable custom
// specs, and (withFP) a fingerprinted copy of every parrot hello.
func gridClients(nSeeds int, withFP bool) []gridClient {
	var out []gridClient
	for _, n := range AllIDs() {
		switch {
		case isCustom(n.ID):
		case isRandomized(n.ID):
			for s := 0; s < nSeeds; s++ {
				out = append(out, gridClient{Name: fmt.Sprintf("%s#%d", n.Name, s), ID: seededRandomized(n.ID.Client, s)})
			}
		default:
			out = append(out, gridClient{Name: n.Name, ID: n.ID, PSK: !isGolang(n.ID) && specHasPSK(n.ID)})
		}
	}
	for _, name := range handshakeSpecNames {
		name := name
		out = append(out, gridClient{Name: "custom:" + name, ID: tls.HelloCustom, Spec: func() (*tls.ClientHelloSpec, error) { return handshakeSpec(name), nil }})
	}
	if withFP {
		for _, n := range ParrotIDs() {
			n := n
			out = append(out, gridClient{Name: "fp:" + n.Name, ID: tls.HelloCustom, PSK: specHasPSK(n.ID), Spec: func() (*tls.ClientHelloSpec, error) {
				cfg := peer.ClientConfig("example.com")
				cfg.OmitEmptyPsk = true
				stream, _, _, _ := firstFlight(cfg, n.ID, nil)
				msg, _, err := wire.FirstFlightHello(stream)
				if err != nil {
					return nil, err
				}
				return (&tls.Fingerprinter{}).FingerprintClientHello(recordOf(msg))
			}})
		}
	}
	return out
}

func (g gridClient) config(serverName string) *tls.Config {
	c := peer.ClientConfig(serverName)
	c.OmitEmptyPsk = g.PSK
	c.NextProtos = append([]string(nil), g.NextProtos...)
	if g.Cache {
		c.ClientSessionCache = tls.NewLRUClientSessionCache(8)
	}
	return c
}

func (g gridClient) prepare() func(u *tls.UConn) error {
	if g.Spec == nil && g.Prep == nil {
		return nil
	}
	return func(u *tls.UConn) error {
		if g.Spec != nil {
			sp, err := g.Spec()
			if err != nil {
				return err
			}
			if err := u.ApplyPreset(sp); err != nil {
				return err
			}
		}
		if g.Prep != nil {
			return g.Prep(u)
		}
		return nil
	}
}

// fakePSKInjected: a PSK parrot whose pre_shared_key extension is replaced, through the documented
// SetPskExtension call, by a FakePreSharedKeyExtension (identity and binder bytes of a capture,
// no session behind them).
func fakePSKInjected(base NamedID) gridClient {
	return gridClient{Name: base.Name + "+SetPskExtension(fake)", ID: base.ID, PSK: true, Cache: true, Prep: func(u *tls.UConn) error {
		return u.SetPskExtension(&tls.FakePreSharedKeyExtension{Identities: []tls.PskIdentity{{Label: rep(0x41, 32), ObfuscatedTicketAge: 7}}, Binders: [][]byte{rep(0x42, 32)}})
	}}
}

// probeHello builds one throw-away hello of this client to learn what it offers.
func (g gridClient) probeHello() (*wire.Hello, error) {
	stream, _, perr, pm := firstFlight(g.config("example.com"), g.ID, g.prepare())
	if pm != "" {
		return nil, fmt.Errorf("panic: %s", pm)
	}
	msg, _, err := wire.FirstFlightHello(stream)
	if err != nil {
		return nil, fmt.Errorf("%v (%v)", err, perr)
	}
	return wire.ParseClientHello(msg)
}

// ---- what a parsed hello offers ----

type offer struct {
	versions  []uint16
	groups    []uint16
	shares    []uint16
	suites    []uint16
	protos    []string
	sigalgs   []uint16
	hasSNI    bool
	hasECHOut bool
	greaseShare uint16 // the GREASE group that has a key_share entry (0 = none)
}

func offerOf(h *wire.Hello) offer {
	var o offer
	o.suites = h.Suites
	if e := h.Find(43); e != nil {
		for i := 1; i+1 < len(e.Body); i += 2 {
			v := uint16(e.Body[i])<<8 | uint16(e.Body[i+1])
			if !wire.IsGREASE(v) {
				o.versions = append(o.versions, v)
			}
		}
	} else {
		for v := uint16(0x0301); v <= h.LegacyVersion && v <= 0x0303; v++ {
			o.versions = append(o.versions, v)
		}
	}
	if e := h.Find(10); e != nil {
		for i := 2; i+1 < len(e.Body); i += 2 {
			v := uint16(e.Body[i])<<8 | uint16(e.Body[i+1])
			if !wire.IsGREASE(v) {
				o.groups = append(o.groups, v)
			}
		}
	}
	if e := h.Find(51); e != nil {
		if ks, err := wire.ParseKeyShares(e.Body); err == nil {
			for _, k := range ks {
				if wire.IsGREASE(k.Group) {
					o.greaseShare = k.Group
				}
				if !wire.IsGREASE(k.Group) {
					o.shares = append(o.shares, k.Group)
				}
			}
		}
	}
	if e := h.Find(16); e != nil && len(e.Body) > 2 {
		p := e.Body[2:]
		for len(p) > 0 {
			l := int(p[0])
			if 1+l > len(p) {
				break
			}
			o.protos = append(o.protos, string(p[1:1+l]))
			p = p[1+l:]
		}
	}
	if e := h.Find(13); e != nil {
		for i := 2; i+1 < len(e.Body); i += 2 {
			o.sigalgs = append(o.sigalgs, uint16(e.Body[i])<<8|uint16(e.Body[i+1]))
		}
	}
	o.hasSNI = h.Find(0) != nil
	o.hasECHOut = h.Find(0xfe0d) != nil
	return o
}

func has16(l []uint16, v uint16) bool {
	for _, x := range l {
		if x == v {
			return true
		}
	}
	return false
}

var serverGroups = []uint16{29, 23, 24, 25, 4588}

// suite12Auth: TLS 1.2 suites the utls server can run, with the certificate kind they need.
var suite12Auth = map[uint16]string{
	tls.TLS_ECDHE_RSA_WITH_AES_128_GCM_SHA256: "rsa", tls.TLS_ECDHE_RSA_WITH_AES_256_GCM_SHA384: "rsa", tls.TLS_ECDHE_RSA_WITH_CHACHA20_POLY1305: "rsa",
	tls.TLS_ECDHE_ECDSA_WITH_AES_128_GCM_SHA256: "ecdsa", tls.TLS_ECDHE_ECDSA_WITH_AES_256_GCM_SHA384: "ecdsa", tls.TLS_ECDHE_ECDSA_WITH_CHACHA20_POLY1305: "ecdsa",
	tls.TLS_ECDHE_RSA_WITH_AES_128_CBC_SHA: "rsa", tls.TLS_ECDHE_RSA_WITH_AES_256_CBC_SHA: "rsa", tls.TLS_ECDHE_ECDSA_WITH_AES_128_CBC_SHA: "ecdsa", tls.TLS_ECDHE_ECDSA_WITH_AES_256_CBC_SHA: "ecdsa",
	tls.TLS_RSA_WITH_AES_128_GCM_SHA256: "rsa-kx", tls.TLS_RSA_WITH_AES_256_GCM_SHA384: "rsa-kx", tls.TLS_RSA_WITH_AES_128_CBC_SHA: "rsa-kx", tls.TLS_RSA_WITH_AES_256_CBC_SHA: "rsa-kx",
	tls.TLS_ECDHE_RSA_WITH_AES_128_CBC_SHA256: "rsa", tls.TLS_ECDHE_ECDSA_WITH_AES_128_CBC_SHA256: "ecdsa", tls.TLS_RSA_WITH_AES_128_CBC_SHA256: "rsa-kx",
	tls.TLS_RSA_WITH_3DES_EDE_CBC_SHA: "rsa-kx", tls.TLS_ECDHE_RSA_WITH_3DES_EDE_CBC_SHA: "rsa",
}

// sigalg families a hello offers (for choosing certificates the client can verify)
func offersCert(o offer, kind string) bool {
	if len(o.sigalgs) == 0 {
		return kind != "ed25519" // pre-1.2 defaults: RSA/ECDSA with SHA-1
	}
	for _, s := range o.sigalgs {
		switch kind {
		case "ecdsa":
			if s == 0x0403 { // the harness leaf is P-256
				return true
			}
		case "rsa":
			if s == 0x0804 || s == 0x0401 || s == 0x0805 || s == 0x0501 || s == 0x0806 || s == 0x0601 {
				return true
			}
		case "ed25519":
			if s == 0x0807 {
				return true
			}
		}
	}
	return false
}

func offersRSAPSS(o offer) bool {
	return has16(o.sigalgs, 0x0804) || has16(o.sigalgs, 0x0805) || has16(o.sigalgs, 0x0806)
}

// serverChoice is one point of the server-configuration grid, chosen only among values the
// hello offers and the utls server implements, so that a compliant server must accept.
type serverChoice struct {
	Vers   uint16
	Group  uint16 // 0 = server default preferences
	Suite  uint16 // 0 = default (TLS 1.2 only)
	Proto  string // "" = no ALPN configured
	Cert   string // ecdsa | rsa | ed25519
	desc   string
	HRR    bool // group is offered without a key share (TLS 1.3)
	Usable bool
}

// chooseServer asks the explorer for a server configuration compatible with the offer.
func chooseServer(x *explore.X, o offer) serverChoice {
	var sc serverChoice
	// version
	var vers []uint16
	for _, v := range []uint16{tls.VersionTLS13, tls.VersionTLS12, tls.VersionTLS11, tls.VersionTLS10} {
		if has16(o.versions, v) {
			vers = append(vers, v)
		}
	}
	if len(vers) == 0 {
		return sc
	}
	sc.Vers = vers[x.Choose("srv.version", len(vers))]
	// certificate kinds the client can verify
	certs := []string{}
	for _, k := range []string{"ecdsa", "rsa", "ed25519"} {
		if !offersCert(o, k) {
			continue
		}
		if k == "rsa" && sc.Vers == tls.VersionTLS13 && !offersRSAPSS(o) {
			continue
		}
		certs = append(certs, k)
	}
	if len(certs) == 0 {
		return sc
	}
	// group
	groups := []uint16{0}
	for _, g := range serverGroups {
		if has16(o.groups, g) {
			groups = append(groups, g)
		}
	}
	sc.Group = groups[x.Choose("srv.group", len(groups))]
	// TLS 1.2 suite (the utls server cannot be pinned to one TLS 1.3 suite without a hook)
	if sc.Vers <= tls.VersionTLS12 {
		suites := []uint16{0}
		for _, s := range o.suites {
			if _, ok := suite12Auth[s]; ok && suiteValidAt(s, sc.Vers) {
				suites = append(suites, s)
			}
		}
		sc.Suite = suites[x.Choose("srv.suite", len(suites))]
	}
	// certificate, restricted by the pinned suite's authentication
	if sc.Suite != 0 {
		need := suite12Auth[sc.Suite]
		var cs []string
		for _, k := range certs {
			if (need == "ecdsa" && (k == "ecdsa" || k == "ed25519")) || (need != "ecdsa" && k == "rsa") {
				cs = append(cs, k)
			}
		}
		certs = cs
		if len(certs) == 0 {
			return sc
		}
	} else if sc.Vers <= tls.VersionTLS12 {
		// default suite list: keep certificate kinds for which the hello has a suite that a server
		// with Config.CipherSuites == nil enables (no RSA key exchange, no 3DES, no RC4)
		var cs []string
		enabled := tls.VerifDefaultCipherSuites()
		for _, k := range certs {
			okk := false
			for _, s := range o.suites {
				if !suiteValidAt(s, sc.Vers) || !has16(enabled, s) {
					continue
				}
				a := suite12Auth[s]
				if (k == "rsa" && (a == "rsa" || a == "rsa-kx")) || (k != "rsa" && a == "ecdsa") {
					okk = true
				}
			}
			if okk {
				cs = append(cs, k)
			}
		}
		certs = cs
		if len(certs) == 0 {
			return sc
		}
	}
	sc.Cert = certs[x.Choose("srv.cert", len(certs))]
	// a pinned group in TLS 1.2 only matters for ECDHE suites and needs the group on offer
	if sc.Vers <= tls.VersionTLS12 && sc.Group == 4588 {
		sc.Group = 0 // hybrid groups are TLS 1.3 only
	}
	// ALPN
	protos := append([]string{""}, o.protos...)
	sc.Proto = protos[x.Choose("srv.alpn", len(protos))]
	if sc.Vers == tls.VersionTLS13 && sc.Group != 0 && !has16(o.shares, sc.Group) {
		sc.HRR = true
	}
	if sc.Vers == tls.VersionTLS13 && sc.Group == 0 {
		// default preferences: the server takes its first preference among the client's
		// groups, which may have no share either
		for _, g := range []uint16{4588, 29, 23, 24, 25} {
			if has16(o.groups, g) {
				sc.HRR = !has16(o.shares, g)
				break
			}
		}
	}
	sc.Usable = true
	sc.desc = fmt.Sprintf("vers=%04x group=%d suite=%04x alpn=%q cert=%s hrr=%v", sc.Vers, sc.Group, sc.Suite, sc.Proto, sc.Cert, sc.HRR)
	return sc
}

func (sc serverChoice) config() *tls.Config {
	f := peer.Fix()
	var cert tls.Certificate
	switch sc.Cert {
	case "rsa":
		cert = f.RSA
	case "ed25519":
		cert = f.Ed25519
	default:
		cert = f.ECDSA
	}
	cfg := peer.ServerConfig(cert)
	cfg.MaxVersion = sc.Vers
	if sc.Group != 0 {
		cfg.CurvePreferences = []tls.CurveID{tls.CurveID(sc.Group)}
	}
	if sc.Suite != 0 {
		cfg.CipherSuites = []uint16{sc.Suite}
	}
	if sc.Proto != "" {
		cfg.NextProtos = []string{sc.Proto}
	}
	return cfg
}

// whoFailed classifies a failed handshake by the side that originated the abort.
func whoFailed(h *peer.HS) string {
	ce, se := "", ""
	if h.CErr != nil {
		ce = h.CErr.Error()
	}
	if h.SErr != nil {
		se = h.SErr.Error()
	}
	switch {
	case h.CPanic != "":
		return "client-panic"
	case h.SPanic != "":
		return "server-panic"
	case h.CErr != nil && !strings.Contains(ce, "remote error") && ce != "EOF" && !strings.Contains(ce, "stalled"):
		return "client"
	case h.SErr != nil && !strings.Contains(se, "remote error") && se != "EOF" && !strings.Contains(se, "stalled"):
		return "server"
	case strings.Contains(ce, "stalled") || strings.Contains(se, "stalled"):
		return "stall"
	}
	return "unknown"
}

// Build orders: the documented ways for a caller to reach the handshake. Every one of them must
// put the same offer on the wire and keep the connection usable.
var buildOrderNames = []string{"Handshake", "BuildHandshakeState+Handshake", "BuildHandshakeStateWithoutSession+BuildHandshakeState+Handshake"}

// withBuildOrder wraps a Prepare function with the explicit build calls of the given order
// (the handshake driver calls Handshake afterwards).
func withBuildOrder(prep func(u *tls.UConn) error, order int) func(u *tls.UConn) error {
	if order == 0 {
		return prep
	}
	return func(u *tls.UConn) error {
		if prep != nil {
			if err := prep(u); err != nil {
				return err
			}
		}
		if order == 2 {
			if err := u.BuildHandshakeStateWithoutSession(); err != nil {
				return err
			}
		}
		return u.BuildHandshakeState()
	}
}

// replayedHybridShare: the parrot's spec with the hybrid key share's data pre-filled from a capture
// (a replayed fingerprint): uTLS then has no private key for that share, and a server selecting
// it must get an error from the client, not a crash.
func replayedHybridShare(base NamedID) gridClient {
	return gridClient{Name: base.Name + "+replayed-hybrid-share", ID: tls.HelloCustom, Spec: func() (*tls.ClientHelloSpec, error) {
		// capture the share of a throw-away connection
		stream, _, _, _ := firstFlight(peer.ClientConfig("example.com"), base.ID, nil)
		var captured []byte
		if msg, _, err := wire.FirstFlightHello(stream); err == nil {
			if h, err := wire.ParseClientHello(msg); err == nil {
				if e := h.Find(51); e != nil {
					if ks, err := wire.ParseKeyShares(e.Body); err == nil {
						for _, k := range ks {
							if len(k.Data) > 1000 {
								captured = k.Data
							}
						}
					}
				}
			}
		}
		sp, err := tls.UTLSIdToSpec(base.ID)
		if err != nil {
			return nil, err
		}
		for _, e := range sp.Extensions {
			if ks, ok := e.(*tls.KeyShareExtension); ok {
				for i := range ks.KeyShares {
					if ks.KeyShares[i].Group == tls.X25519MLKEM768 && captured != nil {
						ks.KeyShares[i].Data = captured
					}
				}
			}
		}
		return &sp, nil
	}}
}

var suiteVersions = func() map[uint16][]uint16 {
	m := map[uint16][]uint16{}
	for _, cs := range append(tls.CipherSuites(), tls.InsecureCipherSuites()...) {
		m[cs.ID] = cs.SupportedVersions
	}
	return m
}()

// suiteValidAt: the suite exists in that protocol version (SHA-256/384 MACs and AEADs do not below TLS 1.2).
func suiteValidAt(id, vers uint16) bool { return has16(suiteVersions[id], vers) }
