package props

import (
	"fmt"
	"runtime"
	"strings"
	"sync"
	"time"

	tls "github.com/refraction-networking/utls"

	"verifmc/explore"
	"verifmc/peer"
)

// C33 — hostile server input never crashes or hangs a uTLS client.

type flight struct {
	name  string
	vers  uint16
	setup func(scfg *tls.Config, ccfg *tls.Config, hk *connHooks) // extra server behaviour
	// warm, if set, runs an unmutated first connection (fills the session cache)
	warm bool
	// inner: the Certificate message is mutated BEFORE the standing transformation compresses it,
	// so the client sees a valid CompressedCertificate around a mutated inner message
	inner bool
}

func c33Clients() []gridClient {
	want := map[string]bool{"HelloChrome_Auto": true, "HelloChrome_112_PSK_Shuf": true, "HelloFirefox_120": true, "HelloIOS_14": true, "HelloChrome_58": true, "HelloGolang": true}
	var out []gridClient
	for _, n := range AllIDs() {
		if want[n.Name] {
			out = append(out, gridClient{Name: n.Name, ID: n.ID, PSK: !isGolang(n.ID) && specHasPSK(n.ID)})
		}
		if n.Name == "HelloChrome_112_PSK_Shuf" {
			out = append(out, fakePSKInjected(n))
		}
		if n.Name == "HelloChrome_131" {
			out = append(out, replayedHybridShare(n))
		}
	}
	return out
}

func c33Flights() []flight {
	return []flight{
		{name: "tls13-full", vers: tls.VersionTLS13},
		{name: "tls13-hrr-cookie", vers: tls.VersionTLS13, setup: func(s, c *tls.Config, hk *connHooks) {
			s.CurvePreferences = []tls.CurveID{tls.CurveP384}
			hk.addHRRCookie = rep(0xCC, 24)
		}},
		{name: "tls13-resumed", vers: tls.VersionTLS13, warm: true},
		{name: "tls13-compressed-cert", vers: tls.VersionTLS13, setup: func(s, c *tls.Config, hk *connHooks) { hk.compressCert = true }},
		{name: "tls13-compressed-cert-inner", vers: tls.VersionTLS13, inner: true, setup: func(s, c *tls.Config, hk *connHooks) { hk.compressCert = true }},
		{name: "tls13-alps", vers: tls.VersionTLS13, setup: func(s, c *tls.Config, hk *connHooks) {
			s.NextProtos = []string{"h2"}
			s.ClientAuth = tls.RequestClientCert
			hk.addALPS = true
			hk.WantEE = true
		}},
		{name: "tls12-full", vers: tls.VersionTLS12},
		{name: "tls12-resumed", vers: tls.VersionTLS12, warm: true},
	}
}

type msgInfo struct {
	typ uint8
	n   int
}

var (
	c33ProbeMu sync.Mutex
	c33Probes  = map[string][]msgInfo{}
	// flights whose unmutated run made the client panic
	c33ProbePanics = map[string]string{}
)

// mutation kinds
const (
	mutByte = iota
	mutTruncFix
	mutLenField
	mutDuplicate
	mutDrop
	mutExtra
	mutCertShape // Certificate only: well-formed messages with degenerate certificate lists
	mutKinds
)

var byteVals = []byte{0x00, 0xff, 0x01, 0x7f, 0x80}
var extraTypes = []uint8{8, 25, 4, 24, 254, 2, 11}

// baseTransform applies the flight's standing modifications (cookie, compressed cert, ALPS).
func baseTransform(hk *connHooks, t uint8, d []byte) []byte {
	switch {
	case t == 2 && isHRR(d) && hk.addHRRCookie != nil:
		if sp, ok := parseServerHello(d); ok {
			sp.exts = append(sp.exts, shExt{44, append([]byte{0, byte(len(hk.addHRRCookie))}, hk.addHRRCookie...)})
			return sp.build()
		}
	case t == 11 && hk.compressCert && hk.compressAlg != 0:
		for _, e := range c21Encoders() {
			if e.alg == hk.compressAlg && strings.HasSuffix(e.name, "flush0") {
				return compressedCertMsg(e.alg, len(d)-4, e.enc(d[4:]))
			}
		}
	case t == 8 && hk.addALPS:
		return editEE(d, 17513, []byte{1, 2, 3})
	}
	return d
}

// runFlight performs one connection of the given flight with message `target` mutated by mut.
func runFlight(g gridClient, f flight, mutate func(n int, t uint8, d []byte) []byte, record *[]msgInfo) *peer.HS {
	ccfg := g.config("example.com")
	scfg := peer.ServerConfig()
	scfg.MaxVersion = f.vers
	hk := &connHooks{}
	if f.setup != nil {
		f.setup(scfg, ccfg, hk)
	}
	if hk.compressCert && g.Spec == nil && !isGolang(g.ID) {
		if sp, err := tls.UTLSIdToSpec(g.ID); err == nil {
			for _, e := range sp.Extensions {
				if cc, ok := e.(*tls.UtlsCompressCertExtension); ok && len(cc.Algorithms) > 0 {
					hk.compressAlg = uint16(cc.Algorithms[0])
				}
			}
		}
	}
	if f.warm {
		ccfg.ClientSessionCache = tls.NewLRUClientSessionCache(4)
		w := peer.Run(ccfg, g.ID, scfg, peer.Opts{Prepare: g.prepare(), Echo: true})
		_ = w
	}
	hk.Out = func(n int, t uint8, d []byte) []byte {
		if f.inner && t == 11 {
			// mutate the plaintext Certificate, then compress whatever came out
			if record != nil {
				*record = append(*record, msgInfo{d[0], len(d)})
			}
			if mutate != nil {
				d = mutate(n, d[0], d)
			}
			if len(d) < 4 || d[0] != 11 {
				return d
			}
			return baseTransform(hk, 11, d)
		}
		d = baseTransform(hk, t, d)
		if record != nil {
			*record = append(*record, msgInfo{d[0], len(d)})
		}
		if mutate != nil {
			return mutate(n, d[0], d)
		}
		return d
	}
	var cleanup func()
	hs := peer.Run(ccfg, g.ID, scfg, peer.Opts{Prepare: g.prepare(), Echo: true,
		OnConns: func(u *tls.UConn, s *tls.Conn) { cleanup = installHooks(s, hk) }})
	if cleanup != nil {
		cleanup()
	}
	return hs
}

func probeFlight(g gridClient, f flight) []msgInfo {
	key := g.Name + "|" + f.name
	c33ProbeMu.Lock()
	defer c33ProbeMu.Unlock()
	if p, ok := c33Probes[key]; ok {
		return p
	}
	var rec []msgInfo
	hs := runFlight(g, f, nil, &rec)
	if hs.CPanic != "" {
		c33ProbePanics[key] = hs.CPanic // the UNMUTATED flight crashes the client
	}
	if !hs.OK() {
		rec = nil // this client cannot run this flight (e.g. version not offered): skipped
	}
	c33Probes[key] = rec
	return rec
}

func positionsFor(n int, thorough bool) []int {
	var out []int
	if n <= 300 || thorough && n <= 1200 {
		for i := 0; i < n; i++ {
			out = append(out, i)
		}
		return out
	}
	for i := 0; i < 96 && i < n; i++ {
		out = append(out, i)
	}
	for i := 96; i < n; i += 23 {
		out = append(out, i)
	}
	for i := n - 8; i < n; i++ {
		out = append(out, i)
	}
	return out
}

func c33Mutations(thorough bool) *explore.Scenario {
	clients := c33Clients()
	flights := c33Flights()
	nvals := 3
	if thorough {
		nvals = len(byteVals)
	}
	return &explore.Scenario{
		Name:     "mutated-handshake-messages",
		Watchdog: 60 * time.Second, HangSig: "C33|hang",
		Run: func(x *explore.X) (r explore.Result) {
			g := clients[x.Choose("client", len(clients))]
			f := flights[x.Choose("flight", len(flights))]
			msgs := probeFlight(g, f)
			c33ProbeMu.Lock()
			pp := c33ProbePanics[g.Name+"|"+f.name]
			c33ProbeMu.Unlock()
			if pp != "" {
				r.Violate(fmt.Sprintf("C33|client-panic|flight=%s|unmutated|%s", f.name, errClass(fmt.Errorf("%s", firstLineOf(pp)))), "%s %s: the client panicked on the server's ordinary, unmutated flight: %s", g.Name, f.name, truncStr(pp, 600))
				return
			}
			if len(msgs) == 0 {
				r.Obs = "flight-not-available"
				return
			}
			target := x.Choose("message", len(msgs))
			kind := x.Choose("kind", mutKinds)
			m := msgs[target]
			var mutate func(n int, t uint8, d []byte) []byte
			desc := ""
			switch kind {
			case mutByte:
				ps := positionsFor(m.n, thorough)
				pos := ps[x.Choose("pos", len(ps))]
				val := byteVals[x.Choose("val", nvals)]
				desc = fmt.Sprintf("byte[%d]=%#02x", pos, val)
				mutate = func(n int, t uint8, d []byte) []byte {
					if n == target && pos < len(d) {
						c := append([]byte(nil), d...)
						if val == 0x01 {
							c[pos] ^= 0x01
						} else {
							c[pos] = val
						}
						return c
					}
					return d
				}
			case mutTruncFix:
				ps := positionsFor(m.n-4, thorough)
				if len(ps) == 0 {
					r.Obs = "empty-body"
					return
				}
				l := ps[x.Choose("pos", len(ps))]
				desc = fmt.Sprintf("body-truncated-to-%d", l)
				mutate = func(n int, t uint8, d []byte) []byte {
					if n == target && 4+l <= len(d) {
						return hsMsg(d[0], d[4:4+l])
					}
					return d
				}
			case mutLenField:
				v := x.Choose("val", 4)
				desc = fmt.Sprintf("header-length-%s", []string{"0", "-1", "+1", "max"}[v])
				mutate = func(n int, t uint8, d []byte) []byte {
					if n != target {
						return d
					}
					c := append([]byte(nil), d...)
					l := len(d) - 4
					nl := []int{0, l - 1, l + 1, 1<<24 - 1}[v]
					if nl < 0 {
						nl = 0
					}
					c[1], c[2], c[3] = byte(nl>>16), byte(nl>>8), byte(nl)
					return c
				}
			case mutDuplicate:
				desc = "duplicated"
				mutate = func(n int, t uint8, d []byte) []byte {
					if n == target {
						return append(append([]byte(nil), d...), d...)
					}
					return d
				}
			case mutDrop:
				desc = "dropped"
				mutate = func(n int, t uint8, d []byte) []byte {
					if n == target {
						return []byte{}
					}
					return d
				}
			case mutCertShape:
				if m.typ != 11 {
					r.Obs = "n/a"
					return
				}
				v := x.Choose("val", 4)
				desc = "certificate-list-" + []string{"empty", "one-empty-entry", "one-1-byte-entry", "first-then-empty-entry"}[v]
				tls13 := f.vers == tls.VersionTLS13
				mutate = func(n int, t uint8, d []byte) []byte {
					if n != target || len(d) < 8 || d[0] != 11 {
						return d
					}
					return hsMsg(11, degenerateCertBody(d[4:], tls13, v))
				}
			case mutExtra:
				et := extraTypes[x.Choose("val", len(extraTypes))]
				before := x.Choose("pos", 2) == 1
				desc = fmt.Sprintf("extra-message-type-%d-before=%v", et, before)
				mutate = func(n int, t uint8, d []byte) []byte {
					if n == target {
						e := hsMsg(et, []byte{0, 0})
						if before {
							return append(e, d...)
						}
						return append(append([]byte(nil), d...), e...)
					}
					return d
				}
			}
			what := fmt.Sprintf("%s %s message#%d(type %d, %d B) %s", g.Name, f.name, target, m.typ, m.n, desc)
			hs := runFlight(g, f, mutate, nil)
			r.Nontrivial = true
			r.Class = what
			if hs.CPanic != "" {
				r.Violate(fmt.Sprintf("C33|client-panic|flight=%s|msgtype=%d|%s", f.name, m.typ, errClass(fmt.Errorf("%s", firstLineOf(hs.CPanic)))), "%s: the client panicked: %s", what, truncStr(hs.CPanic, 600))
			}
			outcome := "completed"
			if hs.CErr != nil {
				outcome = "error"
			}
			r.Count("outcome_"+outcome, 1)
			r.Obs = fmt.Sprintf("%s|type%d|kind%d|%s", f.name, m.typ, kind, outcome)
			if kind == mutLenField && target == 1 {
				r.Sample = map[string]any{"case": what, "client_result": fmt.Sprint(hs.CErr)}
			}
			return
		},
	}
}

// degenerateCertBody builds a syntactically valid Certificate body with a degenerate list.
func degenerateCertBody(orig []byte, tls13 bool, v int) []byte {
	u24 := func(n int) []byte { return []byte{byte(n >> 16), byte(n >> 8), byte(n)} }
	entry := func(cert []byte) []byte {
		e := append(u24(len(cert)), cert...)
		if tls13 {
			e = append(e, 0, 0) // no per-certificate extensions
		}
		return e
	}
	// the first certificate of the original message
	var first []byte
	off := 0
	if tls13 && len(orig) > 0 {
		off = 1 + int(orig[0])
	}
	if len(orig) >= off+6 {
		l := int(orig[off+3])<<16 | int(orig[off+4])<<8 | int(orig[off+5])
		if off+6+l <= len(orig) {
			first = orig[off+6 : off+6+l]
		}
	}
	var list []byte
	switch v {
	case 0:
	case 1:
		list = entry(nil)
	case 2:
		list = entry([]byte{0x30})
	default:
		list = append(entry(first), entry(nil)...)
	}
	var body []byte
	if tls13 {
		body = append(body, 0) // empty certificate_request_context
	}
	body = append(body, u24(len(list))...)
	return append(body, list...)
}

func firstLineOf(s string) string {
	for i := 0; i < len(s); i++ {
		if s[i] == '\n' {
			return s[:i]
		}
	}
	return s
}

// c33Raw: raw record layer — every value of each of the first five record-header bytes, odd
// record sizes, a run of empty records.
func c33Raw() *explore.Scenario {
	clients := c33Clients()
	return &explore.Scenario{
		Name:     "raw-record-layer",
		Watchdog: 60 * time.Second, HangSig: "C33|hang",
		Run: func(x *explore.X) (r explore.Result) {
			g := clients[x.Choose("client", len(clients))]
			kind := x.Choose("kind", 9)
			var tf func(n int, b []byte) []byte
			what := ""
			if kind < 5 {
				v := byte(x.Choose("val", 256))
				what = fmt.Sprintf("record-header-byte[%d]=%#02x", kind, v)
				tf = func(n int, b []byte) []byte {
					if n == 0 && len(b) > 5 {
						b[kind] = v
					}
					return b
				}
			} else {
				sz := []int{0, 16385, 18433, -40}[kind-5]
				what = fmt.Sprintf("odd-record size=%d", sz)
				tf = func(n int, b []byte) []byte {
					if n != 0 {
						return b
					}
					if sz == -40 {
						var out []byte
						for i := 0; i < 40; i++ {
							out = append(out, 22, 3, 3, 0, 0)
						}
						return append(out, b...)
					}
					rec := append([]byte{22, 3, 3, byte(sz >> 8), byte(sz)}, make([]byte, sz)...)
					return append(rec, b...)
				}
			}
			what = g.Name + " " + what
			hs := peer.Run(g.config("example.com"), g.ID, peer.ServerConfig(), peer.Opts{Prepare: g.prepare(), Echo: true,
				WrapServer: func(e *peer.Endpoint) { e.Transform = tf }})
			r.Nontrivial = true
			r.Class = what
			if hs.CPanic != "" {
				r.Violate("C33|client-panic|raw|"+errClass(fmt.Errorf("%s", firstLineOf(hs.CPanic))), "%s: %s", what, truncStr(hs.CPanic, 600))
			}
			r.Obs = fmt.Sprintf("raw|kind%d|err=%v", kind, hs.CErr != nil)
			return
		},
	}
}

// c33Alloc: length lies must not make the client allocate beyond the protocol's limits
// (single worker: allocation is measured process-wide).
func c33Alloc() *explore.Scenario {
	clients := c33Clients()
	return &explore.Scenario{
		Name:     "allocation-under-length-lies",
		Workers:  1,
		Watchdog: 60 * time.Second, HangSig: "C33|hang",
		Run: func(x *explore.X) (r explore.Result) {
			g := clients[x.Choose("client", len(clients))]
			kind := x.Choose("kind", 5)
			f := c33Flights()[0]
			var mutate func(n int, t uint8, d []byte) []byte
			what := ""
			switch kind {
			case 0, 1, 2:
				declared := []int{0, 1, 1<<24 - 1}[kind]
				what = fmt.Sprintf("CompressedCertificate declaring %d uncompressed bytes", declared)
				mutate = func(n int, t uint8, d []byte) []byte {
					if t == 11 {
						for _, e := range c21Encoders() {
							if e.alg == algBrotli && strings.HasSuffix(e.name, "flush0") {
								return compressedCertMsg(e.alg, declared, e.enc(d[4:]))
							}
						}
					}
					return d
				}
			case 4:
				// a 10-byte zstd frame whose header announces a window of hundreds of MiB, declared
				// length 1: a decoder that sizes its history buffer from the frame header allocates it
				// before producing a byte (only a client that advertises zstd gets this far)
				what = "CompressedCertificate(zstd) of 10 bytes announcing a 512 MiB window"
				g = gridClient{Name: "custom:tls13-minimal+zstd", ID: tls.HelloCustom, Spec: func() (*tls.ClientHelloSpec, error) {
					sp := handshakeSpec("tls13-minimal")
					sp.Extensions = append(sp.Extensions, &tls.UtlsCompressCertExtension{Algorithms: []tls.CertCompressionAlgo{tls.CertCompressionZstd}})
					return sp, nil
				}}
				mutate = func(n int, t uint8, d []byte) []byte {
					if t == 11 {
						return compressedCertMsg(algZstd, 1, []byte{0x28, 0xB5, 0x2F, 0xFD, 0x00, 0x98, 0x09, 0x00, 0x00, 0x41})
					}
					return d
				}
			case 3:
				what = "Certificate header length 2^24-1"
				mutate = func(n int, t uint8, d []byte) []byte {
					if t == 11 {
						c := append([]byte(nil), d...)
						c[1], c[2], c[3] = 0xff, 0xff, 0xff
						return c
					}
					return d
				}
			}
			what = g.Name + " " + what
			runtime.GC()
			var m0, m1 runtime.MemStats
			runtime.ReadMemStats(&m0)
			hs := runFlight(g, f, mutate, nil)
			runtime.ReadMemStats(&m1)
			alloc := m1.TotalAlloc - m0.TotalAlloc
			r.Nontrivial = true
			r.Class = what
			if hs.CPanic != "" {
				r.Violate("C33|client-panic|alloc", "%s: %s", what, truncStr(hs.CPanic, 400))
			}
			// both endpoints live in this process: a whole honest handshake allocates well under
			// 2 MiB; the protocol's largest legitimate buffer is the 256 KiB certificate message
			limit := uint64(2<<20 + 4*262144)
			if kind == 4 {
				limit += 9 << 20 // a zstd decoder may legitimately keep the 8 MiB window RFC 8878 asks decoders to support
			}
			if alloc > limit {
				r.Violate(fmt.Sprintf("C33|allocation|kind=%d", kind), "%s: %d bytes allocated during the handshake (limit %d)", what, alloc, limit)
			}
			r.Count("alloc_measured", 1)
			r.Obs = fmt.Sprintf("alloc-kind%d|over=%v", kind, alloc > limit)
			r.Sample = map[string]any{"case": what, "allocated_bytes": alloc, "client_result": fmt.Sprint(hs.CErr)}
			return
		},
	}
}

func c33Scenarios(thorough bool) []*explore.Scenario {
	return []*explore.Scenario{c33Mutations(thorough), c33Raw(), c33Alloc(), c33Renegotiation(), c33PoisonedCache(thorough), c33CookieSweep(), c33OddRecords13(), c33TicketWithoutSession(), clientKeyUpdateReplyFails("C33")}
}

func init() {
	register(&Prop{ID: "C33", Level: "exploration", Variant: "A", Scenarios: c33Scenarios,
		Run: func(c *explore.Check, thorough bool) {
			c.Rule = "6 clients (Chrome_Auto, Chrome_112_PSK_Shuf, Firefox_120, iOS_14, Chrome_58, Golang) x 8 server flights (TLS 1.3 full / HRR+cookie / resumed / CompressedCertificate mutated after and before compression / ALPS+client auth, TLS 1.2 full / resumed; NewSessionTicket messages included) x every server handshake message x mutation {every byte position (all for messages <= 300 B, else head/stride/tail) x values {00, ff, ^01 (+7f, 80 thorough)}, body truncated to every length, header length {0,-1,+1,max}, duplicated, dropped, extra message of type 8/25/4/24/254/2/11 before/after, Certificate replaced by a well-formed message with a degenerate list (empty, one empty entry, one 1-byte entry, good + empty entry)}, applied before encryption by the verif hook; raw layer: each of the first five record-header bytes x 256 values, records of 0/16385/18433 B, 40 empty records; allocation measured under CompressedCertificate / Certificate length lies; after a completed handshake at TLS 1.2/1.1/1.0: 16 clients x Config.Renegotiation {as the spec leaves it, Never, OnceAsClient, FreelyAsClient} x 13 out-of-turn server answers (HelloRequest followed by: nothing, the replayed first flight, a ServerHello selecting TLS 1.3 with and without a TLS 1.3 suite and key share, a HelloRetryRequest, a second HelloRequest, a TLS 1.1 ServerHello, Finished, NewSessionTicket, Certificate, a no_renegotiation alert, application data, a well-behaved renegotiation flight with the correct renegotiation_info) x sent once or twice x (at TLS 1.2) what the client brought {nothing, a TLS 1.2 session it resumed, a TLS 1.3 session offered as PSK to this TLS 1.2 server, a session injected without certificates}, all under the connection's real keys; three Reads. Oracle: Handshake and the following Read return (watchdog 60 s vs. milliseconds), no panic, bounded allocation. distinct = case"
			c.Assumptions = []string{"small-scope: one mutation per execution from a fixed value menu; a crash needing several coordinated edits is outside the explored space", "'returns within the deadline' is decided as 'returns once the transport reports that no more bytes will come'"}
			runAll(c, c33Scenarios(thorough), 0)
			c.Gate(c.Total.Counters["outcome_error"] > 10000, "non-vacuity: %d rejected mutations", c.Total.Counters["outcome_error"])
			c.Gate(c.Total.Counters["alloc_measured"] > 10, "non-vacuity: alloc cases %d", c.Total.Counters["alloc_measured"])
			c.Gate(c.Total.Counters["renegotiation_hellos_sent"] > 100, "non-vacuity: a renegotiation ClientHello left the client in %d of %d post-handshake cases", c.Total.Counters["renegotiation_hellos_sent"], c.Total.Counters["post_handshake_reads_returned"])
		}})
}
