package props

import (
	"sync"
	"strings"
	"crypto/mlkem"
	"bytes"
	"fmt"

	tls "github.com/refraction-networking/utls"

	"verifmc/explore"
	"verifmc/peer"
	"verifmc/wire"
)

// C18 — key shares are fresh, correctly sized, and backed by the matching private key.

func c18Scenario(clients []gridClient) *explore.Scenario {
	return &explore.Scenario{
		Name: "each-offered-share-x-3-connections",
		Run: func(x *explore.X) (r explore.Result) {
			g := clients[x.Choose("client", len(clients))]
			h0, err := g.probeHello()
			if err != nil {
				r.Obs = "no-hello"
				return
			}
			o := offerOf(h0)
			if !has16(o.versions, tls.VersionTLS13) || len(o.shares) == 0 {
				r.Obs = "no-tls13-shares"
				return
			}
			// the server is forced to each group for which the hello carries a share
			var cand []uint16
			for _, s := range o.shares {
				if has16(serverGroups, s) {
					cand = append(cand, s)
				}
			}
			if len(cand) == 0 {
				r.Obs = "no-share-the-server-implements"
				return
			}
			grp := cand[x.Choose("srv.group", len(cand))]
			// retry: the server first demands a round trip with a HelloRetryRequest that carries only
			// a cookie (RFC 8446 4.1.4/4.2.2: key_share is then re-sent unchanged) and selects afterwards
			retry := x.Choose("retry", 2)
			certKind := "ecdsa"
			if !offersCert(o, "ecdsa") {
				certKind = "rsa"
			}
			sc := serverChoice{Vers: tls.VersionTLS13, Group: grp, Cert: certKind}
			what := fmt.Sprintf("%s, server forced to group %d (share index %d of %v)", g.Name, grp, idxOf(o.shares, grp), o.shares)
			if retry == 1 {
				what += " after a cookie-only HelloRetryRequest"
			}
			type connView struct {
				random, sid []byte
				shares      []wire.KeyShare
			}
			var views []connView
			for conn := 0; conn < 3; conn++ {
				ccfg := g.config("example.com")
				ccfg.Rand = newScriptRand(fmt.Sprintf("c18-%s-conn%d", g.Name, conn))
				opts := peer.Opts{Prepare: withBuildOrder(g.prepare(), conn), Echo: true} // one connection per build order
				var cleanup func()
				if retry == 1 {
					hk := &connHooks{CookieHRR: rep(0xC0+byte(conn), 24)}
					opts.OnConns = func(u *tls.UConn, s *tls.Conn) { cleanup = installHooks(s, hk) }
				}
				hs := peer.Run(ccfg, g.ID, sc.config(), opts)
				if cleanup != nil {
					cleanup()
				}
				msgs := peer.ClientHelloMsgs(hs.CE.AllWritten())
				if len(msgs) == 0 {
					r.Violate("C18|no-hello-on-wire", "%s conn %d: %v", what, conn, hs.CErr)
					return
				}
				h, err := wire.ParseClientHello(msgs[0])
				if err != nil {
					r.Obs = "unparsable"
					return
				}
				v := connView{random: h.Random, sid: h.SessionID}
				if e := h.Find(51); e != nil {
					ks, err := wire.ParseKeyShares(e.Body) // enforces the per-group sizes
					if err != nil {
						r.Violate("C18|share-size|"+errClass(err), "%s conn %d: key_share: %v", what, conn, err)
						return
					}
					for _, k := range ks {
						if !wire.IsGREASE(k.Group) {
							v.shares = append(v.shares, k)
							if k.Group == 4588 && len(k.Data) == 1216 {
								// layout: ML-KEM-768 encapsulation key (1184) || X25519 (32); the
								// X25519 part must not be all zero / low order garbage
								if bytes.Equal(k.Data[1184:], make([]byte, 32)) {
									r.Violate("C18|hybrid-layout", "%s: hybrid share ends in 32 zero bytes", what)
								}
							}
						}
					}
				}
				views = append(views, v)
				if retry == 1 {
					if len(msgs) != 2 {
						r.Violate("C18|cookie-hrr-not-answered|"+errClass(hs.CErr), "%s conn %d: %d ClientHello(s) on the wire, client error %v", what, conn, len(msgs), hs.CErr)
						return
					}
					h2, err := wire.ParseClientHello(msgs[1])
					if err != nil {
						r.Violate("C18|cookie-hrr-second-hello-malformed", "%s conn %d: %v", what, conn, err)
						return
					}
					k1, k2 := h.Find(51), h2.Find(51)
					if k1 == nil || k2 == nil || !bytes.Equal(k1.Body, k2.Body) {
						r.Violate("C18|cookie-hrr-shares-changed", "%s conn %d: the HelloRetryRequest named no group, yet key_share differs between the two ClientHellos", what, conn)
					}
				} else if len(msgs) > 1 {
					r.Violate(fmt.Sprintf("C18|unexpected-hrr|shareidx=%d", idxOf(o.shares, grp)), "%s conn %d: the server was forced to a group the hello carries a share for, yet a second ClientHello was sent", what, conn)
				}
				if !(hs.OK() && hs.EchoOK) {
					r.Violate(fmt.Sprintf("C18|offered-share-unusable|shares=%v|selected-index=%d|%s%s", o.shares, idxOf(o.shares, grp), errClass(hs.CErr), map[int]string{0: "", 1: "|after-cookie-hrr"}[retry]),
						"%s conn %d: handshake fails although the server selected a share the client sent: client=%v server=%v echo=%v", what, conn, hs.CErr, hs.SErr, hs.EchoErr)
					return
				}
				if cs := hs.U.ConnectionState(); uint16(tls.VerifCurveID(hs.U)) != grp {
					r.Violate("C18|wrong-group-reported", "%s conn %d: negotiated curve %d (version %04x)", what, conn, tls.VerifCurveID(hs.U), cs.Version)
				}
			}
			// freshness: nothing repeats across connections with different entropy
			for i := 0; i < len(views); i++ {
				for j := i + 1; j < len(views); j++ {
					if bytes.Equal(views[i].random, views[j].random) {
						r.Violate("C18|repeat|client-random", "%s: client random repeats on connections %d and %d", what, i, j)
					}
					if len(views[i].sid) > 0 && bytes.Equal(views[i].sid, views[j].sid) {
						r.Violate("C18|repeat|session-id", "%s: session id repeats on connections %d and %d", what, i, j)
					}
					for _, a := range views[i].shares {
						for _, b := range views[j].shares {
							if a.Group == b.Group && bytes.Equal(a.Data, b.Data) {
								r.Violate(fmt.Sprintf("C18|repeat|key-share|group=%d", a.Group), "%s: key share for group %d repeats on connections %d and %d", what, a.Group, i, j)
							}
							if a.Group == b.Group && a.Group == 4588 && bytes.Equal(a.Data[1184:], b.Data[1184:]) {
								r.Violate("C18|repeat|hybrid-x25519-part", "%s: X25519 half of the hybrid share repeats", what)
							}
						}
					}
				}
				// within one hello: the X25519 share and the hybrid's X25519 half must differ
				var x, hy []byte
				for _, a := range views[i].shares {
					if a.Group == 29 {
						x = a.Data
					}
					if a.Group == 4588 {
						hy = a.Data[1184:]
					}
				}
				_ = x
				_ = hy
			}
			r.Obs = fmt.Sprintf("checked|viol=%d", len(r.Viol))
			r.Nontrivial = true
			r.Class = fmt.Sprintf("%s|%d|%d", g.Name, grp, retry)
			r.Count("connections", 3)
			if idxOf(o.shares, grp) > 0 {
				r.Count("non_first_share_selected", 1)
				r.Sample = map[string]any{"client": g.Name, "shares": o.shares, "server_selected": grp, "result": r.Obs}
			}
			return
		},
	}
}

func idxOf(l []uint16, v uint16) int {
	for i, x := range l {
		if x == v {
			return i
		}
	}
	return -1
}

func c18Scenarios(thorough bool) []*explore.Scenario {
	n := 4
	if thorough {
		n = 256
	}
	return []*explore.Scenario{c18Scenario(append(gridClients(n, true), shareListClients(3)...)), c18ShortReads(gridClients(2, false))}
}

func init() {
	register(&Prop{ID: "C18", Level: "exploration", Variant: "A", Scenarios: c18Scenarios,
		Run: func(c *explore.Check, thorough bool) {
			c.Rule = "every discovered ID, 4 (256) seeds per randomized kind, custom specs (incl. every ordered key_share list of <=3 distinct groups among the 2 hybrid and 3 classical groups), fingerprinted copies x the server forced (CurvePreferences singleton) to EACH group the hello carries a share for x {directly, after a HelloRetryRequest that carries only a cookie (verif hook): key_share must be re-sent unchanged} x 3 consecutive connections with per-connection scripted entropy: strict per-group share sizes (32/65/97/133/1216), handshake + echo succeeds for every offered share without HRR, negotiated group reported, client random / session id / every key share pairwise distinct across connections; every client: the same deterministic Config.Rand stream delivered in whole reads and one byte per Read gives the same client random, session id and GREASE values, and no ML-KEM key derived from a mostly-zero seed. distinct = (client, selected group)"
			c.Assumptions = []string{"freshness is decided as non-repetition under different per-connection Config.Rand streams", "QUIC's empty legacy session id is checked by C23"}
			runAll(c, c18Scenarios(thorough), 0)
			c.Gate(c.Total.Counters["non_first_share_selected"] > 10, "non-vacuity: non-first share selected %d times", c.Total.Counters["non_first_share_selected"])
		}})
}

// oneByteReader hands out its source one byte per Read call: legal for an io.Reader, and what a
// caller-supplied Config.Rand may do.
type oneByteReader struct{ r interface{ Read([]byte) (int, error) } }

func (o oneByteReader) Read(p []byte) (int, error) {
	if len(p) == 0 {
		return 0, nil
	}
	return o.r.Read(p[:1])
}

// c18ShortReads — every random field of the hello (client random, session id, GREASE seed, key
// shares incl. the ML-KEM half) is drawn from Config.Rand. A deterministic byte stream is delivered
// once in whole reads and once one byte per Read: the fields drawn before the first key generation must be the
// same (a field filled by a single short Read would be mostly zeros / constants instead).
func c18ShortReads(clients []gridClient) *explore.Scenario { return shortReadsScenario("C18", clients) }

func shortReadsScenario(prop string, clients []gridClient) *explore.Scenario {
	return &explore.Scenario{
		Name: "config-rand-delivering-one-byte-per-read",
		Run: func(x *explore.X) (r explore.Result) {
			g := clients[x.Choose("client", len(clients))]
			if isGolang(g.ID) {
				r.Obs = "golang-excluded" // crypto/tls draws through its own helpers
				return
			}
			var hellos [2][]byte
			for i := 0; i < 2; i++ {
				cfg := g.config("example.com")
				sr := newScriptRand("c18-short-" + g.Name)
				if i == 0 {
					cfg.Rand = sr
				} else {
					cfg.Rand = oneByteReader{sr}
				}
				stream, _, perr, pm := firstFlight(cfg, g.ID, g.prepare())
				if pm != "" {
					r.Violate(prop+"|short-reads|panic", "%s: %s", g.Name, truncStr(pm, 300))
					return
				}
				msg, _, err := wire.FirstFlightHello(stream)
				if err != nil {
					r.Obs = "no-hello:" + errClass(perr)
					return
				}
				hellos[i] = msg
			}
			r.Nontrivial = true
			r.Class = g.Name
			h0, e0 := wire.ParseClientHello(hellos[0])
			h1, e1 := wire.ParseClientHello(hellos[1])
			if e0 != nil || e1 != nil {
				r.Obs = "unparsable"
				return
			}
			// compared: everything drawn BEFORE the first key generation (Go's key generators consume
			// a random extra byte on purpose, so the stream position after them is not a function of
			// the source): client random, legacy session id, the GREASE words
			var diff []string
			if !bytes.Equal(h0.Random, h1.Random) {
				diff = append(diff, "client random")
			}
			if !bytes.Equal(h0.SessionID, h1.SessionID) {
				diff = append(diff, fmt.Sprintf("session id (%x vs %x)", h0.SessionID, h1.SessionID))
			}
			g0, _ := greaseValues(h0)
			g1, _ := greaseValues(h1)
			if fmt.Sprint(g0.suites, g0.groups, g0.exts, g0.versions) != fmt.Sprint(g1.suites, g1.groups, g1.exts, g1.versions) {
				diff = append(diff, fmt.Sprintf("GREASE values (%v vs %v)", g0, g1))
			}
			if len(diff) > 0 {
				r.Violate(prop+"|short-reads|hello-depends-on-read-sizes", "%s: the same entropy stream delivered one byte per Read gives a different ClientHello: %s", g.Name, strings.Join(diff, "; "))
			}
			// the ML-KEM half of a hybrid share comes from a 64-byte seed drawn after a key generation:
			// not comparable, but a seed filled by one short Read leaves at most its first byte random —
			// the encapsulation key is then one of 256 computable values
			if ks := h1.Find(51); ks != nil {
				if shares, err := wire.ParseKeyShares(ks.Body); err == nil {
					for _, sh := range shares {
						if sh.Group == 4588 && len(sh.Data) == 1216 && lowEntropyMLKEM()[string(sh.Data[:1184])] {
							r.Violate(prop+"|short-reads|mlkem-seed-mostly-zero", "%s: with a Config.Rand that returns one byte per Read the ML-KEM key of the hybrid share is derived from a seed of which 63 bytes are zero", g.Name)
						}
					}
				}
			}
			r.Count("short_read_pairs", 1)
			r.Obs = fmt.Sprintf("diffs=%d", len(diff))
			return
		},
	}
}

var (
	lowMLKEMOnce sync.Once
	lowMLKEM     map[string]bool
)

// lowEntropyMLKEM: the encapsulation keys of the 256 ML-KEM-768 seeds whose bytes 1..63 are zero.
func lowEntropyMLKEM() map[string]bool {
	lowMLKEMOnce.Do(func() {
		lowMLKEM = map[string]bool{}
		for b := 0; b < 256; b++ {
			seed := make([]byte, 64)
			seed[0] = byte(b)
			if k, err := mlkem.NewDecapsulationKey768(seed); err == nil {
				lowMLKEM[string(k.EncapsulationKey().Bytes())] = true
			}
		}
	})
	return lowMLKEM
}
