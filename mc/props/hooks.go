package props

import (
	"sync"

	tls "github.com/refraction-networking/utls"
)

// connHooks is the per-connection behaviour installed through the verif-tagged hooks of /repo.
type connHooks struct {
	// Out rewrites an outgoing handshake message (n = index of the message on this connection).
	Out      func(n int, msgType uint8, data []byte) []byte
	nOut     int
	Suite13  uint16
	Suite12  uint16
	Groups13 func(clientGroups, preferred []tls.CurveID) []tls.CurveID
	Random12 func(random []byte)
	Versions func(legacy uint16, versions []uint16) []uint16
	WantEE   bool
	ClientEE []byte
	GotEE    bool
	// NoChoiceMade: set by a scenario's Out when it turned out that the value it was to force is one the
	// hello did offer (nothing unoffered went out: nothing to judge)
	NoChoiceMade bool
	// CookieHRR: the server first sends a HelloRetryRequest carrying only this cookie;
	// AcceptCookie: it tolerates a cookie (added to its HRR by Out) in the second ClientHello.
	CookieHRR    []byte
	AcceptCookie bool
	mu           sync.Mutex
	// standing flight modifications used by C33/C34
	addHRRCookie []byte
	compressCert bool
	compressAlg  uint16
	addALPS      bool
}

var hookReg sync.Map // *tls.Conn -> *connHooks

// hookFallback serves connections the harness cannot name (the *Conn inside a QUICConn); scenarios
// that set it hold hookFallbackMu for the whole execution.
var (
	hookFallbackMu sync.Mutex
	hookFallback   *connHooks
	hookFallbackOn func(c *tls.Conn) bool
)

func hooksFor(c *tls.Conn) *connHooks {
	if v, ok := hookReg.Load(c); ok {
		return v.(*connHooks)
	}
	if hookFallback != nil && (hookFallbackOn == nil || hookFallbackOn(c)) {
		return hookFallback
	}
	return nil
}

// installHooks registers h for c; the returned function removes the registration.
func installHooks(c *tls.Conn, h *connHooks) func() {
	hookReg.Store(c, h)
	return func() { hookReg.Delete(c) }
}

func init() {
	tls.VerifHooks.OutgoingHandshake = func(c *tls.Conn, t uint8, data []byte) []byte {
		h := hooksFor(c)
		if h == nil || h.Out == nil {
			return data
		}
		h.mu.Lock()
		n := h.nOut
		h.nOut++
		h.mu.Unlock()
		return h.Out(n, t, data)
	}
	tls.VerifHooks.ServerSuite13 = func(c *tls.Conn, offered []uint16, sel uint16) uint16 {
		if h := hooksFor(c); h != nil {
			return h.Suite13
		}
		return 0
	}
	tls.VerifHooks.ServerSuite12 = func(c *tls.Conn, offered []uint16, sel uint16) uint16 {
		if h := hooksFor(c); h != nil {
			return h.Suite12
		}
		return 0
	}
	tls.VerifHooks.ServerGroups13 = func(c *tls.Conn, cg []tls.CurveID, pref []tls.CurveID) []tls.CurveID {
		if h := hooksFor(c); h != nil && h.Groups13 != nil {
			return h.Groups13(cg, pref)
		}
		return pref
	}
	tls.VerifHooks.ServerRandom12 = func(c *tls.Conn, r []byte) {
		if h := hooksFor(c); h != nil && h.Random12 != nil {
			h.Random12(r)
		}
	}
	tls.VerifHooks.ClientVersions = func(c *tls.Conn, legacy uint16, v []uint16) []uint16 {
		if h := hooksFor(c); h != nil && h.Versions != nil {
			return h.Versions(legacy, v)
		}
		return v
	}
	tls.VerifHooks.ClientEncryptedExtensions13 = func(c *tls.Conn) bool {
		h := hooksFor(c)
		return h != nil && h.WantEE
	}
	tls.VerifHooks.ServerCookieHRR13 = func(c *tls.Conn) []byte {
		if h := hooksFor(c); h != nil {
			return h.CookieHRR
		}
		return nil
	}
	tls.VerifHooks.AcceptCookie13 = func(c *tls.Conn) bool {
		h := hooksFor(c)
		return h != nil && h.AcceptCookie
	}
	tls.VerifHooks.GotClientEncryptedExtensions13 = func(c *tls.Conn, raw []byte) {
		if h := hooksFor(c); h != nil {
			h.ClientEE = append([]byte(nil), raw...)
			h.GotEE = true
		}
	}
}

// ---- small handshake-message editing helpers (plaintext messages: 4-byte header + body) ----

func hsMsg(t uint8, body []byte) []byte {
	return append([]byte{t, byte(len(body) >> 16), byte(len(body) >> 8), byte(len(body))}, body...)
}

// serverHelloExts splits a ServerHello/HRR message into its fixed part and extension list.
type shParts struct {
	head []byte // type+len+version+random+sid+suite+compression (length fields fixed up on build)
	exts []shExt
}
type shExt struct {
	typ  uint16
	body []byte
}

func parseServerHello(msg []byte) (*shParts, bool) {
	if len(msg) < 4+2+32+1 {
		return nil, false
	}
	p := 4 + 2 + 32
	sl := int(msg[p])
	p += 1 + sl
	p += 2 + 1 // suite + compression
	if p > len(msg) {
		return nil, false
	}
	sp := &shParts{head: append([]byte(nil), msg[:p]...)}
	if p == len(msg) {
		return sp, true
	}
	if p+2 > len(msg) {
		return nil, false
	}
	el := int(msg[p])<<8 | int(msg[p+1])
	p += 2
	if p+el != len(msg) {
		return nil, false
	}
	for p < len(msg) {
		if p+4 > len(msg) {
			return nil, false
		}
		t := uint16(msg[p])<<8 | uint16(msg[p+1])
		l := int(msg[p+2])<<8 | int(msg[p+3])
		if p+4+l > len(msg) {
			return nil, false
		}
		sp.exts = append(sp.exts, shExt{t, append([]byte(nil), msg[p+4:p+4+l]...)})
		p += 4 + l
	}
	return sp, true
}

func (sp *shParts) build() []byte {
	var ext []byte
	for _, e := range sp.exts {
		ext = append(ext, byte(e.typ>>8), byte(e.typ), byte(len(e.body)>>8), byte(len(e.body)))
		ext = append(ext, e.body...)
	}
	body := append([]byte(nil), sp.head[4:]...)
	if len(sp.exts) > 0 {
		body = append(body, byte(len(ext)>>8), byte(len(ext)))
		body = append(body, ext...)
	}
	return hsMsg(sp.head[0], body)
}

// setSessionID replaces the legacy_session_id of the parsed hello.
func (sp *shParts) setSessionID(id []byte) {
	p := 4 + 2 + 32
	old := int(sp.head[p])
	tail := append([]byte(nil), sp.head[p+1+old:]...)
	sp.head = append(append(append([]byte(nil), sp.head[:p]...), byte(len(id))), id...)
	sp.head = append(sp.head, tail...)
}

func (sp *shParts) find(t uint16) *shExt {
	for i := range sp.exts {
		if sp.exts[i].typ == t {
			return &sp.exts[i]
		}
	}
	return nil
}

// isHRR reports whether a ServerHello message carries the HelloRetryRequest random.
func isHRR(msg []byte) bool {
	hrr := []byte{0xCF, 0x21, 0xAD, 0x74, 0xE5, 0x9A, 0x61, 0x11, 0xBE, 0x1D, 0x8C, 0x02, 0x1E, 0x65, 0xB8, 0x91, 0xC2, 0xA2, 0x11, 0x16, 0x7A, 0xBB, 0x8C, 0x5E, 0x07, 0x9E, 0x09, 0xE2, 0xC8, 0xA8, 0x33, 0x9C}
	if len(msg) < 38 {
		return false
	}
	for i := range hrr {
		if msg[6+i] != hrr[i] {
			return false
		}
	}
	return true
}
