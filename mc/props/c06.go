package props

import (
	"fmt"
	"strings"
	"sync"

	tls "github.com/refraction-networking/utls"

	"verifmc/explore"
	"verifmc/peer"
	"verifmc/wire"
)

// C06 — fingerprinting a ClientHello and re-applying it reproduces its shape.

type srcHello struct {
	name string
	msg  []byte
	sni  string
}

var (
	c06Once sync.Once
	c06Src  []srcHello
)

// c06Sources: wire hellos of every ID (3 seeds per randomized kind), every generated custom spec
// and a PSK-carrying hello without padding (resumption-capture shape).
func c06Sources() []srcHello {
	c06Once.Do(func() {
		add := func(name string, cfg *tls.Config, id tls.ClientHelloID, prep func(u *tls.UConn) error) {
			stream, _, _, _ := firstFlight(cfg, id, prep)
			if msg, _, err := wire.FirstFlightHello(stream); err == nil {
				// an empty-but-present extensions block (all extensions of the spec vanished) has no
				// counterpart in a spec: not a hello "utls can represent", skipped
				if h, err := wire.CheckAll(msg); err == nil && !(h.HasExts && len(h.Exts) == 0) {
					// a non-empty renegotiated_connection is the previous handshake's verify_data (a
					// renegotiation hello): the Fingerprinter documents that it ignores this body, so
					// such a hello is not a first-flight shape to reproduce
					if e := h.Find(0xff01); e != nil && len(e.Body) > 1 {
						return
					}
					c06Src = append(c06Src, srcHello{name, msg, cfg.ServerName})
				}
			}
		}
		for _, sni := range []string{"example.com", nameOfLen(60)} {
			for _, n := range AllIDs() {
				if isCustom(n.ID) {
					continue
				}
				cfg := peer.ClientConfig(sni)
				cfg.OmitEmptyPsk = true
				if isRandomized(n.ID) {
					for s := 0; s < 3; s++ {
						add(fmt.Sprintf("%s#%d/sni%d", n.Name, s, len(sni)), cfg, seededRandomized(n.ID.Client, s), nil)
					}
					continue
				}
				add(fmt.Sprintf("%s/sni%d", n.Name, len(sni)), cfg, n.ID, nil)
			}
		}
		for _, sp := range CustomSpecs(false) {
			add(sp.Name, peer.ClientConfig("example.com"), tls.HelloCustom, applySpec(sp.Mk))
		}
		// resumption-capture shapes: PSK last, no padding / padding before PSK
		for _, withPad := range []bool{false, true} {
			withPad := withPad
			add(fmt.Sprintf("resumption-capture/pad=%v", withPad), peer.ClientConfig("example.com"), tls.HelloCustom, func(u *tls.UConn) error {
				sp := handshakeSpec("tls13-minimal")
				if withPad {
					sp.Extensions = append(sp.Extensions, &tls.GenericExtension{Id: 0x7777, Data: rep(1, 150)}, &tls.UtlsPaddingExtension{GetPaddingLen: tls.BoringPaddingStyle})
				}
				sp.Extensions = append(sp.Extensions, &tls.FakePreSharedKeyExtension{
					Identities: []tls.PskIdentity{{Label: rep(0x41, 120), ObfuscatedTicketAge: 77}}, Binders: [][]byte{rep(0x42, 32)}})
				return u.ApplyPreset(sp)
			})
		}
		// a TLS <= 1.2 era hello that still offers DEFLATE: compression_methods {1, 0}
		// (spliced into the wire form: the source must not depend on the library honouring the field)
		if stream, _, _, _ := firstFlight(peer.ClientConfig("example.com"), tls.HelloCustom, func(u *tls.UConn) error { return u.ApplyPreset(handshakeSpec("tls12-only")) }); true {
			if msg, _, err := wire.FirstFlightHello(stream); err == nil {
				if h, err := wire.ParseClientHello(msg); err == nil {
					h2 := *h
					h2.Compression = []byte{1, 0}
					c06Src = append(c06Src, srcHello{"compression-methods-1-0", rebuildHello(&h2, nil), "example.com"})
					// hellos of the pre-extension era: the message ends after compression_methods (no
					// extensions block at all), under each legacy version
					for _, v := range []uint16{0x0301, 0x0302, 0x0303} {
						h3 := *h
						h3.LegacyVersion, h3.HasExts, h3.Exts = v, false, nil
						h3.Suites = []uint16{tls.TLS_RSA_WITH_AES_128_CBC_SHA, tls.TLS_ECDHE_RSA_WITH_AES_128_CBC_SHA}
						c06Src = append(c06Src, srcHello{fmt.Sprintf("no-extensions-block/legacy-version-%04x", v), rebuildHello(&h3, nil), ""})
					}
				}
			}
		}
		for _, h := range c34Corpus() {
			if strings.Contains(h.name, "+ech-65-byte-key") {
				c06Src = append(c06Src, srcHello{h.name, h.msg, h.sni})
			}
		}
		// hellos carrying quic_transport_parameters (a type the library knows but cannot decode:
		// representable only with blunt mimicry, which must then keep the body)
		for i, mk := range []func() tls.TLSExtension{
			func() tls.TLSExtension {
				return &tls.QUICTransportParametersExtension{TransportParameters: tls.TransportParameters{tls.MaxIdleTimeout(30000), tls.InitialMaxData(1 << 20), tls.InitialSourceConnectionID(rep(7, 8))}}
			},
			func() tls.TLSExtension { return &tls.GenericExtension{Id: 57, Data: []byte{1, 2, 0x67, 0x65, 3, 1, 9}} },
		} {
			mk := mk
			add(fmt.Sprintf("quic-transport-parameters/%d", i), peer.ClientConfig("example.com"), tls.HelloCustom, func(u *tls.UConn) error {
				sp := handshakeSpec("tls13-minimal")
				sp.Extensions = append(sp.Extensions, mk())
				return u.ApplyPreset(sp)
			})
		}
	})
	return c06Src
}

func sameLenName(s string) string {
	b := []byte(s)
	for i := range b {
		if b[i] >= 'a' && b[i] < 'z' {
			b[i]++
		} else if b[i] == 'z' {
			b[i] = 'a'
		}
	}
	return string(b)
}

func c06Scenario() *explore.Scenario {
	return &explore.Scenario{
		Name: "fingerprint-reapply",
		Run: func(x *explore.X) (r explore.Result) {
			srcs := c06Sources()
			if len(srcs) < 100 {
				r.Violate("INFRA|c06-corpus", "only %d source hellos", len(srcs))
				return
			}
			s := srcs[x.Choose("src", len(srcs))]
			flags := x.Choose("flags", 8)
			f := tls.Fingerprinter{AllowBluntMimicry: flags&1 != 0, AlwaysAddPadding: flags&2 != 0, RealPSKResumption: flags&4 != 0}
			h, _ := wire.ParseClientHello(s.msg)
			what := fmt.Sprintf("%s flags{blunt=%v pad=%v realpsk=%v}", s.name, f.AllowBluntMimicry, f.AlwaysAddPadding, f.RealPSKResumption)
			var spec *tls.ClientHelloSpec
			var err error
			if pm := catch(func() { spec, err = f.FingerprintClientHello(recordOf(s.msg)) }); pm != "" {
				r.Violate("C06|panic-fingerprint", "%s: %s", what, pm)
				return
			}
			if err != nil {
				// representable only with blunt mimicry: an error is the allowed answer
				r.Obs = "fingerprint-error"
				r.Count("fingerprint_errors", 1)
				if f.AllowBluntMimicry {
					r.Violate("C06|blunt-error|"+errClass(err), "%s: fingerprinting a valid hello fails even with AllowBluntMimicry: %v", what, err)
				}
				return
			}
			build := func(spec *tls.ClientHelloSpec, sni string) (*wire.Hello, error) {
				cfg := peer.ClientConfig(sni)
				if sni == "" {
					cfg.InsecureSkipVerify = true
				}
				cfg.OmitEmptyPsk = true
				stream, _, perr, pm := firstFlight(cfg, tls.HelloCustom, func(u *tls.UConn) error { return u.ApplyPreset(spec) })
				if pm != "" {
					return nil, fmt.Errorf("panic: %s", pm)
				}
				m, _, err := wire.FirstFlightHello(stream)
				if err != nil {
					return nil, fmt.Errorf("%v / %v", err, perr)
				}
				return wire.ParseClientHello(m)
			}
			h2, err := build(spec, sameLenName(s.sni))
			if err != nil {
				r.Violate("C06|rebuild-fails|"+errClass(err), "%s: spec fingerprinted from a valid hello cannot be applied and built: %v", what, err)
				return
			}
			// allowed differences under flags
			view := func(hh *wire.Hello) *wire.Hello {
				c := *hh
				c.Exts = nil
				for _, e := range hh.Exts {
					if f.RealPSKResumption && e.Type == 41 {
						continue // a real PSK needs a session: identities/binders are per-connection
					}
					c.Exts = append(c.Exts, e)
				}
				return &c
			}
			a, b := view(h), view(h2)
			if f.AlwaysAddPadding && h.Find(21) == nil {
				// a padding extension may have been added (at the end, before pre_shared_key)
				var kept []wire.Ext
				for _, e := range b.Exts {
					if e.Type != 21 {
						kept = append(kept, e)
					}
				}
				b.Exts = kept
			}
			na, nb := normHello(a, normOpts{keepSizes: true}), normHello(b, normOpts{keepSizes: true})
			hasPerConnSizes := h.Find(41) != nil && f.RealPSKResumption
			if na != nb {
				r.Violate("C06|shape-differs|"+truncStr(firstDiff(na, nb), 50), "%s: re-applied hello differs from the fingerprinted one: %s", what, firstDiff(na, nb))
			} else if !hasPerConnSizes && !(f.AlwaysAddPadding && h.Find(21) == nil) && len(h2.Msg) != len(h.Msg) {
				r.Violate("C06|length-differs", "%s: re-applied hello has %d bytes, original %d", what, len(h2.Msg), len(h.Msg))
			}
			// idempotence: fingerprinting the regenerated hello gives an equivalent spec
			var spec2 *tls.ClientHelloSpec
			if pm := catch(func() { spec2, err = f.FingerprintClientHello(recordOf(h2.Msg)) }); pm != "" || err != nil {
				r.Violate("C06|idempotence|refingerprint-fails", "%s: fingerprinting the regenerated hello: %v %s", what, err, pm)
			} else if h3, err := build(spec2, s.sni); err != nil {
				r.Violate("C06|idempotence|rebuild-fails", "%s: %v", what, err)
			} else {
				n2, n3 := normHello(view(h2), normOpts{keepSizes: true}), normHello(view(h3), normOpts{keepSizes: true})
				if n2 != n3 {
					r.Violate("C06|idempotence|differs|"+truncStr(firstDiff(n2, n3), 50), "%s: second round differs: %s", what, firstDiff(n2, n3))
				}
			}
			r.Obs = fmt.Sprintf("compared|viol=%d", len(r.Viol))
			r.Nontrivial = true
			r.Class = fmt.Sprintf("%s|%d", s.name, flags)
			r.Count("compared", 1)
			if strings.HasPrefix(s.name, "resumption") {
				r.Sample = map[string]any{"source": s.name, "flags": flags, "len": len(h.Msg), "rebuilt_len": len(h2.Msg)}
			}
			return
		},
	}
}

// c06Reuse — one ClientHelloSpec variable is parsed into twice (FromRaw resets its receiver); a copy
// of the spec kept from the first parse must still reproduce the first hello, the variable itself
// the second.
func c06Reuse() *explore.Scenario {
	return &explore.Scenario{
		Name: "one-spec-variable-parsed-into-twice",
		Run: func(x *explore.X) (r explore.Result) {
			srcs := c06Sources()
			a := srcs[x.Choose("src", len(srcs))]
			const nb = 8
			b := srcs[(x.Choose("second", nb)*len(srcs)/nb+7)%len(srcs)]
			what := fmt.Sprintf("spec.FromRaw(%s); kept := spec; spec.FromRaw(%s)", a.name, b.name)
			var spec, kept tls.ClientHelloSpec
			var e1, e2 error
			if pm := catch(func() {
				e1 = spec.FromRaw(recordOf(a.msg), true)
				kept = spec
				e2 = spec.FromRaw(recordOf(b.msg), true)
			}); pm != "" {
				r.Violate("C06|panic-fromraw-reuse", "%s: %s", what, pm)
				return
			}
			if e1 != nil || e2 != nil {
				r.Obs = "fromraw-error"
				return
			}
			build := func(sp *tls.ClientHelloSpec, sni string) (*wire.Hello, error) {
				cfg := peer.ClientConfig(sni)
				if sni == "" {
					cfg.InsecureSkipVerify = true
				}
				cfg.OmitEmptyPsk = true
				stream, _, perr, pm := firstFlight(cfg, tls.HelloCustom, func(u *tls.UConn) error { return u.ApplyPreset(sp) })
				if pm != "" {
					return nil, fmt.Errorf("panic: %s", pm)
				}
				m, _, err := wire.FirstFlightHello(stream)
				if err != nil {
					return nil, fmt.Errorf("%v / %v", err, perr)
				}
				return wire.ParseClientHello(m)
			}
			for i, c := range []struct {
				sp  *tls.ClientHelloSpec
				src srcHello
			}{{&kept, a}, {&spec, b}} {
				h, _ := wire.ParseClientHello(c.src.msg)
				h2, err := build(c.sp, sameLenName(c.src.sni))
				which := []string{"kept-copy-of-first", "variable-after-second"}[i]
				if err != nil {
					r.Violate("C06|reuse|"+which+"|rebuild-fails|"+errClass(err), "%s: the %s spec cannot be applied and built: %v", what, which, err)
					continue
				}
				na, nb := normHello(h, normOpts{keepSizes: true}), normHello(h2, normOpts{keepSizes: true})
				if na != nb {
					r.Violate("C06|reuse|"+which+"|shape-differs", "%s: the %s spec no longer reproduces its hello: %s", what, which, firstDiff(na, nb))
				}
			}
			r.Obs = fmt.Sprintf("compared|viol=%d", len(r.Viol))
			r.Nontrivial = true
			r.Class = a.name + "|" + b.name
			r.Count("reuse_compared", 1)
			return
		},
	}
}

func c06Scenarios(thorough bool) []*explore.Scenario {
	return []*explore.Scenario{c06Scenario(), c06Reuse()}
}

func init() {
	register(&Prop{ID: "C06", Level: "exploration", Variant: "A", Scenarios: c06Scenarios,
		Run: func(c *explore.Check, thorough bool) {
			c.Rule = "wire hello of every ID (2 SNI lengths, 3 seeds per randomized kind), every generated custom spec (singletons, pairs, everything-once) resumption-capture shapes (PSK with/without padding) and hellos carrying quic_transport_parameters x all 8 Fingerprinter flag sets: FingerprintClientHello -> ApplyPreset -> build with a different server name of the same length; normalised hello (GREASE, per-connection parts masked with sizes kept) and total length must be equal, and a second fingerprint/build round must reproduce the first. Allowed: error without AllowBluntMimicry; appended padding under AlwaysAddPadding; PSK dropped under RealPSKResumption. Plus every source x 8 second sources parsed by FromRaw into ONE spec variable: the value copy kept after the first parse must still reproduce the first hello and the variable the second. distinct = (source, flags)"
			c.Assumptions = []string{"normaliser (mc/props/norm.go) masks exactly the per-connection material the property lists"}
			runAll(c, c06Scenarios(thorough), 0)
			c.Gate(c.Total.Counters["compared"] > 2000, "non-vacuity: %d comparisons", c.Total.Counters["compared"])
		}})
}
