package props

import (
	"bytes"
	stdtls "crypto/tls"
	"fmt"
	"io"

	tls "github.com/refraction-networking/utls"

	"verifmc/explore"
	"verifmc/peer"
)

// C27 — forged connections from shared secrets interoperate.

// refSuiteVersions: independent reference of the TLS <= 1.2 suites and the versions each is
// valid for, taken from the standard library's tables plus the code points utls adds.
func refSuiteVersions(weak bool) map[uint16][]uint16 {
	m := map[uint16][]uint16{}
	add := func(cs []*stdtls.CipherSuite) {
		for _, c := range cs {
			var vs []uint16
			for _, v := range c.SupportedVersions {
				if v <= stdtls.VersionTLS12 && v >= stdtls.VersionTLS10 {
					vs = append(vs, v)
				}
			}
			if len(vs) > 0 {
				m[c.ID] = vs
			}
		}
	}
	add(stdtls.CipherSuites())
	add(stdtls.InsecureCipherSuites())
	m[0xcc13] = []uint16{tls.VersionTLS12} // OLD_TLS_ECDHE_RSA_WITH_CHACHA20_POLY1305_SHA256
	m[0xcc14] = []uint16{tls.VersionTLS12} // OLD_TLS_ECDHE_ECDSA_WITH_CHACHA20_POLY1305_SHA256
	if weak {
		m[tls.DISABLED_TLS_RSA_WITH_AES_256_CBC_SHA256] = []uint16{tls.VersionTLS12}
		m[tls.DISABLED_TLS_ECDHE_ECDSA_WITH_AES_256_CBC_SHA384] = []uint16{tls.VersionTLS12}
		m[tls.DISABLED_TLS_ECDHE_RSA_WITH_AES_256_CBC_SHA384] = []uint16{tls.VersionTLS12}
	}
	return m
}

var secretPatterns = []func(n int) []byte{
	func(n int) []byte { return make([]byte, n) },
	func(n int) []byte {
		b := make([]byte, n)
		for i := range b {
			b[i] = byte(i + 1)
		}
		return b
	},
	func(n int) []byte { return bytes.Repeat([]byte{0xff}, n) },
}

// forgedExchange builds the two forged ends and moves payloads both ways.
func forgedExchange(id, vers uint16, pat int, sizes []int) (nilClient, nilServer bool, err error, panicMsg string) {
	ce, se := peer.Pipe()
	ms := secretPatterns[pat](48)
	cr := secretPatterns[(pat+1)%3](32)
	sr := secretPatterns[(pat+2)%3](32)
	defer func() {
		if e := recover(); e != nil {
			panicMsg = fmt.Sprint(e)
		}
	}()
	c := tls.MakeConnWithCompleteHandshake(ce, vers, id, ms, cr, sr, true)
	s := tls.MakeConnWithCompleteHandshake(se, vers, id, ms, cr, sr, false)
	nilClient, nilServer = c == nil, s == nil
	if c == nil || s == nil {
		return
	}
	for _, n := range sizes {
		msg := make([]byte, n)
		for i := range msg {
			msg[i] = byte(i*13 + n)
		}
		for dir := 0; dir < 2; dir++ {
			w, r := c, s
			if dir == 1 {
				w, r = s, c
			}
			if _, werr := w.Write(msg); werr != nil {
				return nilClient, nilServer, fmt.Errorf("write dir %d size %d: %v", dir, n, werr), ""
			}
			// the reader's endpoint must not wait for a writer that is done
			got := make([]byte, n)
			if dir == 0 {
				ce.SetIdleTemp(true)
			} else {
				se.SetIdleTemp(true)
			}
			_, rerr := io.ReadFull(r, got)
			ce.SetIdleTemp(false)
			se.SetIdleTemp(false)
			if rerr != nil {
				return nilClient, nilServer, fmt.Errorf("read dir %d size %d: %v", dir, n, rerr), ""
			}
			if !bytes.Equal(got, msg) {
				return nilClient, nilServer, fmt.Errorf("dir %d size %d: payload altered", dir, n), ""
			}
		}
	}
	return
}

func c27Scenario(name string, weak bool) *explore.Scenario {
	versions := []uint16{tls.VersionTLS10, tls.VersionTLS11, tls.VersionTLS12}
	return &explore.Scenario{
		Name: name,
		Run: func(x *explore.X) (r explore.Result) {
			if weak {
				weakOnce.Do(tls.EnableWeakCiphers) // process-global and not safe to call while other goroutines use the suite table: once, before any execution of this scenario goes on
			}
			ref := refSuiteVersions(weak)
			hi := x.Choose("idhigh", 256)
			vers := versions[x.Choose("version", 3)]
			pat := x.Choose("secret", 3)
			n := 0
			for lo := 0; lo < 256; lo++ {
				id := uint16(hi<<8 | lo)
				valid := false
				for _, v := range ref[id] {
					if v == vers {
						valid = true
					}
				}
				_, known := ref[id]
				sizes := []int{1}
				if valid {
					sizes = []int{1, 100, 16384, 20000}
				}
				nc, ns, err, pm := forgedExchange(id, vers, pat, sizes)
				n++
				cls := "aead"
				switch {
				case pm != "":
					r.Violate(fmt.Sprintf("C27|panic|suite=%04x", id), "suite %#04x version %#04x: panic %s", id, vers, pm)
				case valid && (nc || ns):
					r.Violate(fmt.Sprintf("C27|supported-suite-nil|suite=%04x", id), "suite %#04x is valid for version %#04x but MakeConnWithCompleteHandshake returned nil (client nil=%v server nil=%v)", id, vers, nc, ns)
				case valid && err != nil:
					r.Violate(fmt.Sprintf("C27|no-interop|suite=%04x|vers=%04x", id, vers), "suite %#04x version %#04x secrets#%d: forged client and server do not interoperate: %v", id, vers, pat, err)
				case !known && !(nc && ns):
					r.Violate(fmt.Sprintf("C27|unsupported-suite-not-nil|suite=%04x", id), "suite %#04x is not a TLS<=1.2 suite utls supports, yet a connection was returned (client nil=%v server nil=%v)", id, nc, ns)
				}
				if valid && err == nil && pm == "" {
					r.Count("interop_ok", 1)
					r.Count(fmt.Sprintf("interop_ok_suite_%04x", id), 1)
				}
				_ = cls
			}
			r.Count("function_evaluations", n)
			r.Obs = fmt.Sprintf("viol=%d", len(r.Viol))
			r.Nontrivial = true
			r.Class = fmt.Sprintf("%02x|%04x|%d", hi, vers, pat)
			if hi == 0xc0 {
				r.Sample = map[string]any{"id_high_byte": "0xc0", "version": fmt.Sprintf("%#04x", vers), "secret_pattern": pat, "ids_tried": 256}
			}
			return
		},
	}
}

func c27Scenarios(thorough bool) []*explore.Scenario {
	return []*explore.Scenario{c27Scenario("all-suite-ids", false), c27Scenario("all-suite-ids-after-EnableWeakCiphers", true)}
}

func init() {
	register(&Prop{ID: "C27", Level: "exploration", Variant: "A", Scenarios: c27Scenarios,
		Run: func(c *explore.Check, thorough bool) {
			c.Rule = "all 65536 suite ids x versions {1.0,1.1,1.2} x 3 secret/random patterns, before and after EnableWeakCiphers; supported (per an independent table built from the standard library's suite list + the code points utls adds) => both forged ends non-nil and payloads of 1/100/16384/20000 bytes round-trip both ways; unknown id => nil. distinct = (id high byte, version, secrets)"
			c.Assumptions = []string{"reference support table = stdlib crypto/tls CipherSuites()+InsecureCipherSuites() restricted to <=1.2, plus 0xcc13/0xcc14 and (after enabling) the three weak CBC suites", "a suite at a version it is not valid for is not judged"}
			runAll(c, c27Scenarios(thorough), 0)
			c.Gate(c.Total.Counters["interop_ok"] > 100, "non-vacuity: interop_ok=%d", c.Total.Counters["interop_ok"])
			c.Extra["function_evaluations"] = c.Total.Counters["function_evaluations"]
		}})
}
