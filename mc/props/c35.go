package props

import (
	"bytes"
	"crypto/sha512"
	"fmt"
	"sync"
	"time"

	tls "github.com/refraction-networking/utls"

	"verifmc/explore"
	"verifmc/peer"
)

// C35 — session tickets are authenticated and round-trip.

type capturedState struct {
	name  string
	bytes []byte // SessionState.Bytes()
}

var (
	c35Once   sync.Once
	c35States []capturedState
)

// c35Corpus captures real SessionStates from handshakes (server side, via WrapSession) and
// derives variants with Extra entries.
func c35Corpus() []capturedState {
	c35Once.Do(func() {
		type cfg struct {
			name  string
			spec  string
			vers  uint16
			suite uint16
			auth  bool
		}
		var cfgs []cfg
		for _, auth := range []bool{false, true} {
			cfgs = append(cfgs,
				cfg{"tls13", "tls13-minimal", tls.VersionTLS13, 0, auth},
				cfg{"tls12-ems-gcm", "tls12-only", tls.VersionTLS12, tls.TLS_ECDHE_ECDSA_WITH_AES_128_GCM_SHA256, auth},
				cfg{"tls12-noems-chacha", "tls12-no-ems", tls.VersionTLS12, tls.TLS_ECDHE_ECDSA_WITH_CHACHA20_POLY1305, auth},
			)
		}
		for _, c := range cfgs {
			scfg := peer.ServerConfig()
			scfg.MaxVersion = c.vers
			if c.suite != 0 {
				scfg.CipherSuites = []uint16{c.suite}
			}
			if c.auth {
				scfg.ClientAuth = tls.RequireAnyClientCert
			}
			var got [][]byte
			var mu sync.Mutex
			scfg.WrapSession = func(cs tls.ConnectionState, ss *tls.SessionState) ([]byte, error) {
				b, err := ss.Bytes()
				if err == nil {
					mu.Lock()
					got = append(got, b)
					mu.Unlock()
				}
				return scfg.EncryptTicket(cs, ss)
			}
			ccfg := peer.ClientConfig("example.com")
			ccfg.ClientSessionCache = tls.NewLRUClientSessionCache(4)
			if c.auth {
				ccfg.Certificates = []tls.Certificate{peer.Fix().ECDSA}
			}
			name := c.spec
			hs := peer.Run(ccfg, tls.HelloCustom, scfg, peer.Opts{Echo: true, Prepare: func(u *tls.UConn) error {
				sp := handshakeSpec(name)
				sp.Extensions = append(sp.Extensions, &tls.SessionTicketExtension{})
				return u.ApplyPreset(sp)
			}})
			_ = hs
			mu.Lock()
			for i, b := range got {
				for _, extra := range [][][]byte{nil, {{1, 2, 3}}, {{}, rep(9, 300), {7}}} {
					ss, err := tls.ParseSessionState(b)
					if err != nil {
						continue
					}
					ss.Extra = extra
					nb, err := ss.Bytes()
					if err != nil {
						continue
					}
					c35States = append(c35States, capturedState{fmt.Sprintf("%s/auth=%v/#%d/extra=%d", c.name, c.auth, i, len(extra)), nb})
				}
			}
			mu.Unlock()
		}
	})
	return c35States
}

func keyN(i int) (k [32]byte) {
	for j := range k {
		k[j] = byte(i*37 + j)
	}
	return
}

func c35RoundTrip(thorough bool) *explore.Scenario {
	return &explore.Scenario{
		Name: "roundtrip-and-every-bit-flip",
		Run: func(x *explore.X) (r explore.Result) {
			states := c35Corpus()
			if len(states) < 6 {
				r.Violate("INFRA|c35-corpus", "only %d session states captured", len(states))
				return
			}
			st := states[x.Choose("state", len(states))]
			nkeys := 1 + x.Choose("keys", 3)
			cfg := &tls.Config{Time: peer.FixedTime}
			var keys [][32]byte
			for i := 0; i < nkeys; i++ {
				keys = append(keys, keyN(i+1))
			}
			cfg.SetSessionTicketKeys(keys)
			ss, err := tls.ParseSessionState(st.bytes)
			if err != nil {
				r.Violate("INFRA|c35-parse", "%v", err)
				return
			}
			var cs tls.ConnectionState
			ticket, err := cfg.EncryptTicket(cs, ss)
			if err != nil {
				r.Violate("C35|encrypt-error", "%s: %v", st.name, err)
				return
			}
			back, err := cfg.DecryptTicket(ticket, cs)
			if err != nil || back == nil {
				r.Violate("C35|roundtrip-nil", "%s keys=%d: DecryptTicket(EncryptTicket(s)) = (%v, %v)", st.name, nkeys, back, err)
				return
			}
			bb, _ := back.Bytes()
			if !bytes.Equal(bb, st.bytes) {
				r.Violate("C35|roundtrip-differs", "%s: decrypted state differs from the original", st.name)
			}
			// a ticket sealed under the OLDEST configured key still decrypts; under a removed key it does not
			old := &tls.Config{Time: peer.FixedTime}
			old.SetSessionTicketKeys([][32]byte{keys[nkeys-1]})
			t2, _ := old.EncryptTicket(cs, ss)
			if b2, _ := cfg.DecryptTicket(t2, cs); b2 == nil {
				r.Violate("C35|older-key-rejected", "%s: ticket sealed under configured key #%d of %d is rejected", st.name, nkeys-1, nkeys)
			}
			gone := &tls.Config{Time: peer.FixedTime}
			gone.SetSessionTicketKeys([][32]byte{keyN(99)})
			t3, _ := gone.EncryptTicket(cs, ss)
			if b3, e3 := cfg.DecryptTicket(t3, cs); b3 != nil || e3 != nil {
				r.Violate("C35|unconfigured-key-accepted", "%s: ticket sealed under a key that is not configured yields (%v, %v)", st.name, b3 != nil, e3)
			}
			// every single-bit flip, every truncation, 1..4 appended bytes
			n := 0
			step := 1
			if !thorough && len(ticket) > 400 {
				step = 3 // long tickets (client cert chains): every 3rd byte, all 8 bits
			}
			for i := 0; i < len(ticket); i += step {
				for b := 0; b < 8; b++ {
					m := append([]byte(nil), ticket...)
					m[i] ^= 1 << uint(b)
					n++
					if s, e := cfg.DecryptTicket(m, cs); s != nil || e != nil {
						r.Violate("C35|bitflip-accepted", "%s: ticket with bit %d of byte %d/%d flipped yields (state=%v, err=%v)", st.name, b, i, len(ticket), s != nil, e)
						i = len(ticket)
						break
					}
				}
			}
			for l := 0; l < len(ticket); l++ {
				n++
				if s, e := cfg.DecryptTicket(ticket[:l], cs); s != nil || e != nil {
					r.Violate("C35|truncation-accepted", "%s: ticket truncated to %d/%d bytes yields (state=%v, err=%v)", st.name, l, len(ticket), s != nil, e)
					break
				}
			}
			for l := 1; l <= 4; l++ {
				n++
				if s, e := cfg.DecryptTicket(append(append([]byte(nil), ticket...), make([]byte, l)...), cs); s != nil || e != nil {
					r.Violate("C35|extension-accepted", "%s: ticket with %d appended bytes yields (state=%v, err=%v)", st.name, l, s != nil, e)
					break
				}
			}
			r.Count("mutated_tickets", n)
			x.Transitions += n
			r.Obs = fmt.Sprintf("viol=%d", len(r.Viol))
			r.Nontrivial = true
			r.Class = fmt.Sprintf("%s|%d", st.name, nkeys)
			if nkeys == 2 {
				r.Sample = map[string]any{"state": st.name, "ticket_len": len(ticket), "keys": nkeys, "mutations_tried": n}
			}
			return
		},
	}
}

// c35Rotation: histories of explicit key rotations and of clock advances under auto-managed keys,
// against a reference model of which sealing keys are still configured.
func c35Rotation(depth int) *explore.Scenario {
	advances := []time.Duration{0, 23 * time.Hour, 25 * time.Hour, 3 * 24 * time.Hour, 8 * 24 * time.Hour}
	return &explore.Scenario{
		Name: "key-rotation-histories",
		Run: func(x *explore.X) (r explore.Result) {
			states := c35Corpus()
			ss, err := tls.ParseSessionState(states[0].bytes)
			if err != nil {
				r.Violate("INFRA|c35-parse", "%v", err)
				return
			}
			var cs tls.ConnectionState
			mode := x.Choose("mode", 3) // 0 explicit keys, 1 auto-managed keys, 2 explicit keys on a Config whose first key came from the deprecated SessionTicketKey field
			var hist []string
			if mode == 0 || mode == 2 {
				// explicit keys: each step installs a window of <=2 keys [k_i, k_(i-1)] or jumps
				cfg := &tls.Config{Time: peer.FixedTime}
				type tk struct {
					t   []byte
					key int
				}
				var tickets []tk
				cur := []int{1}
				if mode == 2 {
					cfg.SessionTicketKey = keyN(1) // used as the only key until SetSessionTicketKeys is called, which then takes over for good
					hist = append(hist, "legacy-field")
				} else {
					cfg.SetSessionTicketKeys([][32]byte{keyN(1)})
				}
				for step := 0; step < depth; step++ {
					t, _ := cfg.EncryptTicket(cs, ss)
					tickets = append(tickets, tk{t, cur[0]})
					op := x.Choose("rotate", 4) // 0 none, 1 add new in front keep 1 old, 2 replace all, 3 add new keep all
					next := cur[0] + 1
					switch op {
					case 1:
						cur = []int{next, cur[0]}
					case 2:
						cur = []int{next}
					case 3:
						cur = append([]int{next}, cur...)
					}
					hist = append(hist, fmt.Sprint(op))
					var ks [][32]byte
					for _, k := range cur {
						ks = append(ks, keyN(k))
					}
					cfg.SetSessionTicketKeys(ks)
					x.Transitions++
					for i, tkt := range tickets {
						want := false
						for _, k := range cur {
							if k == tkt.key {
								want = true
							}
						}
						s, e := cfg.DecryptTicket(tkt.t, cs)
						if (s != nil) != want || e != nil {
							r.Violate(fmt.Sprintf("C35|rotation-explicit|want=%v", want), "rotation history %v: ticket #%d sealed under key %d, configured keys %v: decrypts=%v err=%v", hist, i, tkt.key, cur, s != nil, e)
						}
					}
				}
			} else {
				// auto-managed keys with a controllable clock
				now := peer.Now
				cfg := &tls.Config{Time: func() time.Time { return now }, Rand: newScriptRand("c35-auto")}
				type mkey struct{ created time.Time }
				var model []*mkey // newest first
				access := func() *mkey {
					if len(model) == 0 || now.Sub(model[0].created) >= 24*time.Hour {
						nk := &mkey{now}
						valid := []*mkey{nk}
						for _, k := range model {
							if now.Sub(k.created) < 7*24*time.Hour {
								valid = append(valid, k)
							}
						}
						model = valid
					}
					return model[0]
				}
				type tk struct {
					t   []byte
					key *mkey
				}
				var tickets []tk
				for step := 0; step < depth+2; step++ {
					k := access()
					t, err := cfg.EncryptTicket(cs, ss)
					if err != nil {
						r.Violate("C35|encrypt-error", "%v", err)
						return
					}
					tickets = append(tickets, tk{t, k})
					adv := advances[x.Choose("advance", len(advances))]
					now = now.Add(adv)
					hist = append(hist, adv.String())
					x.Transitions++
					access()
					for i, tkt := range tickets {
						want := false
						for _, mk := range model {
							if mk == tkt.key {
								want = true
							}
						}
						s, e := cfg.DecryptTicket(tkt.t, cs)
						if (s != nil) != want || e != nil {
							r.Violate(fmt.Sprintf("C35|rotation-auto|want=%v", want), "clock history %v: ticket #%d sealed %v ago: decrypts=%v (reference %v) err=%v", hist, i, now.Sub(tkt.key.created), s != nil, want, e)
						}
					}
				}
			}
			r.Obs = fmt.Sprintf("mode%d|viol=%d", mode, len(r.Viol))
			r.Nontrivial = true
			r.Class = fmt.Sprintf("%d|%v", mode, hist)
			if len(hist) > 2 && hist[0] != hist[1] {
				r.Sample = map[string]any{"mode": []string{"explicit-keys", "auto-keys", "legacy-field-then-explicit-keys"}[mode], "history": hist}
			}
			return
		},
	}
}

func c35KeyDerivation() *explore.Scenario {
	return &explore.Scenario{
		Name: "TicketKeyFromBytes-vs-SetSessionTicketKeys",
		Run: func(x *explore.X) (r explore.Result) {
			pos := x.Choose("pos", 32)
			n := 0
			for v := 0; v < 256; v++ {
				var b [32]byte
				b[pos] = byte(v)
				cfg := &tls.Config{Time: peer.FixedTime}
				cfg.SetSessionTicketKeys([][32]byte{b})
				inst := tls.VerifSessionTicketKeys(cfg)
				tk := tls.TicketKeyFromBytes(b)
				h := sha512.Sum512(b[:])
				n++
				if len(inst) != 1 || inst[0].AesKey != tk.AesKey || inst[0].HmacKey != tk.HmacKey {
					r.Violate("C35|keyderivation|differs-from-installed", "input byte %d = %#x: TicketKeyFromBytes differs from the key SetSessionTicketKeys installs", pos, v)
					break
				}
				if !bytes.Equal(tk.AesKey[:], h[16:32]) || !bytes.Equal(tk.HmacKey[:], h[32:48]) {
					r.Violate("C35|keyderivation|not-sha512-slices", "input byte %d = %#x: derived keys are not SHA-512(b)[16:32] / [32:48]", pos, v)
					break
				}
				if tk.AesKey == tk.HmacKey {
					r.Violate("C35|keyderivation|aes-equals-hmac", "aes key == hmac key")
					break
				}
			}
			r.Count("function_evaluations", n)
			r.Obs = fmt.Sprintf("viol=%d", len(r.Viol))
			r.Nontrivial = true
			r.Class = fmt.Sprint(pos)
			return
		},
	}
}

// c35Forged — a forged ClientSessionState carries exactly what was supplied.
func c35Forged() *explore.Scenario {
	lens := []int{0, 1, 16, 31, 32, 33, 47, 48, 49, 64, 255}
	versions := []uint16{tls.VersionTLS10, tls.VersionTLS11, tls.VersionTLS12, tls.VersionTLS13}
	suites := []uint16{tls.TLS_AES_128_GCM_SHA256, tls.TLS_AES_256_GCM_SHA384, tls.TLS_ECDHE_ECDSA_WITH_AES_128_GCM_SHA256, tls.TLS_RSA_WITH_AES_256_CBC_SHA, 0x0a0a}
	tickets := []int{0, 1, 300}
	return &explore.Scenario{
		Name: "forged-client-session-state-accessors",
		Run: func(x *explore.X) (r explore.Result) {
			ln := lens[x.Choose("secretlen", len(lens))]
			vers := versions[x.Choose("version", len(versions))]
			suite := suites[x.Choose("suite", len(suites))]
			tl := tickets[x.Choose("ticketlen", len(tickets))]
			via := x.Choose("via", 2) // 0 constructor, 1 setters on an empty state
			secret := payload(ln, 0x35)
			ticket := payload(tl, 0x53)
			what := fmt.Sprintf("secret=%dB vers=%04x suite=%04x ticket=%dB via=%d", ln, vers, suite, tl, via)
			var css *tls.ClientSessionState
			if pm := catch(func() {
				if via == 0 {
					css = tls.MakeClientSessionState(ticket, vers, suite, secret, nil, nil)
				} else {
					css = tls.MakeClientSessionState(nil, 0, 0, nil, nil, nil)
					css.SetSessionTicket(ticket)
					css.SetVers(vers)
					css.SetCipherSuite(suite)
					css.SetMasterSecret(secret)
				}
			}); pm != "" {
				r.Violate("C35|forged|panic", "%s: %s", what, truncStr(pm, 200))
				return
			}
			if !bytes.Equal(css.MasterSecret(), secret) {
				r.Violate(fmt.Sprintf("C35|forged|master-secret-altered|len=%d", ln), "%s: MasterSecret() = %d bytes %x..., supplied %d bytes", what, len(css.MasterSecret()), firstN(css.MasterSecret(), 8), ln)
			}
			if css.Vers() != vers || css.CipherSuite() != suite {
				r.Violate("C35|forged|version-or-suite-altered", "%s: got %04x/%04x", what, css.Vers(), css.CipherSuite())
			}
			if !bytes.Equal(css.SessionTicket(), ticket) {
				r.Violate("C35|forged|ticket-altered", "%s: ticket %d bytes", what, len(css.SessionTicket()))
			}
			// the caller's slice is what it supplied: later edits by the library must not reach it
			if ln > 0 && secret[0] != payload(ln, 0x35)[0] {
				r.Violate("C35|forged|caller-slice-modified", "%s", what)
			}
			r.Nontrivial = true
			r.Obs = fmt.Sprintf("viol=%d", len(r.Viol))
			r.Class = what
			return
		},
	}
}

func firstN(b []byte, n int) []byte {
	if len(b) < n {
		return b
	}
	return b[:n]
}

// c35Clones — Config.Clone is how servers hand per-connection configs out (GetConfigForClient):
// setting ticket keys on a clone or on its origin must not reach the other one.
func c35Clones() *explore.Scenario {
	return &explore.Scenario{
		Name: "ticket-keys-of-cloned-configs",
		Run: func(x *explore.X) (r explore.Result) {
			states := c35Corpus()
			ss, err := tls.ParseSessionState(states[0].bytes)
			if err != nil {
				r.Violate("INFRA|c35-parse", "%v", err)
				return
			}
			var cs tls.ConnectionState
			nInit := 1 + x.Choose("initial-keys", 3)
			nNew := 1 + x.Choose("new-keys", 3)
			onClone := x.Choose("rotate-on", 2) == 0
			var initKeys, newKeys [][32]byte
			for i := 0; i < nInit; i++ {
				initKeys = append(initKeys, keyN(1+i))
			}
			for i := 0; i < nNew; i++ {
				newKeys = append(newKeys, keyN(100+i))
			}
			what := fmt.Sprintf("origin with %d explicit keys, Clone(), then %d new keys set on the %s", nInit, nNew, map[bool]string{true: "clone", false: "origin"}[onClone])
			base := &tls.Config{Time: peer.FixedTime}
			base.SetSessionTicketKeys(initKeys)
			clone := base.Clone()
			sealedOld, _ := base.EncryptTicket(cs, ss)
			rotated, untouched := clone, base
			if !onClone {
				rotated, untouched = base, clone
			}
			rotated.SetSessionTicketKeys(newKeys)
			sealedNew, _ := rotated.EncryptTicket(cs, ss)
			// the untouched Config still has exactly the initial keys
			got := tls.VerifSessionTicketKeys(untouched)
			if len(got) != nInit {
				r.Violate("C35|clone|keys-of-other-config-changed", "%s: the other Config now has %d keys, had %d", what, len(got), nInit)
			} else {
				for i := range got {
					if want := tls.TicketKeyFromBytes(initKeys[i]); got[i].AesKey != want.AesKey || got[i].HmacKey != want.HmacKey {
						r.Violate("C35|clone|keys-of-other-config-changed", "%s: key %d of the other Config is no longer the one it was given", what, i)
						break
					}
				}
			}
			if s, e := untouched.DecryptTicket(sealedOld, cs); s == nil || e != nil {
				r.Violate("C35|clone|own-ticket-refused", "%s: the other Config no longer opens a ticket sealed with its own, still configured key (%v)", what, e)
			}
			if s, _ := untouched.DecryptTicket(sealedNew, cs); s != nil {
				r.Violate("C35|clone|foreign-ticket-accepted", "%s: the other Config opens a ticket sealed with a key it was never given", what)
			}
			if s, e := rotated.DecryptTicket(sealedNew, cs); s == nil || e != nil {
				r.Violate("C35|clone|rotated-config-refuses-own-ticket", "%s: %v", what, e)
			}
			if s, _ := rotated.DecryptTicket(sealedOld, cs); s != nil {
				r.Violate("C35|clone|unconfigured-key-accepted", "%s: the rotated Config still opens a ticket of the replaced keys", what)
			}
			r.Nontrivial = true
			r.Obs = fmt.Sprintf("viol=%d", len(r.Viol))
			r.Class = what
			return
		},
	}
}

// c35CertShapes: states whose peer certificates and verified chains have shapes the harness handshakes do
// not produce — several peer certificates, chains through a certificate the peer did not send at that
// position (a cross-signed intermediate from the pool), several chains. The decrypted state must carry
// exactly the certificates of the original, peer list and every chain, position by position.
func c35CertShapes() *explore.Scenario {
	f := peer.Fix()
	pool := [][]byte{f.ECDSA.Certificate[0], f.CACert.Raw, f.RSA.Certificate[0], f.Untrusted.Certificate[0], f.Ed25519.Certificate[0]}
	pick := func(idx ...int) (l [][]byte) {
		for _, i := range idx {
			l = append(l, pool[i])
		}
		return
	}
	peers := [][]int{{0}, {0, 1}, {0, 1, 2}, {0, 1, 2, 3, 4}}
	chainSets := [][][]int{
		nil,
		{{0}},
		{{0, 1}},
		{{0, 3}},
		{{0, 3}, {0, 1}},
		{{0, 1}, {0, 3}},
		{{0, 2, 3}},
		{{0, 4, 3, 2}, {0, 1}},
		{{0, 1, 2}, {0, 2, 1}, {0, 3}},
	}
	return &explore.Scenario{
		Name: "certificate-shapes-roundtrip",
		Run: func(x *explore.X) (r explore.Result) {
			states := c35Corpus()
			if len(states) < 6 {
				r.Violate("INFRA|c35-corpus", "only %d session states captured", len(states))
				return
			}
			// one state per captured configuration (the Extra variants are the first scenario's business)
			var bases []capturedState
			for i := 0; i < len(states); i += 3 {
				bases = append(bases, states[i])
			}
			st := bases[x.Choose("state", len(bases))]
			pi := x.Choose("peer-certificates", len(peers))
			ci := x.Choose("verified-chains", len(chainSets))
			wantPeer := pick(peers[pi]...)
			var wantChains [][][]byte
			for _, ch := range chainSets[ci] {
				wantChains = append(wantChains, pick(ch...))
			}
			what := fmt.Sprintf("%s peer=%v chains=%v", st.name, peers[pi], chainSets[ci])
			enc, err := tls.VerifSessionStateWithCerts(st.bytes, wantPeer, wantChains)
			if err != nil {
				r.Violate("INFRA|c35-shape", "%s: %v", what, err)
				return
			}
			ss, err := tls.ParseSessionState(enc)
			if err != nil {
				r.Violate("C35|shape-unparsable|"+errClass(err), "%s: the state's own encoding does not parse: %v", what, err)
				return
			}
			cfg := &tls.Config{Time: peer.FixedTime}
			cfg.SetSessionTicketKeys([][32]byte{keyN(1), keyN(2)})
			var cs tls.ConnectionState
			ticket, err := cfg.EncryptTicket(cs, ss)
			if err != nil {
				r.Violate("C35|encrypt-error", "%s: %v", what, err)
				return
			}
			back, err := cfg.DecryptTicket(ticket, cs)
			if err != nil || back == nil {
				r.Violate("C35|roundtrip-nil", "%s: DecryptTicket(EncryptTicket(s)) = (%v, %v)", what, back, err)
				return
			}
			r.Nontrivial = true
			r.Class = what
			gotPeer, gotChains := tls.VerifSessionStateCerts(back)
			same := func(a, b [][]byte) bool {
				if len(a) != len(b) {
					return false
				}
				for i := range a {
					if !bytes.Equal(a[i], b[i]) {
						return false
					}
				}
				return true
			}
			if !same(gotPeer, wantPeer) {
				r.Violate("C35|roundtrip-differs|peer-certificates", "%s: the decrypted state's peer certificates differ from the original's", what)
			}
			if len(gotChains) != len(wantChains) {
				r.Violate("C35|roundtrip-differs|chain-count", "%s: %d verified chains, the original has %d", what, len(gotChains), len(wantChains))
			} else {
				for i := range wantChains {
					if !same(gotChains[i], wantChains[i]) {
						r.Violate("C35|roundtrip-differs|verified-chain", "%s: verified chain %d differs from the original's", what, i)
					}
				}
			}
			if bb, _ := back.Bytes(); !bytes.Equal(bb, enc) {
				r.Violate("C35|roundtrip-differs", "%s: decrypted state serialises differently from the original", what)
			}
			r.Obs = fmt.Sprintf("peer=%d|chains=%d|viol=%d", len(wantPeer), len(wantChains), len(r.Viol))
			return
		},
	}
}

// c35ResumedSuite: "a session resumed through a forged ClientSessionState carries exactly the supplied
// version, suite and master secret" — also when the server, on resuming, answers with ANOTHER suite the
// client offers (it rewrote the suite in its own ticket state): the client must not go on under a suite
// the supplied state does not name.
func c35ResumedSuite() *explore.Scenario {
	others := []uint16{0, tls.TLS_ECDHE_ECDSA_WITH_AES_256_GCM_SHA384, tls.TLS_ECDHE_ECDSA_WITH_CHACHA20_POLY1305, tls.TLS_ECDHE_RSA_WITH_AES_128_GCM_SHA256, tls.TLS_RSA_WITH_AES_128_GCM_SHA256}
	return &explore.Scenario{
		Name: "forged-session-resumed-under-another-suite",
		Run: func(x *explore.X) (r explore.Result) {
			other := others[x.Choose("server-resumes-with-suite", len(others))]
			via := x.Choose("via", 2) // 0 SetSessionState(forged), 1 the session cache
			m12, _ := c20Prepare("a.example")
			if !m12.available {
				r.Violate("INFRA|c35-material", "no TLS 1.2 session material")
				return
			}
			what := fmt.Sprintf("forged state (suite %04x) via=%d, the server resumes it with suite %04x", m12.css.CipherSuite(), via, other)
			ccfg := peer.ClientConfig("a.example")
			ccfg.ClientSessionCache = tls.NewLRUClientSessionCache(4)
			f := tls.MakeClientSessionState(m12.css.SessionTicket(), m12.css.Vers(), m12.css.CipherSuite(), m12.css.MasterSecret(), m12.css.ServerCertificates(), m12.css.VerifiedChains())
			f.SetEMS(m12.css.EMS())
			if via == 1 {
				ccfg.ClientSessionCache.Put("a.example", f)
			}
			scfg := peer.ServerConfig()
			scfg.MaxVersion = tls.VersionTLS12
			if other != 0 {
				inner := scfg.Clone()
				scfg.UnwrapSession = func(identity []byte, cs tls.ConnectionState) (*tls.SessionState, error) {
					ss, err := inner.DecryptTicket(identity, cs)
					if err == nil && ss != nil {
						tls.VerifSetSessionSuite(ss, other)
					}
					return ss, err
				}
			}
			byName := map[string]tls.ClientHelloID{}
			for _, n := range AllIDs() {
				byName[n.Name] = n.ID
			}
			hs := peer.Run(ccfg, byName["HelloChrome_100"], scfg, peer.Opts{Echo: true, Prepare: func(u *tls.UConn) error {
				if via == 0 {
					return u.SetSessionState(f)
				}
				return nil
			}})
			r.Nontrivial = true
			r.Class = what
			if hs.CPanic != "" {
				r.Violate("C35|forged-resumed|panic", "%s: %s", what, truncStr(hs.CPanic, 300))
				return
			}
			cs := hs.U.ConnectionState()
			if hs.CErr == nil && cs.DidResume {
				r.Count("forged_sessions_resumed", 1)
				if cs.CipherSuite != f.CipherSuite() {
					r.Violate("C35|forged-resumed|other-suite", "%s: the connection resumed and runs suite %04x", what, cs.CipherSuite)
				}
				if cs.Version != f.Vers() {
					r.Violate("C35|forged-resumed|other-version", "%s: the connection resumed at version %04x", what, cs.Version)
				}
				if !hs.EchoOK {
					r.Violate("C35|forged-resumed|no-data", "%s: resumed, but the echo failed: %v", what, hs.EchoErr)
				}
			} else if other == 0 {
				r.Violate("C35|forged-resumed|honest-server-not-resumed", "%s: client %v / server %v, DidResume=%v", what, hs.CErr, hs.SErr, cs.DidResume)
			}
			r.Obs = fmt.Sprintf("resumed=%v|err=%s", cs.DidResume, errClass(hs.CErr))
			return
		},
	}
}

func c35Scenarios(thorough bool) []*explore.Scenario {
	d := 3
	if thorough {
		d = 5
	}
	return []*explore.Scenario{c35RoundTrip(thorough), c35Rotation(d), c35KeyDerivation(), c35Forged(), c35Clones(), c35IssuedByHandshakes(), c35CertShapes(), c35ResumedSuite()}
}

func init() {
	register(&Prop{ID: "C35", Level: "exploration", Variant: "A", Scenarios: c35Scenarios,
		Run: func(c *explore.Check, thorough bool) {
			c.Rule = "SessionStates captured from real TLS 1.2 (EMS / no EMS) and 1.3 handshakes with and without a client certificate x Extra of 0/1/3 entries x key sets of 1-3 keys: decrypt(encrypt(s)) serialises identically; every single-bit flip (every 3rd byte for tickets > 400 B in quick), every truncation and 1-4 appended bytes yield (nil,nil); oldest configured key accepted, unconfigured key refused; every history of <=3 (5) explicit rotations (on a Config whose first key was installed by SetSessionTicketKeys, and on one where it came from the deprecated SessionTicketKey field) and of <=5 (7) clock advances from {0,23h,25h,3d,8d} under auto-managed keys against a reference model; TicketKeyFromBytes on all single-byte-set inputs vs installed keys and SHA-512 slices; Config.Clone followed by SetSessionTicketKeys on the clone or the origin ({1,2,3} initial x {1,2,3} new keys): the other Config keeps exactly its keys; forged ClientSessionStates (constructor and setters) x secret lengths {0,1,16,31,32,33,47,48,49,64,255} x 4 versions x 5 suites x 3 ticket lengths return exactly the supplied version, suite, ticket and master secret; tickets issued by real TLS 1.2/1.3 handshakes x listener keys {explicit, automatic} x GetConfigForClient {none, a per-connection Config without keys, one with its own keys} x 2 clients: the ticket in the client's cache opens with the keys of the Config documented to seal it (and only those) and a second connection resumes. distinct = (state, keys) / history"
			c.Assumptions = []string{"reference model of auto rotation: a new key every 24h on access, keys older than 7 days dropped at rotation time", "end-to-end resumption through a forged ClientSessionState (48-byte TLS 1.2 master secret) is exercised by C20; here the state itself is checked for every secret length"}
			runAll(c, c35Scenarios(thorough), 0)
			c.Gate(c.Total.Counters["mutated_tickets"] > 10000, "non-vacuity: %d mutated tickets", c.Total.Counters["mutated_tickets"])
		}})
}

// c35IssuedByHandshakes — the tickets a real server hands out are sealed with the keys of the
// Config the listener was given, also when GetConfigForClient swaps in a per-connection Config that
// has no ticket keys of its own (documented: "the keys on the original Config are used"): the
// ticket in the client's cache opens with listener.DecryptTicket, and a second connection resumes.
func c35IssuedByHandshakes() *explore.Scenario {
	return &explore.Scenario{
		Name: "tickets-issued-by-real-handshakes",
		Run: func(x *explore.X) (r explore.Result) {
			vers := []uint16{tls.VersionTLS12, tls.VersionTLS13}[x.Choose("version", 2)]
			keys := x.Choose("listener-keys", 2)   // 0 explicit (SetSessionTicketKeys), 1 automatic
			perConn := x.Choose("per-connection-config", 3) // 0 none, 1 GetConfigForClient returns a fresh Config without keys, 2 returns a Config with its own explicit keys
			id := []tls.ClientHelloID{tls.HelloGolang, tls.HelloChrome_100_PSK}[x.Choose("client", 2)]
			what := fmt.Sprintf("vers=%04x listener-keys=%d per-connection-config=%d client=%s", vers, keys, perConn, id.Client)
			base := peer.ServerConfig()
			base.MaxVersion = vers
			listener := &tls.Config{Certificates: base.Certificates, MinVersion: base.MinVersion, MaxVersion: vers, Time: base.Time}
			if keys == 0 {
				listener.SetSessionTicketKeys([][32]byte{keyN(41)})
			} else {
				// (the harness clones the server Config per connection: have the automatic keys exist
				// before the first clone is taken, as they would in one long-lived listener Config)
				listener.DecryptTicket(make([]byte, 64), tls.ConnectionState{})
			}
			own := &tls.Config{Certificates: base.Certificates, MinVersion: base.MinVersion, MaxVersion: vers, Time: base.Time}
			own.SetSessionTicketKeys([][32]byte{keyN(42)})
			switch perConn {
			case 1:
				listener.GetConfigForClient = func(*tls.ClientHelloInfo) (*tls.Config, error) {
					return &tls.Config{Certificates: base.Certificates, MinVersion: base.MinVersion, MaxVersion: vers, Time: base.Time}, nil
				}
			case 2:
				listener.GetConfigForClient = func(*tls.ClientHelloInfo) (*tls.Config, error) { return own, nil }
			}
			cache := newRecCache()
			ccfg := peer.ClientConfig("a.example")
			ccfg.ClientSessionCache = cache
			ccfg.OmitEmptyPsk = true
			hs1 := peer.Run(ccfg, id, listener, peer.Opts{Echo: true})
			if !(hs1.OK() && hs1.EchoOK) {
				r.Violate("INFRA|c35-handshake", "%s: first connection: %v / %v", what, hs1.CErr, hs1.SErr)
				return
			}
			r.Nontrivial = true
			r.Class = what
			cache.mu.Lock()
			var tickets [][]byte
			for _, t := range cache.tickets["a.example"] {
				tickets = append(tickets, t)
			}
			cache.mu.Unlock()
			if len(tickets) == 0 {
				r.Obs = "no-ticket-issued"
				return
			}
			opener := listener
			if perConn == 2 {
				opener = own
			}
			for i, t := range tickets {
				st, err := opener.DecryptTicket(t, tls.ConnectionState{})
				if st == nil || err != nil {
					r.Violate(fmt.Sprintf("C35|issued-ticket-does-not-open|per-connection-config=%d", perConn), "%s: ticket #%d issued by the handshake does not open with the keys of the Config that is documented to seal it (state=%v err=%v)", what, i, st != nil, err)
				}
				if perConn == 2 {
					if st2, _ := listener.DecryptTicket(t, tls.ConnectionState{}); st2 != nil {
						r.Violate("C35|issued-ticket-opens-with-foreign-keys", "%s: the per-connection Config has its own keys, yet the listener's keys open the ticket", what)
					}
				}
			}
			hs2 := peer.Run(ccfg, id, listener, peer.Opts{Echo: true})
			if !(hs2.OK() && hs2.EchoOK) || !hs2.U.ConnectionState().DidResume {
				r.Violate(fmt.Sprintf("C35|issued-ticket-not-resumable|per-connection-config=%d", perConn), "%s: the second connection does not resume (client %v, server %v, DidResume=%v)", what, hs2.CErr, hs2.SErr, hs2.CErr == nil && hs2.U.ConnectionState().DidResume)
			}
			r.Count("issued_tickets_opened", len(tickets))
			r.Obs = fmt.Sprintf("tickets=%d|viol=%d", len(tickets), len(r.Viol))
			return
		},
	}
}
