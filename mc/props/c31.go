package props

import (
	"strings"
	"bytes"
	"fmt"
	"reflect"
	"sync"

	tls "github.com/refraction-networking/utls"

	"verifmc/explore"
	"verifmc/peer"
	"verifmc/wire"
)

// C31 — public views of handshake messages convert losslessly.

var (
	c31Once  sync.Once
	c31Cases map[bool][]tls.VerifRTCase
)

func c31Fields(pairs bool) *explore.Scenario {
	return &explore.Scenario{
		Name: "public-private-public-field-roundtrip",
		Run: func(x *explore.X) (r explore.Result) {
			c31Once.Do(func() {
				c31Cases = map[bool][]tls.VerifRTCase{false: tls.VerifRTCases(false), true: tls.VerifRTCases(true)}
			})
			cases := c31Cases[pairs]
			c := cases[x.Choose("case", len(cases))]
			for _, f := range c.Fails {
				r.Violate(fmt.Sprintf("C31|fields|%s|%s", c.Type, c.Pattern), "%s %s: %s", c.Type, c.Pattern, f)
			}
			r.Obs = fmt.Sprintf("%s|ok=%v", c.Type, len(c.Fails) == 0)
			r.Nontrivial = c.Pattern != "zero"
			r.Class = c.Type + "|" + c.Pattern
			if c.Pattern == "all-set" {
				r.Sample = map[string]any{"type": c.Type, "pattern": c.Pattern, "fails": c.Fails}
			}
			return
		},
	}
}

// helloCorpus: wire hellos of every ID / custom spec, plus synthetic variants with extra
// extensions (present-but-empty bodies and boundary bodies) spliced in and server_name values uTLS itself would not send (IP literals, zone ids, one letter, 253 characters).
func c31Hellos() [][2]any {
	var out [][2]any
	add := func(name string, msg []byte) { out = append(out, [2]any{name, msg}) }
	var base [][2]any
	for _, n := range AllIDs() {
		if isCustom(n.ID) {
			continue
		}
		id := n.ID
		if isRandomized(id) {
			id = seededRandomized(id.Client, 5)
		}
		cfg := peer.ClientConfig("example.com")
		cfg.OmitEmptyPsk = true
		stream, _, _, _ := firstFlight(cfg, id, nil)
		if msg, _, err := wire.FirstFlightHello(stream); err == nil {
			base = append(base, [2]any{n.Name, msg})
		}
	}
	for _, sp := range CustomSpecs(false) {
		if len(sp.Name) > 6 && sp.Name[:6] == "single" || sp.Name[:3] == "all" {
			stream, _, _, _ := firstFlight(peer.ClientConfig("example.com"), tls.HelloCustom, applySpec(sp.Mk))
			if msg, _, err := wire.FirstFlightHello(stream); err == nil {
				base = append(base, [2]any{sp.Name, msg})
			}
		}
	}
	extras := []struct {
		name string
		typ  uint16
		body []byte
	}{
		{"+quic_tp(empty)", 57, []byte{}},
		{"+quic_tp(3B)", 57, []byte{1, 1, 5}},
		{"+cookie(1B)", 44, []byte{0, 1, 9}},
		{"+early_data", 42, []byte{}},
		{"+sct", 18, []byte{}},
		// large but legal bodies: the hello grows beyond 4 KiB, 16 KiB and towards the 64 KiB extension-block limit
		{"+cookie(5000B)", 44, append([]byte{0x13, 0x88}, rep(0xc0, 5000)...)},
		{"+session_ticket(6000B)", 35, rep(0x35, 6000)},
		{"+quic_tp(20000B)", 57, append([]byte{0x3f, 0xff, 0x80, 0x00, 0x4e, 0x18}, rep(0, 19992)...)},
		{"+unknown_ff01(40000B)", 0xff01, rep(0xee, 40000)},
	}
	for _, b := range base {
		add(b[0].(string), b[1].([]byte))
	}
	for i, b := range base {
		if i%4 != 0 {
			continue
		}
		h, err := wire.ParseClientHello(b[1].([]byte))
		if err != nil || !h.HasExts {
			continue
		}
		for _, e := range extras {
			if h.Find(e.typ) != nil {
				continue
			}
			h2 := *h
			// insert before a trailing pre_shared_key, else append
			exts := append([]wire.Ext(nil), h.Exts...)
			ne := wire.Ext{Type: e.typ, Body: e.body}
			if len(exts) > 0 && exts[len(exts)-1].Type == 41 {
				exts = append(exts[:len(exts)-1], ne, exts[len(exts)-1])
			} else {
				exts = append(exts, ne)
			}
			h2.Exts = exts
			add(b[0].(string)+e.name, rebuildHello(&h2, nil))
		}
	}
	// server_name values a peer may put on the wire although uTLS itself would not: IP literals,
	// a one-letter name (a trailing dot is rejected by the parser by design), the longest legal name
	sniBody := func(n string) []byte {
		return append([]byte{byte((len(n) + 3) >> 8), byte(len(n) + 3), 0, byte(len(n) >> 8), byte(len(n))}, n...)
	}
	for i, b := range base {
		if i%8 != 0 {
			continue
		}
		h, err := wire.ParseClientHello(b[1].([]byte))
		if err != nil || h.Find(0) == nil {
			continue
		}
		for _, n := range []string{"192.0.2.1", "[::1]", "fe80::1%eth0", "a", strings.Repeat("a", 63) + "." + strings.Repeat("b", 63) + "." + strings.Repeat("c", 63) + "." + strings.Repeat("d", 61)} {
			add(fmt.Sprintf("%s+sni(%s)", b[0].(string), truncStr(n, 14)), rebuildHello(h, map[uint16][]byte{0: sniBody(n)}))
		}
	}
	return out
}

var (
	c31HOnce sync.Once
	c31H     [][2]any
)

func c31Bytes() *explore.Scenario {
	return &explore.Scenario{
		Name: "clienthello-bytes-roundtrip",
		Run: func(x *explore.X) (r explore.Result) {
			c31HOnce.Do(func() { c31H = c31Hellos() })
			if len(c31H) < 50 {
				r.Violate("INFRA|c31-corpus", "only %d hellos", len(c31H))
				return
			}
			hc := c31H[x.Choose("hello", len(c31H))]
			name, msg := hc[0].(string), hc[1].([]byte)
			if _, err := wire.CheckAll(msg); err != nil {
				r.Obs = "invalid-source"
				return
			}
			p := tls.UnmarshalClientHello(msg)
			if p == nil {
				r.Violate("C31|bytes|unmarshal-nil", "%s: UnmarshalClientHello rejects a valid ClientHello (%d bytes)", name, len(msg))
				return
			}
			out, err := p.Marshal()
			if err != nil || !bytes.Equal(out, msg) {
				r.Violate("C31|bytes|marshal-differs", "%s: Unmarshal then Marshal does not reproduce the input (err %v, %d vs %d bytes)", name, err, len(out), len(msg))
			}
			// parse, clear Raw, marshal, parse again => same field values
			p1 := tls.UnmarshalClientHello(msg)
			p1.Raw = nil
			b2, err := p1.Marshal()
			if err != nil {
				r.Violate("C31|reparse|marshal-error|"+errClass(err), "%s: Marshal after clearing Raw: %v", name, err)
			} else {
				p2 := tls.UnmarshalClientHello(b2)
				if p2 == nil {
					r.Violate("C31|reparse|unmarshal-nil", "%s: re-marshaled hello does not parse", name)
				} else {
					p0 := tls.UnmarshalClientHello(msg)
					v0, v2 := reflect.ValueOf(p0).Elem(), reflect.ValueOf(p2).Elem()
					for i := 0; i < v0.NumField(); i++ {
						f := v0.Type().Field(i)
						if f.Name == "Raw" || !f.IsExported() {
							continue
						}
						a, b := v0.Field(i).Interface(), v2.Field(i).Interface()
						if !reflect.DeepEqual(a, b) {
							r.Violate("C31|reparse|field|"+f.Name, "%s: field %s is %v after parse and %v after clear-Raw/marshal/parse", name, f.Name, truncStr(fmt.Sprint(a), 80), truncStr(fmt.Sprint(b), 80))
						}
					}
				}
			}
			r.Obs = fmt.Sprintf("viol=%d", len(r.Viol))
			r.Nontrivial = true
			r.Class = name
			if len(name) > 0 && name[len(name)-1] == ')' {
				r.Sample = map[string]any{"hello": name, "bytes": len(msg)}
			}
			return
		},
	}
}

func truncStr(s string, n int) string {
	if len(s) > n {
		return s[:n] + "…"
	}
	return s
}

func c31Scenarios(thorough bool) []*explore.Scenario {
	return []*explore.Scenario{c31Fields(thorough), c31Bytes()}
}

func init() {
	register(&Prop{ID: "C31", Level: "exploration", Variant: "A", Scenarios: c31Scenarios,
		Run: func(c *explore.Check, thorough bool) {
			c.Rule = "reflection-enumerated fields of PubClientHelloMsg, PubServerHelloMsg, CertificateRequestMsgTLS13, PubCipherSuite(TLS13), KeyShare, PskIdentity, TicketKey, KeySharePrivateKeys, FinishedHash: zero, one-hot per field, present-but-empty per slice field, all-set, each field edited on a value that was already converted once (+ all pairs for views of <= 6 fields, for every view in thorough) through public->private->public with deep comparison (functions and key objects of other packages by pointer, nil vs empty distinguished); every corpus hello (all IDs, custom specs, + variants with an extra empty / boundary / large (5 000 - 40 000 byte) extension spliced in, + server_name replaced by IP literals, a zone id, one letter and 253 characters): Unmarshal.Marshal == input, and parse / clear Raw / marshal / parse gives equal field values. distinct = (type, pattern) / hello"
			c.Assumptions = []string{"fields without a private counterpart by design (PubClientHelloMsg.cachedPrivateHello) are listed in inpkg/roundtrip.go"}
			runAll(c, c31Scenarios(thorough), 0)
		}})
}
