package props

import (
	"crypto/rand"
	"fmt"
	"sort"
	"strings"

	tls "github.com/refraction-networking/utls"

	"verifmc/explore"
	"verifmc/peer"
	"verifmc/wire"
)

// C04 — GREASE values are well-formed, distinct where required, and fresh.

func isGrease16(v uint16) bool { return v>>8 == v&0xff && v&0x0f == 0x0a }
func isGrease32(v uint32) bool {
	for i := 0; i < 4; i++ {
		if (v>>(8*i))&0x0f != 0x0a {
			return false
		}
	}
	return true
}

func c04Boring() *explore.Scenario {
	return &explore.Scenario{
		Name: "GetBoringGREASEValue-all-seeds",
		Run: func(x *explore.X) (r explore.Result) {
			idx := x.Choose("index", tls.VerifGreaseIndexes())
			seen := map[uint16]bool{}
			for w := 0; w < 65536; w++ {
				v := tls.VerifBoringGREASE(uint16(w), idx)
				seen[v] = true
				if !isGrease16(v) {
					r.Violate("C04|boring-value", "GetBoringGREASEValue(seed word 0x%04x, index %d) = 0x%04x is not 0x?A?A", w, idx, v)
					break
				}
			}
			if len(seen) != 16 && len(r.Viol) == 0 {
				r.Violate("C04|boring-range", "index %d: %d distinct GREASE values over all seed words, want 16", idx, len(seen))
			}
			r.Count("function_evaluations", 65536)
			r.Obs = fmt.Sprintf("idx%d|distinct=%d", idx, len(seen))
			r.Nontrivial = true
			r.Class = r.Obs
			return
		},
	}
}

var bytePatterns = []byte{0x00, 0xff, 0xa5, 0x5a, 0x0a, 0xf0, 0x3c, 0x81}

// c04QUIC scripts crypto/rand.Reader (process-global: one worker).
func c04QUIC(thorough bool) *explore.Scenario {
	return &explore.Scenario{
		Name:    "quic-grease-generators",
		Workers: 1,
		Run: func(x *explore.X) (r explore.Result) {
			part := x.Choose("part", 3)
			saved := rand.Reader
			defer func() { rand.Reader = saved }()
			n, bad := 0, 0
			switch part {
			case 0: // GetGREASEVersion: every byte value at each of the 4 positions x context patterns
				vi := &tls.VersionInformation{}
				for pos := 0; pos < 4; pos++ {
					for v := 0; v < 256; v++ {
						for _, ctx := range bytePatterns {
							draw := []byte{ctx, ctx, ctx, ctx}
							draw[pos] = byte(v)
							rand.Reader = &seqReader{seq: append(draw, 0, 0, 0, 1)} // a rejected draw falls back to 1
							g := vi.GetGREASEVersion()
							n++
							if !isGrease32(g) {
								bad++
								if bad == 1 {
									r.Violate("C04|quic-version-grease", "GetGREASEVersion with entropy % x returned 0x%08x, not of the form 0x?a?a?a?a", draw, g)
								}
							}
						}
					}
				}
				// through the public encoder as well
				rand.Reader = &seqReader{seq: []byte{0x12, 0x34, 0x56, 0x78}}
				val := (&tls.VersionInformation{ChoosenVersion: tls.VERSION_1, AvailableVersions: []uint32{tls.VERSION_GREASE, tls.VERSION_1}}).Value()
				if len(val) == 12 {
					g := uint32(val[4])<<24 | uint32(val[5])<<16 | uint32(val[6])<<8 | uint32(val[7])
					if !isGrease32(g) && bad == 0 {
						r.Violate("C04|quic-version-grease", "VersionInformation.Value() carries GREASE version 0x%08x", g)
					}
				} else {
					r.Violate("C04|quic-version-len", "VersionInformation.Value() has %d bytes", len(val))
				}
			case 1: // GetGREASEID: 8-byte draws, each byte from a boundary menu
				menu := []byte{0x00, 0x3f, 0x40, 0x7f, 0x80, 0xff}
				k := len(menu)
				total := 1
				for i := 0; i < 8; i++ {
					total *= k
				}
				if !thorough {
					total /= 36 // two low positions fixed
				}
				g := tls.GREASETransportParameter{}
				for i := 0; i < total; i++ {
					draw := make([]byte, 8)
					q := i
					for j := 0; j < 8; j++ {
						draw[j] = menu[q%k]
						q /= k
					}
					rand.Reader = &seqReader{seq: append(draw, 0, 0, 0, 0, 0, 0, 0, 5)}
					id := g.GetGREASEID()
					n++
					if id < 27 || (id-27)%31 != 0 || id >= 1<<62 {
						bad++
						if bad == 1 {
							r.Violate("C04|quic-param-id", "GetGREASEID with entropy % x returned %d (not 27+31N below 2^62)", draw, id)
						}
					}
				}
			case 2: // GREASETransportParameter end to end: ID()/Value() under scripted entropy
				for v := 0; v < 256; v++ {
					rand.Reader = &seqReader{seq: []byte{byte(v), byte(v * 7), 0x11, byte(v), 0, 1, 2, 3, 0, 0, 0, 0, 0, 0, 0, 9}}
					g := &tls.GREASETransportParameter{Length: uint16(v % 17)}
					id := g.ID()
					n++
					if id < 27 || (id-27)%31 != 0 || id >= 1<<62 {
						bad++
						if bad == 1 {
							r.Violate("C04|quic-param-id", "GREASETransportParameter.ID() = %d", id)
						}
					}
					if id2 := g.ID(); id2 != id {
						r.Violate("C04|quic-param-unstable", "ID() changed between calls: %d then %d", id, id2)
					}
					if len(g.Value()) != v%17 {
						r.Violate("C04|quic-param-len", "Value() has %d bytes, want %d", len(g.Value()), v%17)
					}
					// an override that is not a GREASE id must be replaced, a valid one kept
					keep := &tls.GREASETransportParameter{IdOverride: 27 + 31*uint64(v)}
					if keep.ID() != 27+31*uint64(v) {
						r.Violate("C04|quic-param-override", "valid IdOverride not kept")
					}
				}
				// every IdOverride in [0, 4096] and around 2^k: whatever the caller asks for, the id that
				// is emitted is reserved (an override that is not 27+31N is replaced by a drawn one)
				var ovs []uint64
				for v := uint64(0); v <= 4096; v++ {
					ovs = append(ovs, v)
				}
				for k := uint(13); k < 62; k++ {
					for d := uint64(0); d < 64; d++ {
						ovs = append(ovs, 1<<k-32+d)
					}
				}
				for _, ov := range ovs {
					rand.Reader = &seqReader{seq: []byte{3, 1, 4, 1, 5, 9, 2, 6, 0, 0, 0, 0, 0, 0, 0, 9}}
					g := &tls.GREASETransportParameter{IdOverride: ov}
					id := g.ID()
					n++
					if id < 27 || (id-27)%31 != 0 || id >= 1<<62 {
						bad++
						if bad <= 2 {
							r.Violate("C04|quic-param-id|override", "GREASETransportParameter{IdOverride: %d}.ID() = %d, not 27+31N", ov, id)
						}
					}
					if want := ov >= 27 && (ov-27)%31 == 0; want && id != ov {
						r.Violate("C04|quic-param-override", "valid IdOverride %d replaced by %d", ov, id)
					}
				}
			}
			r.Count("function_evaluations", n)
			r.Obs = fmt.Sprintf("part%d|bad=%v", part, bad > 0)
			r.Nontrivial = true
			r.Class = r.Obs
			if bad > 0 {
				r.Count("bad_draws", bad)
			}
			return
		},
	}
}

// greaseOf extracts the GREASE values of one parsed hello per class.
type greaseView struct {
	suites, groups, exts, versions, shares []uint16
}

func greaseValues(h *wire.Hello) (g greaseView, err error) {
	for _, s := range h.Suites {
		if isGrease16(s) {
			g.suites = append(g.suites, s)
		}
	}
	for _, e := range h.Exts {
		if isGrease16(e.Type) {
			g.exts = append(g.exts, e.Type)
		}
		switch e.Type {
		case 10:
			if len(e.Body) >= 2 {
				for i := 2; i+1 < len(e.Body); i += 2 {
					v := uint16(e.Body[i])<<8 | uint16(e.Body[i+1])
					if isGrease16(v) {
						g.groups = append(g.groups, v)
					}
				}
			}
		case 43:
			for i := 1; i+1 < len(e.Body); i += 2 {
				v := uint16(e.Body[i])<<8 | uint16(e.Body[i+1])
				if isGrease16(v) {
					g.versions = append(g.versions, v)
				}
			}
		case 51:
			ks, perr := wire.ParseKeyShares(e.Body)
			if perr != nil {
				return g, perr
			}
			for _, k := range ks {
				if isGrease16(k.Group) {
					g.shares = append(g.shares, k.Group)
				}
			}
		}
	}
	return g, nil
}

// specGreaseCounts counts GREASE placeholders per class in a spec.
func specGreaseCounts(s *tls.ClientHelloSpec) (suites, groups, exts, versions, shares int) {
	for _, c := range s.CipherSuites {
		if isGrease16(c) {
			suites++
		}
	}
	for _, e := range s.Extensions {
		switch x := e.(type) {
		case *tls.UtlsGREASEExtension:
			exts++
		case *tls.SupportedCurvesExtension:
			for _, c := range x.Curves {
				if isGrease16(uint16(c)) {
					groups++
				}
			}
		case *tls.SupportedVersionsExtension:
			for _, v := range x.Versions {
				if isGrease16(v) {
					versions++
				}
			}
		case *tls.KeyShareExtension:
			for _, k := range x.KeyShares {
				if isGrease16(uint16(k.Group)) {
					shares++
				}
			}
		}
	}
	return
}

// c04Wire: hellos of every ID (+ randomized seeds, + fingerprinted copy) under pinned GREASE seed words.
func c04Wire() *explore.Scenario {
	ids := AllIDs()
	nIdx := tls.VerifGreaseIndexes()
	return &explore.Scenario{
		Name: "on-wire-grease",
		Run: func(x *explore.X) (r explore.Result) {
			n := ids[x.Choose("id", len(ids))]
			id := n.ID
			if isCustom(id) || isGolang(id) {
				r.Obs = "skip"
				return
			}
			if isRandomized(id) {
				id = seededRandomized(id.Client, x.Choose("seed", 6))
			}
			mode := x.Choose("mode", 3) // 0 direct, 1 fingerprinted copy, 2 spec whose GREASE key share carries 2 bytes
			// three connections with pairwise different nibbles in every seed word, then the
			// (ext1,ext2) nibble pair forced to one of the 256 combinations (incl. equal)
			pair := x.Choose("extpair", 256)
			var spec *tls.ClientHelloSpec
			if sp, err := tls.UTLSIdToSpec(id); err == nil {
				spec = &sp
			} else {
				r.Obs = "no-spec"
				return
			}
			wantS, wantG, wantE, wantV, wantK := specGreaseCounts(spec)
			if wantS+wantG+wantE+wantV+wantK == 0 {
				r.Obs = "no-grease-in-spec"
				return
			}
			if mode == 2 && (wantK == 0 || pair%16 != 0) {
				r.Obs = "mode2-not-applicable"
				return
			}
			mk := func(conn int) (*wire.Hello, greaseView, string) {
				sr := newScriptRand(fmt.Sprintf("conn%d", conn))
				sp := make([]byte, 2*nIdx)
				for i := 0; i < nIdx; i++ {
					sp[2*i] = byte((conn*5+i*3+1)%16) << 4
					sp[2*i+1] = byte(conn)
				}
				if conn == 3 {
					sp[2*2] = byte(pair>>4) << 4
					sp[2*3] = byte(pair&15) << 4
				}
				sr.Special = sp
				cfg := peer.ClientConfig("example.com")
				cfg.Rand = sr
				var stream []byte
				var pm string
				if mode == 0 {
					// connection 2 reaches the handshake through BuildHandshakeStateWithoutSession first
					var prep func(u *tls.UConn) error
					if conn == 2 {
						prep = func(u *tls.UConn) error { return u.BuildHandshakeStateWithoutSession() }
						sr.SpecialOnce = true // the re-application draws its GREASE seed from the stream
					}
					stream, _, _, pm = firstFlight(cfg, id, prep)
				} else if mode == 2 {
					stream, _, _, pm = firstFlight(cfg, tls.HelloCustom, func(u *tls.UConn) error {
						sp, err := tls.UTLSIdToSpec(id)
						if err != nil {
							return err
						}
						for _, e := range sp.Extensions {
							if ks, ok := e.(*tls.KeyShareExtension); ok {
								for i := range ks.KeyShares {
									if isGrease16(uint16(ks.KeyShares[i].Group)) {
										ks.KeyShares[i].Data = []byte{0, 0}
									}
								}
							}
						}
						return u.ApplyPreset(&sp)
					})
				} else {
					// fingerprint a capture made with other entropy, then apply
					c0 := peer.ClientConfig("example.com")
					s0, _, _, _ := firstFlight(c0, id, nil)
					m0, _, err := wire.FirstFlightHello(s0)
					if err != nil {
						return nil, greaseView{}, "no-capture"
					}
					fs, err := (&tls.Fingerprinter{AllowBluntMimicry: true}).FingerprintClientHello(recordOf(m0))
					if err != nil {
						return nil, greaseView{}, "fp-error"
					}
					stream, _, _, pm = firstFlight(cfg, tls.HelloCustom, func(u *tls.UConn) error { return u.ApplyPreset(fs) })
				}
				if pm != "" {
					return nil, greaseView{}, "panic:" + pm
				}
				msg, _, err := wire.FirstFlightHello(stream)
				if err != nil {
					return nil, greaseView{}, "no-hello"
				}
				h, err := wire.ParseClientHello(msg)
				if err != nil {
					return nil, greaseView{}, "unparsable"
				}
				g, err := greaseValues(h)
				if err != nil {
					return nil, greaseView{}, "bad-keyshare"
				}
				return h, g, ""
			}
			what := fmt.Sprintf("%s mode=%d", n.Name, mode)
			var views []greaseView
			for conn := 0; conn < 4; conn++ {
				_, g, why := mk(conn)
				if why != "" {
					r.Obs = why
					return
				}
				views = append(views, g)
				if len(g.suites) != wantS || len(g.groups) != wantG || len(g.exts) != wantE || len(g.versions) != wantV || len(g.shares) != wantK {
					r.Violate("C04|wire|count", "%s conn %d: GREASE values on the wire suites=%v groups=%v exts=%v versions=%v shares=%v, spec has %d/%d/%d/%d/%d placeholders (a placeholder was emitted as a non-GREASE value or vice versa)",
						what, conn, g.suites, g.groups, g.exts, g.versions, g.shares, wantS, wantG, wantE, wantV, wantK)
					break
				}
				if len(g.exts) == 2 && g.exts[0] == g.exts[1] {
					r.Violate("C04|wire|ext-equal", "%s conn %d (pair %02x): both GREASE extensions use 0x%04x", what, conn, pair, g.exts[0])
				}
				if len(g.shares) > 0 && len(g.groups) > 0 && g.shares[0] != g.groups[0] {
					r.Violate("C04|wire|share-group", "%s conn %d: key_share GREASE group 0x%04x != supported_groups GREASE group 0x%04x", what, conn, g.shares[0], g.groups[0])
				}
			}
			if len(r.Viol) == 0 {
				// variation across the three connections with pairwise different seed nibbles
				vary := func(class string, get func(greaseView) []uint16) {
					if len(get(views[0])) == 0 {
						return
					}
					set := map[uint16]bool{}
					for c := 0; c < 3; c++ {
						set[get(views[c])[0]] = true
					}
					if len(set) < 2 {
						r.Violate("C04|wire|no-variation|"+class, "%s: GREASE %s value identical (0x%04x) across 3 connections with different entropy", what, class, get(views[0])[0])
					}
				}
				vary("cipher", func(g greaseView) []uint16 { return g.suites })
				vary("group", func(g greaseView) []uint16 { return g.groups })
				vary("extension", func(g greaseView) []uint16 { return g.exts })
				vary("version", func(g greaseView) []uint16 { return g.versions })
				// same entropy => same values (a function of this connection's entropy only)
				_, again, why := mk(1)
				if why == "" && fmt.Sprint(again) != fmt.Sprint(views[1]) {
					r.Violate("C04|wire|not-entropy-determined", "%s: same entropy gave %v then %v", what, views[1], again)
				}
			}
			var cls []string
			for _, v := range views[:1] {
				cls = append(cls, fmt.Sprint(len(v.suites), len(v.groups), len(v.exts), len(v.versions), len(v.shares)))
			}
			sort.Strings(cls)
			r.Obs = "checked|" + strings.Join(cls, ";") + fmt.Sprintf("|viol=%d", len(r.Viol))
			r.Nontrivial = true
			r.Class = fmt.Sprintf("%s|%d|%d", n.Name, mode, pair)
			if pair == 0x33 && mode == 0 {
				r.Sample = map[string]any{"id": n.Name, "forced_ext_nibbles": "3,3", "conn3_grease_exts": fmt.Sprintf("%04x", views[3].exts), "conn0": fmt.Sprintf("%04x %04x %04x", views[0].suites, views[0].groups, views[0].versions)}
			}
			return
		},
	}
}

func c04Scenarios(thorough bool) []*explore.Scenario {
	return []*explore.Scenario{c04Boring(), c04QUIC(thorough), c04Wire(), shortReadsScenario("C04", gridClients(1, false))}
}

func init() {
	register(&Prop{ID: "C04", Level: "exploration", Variant: "A", Scenarios: c04Scenarios,
		Run: func(c *explore.Check, thorough bool) {
			c.Rule = "every client: GREASE words identical whether a deterministic Config.Rand delivers whole reads or one byte per Read; GetBoringGREASEValue on all 65536 seed words x every index; GetGREASEVersion with every byte value at each of the 4 entropy positions x 8 context patterns (crypto/rand scripted); GetGREASEID on 6^6 (6^8 thorough) boundary-byte draws; GREASETransportParameter ID/Value/override; on the wire: every ID (6 seeds for randomized kinds) x {direct, fingerprinted copy} x all 256 forced (ext1,ext2) seed nibble pairs x 4 connections with pinned GREASE seed words. non-trivial = hello carried GREASE; distinct = (id, mode, pair)"
			c.Assumptions = []string{"GREASE seed words are drawn by ApplyPreset in one Config.Rand read of 2*indexes bytes (pinned by the scripted reader); freshness is decided as dependence on that connection's entropy"}
			runAll(c, c04Scenarios(thorough), 0)
			c.Extra["function_evaluations"] = c.Total.Counters["function_evaluations"]
		}})
}
