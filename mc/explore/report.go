package explore

import (
	"crypto/sha256"
	"encoding/hex"
	"encoding/json"
	"fmt"
	"os"
	"path/filepath"
	"regexp"
	"sort"
	"strings"
	"time"
)

// Known is one entry of /verif/known_findings.json.
type Known struct {
	Property string `json:"property"`
	Status   string `json:"status"` // "known" or "fixed"
	Match    string `json:"match"`  // regexp over the violation signature (anchored)
	What     string `json:"what"`
	Commit   string `json:"commit,omitempty"`
}

// LoadKnown reads the committed known-findings file (never written at run time).
func LoadKnown(path string) ([]Known, error) {
	b, err := os.ReadFile(path)
	if err != nil {
		if os.IsNotExist(err) {
			return nil, nil
		}
		return nil, err
	}
	var f struct {
		Findings []Known `json:"findings"`
	}
	if err := json.Unmarshal(b, &f); err != nil {
		return nil, err
	}
	return f.Findings, nil
}

// Check is the per-property report builder.
type Check struct {
	Property    string
	Tier        string
	Level       string
	Seed        int64
	Rule        string
	Assumptions []string
	Extra       map[string]any
	Start       time.Time
	Total       *Stats
	Gates       []string // sanity gate failures (infrastructure errors)
	VerifDir    string
	// sharded runs: a shard process explores its part and dumps Total; the parent merges the
	// dumps (Merged = true) and then only evaluates gates and writes the evidence
	ShardI, ShardN int
	Merged         bool
}

// MergeRaw folds the totals of a shard process into c (keys are already scenario-prefixed).
func (c *Check) MergeRaw(b *Stats) {
	a := c.Total
	a.Execs += b.Execs
	a.Points += b.Points
	a.Transitions += b.Transitions
	a.States += b.States
	a.Pruned += b.Pruned
	for k, v := range b.Outcomes {
		a.Outcomes[k] += v
	}
	for k, v := range b.Classes {
		a.Classes[k] += v
	}
	for k, v := range b.Counters {
		a.Counters[k] += v
	}
	a.Violations = append(a.Violations, b.Violations...)
	a.ViolCount += b.ViolCount
	for _, s := range b.Samples {
		if len(a.Samples) < 12 {
			a.Samples = append(a.Samples, s)
		}
	}
	if !b.Exhaustive {
		a.Exhaustive = false
	}
	a.CapsHit = append(a.CapsHit, b.CapsHit...)
	if b.MaxDepth > a.MaxDepth {
		a.MaxDepth = b.MaxDepth
	}
	if b.MaxDevs > a.MaxDevs {
		a.MaxDevs = b.MaxDevs
	}
	a.NondetErrors = append(a.NondetErrors, b.NondetErrors...)
	if b.Hung {
		a.Hung = true
	}
}

type xxunused struct {
}

func NewCheck(prop, tier, level string, seed int64, verifDir string) *Check {
	return &Check{Property: prop, Tier: tier, Level: level, Seed: seed, Start: time.Now(), Total: NewStats(prop), Extra: map[string]any{}, VerifDir: verifDir}
}

// Add merges one scenario's stats.
func (c *Check) Add(st *Stats) {
	c.Total.Merge(st)
	fmt.Printf("  scenario %-28s execs=%d points=%d states=%d transitions=%d outcomes=%d nontrivial_classes=%d violations=%d exhaustive=%v maxdevs=%d %v\n",
		st.Name, st.Execs, st.Points, st.States, st.Transitions, len(st.Outcomes), len(st.Classes), st.ViolCount, st.Exhaustive, st.MaxDevs, st.CapsHit)
}

// Gate records a failed sanity gate.
func (c *Check) Gate(ok bool, f string, a ...any) {
	if !ok {
		c.Gates = append(c.Gates, fmt.Sprintf(f, a...))
	}
}

// Finish writes evidence, prints KNOWN-FINDING / VIOLATION lines and returns the exit code.
func (c *Check) Finish() int {
	known, err := LoadKnown(filepath.Join(c.VerifDir, "known_findings.json"))
	if err != nil {
		fmt.Println("INFRA: cannot read known_findings.json:", err)
		return 2
	}
	t := c.Total
	infra := append([]string{}, c.Gates...)
	infra = append(infra, t.NondetErrors...)

	type grp struct {
		f     Found
		count int
	}
	unlisted := map[string]*grp{}
	knownHit := map[string]*grp{}
	var order, korder []string
	for _, f := range t.Violations {
		if strings.HasPrefix(f.Sig, "INFRA|") {
			infra = append(infra, f.Sig+": "+firstLine(f.Msg)+" @ "+f.Desc)
			continue
		}
		matched := ""
		for _, k := range known {
			if k.Property != c.Property || k.Status != "known" {
				continue
			}
			re, err := regexp.Compile("^(?:" + k.Match + ")$")
			if err != nil {
				infra = append(infra, "bad known_findings regexp: "+k.Match)
				continue
			}
			if re.MatchString(f.Sig) {
				matched = k.What
				break
			}
		}
		if matched != "" {
			if g, ok := knownHit[matched]; ok {
				g.count++
			} else {
				knownHit[matched] = &grp{f, 1}
				korder = append(korder, matched)
			}
			continue
		}
		if g, ok := unlisted[f.Sig]; ok {
			g.count++
		} else {
			unlisted[f.Sig] = &grp{f, 1}
			order = append(order, f.Sig)
		}
	}

	for _, k := range korder {
		fmt.Printf("KNOWN-FINDING: property=%s %s (matched %d executions, e.g. %s)\n", c.Property, k, knownHit[k].count, knownHit[k].f.Sig)
	}
	var replayPaths []string
	for i, sig := range order {
		g := unlisted[sig]
		h := sha256.Sum256([]byte(sig))
		dir := filepath.Join(c.VerifDir, "replays", c.Property)
		os.MkdirAll(dir, 0o755)
		p := filepath.Join(dir, hex.EncodeToString(h[:6])+".json")
		art := map[string]any{"property": c.Property, "tier": c.Tier, "scenario": g.f.Scenario, "vector": g.f.Vector, "desc": g.f.Desc,
			"signature": g.f.Sig, "message": g.f.Msg, "notes": g.f.Notes, "observation": g.f.Obs, "executions_with_this_signature": g.count}
		b, _ := json.MarshalIndent(art, "", " ")
		os.WriteFile(p, b, 0o644)
		replayPaths = append(replayPaths, p)
		if i < 40 {
			fmt.Printf("VIOLATION property=%s replay=%s\n    sig=%s\n    %s\n    at %s\n", c.Property, p, sig, firstLine(g.f.Msg), trunc(g.f.Desc, 300))
		}
	}
	if len(order) > 40 {
		fmt.Printf("... and %d more distinct violation signatures\n", len(order)-40)
	}

	nontriv := len(t.Classes)
	cov := map[string]any{
		"evaluations":                   t.Execs,
		"distinct_nontrivial":           nontriv,
		"rule":                          c.Rule,
		"samples":                       t.Samples,
		"traces_validated_against_impl": t.Execs,
		"exhaustive":                    t.Exhaustive && len(infra) == 0,
		"choice_points":                 t.Points,
		"distinct_outcomes":             len(t.Outcomes),
		"max_depth":                     t.MaxDepth,
		"max_deviations":                t.MaxDevs,
		"caps_hit":                      t.CapsHit,
		"pruned_by_state_dedup":         t.Pruned,
		"counters":                      t.Counters,
		"known_findings_matched":        korder,
		"unlisted_violation_signatures": order,
		"infrastructure_errors":         infra,
	}
	if t.States > 0 {
		cov["states"] = t.States
		cov["transitions"] = maxI64(t.Transitions, t.Points)
	}
	for k, v := range c.Extra {
		cov[k] = v
	}
	if len(t.Samples) == 0 {
		cov["samples"] = []any{"(no sample recorded)"}
	}
	// outcome histogram (top 12)
	type kv struct {
		K string
		V int64
	}
	var hist []kv
	for k, v := range t.Outcomes {
		hist = append(hist, kv{k, v})
	}
	sort.Slice(hist, func(i, j int) bool { return hist[i].V > hist[j].V || hist[i].V == hist[j].V && hist[i].K < hist[j].K })
	if len(hist) > 12 {
		hist = hist[:12]
	}
	hm := map[string]int64{}
	for _, h := range hist {
		hm[trunc(h.K, 120)] = h.V
	}
	cov["outcome_histogram_top"] = hm

	ev := map[string]any{
		"property_id": c.Property,
		"tier":        c.Tier,
		"seed":        c.Seed,
		"level":       c.Level,
		"coverage":    cov,
		"assumptions": c.Assumptions,
		"wall_s":      time.Since(c.Start).Seconds(),
		"violations":  len(order),
	}
	b, _ := json.MarshalIndent(ev, "", " ")
	os.MkdirAll(filepath.Join(c.VerifDir, "evidence"), 0o755)
	if err := os.WriteFile(filepath.Join(c.VerifDir, "evidence", c.Property+".json"), b, 0o644); err != nil {
		fmt.Println("INFRA: cannot write evidence:", err)
		return 2
	}
	fmt.Printf("SUMMARY property=%s tier=%s execs=%d points=%d states=%d outcomes=%d nontrivial=%d known=%d unlisted=%d exhaustive=%v wall=%.1fs\n",
		c.Property, c.Tier, t.Execs, t.Points, t.States, len(t.Outcomes), nontriv, len(korder), len(order), t.Exhaustive, time.Since(c.Start).Seconds())
	if len(order) > 0 {
		return 1
	}
	if len(infra) > 0 {
		for _, e := range infra {
			fmt.Println("INFRA-ERROR:", trunc(e, 2000))
		}
		return 2
	}
	return 0
}

func firstLine(s string) string {
	if i := strings.IndexByte(s, '\n'); i >= 0 {
		return s[:i]
	}
	return s
}
func trunc(s string, n int) string {
	if len(s) > n {
		return s[:n] + "…"
	}
	return s
}
func maxI64(a, b int64) int64 {
	if a > b {
		return a
	}
	return b
}
