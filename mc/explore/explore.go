// Package explore is the stateless, deviation-bounded exhaustive explorer used by every check.
//
// A scenario is a deterministic function of the answers it receives from X.Choose. The explorer
// enumerates every answer vector allowed by the per-class deviation budgets (answer 0 is the
// default answer; any other answer is one deviation in the label's class), runs the scenario on
// each, and hands the result to the accounting. Nothing is sampled.
package explore

import (
	"fmt"
	"os"
	"runtime"
	"runtime/debug"
	"sort"
	"strings"
	"sync"
	"time"
)

// Point is one recorded choice point.
type Point struct {
	Label string `json:"label"`
	N     int    `json:"n"`
	Pick  int    `json:"pick"`
}

// X is the handle a scenario uses to ask the environment for a decision.
type X struct {
	prefix []int
	Points []Point
	// scratch for scenarios
	Notes []string
	// Transitions lets a scenario count steps (operations, scheduling decisions).
	Transitions int
	stateKeys   []stateMark
}

type stateMark struct {
	at   int // number of points made when State was called
	key  string
	cost int
}

// ErrReplayDiverged is raised (panic) when a replayed prefix does not fit the scenario.
type ErrReplayDiverged struct{ Msg string }

func (e ErrReplayDiverged) Error() string { return "replay diverged: " + e.Msg }

// Choose returns the environment's answer in [0,n) for the choice named label.
// n <= 1 does not create a choice point.
func (x *X) Choose(label string, n int) int {
	if n <= 1 {
		return 0
	}
	i := len(x.Points)
	pick := 0
	if i < len(x.prefix) {
		pick = x.prefix[i]
		if pick < 0 || pick >= n {
			panic(ErrReplayDiverged{fmt.Sprintf("point %d (%s): pick %d out of range %d", i, label, pick, n)})
		}
	}
	x.Points = append(x.Points, Point{label, n, pick})
	return pick
}

// State records a canonical state key reached after the choices made so far (used by dedup).
func (x *X) State(key string) {
	x.stateKeys = append(x.stateKeys, stateMark{len(x.Points), key, len(x.Points)})
}

// StateCost records a state key with an explicit cost (e.g. preemptions used): a state already
// reached with cost <= this one is not extended again.
func (x *X) StateCost(key string, cost int) {
	x.stateKeys = append(x.stateKeys, stateMark{len(x.Points), key, cost})
}

// Notef appends a human-readable note to the execution (appears in replay artefacts).
func (x *X) Notef(f string, a ...any) { x.Notes = append(x.Notes, fmt.Sprintf(f, a...)) }

// Vector returns the picks made so far.
func (x *X) Vector() []int {
	v := make([]int, len(x.Points))
	for i, p := range x.Points {
		v[i] = p.Pick
	}
	return v
}

// Describe renders the choice vector with labels.
func (x *X) Describe() string {
	var b strings.Builder
	for i, p := range x.Points {
		if i > 0 {
			b.WriteByte(' ')
		}
		fmt.Fprintf(&b, "%s=%d/%d", p.Label, p.Pick, p.N)
	}
	return b.String()
}

// Violation is one failed oracle on one execution.
type Violation struct {
	Sig string `json:"sig"` // specific, stable signature (matched against known_findings.json)
	Msg string `json:"msg"`
}

// Result is what a scenario reports for one execution.
type Result struct {
	Obs        string // observation class; identical runs must give identical Obs
	Nontrivial bool   // exercised the anchored mechanism
	Class      string // optional finer key for distinct_nontrivial counting (defaults to Obs)
	Viol       []Violation
	Sample     any // optional: a printable rendering for evidence samples
	Counters   map[string]int
}

func (r *Result) Violate(sig, f string, a ...any) {
	r.Viol = append(r.Viol, Violation{sig, fmt.Sprintf(f, a...)})
}
func (r *Result) Count(k string, n int) {
	if r.Counters == nil {
		r.Counters = map[string]int{}
	}
	r.Counters[k] += n
}

// Scenario is one exhaustive exploration.
type Scenario struct {
	Name string
	Run  func(x *X) Result
	// Budget maps a label class (text before the first '.' or the whole label) to the maximum
	// number of non-default answers allowed per execution in that class. Missing class or a
	// negative number = unlimited (full product). "*" sets the default for unnamed classes.
	Budget map[string]int
	// TotalBudget, if > 0, additionally bounds the total number of deviations in limited classes.
	Workers int // 0 = NumCPU
	// Dedup enables state-key pruning: a prefix whose last State key was already reached at a
	// depth (number of points) <= the current one is not extended.
	Dedup bool
	// MaxExecs caps the exploration (0 = none); hitting it makes the run non-exhaustive.
	MaxExecs int64
	// Deadline, if non-zero, stops the search (non-exhaustive, never a violation).
	Deadline time.Time
	// NoRecover lets panics crash (debugging).
	NoRecover bool
	// Watchdog, if > 0, bounds one execution: an execution that has not returned after this
	// long (orders of magnitude above its normal duration) is reported with the violation
	// signature HangSig. Its goroutine is abandoned.
	Watchdog time.Duration
	HangSig  string
	// ShardN > 0 splits the search over processes: the children of the root execution are
	// dealt round-robin to the shards (shard ShardI keeps child j iff j % ShardN == ShardI);
	// everything below a kept child stays in the same shard. The root itself is accounted by
	// shard 0 only. State-key pruning is then per shard (sound, merely less effective).
	ShardI, ShardN int
}

// Stats is the accounting of one exploration.
type Stats struct {
	Name         string
	Execs        int64
	Points       int64
	Transitions  int64
	States       int
	Outcomes     map[string]int64
	Classes      map[string]int64 // nontrivial classes
	Violations   []Found
	ViolCount    int64
	Samples      []any
	Counters     map[string]int
	Exhaustive   bool
	CapsHit      []string
	MaxDepth     int
	MaxDevs      int
	NondetErrors []string
	Pruned       int64
	Hung         bool
}

// Found is a violation with its replay vector.
type Found struct {
	Violation
	Scenario string   `json:"scenario"`
	Vector   []int    `json:"vector"`
	Desc     string   `json:"desc"`
	Notes    []string `json:"notes,omitempty"`
	Obs      string   `json:"obs"`
}

func classOf(label string) string {
	if i := strings.IndexByte(label, '.'); i >= 0 {
		return label[:i]
	}
	return label
}

func (s *Scenario) budget(class string) int {
	if s.Budget == nil {
		return -1
	}
	if b, ok := s.Budget[class]; ok {
		return b
	}
	if b, ok := s.Budget["*"]; ok {
		return b
	}
	return -1
}

// RunOnce executes the scenario on one prefix (used by replay and by the search).
const libraryPrefix = "github.com/refraction-networking/utls"

// panicOrigin returns the function that raised a recovered panic: the first frame below the
// runtime's panic machinery in a debug.Stack() taken inside the deferred recover.
func panicOrigin(stack string) string {
	lines := strings.Split(stack, "\n")
	seenPanic := false
	for i := 1; i+1 < len(lines); i += 2 {
		fn := strings.TrimSpace(lines[i])
		if j := strings.LastIndex(fn, "("); j > 0 {
			fn = fn[:j]
		}
		if strings.HasPrefix(fn, "panic") || strings.HasPrefix(fn, "runtime.") {
			if strings.HasPrefix(fn, "panic") || strings.Contains(fn, "panic") || strings.Contains(fn, "sigpanic") {
				seenPanic = true
			}
			continue
		}
		if seenPanic {
			return fn
		}
	}
	return ""
}

func shortFn(fn string) string {
	if i := strings.LastIndex(fn, "/"); i >= 0 {
		fn = fn[i+1:]
	}
	return fn
}

// panicWithStack carries a panic from the watchdog's worker goroutine to RunOnce together with the stack
// it was raised with (the classification library / harness looks at where the panic came from).
type panicWithStack struct {
	v  any
	st string
}

func panicClass(msg string) string {
	if len(msg) > 60 {
		msg = msg[:60]
	}
	out := []rune(msg)
	for i, c := range out {
		if c >= '0' && c <= '9' {
			out[i] = 'N'
		}
	}
	return string(out)
}

func (s *Scenario) RunOnce(prefix []int) (x *X, r Result) {
	x = &X{prefix: prefix}
	if !s.NoRecover {
		defer func() {
			if e := recover(); e != nil {
				if d, ok := e.(ErrReplayDiverged); ok {
					r = Result{Obs: "INFRA:" + d.Error()}
					r.Viol = append(r.Viol, Violation{"INFRA|replay-diverged", d.Error()})
					return
				}
				st := string(debug.Stack())
				if pw, ok := e.(panicWithStack); ok {
					// raised on the watchdog's worker goroutine: judge the stack it was raised with
					e, st = pw.v, pw.st
				}
				if fn := panicOrigin(st); strings.HasPrefix(fn, libraryPrefix) && !strings.Contains(fn, "/verifshim/") && !strings.Contains(fn, ".Verif") {
					// the panic was raised by the library under test, on the harness's goroutine, inside
					// a public call the scenario did not wrap: that is the library's failure, not ours
					r = Result{Obs: fmt.Sprintf("LIBRARY-PANIC:%v", e)}
					r.Viol = append(r.Viol, Violation{"PANIC|library|" + panicClass(fmt.Sprint(e)) + "|in=" + shortFn(fn), fmt.Sprintf("the library panicked in a call made by the scenario: %v\n%s", e, st)})
					return
				}
				r = Result{Obs: fmt.Sprintf("HARNESS-PANIC:%v", e)}
				r.Viol = append(r.Viol, Violation{"INFRA|harness-panic", fmt.Sprintf("%v\n%s", e, st)})
			}
		}()
	}
	if s.Watchdog > 0 {
		type res struct {
			r Result
			p any
		}
		ch := make(chan res, 1)
		go func() {
			defer func() {
				if e := recover(); e != nil {
					if _, ok := e.(ErrReplayDiverged); !ok {
						e = panicWithStack{e, string(debug.Stack())}
					}
					ch <- res{p: e}
				}
			}()
			ch <- res{r: s.Run(x)}
		}()
		select {
		case v := <-ch:
			if v.p != nil {
				panic(v.p)
			}
			r = v.r
		case <-time.After(s.Watchdog):
			// x is still owned by the abandoned goroutine: report from a copy of the picks made so far
			r = Result{Obs: "HANG"}
			r.Viol = append(r.Viol, Violation{s.HangSig, fmt.Sprintf("execution did not return within %v (normal executions take milliseconds); choices so far: %v", s.Watchdog, prefix)})
			cp := &X{prefix: prefix}
			for i, p := range prefix {
				cp.Points = append(cp.Points, Point{Label: fmt.Sprintf("p%d", i), N: p + 1, Pick: p})
			}
			return cp, r
		}
	} else {
		r = s.Run(x)
	}
	if len(x.Points) < len(prefix) {
		r.Viol = append(r.Viol, Violation{"INFRA|replay-diverged", fmt.Sprintf("prefix has %d picks, execution made only %d", len(prefix), len(x.Points))})
	}
	return
}

// Explore enumerates the whole bounded space.
func (s *Scenario) Explore() *Stats {
	st := &Stats{Name: s.Name, Outcomes: map[string]int64{}, Classes: map[string]int64{}, Counters: map[string]int{}, Exhaustive: true}
	workers := s.Workers
	if workers <= 0 {
		workers = runtime.NumCPU()
	}
	var mu sync.Mutex
	seen := map[string]int{} // state key -> min depth
	type task struct{ prefix []int }
	var queue [][]int
	queue = append(queue, nil)
	pending := 1
	cond := sync.NewCond(&mu)
	stopped := false
	var first, last []int
	var firstObs, lastObs string

	worker := func() {
		for {
			mu.Lock()
			for len(queue) == 0 && pending > 0 && !stopped {
				cond.Wait()
			}
			if stopped || pending == 0 {
				mu.Unlock()
				cond.Broadcast()
				return
			}
			// LIFO keeps memory bounded (DFS-like)
			prefix := queue[len(queue)-1]
			queue = queue[:len(queue)-1]
			if s.MaxExecs > 0 && st.Execs >= s.MaxExecs {
				if st.Exhaustive {
					st.Exhaustive = false
					st.CapsHit = append(st.CapsHit, fmt.Sprintf("max_execs=%d", s.MaxExecs))
				}
				pending--
				mu.Unlock()
				cond.Broadcast()
				continue
			}
			if !s.Deadline.IsZero() && time.Now().After(s.Deadline) {
				if st.Exhaustive {
					st.Exhaustive = false
					st.CapsHit = append(st.CapsHit, "time_budget")
				}
				pending--
				mu.Unlock()
				cond.Broadcast()
				continue
			}
			st.Execs++
			mu.Unlock()

			x, r := s.RunOnce(prefix)

			// children
			var kids [][]int
			devs := map[string]int{}
			total := 0
			for i, p := range x.Points {
				if i < len(prefix) {
					if p.Pick != 0 {
						devs[classOf(p.Label)]++
						total++
					}
					continue
				}
				c := classOf(p.Label)
				b := s.budget(c)
				if b >= 0 && devs[c] >= b {
					continue
				}
				for alt := 1; alt < p.N; alt++ {
					k := make([]int, i+1)
					for j := 0; j < i; j++ {
						k[j] = x.Points[j].Pick
					}
					k[i] = alt
					kids = append(kids, k)
				}
			}
			if total > 0 {
				_ = total
			}

			isRoot := len(prefix) == 0
			if s.ShardN > 0 && isRoot {
				kept := kids[:0]
				for j, k := range kids {
					if j%s.ShardN == s.ShardI {
						kept = append(kept, k)
					}
				}
				kids = kept
			}
			countThis := !(s.ShardN > 0 && isRoot && s.ShardI != 0)
			mu.Lock()
			if !countThis {
				st.Execs--
			}
			// dedup pruning: drop children that lie after a state mark already seen at <= depth
			if !s.Dedup {
				// states are only counted
				for _, m := range x.stateKeys {
					if _, ok := seen[m.key]; !ok {
						seen[m.key] = m.cost
					}
				}
			}
			if s.Dedup && len(x.stateKeys) > 0 {
				cut := -1
				for _, m := range x.stateKeys {
					if m.at < len(prefix) {
						continue // decided by an ancestor
					}
					if d, ok := seen[m.key]; ok && d <= m.cost {
						cut = m.at
						break
					}
					seen[m.key] = m.cost
				}
				if cut >= 0 {
					kept := kids[:0]
					for _, k := range kids {
						if len(k)-1 < cut {
							kept = append(kept, k)
						} else {
							st.Pruned++
						}
					}
					kids = kept
				}
			}
			st.Points += int64(len(x.Points))
			st.Transitions += int64(x.Transitions)
			if len(x.Points) > st.MaxDepth {
				st.MaxDepth = len(x.Points)
			}
			nd := 0
			for _, p := range x.Points {
				if p.Pick != 0 {
					nd++
				}
			}
			if nd > st.MaxDevs {
				st.MaxDevs = nd
			}
			if r.Obs == "HANG" && !stopped {
				// abandoned spinning goroutines compromise the process: end this search now
				stopped = true
				st.Exhaustive = false
				st.CapsHit = append(st.CapsHit, "stopped-after-hang")
				st.Hung = true
			}
			if countThis {
				st.Outcomes[r.Obs]++
			}
			if r.Nontrivial && countThis {
				c := r.Class
				if c == "" {
					c = r.Obs
				}
				st.Classes[c]++
			}
			for k, v := range r.Counters {
				st.Counters[k] += v
			}
			if r.Sample != nil && len(st.Samples) < 6 {
				st.Samples = append(st.Samples, r.Sample)
			}
			for _, v := range r.Viol {
				st.ViolCount++
				if len(st.Violations) < 2000 {
					st.Violations = append(st.Violations, Found{v, s.Name, x.Vector(), x.Describe(), x.Notes, r.Obs})
				}
			}
			if first == nil && len(prefix) == 0 {
				first, firstObs = x.Vector(), r.Obs
			}
			last, lastObs = x.Vector(), r.Obs
			queue = append(queue, kids...)
			pending += len(kids) - 1
			mu.Unlock()
			cond.Broadcast()
		}
	}
	if os.Getenv("EXPLORE_DEBUG") != "" {
		go func() {
			for {
				time.Sleep(3 * time.Second)
				mu.Lock()
				fmt.Printf("DEBUG %s: execs=%d queue=%d pending=%d\n", s.Name, st.Execs, len(queue), pending)
				mu.Unlock()
			}
		}()
	}
	var wg sync.WaitGroup
	for i := 0; i < workers; i++ {
		wg.Add(1)
		go func() { defer wg.Done(); worker() }()
	}
	wg.Wait()
	st.States = len(seen)

	// determinism self-check: first, last and (up to 20) violating executions re-run
	recheck := func(vec []int, obs string, times int) {
		if obs == "HANG" {
			times = 1
		}
		for i := 0; i < times; i++ {
			_, r := s.RunOnce(vec)
			if r.Obs != obs {
				st.NondetErrors = append(st.NondetErrors, fmt.Sprintf("%s: vector %v gave %q then %q", s.Name, vec, obs, r.Obs))
				return
			}
		}
	}
	if st.Hung {
		// abandoned executions are still burning CPU: no re-runs, report at once
		sort.SliceStable(st.Violations, func(i, j int) bool { return len(st.Violations[i].Vector) < len(st.Violations[j].Vector) })
		return st
	}
	if first != nil {
		recheck(first, firstObs, 1)
	}
	if last != nil {
		recheck(last, lastObs, 1)
	}
	for i, f := range st.Violations {
		if i >= 20 {
			break
		}
		recheck(f.Vector, f.Obs, 5)
	}
	sort.SliceStable(st.Violations, func(i, j int) bool { return len(st.Violations[i].Vector) < len(st.Violations[j].Vector) })
	return st
}

// Merge folds b into a (several scenarios of one property).
func (a *Stats) Merge(b *Stats) {
	a.Execs += b.Execs
	a.Points += b.Points
	a.Transitions += b.Transitions
	a.States += b.States
	a.Pruned += b.Pruned
	for k, v := range b.Outcomes {
		a.Outcomes[b.Name+":"+k] += v
	}
	for k, v := range b.Classes {
		a.Classes[b.Name+":"+k] += v
	}
	for k, v := range b.Counters {
		a.Counters[k] += v
	}
	a.Violations = append(a.Violations, b.Violations...)
	a.ViolCount += b.ViolCount
	for _, s := range b.Samples {
		if len(a.Samples) < 12 {
			a.Samples = append(a.Samples, s)
		}
	}
	if !b.Exhaustive {
		a.Exhaustive = false
	}
	for _, c := range b.CapsHit {
		a.CapsHit = append(a.CapsHit, b.Name+":"+c)
	}
	if b.MaxDepth > a.MaxDepth {
		a.MaxDepth = b.MaxDepth
	}
	if b.MaxDevs > a.MaxDevs {
		a.MaxDevs = b.MaxDevs
	}
	a.NondetErrors = append(a.NondetErrors, b.NondetErrors...)
}

// NewStats returns an empty accumulator.
func NewStats(name string) *Stats {
	return &Stats{Name: name, Outcomes: map[string]int64{}, Classes: map[string]int64{}, Counters: map[string]int{}, Exhaustive: true}
}
