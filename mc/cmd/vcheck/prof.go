package main

import (
	"os"
	"runtime/pprof"
)

func init() {
	if p := os.Getenv("VERIF_CPUPROFILE"); p != "" {
		f, err := os.Create(p)
		if err == nil {
			pprof.StartCPUProfile(f)
			stopProfile = func() { pprof.StopCPUProfile(); f.Close() }
		}
	}
}

var stopProfile = func() {}
