// vcheck is the worker binary behind /verif/bin/check.
package main

import (
	"encoding/json"
	"flag"
	"fmt"
	"os"
	"strconv"

	"verifmc/explore"
	"verifmc/props"
)

func main() {
	prop := flag.String("prop", "", "property id")
	tier := flag.String("tier", "quick", "quick|thorough")
	replay := flag.String("replay", "", "replay artefact to re-execute")
	verif := flag.String("verif", "/verif", "verif directory")
	list := flag.Bool("list", false, "list registered properties and their build variant")
	racepass := flag.Int("racepass", 0, "free-running pass: explore the property's race scenarios this many times (binary built with -race, VERIF_FREERUN=1)")
	flag.Parse()
	if *list {
		for _, id := range props.IDs() {
			fmt.Println(id, props.Get(id).Variant)
		}
		return
	}
	p := props.Get(*prop)
	if p == nil {
		fmt.Println("INFRA: unknown property", *prop)
		os.Exit(2)
	}
	var seed int64
	if s := os.Getenv("VERIF_SEED"); s != "" {
		seed, _ = strconv.ParseInt(s, 10, 64)
	}
	props.Seed = seed
	props.VerifDir = *verif
	thorough := *tier == "thorough"
	if *replay != "" {
		b, err := os.ReadFile(*replay)
		if err != nil {
			fmt.Println("INFRA:", err)
			os.Exit(2)
		}
		var art struct {
			Scenario string `json:"scenario"`
			Vector   []int  `json:"vector"`
			Tier     string `json:"tier"`
		}
		if err := json.Unmarshal(b, &art); err != nil {
			fmt.Println("INFRA:", err)
			os.Exit(2)
		}
		if p.Scenarios == nil {
			fmt.Println("INFRA: property has no replayable scenarios")
			os.Exit(2)
		}
		for _, s := range p.Scenarios(art.Tier == "thorough") {
			if s.Name == art.Scenario {
				x, r := s.RunOnce(art.Vector)
				fmt.Println("choices:", x.Describe())
				for _, n := range x.Notes {
					fmt.Println("note:", n)
				}
				fmt.Println("observation:", r.Obs)
				for _, v := range r.Viol {
					fmt.Printf("violation: %s\n  %s\n", v.Sig, v.Msg)
				}
				if len(r.Viol) > 0 {
					os.Exit(1)
				}
				return
			}
		}
		fmt.Println("INFRA: scenario not found:", art.Scenario)
		os.Exit(2)
	}
	if *racepass > 0 {
		if p.RaceScenarios == nil {
			fmt.Println("RACEPASS none")
			return
		}
		var execs int64
		for i := 0; i < *racepass; i++ {
			for _, s := range p.RaceScenarios(thorough) {
				s.Workers = 1
				s.Dedup = false
				st := s.Explore()
				execs += st.Execs
				for _, v := range st.Violations {
					if len(v.Sig) > 5 && v.Sig[:5] == "INFRA" {
						fmt.Println("RACEPASS-INFRA", v.Sig, v.Msg)
					}
				}
			}
		}
		fmt.Printf("RACEPASS executions=%d\n", execs)
		return
	}
	c := explore.NewCheck(p.ID, *tier, p.Level, seed, *verif)
	p.Run(c, thorough)
	os.Exit(c.Finish())
}
