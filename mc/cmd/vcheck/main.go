// vcheck is the worker binary behind /verif/bin/check.
package main

import (
	"encoding/json"
	"flag"
	"fmt"
	"os"
	"os/exec"
	"runtime"
	"strconv"

	"verifmc/explore"
	"verifmc/props"
)

func main() {
	prop := flag.String("prop", "", "property id")
	tier := flag.String("tier", "quick", "quick|thorough")
	replay := flag.String("replay", "", "replay artefact to re-execute")
	verif := flag.String("verif", "/verif", "verif directory")
	list := flag.Bool("list", false, "list registered properties and their build variant")
	shard := flag.String("shard", "", "i/n: explore only this shard and dump the totals to -dump")
	dump := flag.String("dump", "", "file to write shard totals to")
	racepass := flag.Int("racepass", 0, "free-running pass: explore the property's race scenarios this many times (binary built with -race, VERIF_FREERUN=1)")
	flag.Parse()
	if *list {
		for _, id := range props.IDs() {
			fmt.Println(id, props.Get(id).Variant)
		}
		return
	}
	p := props.Get(*prop)
	if p == nil {
		fmt.Println("INFRA: unknown property", *prop)
		os.Exit(2)
	}
	var seed int64
	if s := os.Getenv("VERIF_SEED"); s != "" {
		seed, _ = strconv.ParseInt(s, 10, 64)
	}
	props.Seed = seed
	props.VerifDir = *verif
	thorough := *tier == "thorough"
	if p.Init != nil {
		p.Init(*verif)
	}
	if *replay != "" {
		b, err := os.ReadFile(*replay)
		if err != nil {
			fmt.Println("INFRA:", err)
			os.Exit(2)
		}
		var art struct {
			Scenario string `json:"scenario"`
			Vector   []int  `json:"vector"`
			Tier     string `json:"tier"`
		}
		if err := json.Unmarshal(b, &art); err != nil {
			fmt.Println("INFRA:", err)
			os.Exit(2)
		}
		if p.Scenarios == nil {
			fmt.Println("INFRA: property has no replayable scenarios")
			os.Exit(2)
		}
		for _, s := range p.Scenarios(art.Tier == "thorough") {
			if s.Name == art.Scenario {
				x, r := s.RunOnce(art.Vector)
				fmt.Println("choices:", x.Describe())
				for _, n := range x.Notes {
					fmt.Println("note:", n)
				}
				fmt.Println("observation:", r.Obs)
				for _, v := range r.Viol {
					fmt.Printf("violation: %s\n  %s\n", v.Sig, v.Msg)
				}
				if len(r.Viol) > 0 {
					os.Exit(1)
				}
				return
			}
		}
		fmt.Println("INFRA: scenario not found:", art.Scenario)
		os.Exit(2)
	}
	if *racepass > 0 {
		if p.RaceScenarios == nil {
			fmt.Println("RACEPASS none")
			return
		}
		var execs int64
		for i := 0; i < *racepass; i++ {
			for _, s := range p.RaceScenarios(thorough) {
				s.Workers = 1
				s.Dedup = false
				st := s.Explore()
				execs += st.Execs
				for _, v := range st.Violations {
					if len(v.Sig) > 5 && v.Sig[:5] == "INFRA" {
						fmt.Println("RACEPASS-INFRA", v.Sig, v.Msg)
					}
				}
			}
		}
		fmt.Printf("RACEPASS executions=%d\n", execs)
		return
	}
	c := explore.NewCheck(p.ID, *tier, p.Level, seed, *verif)
	if *shard != "" {
		fmt.Sscanf(*shard, "%d/%d", &c.ShardI, &c.ShardN)
		p.Run(c, thorough)
		b, _ := json.Marshal(c.Total)
		if err := os.WriteFile(*dump, b, 0o644); err != nil {
			fmt.Println("INFRA:", err)
			os.Exit(2)
		}
		stopProfile()
		return
	}
	if p.Sharded && os.Getenv("VERIF_NOSHARD") == "" {
		n := runtime.NumCPU()
		type res struct {
			st  *explore.Stats
			err error
			out []byte
		}
		ch := make(chan res, n)
		for i := 0; i < n; i++ {
			go func(i int) {
				f := fmt.Sprintf("%s/build/shard_%s_%d.json", *verif, p.ID, i)
				cmd := exec.Command(os.Args[0], "-prop", p.ID, "-tier", *tier, "-verif", *verif, "-shard", fmt.Sprintf("%d/%d", i, n), "-dump", f)
				cmd.Env = append(os.Environ(), "GOMAXPROCS=1")
				out, err := cmd.CombinedOutput()
				if err != nil {
					ch <- res{nil, fmt.Errorf("shard %d: %v", i, err), out}
					return
				}
				b, err := os.ReadFile(f)
				if err != nil {
					ch <- res{nil, err, out}
					return
				}
				os.Remove(f)
				st := explore.NewStats("")
				if err := json.Unmarshal(b, st); err != nil {
					ch <- res{nil, err, out}
					return
				}
				ch <- res{st, nil, out}
			}(i)
		}
		for i := 0; i < n; i++ {
			r := <-ch
			if r.err != nil {
				c.Gate(false, "shard process failed: %v: %s", r.err, lastBytes(r.out, 600))
				continue
			}
			c.MergeRaw(r.st)
		}
		c.Merged = true
		fmt.Printf("  merged %d shard processes: execs=%d states=%d transitions=%d outcomes=%d\n", n, c.Total.Execs, c.Total.States, c.Total.Transitions, len(c.Total.Outcomes))
	}
	p.Run(c, thorough)
	code := c.Finish()
	stopProfile()
	os.Exit(code)
}

func lastBytes(b []byte, n int) string {
	if len(b) > n {
		b = b[len(b)-n:]
	}
	return string(b)
}
