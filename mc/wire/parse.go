// Package wire is an independent, strict TLS ClientHello parser written from the RFC grammars.
// It shares no code with utls's own codecs (only encoding/binary-style byte reads).
package wire

import (
	"errors"
	"fmt"
)

// Ext is one extension of a parsed hello.
type Ext struct {
	Type uint16
	Body []byte
	Off  int // offset of the extension header inside the handshake message
}

// Hello is a strictly parsed ClientHello handshake message.
type Hello struct {
	Msg           []byte // whole handshake message (4-byte header + body)
	LegacyVersion uint16
	Random        []byte
	SessionID     []byte
	Suites        []uint16
	Compression   []byte
	HasExts       bool
	Exts          []Ext
}

type rd struct {
	b   []byte
	off int
}

func (r *rd) left() int { return len(r.b) - r.off }
func (r *rd) u8() (uint8, error) {
	if r.left() < 1 {
		return 0, errors.New("truncated")
	}
	v := r.b[r.off]
	r.off++
	return v, nil
}
func (r *rd) u16() (uint16, error) {
	if r.left() < 2 {
		return 0, errors.New("truncated")
	}
	v := uint16(r.b[r.off])<<8 | uint16(r.b[r.off+1])
	r.off += 2
	return v, nil
}
func (r *rd) u24() (int, error) {
	if r.left() < 3 {
		return 0, errors.New("truncated")
	}
	v := int(r.b[r.off])<<16 | int(r.b[r.off+1])<<8 | int(r.b[r.off+2])
	r.off += 3
	return v, nil
}
func (r *rd) bytes(n int) ([]byte, error) {
	if n < 0 || r.left() < n {
		return nil, fmt.Errorf("truncated: want %d bytes, have %d", n, r.left())
	}
	v := r.b[r.off : r.off+n]
	r.off += n
	return v, nil
}
func (r *rd) vec8() ([]byte, error) {
	n, err := r.u8()
	if err != nil {
		return nil, err
	}
	return r.bytes(int(n))
}
func (r *rd) vec16() ([]byte, error) {
	n, err := r.u16()
	if err != nil {
		return nil, err
	}
	return r.bytes(int(n))
}

// SplitRecords parses a byte stream of TLS records; every record header must be well-formed and
// the stream must end on a record boundary.
type Record struct {
	Type    uint8
	Version uint16
	Payload []byte
}

func SplitRecords(b []byte) ([]Record, error) {
	var out []Record
	r := &rd{b: b}
	for r.left() > 0 {
		t, err := r.u8()
		if err != nil {
			return out, err
		}
		v, err := r.u16()
		if err != nil {
			return out, fmt.Errorf("record header: %v", err)
		}
		p, err := r.vec16()
		if err != nil {
			return out, fmt.Errorf("record payload: %v", err)
		}
		if len(p) > 16384+256 {
			return out, fmt.Errorf("record of %d bytes", len(p))
		}
		out = append(out, Record{t, v, p})
	}
	return out, nil
}

// HandshakeMessages reassembles the plaintext handshake messages carried by the leading
// handshake-type records (stops at the first non-handshake record).
func HandshakeMessages(recs []Record) (msgs [][]byte, rest []Record, err error) {
	var buf []byte
	i := 0
	for ; i < len(recs); i++ {
		if recs[i].Type != 22 {
			break
		}
		if len(recs[i].Payload) == 0 {
			return nil, nil, errors.New("empty handshake record")
		}
		buf = append(buf, recs[i].Payload...)
	}
	for len(buf) > 0 {
		if len(buf) < 4 {
			return msgs, recs[i:], errors.New("truncated handshake header")
		}
		n := int(buf[1])<<16 | int(buf[2])<<8 | int(buf[3])
		if len(buf) < 4+n {
			return msgs, recs[i:], fmt.Errorf("handshake message of %d bytes truncated to %d", n, len(buf)-4)
		}
		msgs = append(msgs, buf[:4+n])
		buf = buf[4+n:]
	}
	return msgs, recs[i:], nil
}

// ParseClientHello strictly parses one ClientHello handshake message (with its 4-byte header).
func ParseClientHello(msg []byte) (*Hello, error) {
	h := &Hello{Msg: msg}
	r := &rd{b: msg}
	t, err := r.u8()
	if err != nil || t != 1 {
		return nil, fmt.Errorf("not a ClientHello (type %d)", t)
	}
	n, err := r.u24()
	if err != nil {
		return nil, err
	}
	if n != r.left() {
		return nil, fmt.Errorf("handshake length %d != body %d", n, r.left())
	}
	if h.LegacyVersion, err = r.u16(); err != nil {
		return nil, err
	}
	if h.Random, err = r.bytes(32); err != nil {
		return nil, fmt.Errorf("random: %v", err)
	}
	if h.SessionID, err = r.vec8(); err != nil {
		return nil, fmt.Errorf("session id: %v", err)
	}
	if len(h.SessionID) > 32 {
		return nil, fmt.Errorf("session id of %d bytes", len(h.SessionID))
	}
	cs, err := r.vec16()
	if err != nil {
		return nil, fmt.Errorf("cipher suites: %v", err)
	}
	if len(cs) < 2 || len(cs)%2 != 0 {
		return nil, fmt.Errorf("cipher suite vector of %d bytes", len(cs))
	}
	for i := 0; i < len(cs); i += 2 {
		h.Suites = append(h.Suites, uint16(cs[i])<<8|uint16(cs[i+1]))
	}
	if h.Compression, err = r.vec8(); err != nil {
		return nil, fmt.Errorf("compression: %v", err)
	}
	if len(h.Compression) < 1 {
		return nil, errors.New("empty compression methods")
	}
	if r.left() == 0 {
		return h, nil
	}
	h.HasExts = true
	el, err := r.u16()
	if err != nil {
		return nil, fmt.Errorf("extensions length: %v", err)
	}
	if int(el) != r.left() {
		return nil, fmt.Errorf("extensions length %d != remaining %d", el, r.left())
	}
	seen := map[uint16]bool{}
	for r.left() > 0 {
		off := r.off
		et, err := r.u16()
		if err != nil {
			return nil, fmt.Errorf("extension header: %v", err)
		}
		body, err := r.vec16()
		if err != nil {
			return nil, fmt.Errorf("extension %d body: %v", et, err)
		}
		if seen[et] {
			return nil, fmt.Errorf("extension type %d (0x%04x) repeated", et, et)
		}
		seen[et] = true
		h.Exts = append(h.Exts, Ext{et, body, off})
	}
	for i, e := range h.Exts {
		if e.Type == 41 && i != len(h.Exts)-1 {
			return nil, errors.New("pre_shared_key is not the last extension")
		}
	}
	return h, nil
}

// Find returns the extension of the given type.
func (h *Hello) Find(t uint16) *Ext {
	for i := range h.Exts {
		if h.Exts[i].Type == t {
			return &h.Exts[i]
		}
	}
	return nil
}

// IsGREASE reports whether v has the 0x?A?A form.
func IsGREASE(v uint16) bool { return v&0x0f0f == 0x0a0a && v>>8 == v&0xff }

func u16list(b []byte) ([]uint16, error) {
	if len(b)%2 != 0 {
		return nil, fmt.Errorf("odd length %d", len(b))
	}
	var out []uint16
	for i := 0; i < len(b); i += 2 {
		out = append(out, uint16(b[i])<<8|uint16(b[i+1]))
	}
	return out, nil
}

// KeyShareSizes gives the client share size of the groups utls implements.
var KeyShareSizes = map[uint16]int{29: 32, 23: 65, 24: 97, 25: 133, 4588: 1216, 25497: 1216}

// KeyShare is one parsed key_share entry.
type KeyShare struct {
	Group uint16
	Data  []byte
}

func ParseKeyShares(body []byte) ([]KeyShare, error) {
	r := &rd{b: body}
	l, err := r.vec16()
	if err != nil {
		return nil, err
	}
	if r.left() != 0 {
		return nil, errors.New("trailing bytes")
	}
	r = &rd{b: l}
	var out []KeyShare
	seen := map[uint16]bool{}
	for r.left() > 0 {
		g, err := r.u16()
		if err != nil {
			return nil, err
		}
		d, err := r.vec16()
		if err != nil {
			return nil, fmt.Errorf("group %d: %v", g, err)
		}
		if len(d) == 0 {
			return nil, fmt.Errorf("group %d: empty key_exchange", g)
		}
		if seen[g] {
			return nil, fmt.Errorf("group %d repeated", g)
		}
		seen[g] = true
		if want, ok := KeyShareSizes[g]; ok && want != len(d) {
			return nil, fmt.Errorf("group %d: key_exchange of %d bytes, want %d", g, len(d), want)
		}
		out = append(out, KeyShare{g, d})
	}
	return out, nil
}

// PSK is the parsed pre_shared_key extension.
type PSK struct {
	Identities [][]byte
	Ages       []uint32
	Binders    [][]byte
	BindersLen int // length of the binders vector including its 2-byte prefix
}

func ParsePSK(body []byte) (*PSK, error) {
	r := &rd{b: body}
	ids, err := r.vec16()
	if err != nil {
		return nil, fmt.Errorf("identities: %v", err)
	}
	start := r.off
	bs, err := r.vec16()
	if err != nil {
		return nil, fmt.Errorf("binders: %v", err)
	}
	if r.left() != 0 {
		return nil, errors.New("trailing bytes")
	}
	p := &PSK{BindersLen: len(body) - start}
	ir := &rd{b: ids}
	for ir.left() > 0 {
		id, err := ir.vec16()
		if err != nil {
			return nil, fmt.Errorf("identity: %v", err)
		}
		if len(id) == 0 {
			return nil, errors.New("empty identity")
		}
		a, err := ir.bytes(4)
		if err != nil {
			return nil, fmt.Errorf("age: %v", err)
		}
		p.Identities = append(p.Identities, id)
		p.Ages = append(p.Ages, uint32(a[0])<<24|uint32(a[1])<<16|uint32(a[2])<<8|uint32(a[3]))
	}
	br := &rd{b: bs}
	for br.left() > 0 {
		b, err := br.vec8()
		if err != nil {
			return nil, fmt.Errorf("binder: %v", err)
		}
		if len(b) < 32 {
			return nil, fmt.Errorf("binder of %d bytes", len(b))
		}
		p.Binders = append(p.Binders, b)
	}
	if len(p.Identities) == 0 {
		return nil, errors.New("no identities")
	}
	if len(p.Identities) != len(p.Binders) {
		return nil, fmt.Errorf("%d identities but %d binders", len(p.Identities), len(p.Binders))
	}
	return p, nil
}

// ECHOuter is the parsed outer encrypted_client_hello extension.
type ECHOuter struct {
	KDF, AEAD uint16
	ConfigID  uint8
	Enc       []byte
	Payload   []byte
}

func ParseECH(body []byte) (outer *ECHOuter, inner bool, err error) {
	r := &rd{b: body}
	t, err := r.u8()
	if err != nil {
		return nil, false, err
	}
	if t == 1 {
		if r.left() != 0 {
			return nil, true, errors.New("inner ECH extension with a body")
		}
		return nil, true, nil
	}
	if t != 0 {
		return nil, false, fmt.Errorf("ECH type %d", t)
	}
	o := &ECHOuter{}
	if o.KDF, err = r.u16(); err != nil {
		return nil, false, err
	}
	if o.AEAD, err = r.u16(); err != nil {
		return nil, false, err
	}
	if o.ConfigID, err = r.u8(); err != nil {
		return nil, false, err
	}
	if o.Enc, err = r.vec16(); err != nil {
		return nil, false, fmt.Errorf("enc: %v", err)
	}
	if o.Payload, err = r.vec16(); err != nil {
		return nil, false, fmt.Errorf("payload: %v", err)
	}
	if len(o.Payload) == 0 {
		return nil, false, errors.New("empty payload")
	}
	if r.left() != 0 {
		return nil, false, errors.New("trailing bytes")
	}
	return o, false, nil
}

// QUICVarint decodes one RFC 9000 variable-length integer.
func QUICVarint(b []byte) (v uint64, n int, err error) {
	if len(b) == 0 {
		return 0, 0, errors.New("truncated varint")
	}
	n = 1 << (b[0] >> 6)
	if len(b) < n {
		return 0, 0, errors.New("truncated varint")
	}
	v = uint64(b[0] & 0x3f)
	for i := 1; i < n; i++ {
		v = v<<8 | uint64(b[i])
	}
	return v, n, nil
}

// TransportParam is one QUIC transport parameter.
type TransportParam struct {
	ID    uint64
	Value []byte
}

func ParseTransportParams(b []byte) ([]TransportParam, error) {
	var out []TransportParam
	for len(b) > 0 {
		id, n, err := QUICVarint(b)
		if err != nil {
			return nil, err
		}
		b = b[n:]
		l, n, err := QUICVarint(b)
		if err != nil {
			return nil, err
		}
		b = b[n:]
		if uint64(len(b)) < l {
			return nil, fmt.Errorf("parameter %d: value of %d bytes truncated to %d", id, l, len(b))
		}
		out = append(out, TransportParam{id, b[:l]})
		b = b[l:]
	}
	return out, nil
}

func protoList(b []byte) error {
	r := &rd{b: b}
	l, err := r.vec16()
	if err != nil {
		return err
	}
	if r.left() != 0 {
		return errors.New("trailing bytes")
	}
	if len(l) == 0 {
		return errors.New("empty protocol list")
	}
	r = &rd{b: l}
	for r.left() > 0 {
		p, err := r.vec8()
		if err != nil {
			return err
		}
		if len(p) == 0 {
			return errors.New("empty protocol name")
		}
	}
	return nil
}

func ocspRequest(r *rd) error {
	ids, err := r.vec16()
	if err != nil {
		return fmt.Errorf("responder ids: %v", err)
	}
	ir := &rd{b: ids}
	for ir.left() > 0 {
		id, err := ir.vec16()
		if err != nil {
			return err
		}
		if len(id) == 0 {
			return errors.New("empty responder id")
		}
	}
	if _, err := r.vec16(); err != nil {
		return fmt.Errorf("request extensions: %v", err)
	}
	return nil
}

// CheckExt validates one extension body against the grammar of its type (ClientHello context).
// Unknown types are accepted as opaque.
func CheckExt(e Ext) error {
	b := e.Body
	wrap := func(err error) error {
		if err != nil {
			return fmt.Errorf("extension %d (0x%04x): %v", e.Type, e.Type, err)
		}
		return nil
	}
	if IsGREASE(e.Type) {
		return nil
	}
	switch e.Type {
	case 0: // server_name
		r := &rd{b: b}
		l, err := r.vec16()
		if err != nil {
			return wrap(err)
		}
		if r.left() != 0 {
			return wrap(errors.New("trailing bytes"))
		}
		if len(l) == 0 {
			return wrap(errors.New("empty server name list"))
		}
		r = &rd{b: l}
		n := 0
		for r.left() > 0 {
			t, _ := r.u8()
			name, err := r.vec16()
			if err != nil {
				return wrap(err)
			}
			if t == 0 {
				n++
				if len(name) == 0 {
					return wrap(errors.New("empty host_name"))
				}
			}
		}
		if n > 1 {
			return wrap(errors.New("more than one host_name"))
		}
	case 5: // status_request
		r := &rd{b: b}
		t, err := r.u8()
		if err != nil {
			return wrap(err)
		}
		if t == 1 {
			if err := ocspRequest(r); err != nil {
				return wrap(err)
			}
		} else {
			return nil
		}
		if r.left() != 0 {
			return wrap(errors.New("trailing bytes"))
		}
	case 17: // status_request_v2
		r := &rd{b: b}
		l, err := r.vec16()
		if err != nil {
			return wrap(err)
		}
		if r.left() != 0 {
			return wrap(errors.New("trailing bytes"))
		}
		if len(l) == 0 {
			return wrap(errors.New("empty request list"))
		}
		r = &rd{b: l}
		for r.left() > 0 {
			t, _ := r.u8()
			item, err := r.vec16()
			if err != nil {
				return wrap(err)
			}
			if t == 1 || t == 2 {
				ir := &rd{b: item}
				if err := ocspRequest(ir); err != nil {
					return wrap(err)
				}
				if ir.left() != 0 {
					return wrap(errors.New("trailing bytes in request item"))
				}
			}
		}
	case 10, 13, 50, 34: // supported_groups, signature_algorithms(_cert), delegated_credentials
		r := &rd{b: b}
		l, err := r.vec16()
		if err != nil {
			return wrap(err)
		}
		if r.left() != 0 {
			return wrap(errors.New("trailing bytes"))
		}
		if len(l) == 0 {
			return wrap(errors.New("empty list"))
		}
		if _, err := u16list(l); err != nil {
			return wrap(err)
		}
	case 11, 45: // ec_point_formats, psk_key_exchange_modes
		r := &rd{b: b}
		l, err := r.vec8()
		if err != nil {
			return wrap(err)
		}
		if r.left() != 0 {
			return wrap(errors.New("trailing bytes"))
		}
		if len(l) == 0 {
			return wrap(errors.New("empty list"))
		}
	case 27, 43: // compress_certificate, supported_versions
		r := &rd{b: b}
		l, err := r.vec8()
		if err != nil {
			return wrap(err)
		}
		if r.left() != 0 {
			return wrap(errors.New("trailing bytes"))
		}
		if len(l) == 0 {
			return wrap(errors.New("empty list"))
		}
		if _, err := u16list(l); err != nil {
			return wrap(err)
		}
	case 16, 17513, 17613: // ALPN, ALPS (old/new codepoint)
		return wrap(protoList(b))
	case 18, 23, 13172, 30032, 30031: // SCT, EMS, NPN, channel id: empty in a ClientHello
		if len(b) != 0 {
			return wrap(fmt.Errorf("body of %d bytes, want empty", len(b)))
		}
	case 21: // padding
		for _, c := range b {
			if c != 0 {
				return wrap(errors.New("non-zero padding byte"))
			}
		}
	case 24: // token_binding
		r := &rd{b: b}
		if _, err := r.bytes(2); err != nil {
			return wrap(err)
		}
		if _, err := r.vec8(); err != nil {
			return wrap(err)
		}
		if r.left() != 0 {
			return wrap(errors.New("trailing bytes"))
		}
	case 28: // record_size_limit
		if len(b) != 2 {
			return wrap(fmt.Errorf("body of %d bytes, want 2", len(b)))
		}
	case 35: // session_ticket: opaque
	case 41:
		_, err := ParsePSK(b)
		return wrap(err)
	case 44: // cookie
		r := &rd{b: b}
		c, err := r.vec16()
		if err != nil {
			return wrap(err)
		}
		if len(c) == 0 {
			return wrap(errors.New("empty cookie"))
		}
		if r.left() != 0 {
			return wrap(errors.New("trailing bytes"))
		}
	case 51:
		_, err := ParseKeyShares(b)
		return wrap(err)
	case 57, 0xffa5:
		_, err := ParseTransportParams(b)
		return wrap(err)
	case 65281:
		r := &rd{b: b}
		if _, err := r.vec8(); err != nil {
			return wrap(err)
		}
		if r.left() != 0 {
			return wrap(errors.New("trailing bytes"))
		}
	case 0xfe0d:
		_, _, err := ParseECH(b)
		return wrap(err)
	}
	return nil
}

// CheckAll parses msg strictly and validates every extension; returns the first error.
func CheckAll(msg []byte) (*Hello, error) {
	h, err := ParseClientHello(msg)
	if err != nil {
		return nil, err
	}
	if len(msg) > 4+65535+100 {
		return h, fmt.Errorf("hello of %d bytes", len(msg))
	}
	for _, e := range h.Exts {
		if err := CheckExt(e); err != nil {
			return h, err
		}
	}
	return h, nil
}

// FirstFlightHello extracts and strictly checks the ClientHello carried by the first records of
// a captured client byte stream; it returns the hello message bytes and what follows.
func FirstFlightHello(stream []byte) (msg []byte, rest []Record, err error) {
	recs, err := SplitRecords(stream)
	if err != nil {
		return nil, nil, err
	}
	// only the leading handshake records up to the end of the first message
	var buf []byte
	i := 0
	for ; i < len(recs); i++ {
		if recs[i].Type != 22 {
			break
		}
		buf = append(buf, recs[i].Payload...)
		if len(buf) >= 4 {
			n := int(buf[1])<<16 | int(buf[2])<<8 | int(buf[3])
			if len(buf) >= 4+n {
				if len(buf) > 4+n {
					return buf[:4+n], recs[i+1:], errors.New("bytes after the ClientHello in the same record")
				}
				return buf, recs[i+1:], nil
			}
		}
	}
	return nil, nil, errors.New("no complete ClientHello in the first handshake records")
}
